(* proofs about Model/Overwrite.v *)
From Verif Require Import Prelude Codec CodecP Overwrite.

Lemma kind_eqb_eq a b : kind_eqb a b = true <-> a = b.
Proof. destruct a, b; simpl; split; intro H; try reflexivity; try discriminate. Qed.

Lemma kind_eqb_refl a : kind_eqb a a = true.
Proof. destruct a; reflexivity. Qed.

Section OverwriteP.
  Context {A : Type}.
  Implicit Types (old l : list (kind * A)) (m : members A).

  (* truncating first: what is read back is what was written, whatever the path held before *)
  Theorem trunc_roundtrip old m : members_valid m = true -> members_dec (write_trunc old m) = Some m.
  Proof. intro H. unfold write_trunc. apply corrfunc_members_roundtrip. exact H. Qed.

  Lemma lookup_app k l1 l2 :
    lookup_kind k (l1 ++ l2) = match lookup_kind k l1 with Some a => Some a | None => lookup_kind k l2 end.
  Proof.
    induction l1 as [|[k' a] r IH]; [reflexivity|]. cbn [app lookup_kind].
    destruct (kind_eqb k k'); [reflexivity|exact IH].
  Qed.

  Lemma lookup_none_existsb k l : lookup_kind k l = None -> existsb (fun e' => kind_eqb k (fst e')) l = false.
  Proof.
    induction l as [|[k' a] r IH]; [reflexivity|]. cbn [lookup_kind existsb fst].
    destruct (kind_eqb k k'); [discriminate|]. intro H. simpl. apply IH. exact H.
  Qed.

  Lemma lookup_filter_kept k l1 old :
    lookup_kind k l1 = None ->
    lookup_kind k (filter (fun e => negb (existsb (fun e' => kind_eqb (fst e) (fst e')) l1)) old) = lookup_kind k old.
  Proof.
    intro Hn. induction old as [|[k' a] r IH]; [reflexivity|]. cbn [filter fst lookup_kind].
    destruct (kind_eqb k k') eqn:E.
    - apply kind_eqb_eq in E. subst k'. rewrite (lookup_none_existsb k l1 Hn). cbn [negb lookup_kind].
      rewrite kind_eqb_refl. reflexivity.
    - destruct (negb (existsb (fun e' => kind_eqb k' (fst e')) l1)); [cbn [lookup_kind]; rewrite E|]; exact IH.
  Qed.

  (* opening for update: every group reads back from the object written now if it has that member, else from the older file *)
  Theorem update_lookup old m k :
    lookup_kind k (write_update old m) =
    match lookup_kind k (members_enc m) with Some a => Some a | None => lookup_kind k old end.
  Proof.
    unfold write_update. rewrite lookup_app. destruct (lookup_kind k (members_enc m)) eqn:E; [reflexivity|].
    apply lookup_filter_kept. exact E.
  Qed.

  (* so it reads back what was written exactly when the older file held no member the new object lacks *)
  Theorem update_roundtrip_if_no_stale_member old m :
    members_valid m = true ->
    (forall k, lookup_kind k (members_enc m) = None -> lookup_kind k old = None) ->
    members_dec (write_update old m) = Some m.
  Proof.
    intros Hv Hs. rewrite <- (corrfunc_members_roundtrip m Hv). unfold members_dec.
    assert (E : forall k, lookup_kind k (write_update old m) = lookup_kind k (members_enc m)).
    { intro k. rewrite update_lookup. destruct (lookup_kind k (members_enc m)) eqn:E; [reflexivity|apply Hs; exact E]. }
    rewrite !E. reflexivity.
  Qed.
End OverwriteP.

(* an older product with all four pair counts, a new one with dd and dr only: the stale rd and rr come back *)
Theorem update_stale_member_refuted :
  exists (old : list (kind * nat)) (m : members nat),
    members_valid m = true /\ members_dec (write_update old m) <> Some m /\ members_dec (write_trunc old m) = Some m.
Proof.
  exists [(DD, 1%nat); (DR, 2%nat); (RD, 3%nat); (RR, 4%nat)], {| m_dd := 10%nat; m_dr := Some 20%nat; m_rd := None; m_rr := None |}.
  vm_compute. repeat split; try discriminate; reflexivity.
Qed.
