From Verif Require Import RankWrites.
From Coq Require Import List Arith Bool.
Import ListNotations.

(* whatever rank runs which job, every job's file is written - as in the single-process run *)
Theorem unguarded_writes_all assign tasks : written unguarded assign tasks = tasks.
Proof. unfold written, unguarded. induction tasks as [|k r IH]; [reflexivity|]. simpl. rewrite IH. reflexivity. Qed.

(* with jobs on worker ranks only, a root-only writer writes none of them *)
Theorem root_only_writes_nothing_on_workers assign tasks :
  (forall k, In k tasks -> assign k <> 0) -> written root_only assign tasks = [].
Proof.
  intro H. unfold written. induction tasks as [|k r IH]; [reflexivity|]. simpl.
  assert (E : root_only (assign k) = false).
  { unfold root_only. apply Nat.eqb_neq. apply H. left. reflexivity. }
  rewrite E. apply IH. intros j Hj. apply H. right. exact Hj.
Qed.

Theorem root_only_refuted : exists assign tasks, written root_only assign tasks <> written unguarded assign tasks.
Proof. exists (fun k => S (k mod 2)), [0; 1; 2]. vm_compute. discriminate. Qed.
