(* Proofs about the configuration model (C15).  Everything is over Q; the cosmology enters only
   through the Section Context oracles Dc, Dci, Lg, Ex of Model/Config.v and every property
   of them that a theorem uses is an explicit premise of that theorem. *)
From Verif Require Import Prelude Config.
From Coq Require Import Lqa.
Open Scope Q_scope.

(* ------------------------------------------------------------------ small facts *)
Lemma qn_S i : qn (S i) == qn i + 1.
Proof. unfold qn. rewrite Nat2Z.inj_succ, <- Z.add_1_r, inject_Z_plus. reflexivity. Qed.

Lemma qn_pos n : (1 <= n)%nat -> 0 < qn n.
Proof. intros H. unfold qn. change 0 with (inject_Z 0). rewrite <- Zlt_Qlt. lia. Qed.

Lemma Qeqb_refl x : Qeqb x x = true.
Proof. unfold Qeqb. apply Qeq_bool_iff. reflexivity. Qed.
Lemma qlist_eqb_refl l : qlist_eqb l l = true.
Proof. apply list_eqb_refl, Qeqb_refl. Qed.
Lemma method_eqb_refl m : method_eqb m m = true. Proof. destruct m; reflexivity. Qed.
Lemma closed_eqb_refl m : closed_eqb m m = true. Proof. destruct m; reflexivity. Qed.
Lemma unit_eqb_refl m : unit_eqb m m = true. Proof. destruct m; reflexivity. Qed.
Lemma opt_eqb_refl {A} (e : A -> A -> bool) o : (forall x, e x x = true) -> opt_eqb e o o = true.
Proof. intros H; destruct o; simpl; auto. Qed.

(* ------------------------------------------------------------------ the linear grid *)
Lemma lin_point_eq a b n i :
  (1 <= n)%nat -> (i <= n)%nat -> lin_point a b n i == a + qn i * lin_step a b n.
Proof.
  intros Hn Hi. unfold lin_point.
  destruct (Nat.eqb_spec i 0) as [->|H0].
  - unfold qn; simpl. ring.
  - destruct (Nat.eqb_spec i n) as [->|Hne]; [|reflexivity].
    unfold lin_step. field. intro E. pose proof (qn_pos n Hn) as P. rewrite E in P.
    exact (Qlt_irrefl 0 P).
Qed.

Lemma lin_step_pos a b n : a < b -> (1 <= n)%nat -> 0 < lin_step a b n.
Proof.
  intros Hab Hn. unfold lin_step. apply Qlt_shift_div_l; [apply qn_pos; exact Hn|]. lra.
Qed.

Lemma lin_point_lt a b n i : a < b -> (S i <= n)%nat -> lin_point a b n i < lin_point a b n (S i).
Proof.
  intros Hab Hi. rewrite !lin_point_eq by lia. rewrite qn_S.
  pose proof (lin_step_pos a b n Hab ltac:(lia)) as P.
  setoid_replace ((qn i + 1) * lin_step a b n) with (qn i * lin_step a b n + lin_step a b n) by ring.
  lra.
Qed.

Lemma strict_incb_map_seq (g : nat -> Q) s len :
  (forall i, (s <= i)%nat -> (S i < s + len)%nat -> g i < g (S i)) ->
  strict_incb (map g (seq s len)) = true.
Proof.
  revert s. induction len as [|len IH]; intros s H; [reflexivity|].
  destruct len as [|len]; [reflexivity|].
  change (map g (seq s (S (S len)))) with (g s :: map g (seq (S s) (S len))).
  change (map g (seq (S s) (S len))) with (g (S s) :: map g (seq (S (S s)) len)).
  cbn [strict_incb]. apply andb_true_intro; split.
  - apply Qltb_lt. apply H; lia.
  - change (g (S s) :: map g (seq (S (S s)) len)) with (map g (seq (S s) (S len))).
    apply IH. intros i H1 H2. apply H; lia.
Qed.

Lemma last_map_seq {A} (g : nat -> A) s len d : last (map g (seq s (S len))) d = g (s + len)%nat.
Proof. rewrite seq_S, map_app. simpl. apply last_last. Qed.

Lemma strict_incb_hd_last x l : strict_incb (x :: l) = true -> l <> [] -> x < last (x :: l) 0.
Proof.
  revert x. induction l as [|y l IH]; intros x H Hne; [congruence|].
  cbn [strict_incb] in H. apply andb_true_iff in H. destruct H as [H1 H2].
  apply Qltb_lt in H1. destruct l as [|z l].
  - simpl. exact H1.
  - change (last (x :: y :: z :: l) 0) with (last (y :: z :: l) 0).
    apply Qlt_trans with y; [exact H1|]. apply IH; [exact H2|discriminate].
Qed.

Lemma valid_edges_hd_lt_last l : valid_edges l = true -> hd 0 l < last l 0.
Proof.
  unfold valid_edges. intros H. apply andb_true_iff in H. destruct H as [H1 H2].
  destruct l as [|x [|y l]]; simpl in H1; try discriminate.
  apply strict_incb_hd_last; [exact H2|discriminate].
Qed.

(* ---- edges_len, edges_strict, edges_span for the linear factory: exact in Q ---- *)
Theorem linear_edges_len a b n : length (linear_edges a b n) = S n.
Proof. unfold linear_edges. rewrite map_length, seq_length. reflexivity. Qed.

Theorem linear_edges_strict a b n :
  a < b -> (1 <= n)%nat -> strict_incb (linear_edges a b n) = true.
Proof.
  intros Hab Hn. unfold linear_edges. apply strict_incb_map_seq.
  intros i _ Hi. apply lin_point_lt; [exact Hab|lia].
Qed.

Theorem linear_edges_first a b n : hd 0 (linear_edges a b n) = a.
Proof. reflexivity. Qed.

Theorem linear_edges_last a b n : (1 <= n)%nat -> last (linear_edges a b n) 0 = b.
Proof.
  intros Hn. unfold linear_edges. rewrite last_map_seq. unfold lin_point. simpl (0 + n)%nat.
  destruct (Nat.eqb_spec n 0) as [E|_]; [lia|]. rewrite Nat.eqb_refl. reflexivity.
Qed.

(* every edge is the point of the arithmetic progression *)
Theorem linear_edges_nth a b n i :
  (1 <= n)%nat -> (i <= n)%nat -> nth i (linear_edges a b n) 0 == a + qn i * ((b - a) / qn n).
Proof.
  intros Hn Hi. unfold linear_edges.
  rewrite (nth_indep _ 0 (lin_point a b n 0)) by (rewrite map_length, seq_length; lia).
  rewrite map_nth, seq_nth by lia. simpl (0 + i)%nat. apply lin_point_eq; assumption.
Qed.

Theorem linear_edges_valid a b n : a < b -> (1 <= n)%nat -> valid_edges (linear_edges a b n) = true.
Proof.
  intros Hab Hn. unfold valid_edges. rewrite linear_edges_len, linear_edges_strict by assumption.
  destruct n; [lia|reflexivity].
Qed.

(* ---- grids that are linear in D(z) and mapped back: comoving, logspace ---- *)
Definition strictly_increasing (f : Q -> Q) : Prop := forall x y, x < y -> f x < f y.
Definition monotone (f : Q -> Q) : Prop := forall x y, x <= y -> f x <= f y.
(* the inverse maps the two end points back exactly.  astropy's z_at_value (a bounded scalar
   minimiser) and exp(log(1+z))-1 in floating point do NOT satisfy this: finding F19. *)
Definition edges_span_endpoint_hypothesis (D Dinv : Q -> Q) (a b : Q) : Prop :=
  Dinv (D a) == a /\ Dinv (D b) == b.

Theorem mapped_edges_len D Dinv a b n : length (mapped_edges D Dinv a b n) = S n.
Proof. unfold mapped_edges. rewrite map_length. apply linear_edges_len. Qed.

Theorem mapped_edges_strict D Dinv a b n :
  strictly_increasing D -> strictly_increasing Dinv -> a < b -> (1 <= n)%nat ->
  strict_incb (mapped_edges D Dinv a b n) = true.
Proof.
  intros HD HI Hab Hn. unfold mapped_edges, linear_edges. rewrite map_map.
  apply strict_incb_map_seq. intros i _ Hi. apply HI. apply lin_point_lt; [apply HD; exact Hab|lia].
Qed.

Theorem mapped_edges_first D Dinv a b n : hd 0 (mapped_edges D Dinv a b n) = Dinv (D a).
Proof. reflexivity. Qed.

Theorem mapped_edges_last D Dinv a b n :
  (1 <= n)%nat -> last (mapped_edges D Dinv a b n) 0 = Dinv (D b).
Proof.
  intros Hn. unfold mapped_edges, linear_edges. rewrite map_map, last_map_seq.
  unfold lin_point. simpl (0 + n)%nat.
  destruct (Nat.eqb_spec n 0) as [E|_]; [lia|]. rewrite Nat.eqb_refl. reflexivity.
Qed.

Theorem mapped_edges_span D Dinv a b n :
  edges_span_endpoint_hypothesis D Dinv a b -> (1 <= n)%nat ->
  hd 0 (mapped_edges D Dinv a b n) == a /\ last (mapped_edges D Dinv a b n) 0 == b.
Proof.
  intros [Ha Hb] Hn. rewrite mapped_edges_first, mapped_edges_last by exact Hn. split; assumption.
Qed.

Theorem mapped_edges_valid D Dinv a b n :
  strictly_increasing D -> strictly_increasing Dinv -> a < b -> (1 <= n)%nat ->
  valid_edges (mapped_edges D Dinv a b n) = true.
Proof.
  intros HD HI Hab Hn. unfold valid_edges.
  rewrite mapped_edges_len, mapped_edges_strict by assumption. destruct n; [lia|reflexivity].
Qed.

(* without the end point hypothesis the span statement is false although both oracles are
   strictly increasing (the situation of the real code, F19) *)
Theorem edges_span_without_endpoint_hypothesis_refuted :
  exists D Dinv a b n,
    strictly_increasing D /\ strictly_increasing Dinv /\ a < b /\ (1 <= n)%nat /\
    ~ hd 0 (mapped_edges D Dinv a b n) == a.
Proof.
  exists (fun z => z), (fun d => d + (1 # 1000)), 0, 1, 1%nat.
  repeat split; try (intros x y H; lra); try lra; try lia.
  vm_compute. discriminate.
Qed.

(* ---- the repaired factory: both end points are set to zmin and zmax after the mapping ---- *)
Theorem snapped_edges_len D Dinv a b n : length (snapped_edges D Dinv a b n) = S n.
Proof. unfold snapped_edges. rewrite map_length, seq_length. reflexivity. Qed.

Theorem snapped_edges_first D Dinv a b n : (1 <= n)%nat -> hd 0 (snapped_edges D Dinv a b n) = a.
Proof.
  intros Hn. unfold snapped_edges. cbn [seq map hd]. unfold snapped_point.
  destruct (Nat.eqb_spec 0 n) as [E|_]; [lia|]. reflexivity.
Qed.

Theorem snapped_edges_last D Dinv a b n : last (snapped_edges D Dinv a b n) 0 = b.
Proof.
  unfold snapped_edges. rewrite last_map_seq. unfold snapped_point. simpl (0 + n)%nat.
  rewrite Nat.eqb_refl. reflexivity.
Qed.

(* span: exact and unconditional *)
Theorem snapped_edges_span D Dinv a b n :
  (1 <= n)%nat -> hd 0 (snapped_edges D Dinv a b n) = a /\ last (snapped_edges D Dinv a b n) 0 = b.
Proof. intros Hn. split; [apply snapped_edges_first; exact Hn | apply snapped_edges_last]. Qed.

(* the mapped interior points lie strictly between the end points *)
Definition interior_inside (D Dinv : Q -> Q) (a b : Q) (n : nat) : Prop :=
  forall i, (0 < i < n)%nat ->
    a < Dinv (lin_point (D a) (D b) n i) /\ Dinv (lin_point (D a) (D b) n i) < b.

Theorem snapped_edges_strict D Dinv a b n :
  strictly_increasing D -> strictly_increasing Dinv -> a < b -> (1 <= n)%nat ->
  interior_inside D Dinv a b n -> strict_incb (snapped_edges D Dinv a b n) = true.
Proof.
  intros HD HI Hab Hn Hin. unfold snapped_edges. apply strict_incb_map_seq.
  intros i _ Hi. unfold snapped_point.
  destruct (Nat.eqb_spec i n) as [E|_]; [lia|].
  destruct (Nat.eqb_spec (S i) n) as [E|NE].
  - destruct (Nat.eqb_spec i 0) as [->|N0]; [exact Hab|]. apply Hin. lia.
  - destruct (Nat.eqb_spec (S i) 0) as [E0|_]; [lia|].
    destruct (Nat.eqb_spec i 0) as [->|N0].
    + apply Hin. lia.
    + apply HI. apply lin_point_lt; [apply HD; exact Hab|lia].
Qed.

Lemma lin_point_mono a b n i j : a < b -> (i < j)%nat -> (j <= n)%nat -> lin_point a b n i < lin_point a b n j.
Proof.
  intros Hab Hij Hj. induction j as [|j IH]; [lia|].
  destruct (Nat.eq_dec i j) as [->|Hne].
  - apply lin_point_lt; [exact Hab|lia].
  - apply Qlt_trans with (lin_point a b n j); [apply IH; lia|apply lin_point_lt; [exact Hab|lia]].
Qed.

(* the end point hypothesis (F19) is one way to have the interior inside *)
Lemma endpoint_hypothesis_interior D Dinv a b n :
  strictly_increasing D -> strictly_increasing Dinv -> a < b ->
  edges_span_endpoint_hypothesis D Dinv a b -> interior_inside D Dinv a b n.
Proof.
  intros HD HI Hab [Ha Hb] i Hi.
  assert (H0 : lin_point (D a) (D b) n 0 = D a) by reflexivity.
  assert (Hn : lin_point (D a) (D b) n n = D b).
  { unfold lin_point. destruct (Nat.eqb_spec n 0) as [E|_]; [lia|]. rewrite Nat.eqb_refl. reflexivity. }
  split.
  - apply Qle_lt_trans with (Dinv (D a)); [rewrite Ha; apply Qle_refl|].
    rewrite <- H0. apply HI. apply lin_point_mono; [apply HD; exact Hab|lia|lia].
  - apply Qlt_le_trans with (Dinv (D b)); [|rewrite Hb; apply Qle_refl].
    rewrite <- Hn at 2. apply HI. apply lin_point_mono; [apply HD; exact Hab|lia|lia].
Qed.

Theorem snapped_edges_valid D Dinv a b n :
  strictly_increasing D -> strictly_increasing Dinv -> a < b -> (1 <= n)%nat ->
  interior_inside D Dinv a b n -> valid_edges (snapped_edges D Dinv a b n) = true.
Proof.
  intros HD HI Hab Hn Hin. unfold valid_edges.
  rewrite snapped_edges_len, snapped_edges_strict by assumption. destruct n; [lia|reflexivity].
Qed.

(* zmin >= zmax can never give valid edges *)
Lemma linear_edges_invalid a b n : b <= a -> valid_edges (linear_edges a b n) = false.
Proof.
  intros Hba. destruct (valid_edges (linear_edges a b n)) eqn:E; [|reflexivity]. exfalso.
  pose proof (valid_edges_hd_lt_last _ E) as H.
  destruct n as [|n]; [vm_compute in E; discriminate|].
  rewrite linear_edges_first, linear_edges_last in H by lia. lra.
Qed.

Lemma snapped_edges_invalid D Dinv a b n : b <= a -> valid_edges (snapped_edges D Dinv a b n) = false.
Proof.
  intros Hba. destruct (valid_edges (snapped_edges D Dinv a b n)) eqn:E; [|reflexivity]. exfalso.
  pose proof (valid_edges_hd_lt_last _ E) as H.
  destruct n as [|n].
  - unfold valid_edges in E. rewrite snapped_edges_len in E. simpl in E. discriminate.
  - rewrite snapped_edges_first, snapped_edges_last in H by lia. lra.
Qed.

Lemma mapped_edges_invalid D Dinv a b n :
  monotone D -> monotone Dinv -> b <= a -> valid_edges (mapped_edges D Dinv a b n) = false.
Proof.
  intros HD HI Hba. destruct (valid_edges (mapped_edges D Dinv a b n)) eqn:E; [|reflexivity]. exfalso.
  pose proof (valid_edges_hd_lt_last _ E) as H.
  destruct n as [|n].
  - unfold valid_edges in E. rewrite mapped_edges_len in E. simpl in E. discriminate.
  - rewrite mapped_edges_first, mapped_edges_last in H by lia.
    pose proof (HI _ _ (HD _ _ Hba)) as H2. lra.
Qed.

Lemma edges_invalid_n0 l : length l = 1%nat -> valid_edges l = false.
Proof. intros H. unfold valid_edges. rewrite H. reflexivity. Qed.

Lemma mapped_len fx D Dinv a b n : length (mapped fx D Dinv a b n) = S n.
Proof. destruct fx; [apply snapped_edges_len|apply mapped_edges_len]. Qed.

(* ------------------------------------------------------------------ angles *)
Theorem angle_def u pi180 DA DC r :
  ~ DA == 0 -> ~ DC == 0 -> angle u pi180 DA DC r == angle_spec u pi180 DA DC r.
Proof.
  intros HA HC. destruct u; unfold angle, angle_spec, unit_factor, unit_dist; try (field; assumption); field.
Qed.

(* the conversion factors written out *)
Corollary angle_units pi180 DA DC r :
  ~ DA == 0 -> ~ DC == 0 ->
  angle Urad pi180 DA DC r == r /\
  angle Udeg pi180 DA DC r == r * pi180 /\
  angle Uarcmin pi180 DA DC r * 60 == r * pi180 /\
  angle Uarcsec pi180 DA DC r * 3600 == r * pi180 /\
  angle UMpc pi180 DA DC r * DA == r /\
  angle Ukpc pi180 DA DC r * DA * 1000 == r /\
  angle UMpc_h pi180 DA DC r * DC == r /\
  angle Ukpc_h pi180 DA DC r * DC * 1000 == r.
Proof. intros HA HC. unfold angle. repeat split; field; assumption. Qed.

(* ================================================================== *)
Section OraclesP.
Context (Dc Dci : nat -> Q -> Q) (Lg Ex : Q -> Q).
Notation create := (create Dc Dci Lg Ex).
Notation create_binning := (create_binning Dc Dci Lg Ex).
Notation modify := (modify Dc Dci Lg Ex).
Notation modify_binning := (modify_binning Dc Dci Lg Ex).
Notation modify_spec := (modify_spec Dc Dci Lg Ex).
Notation gen_edges := (gen_edges Dc Dci Lg Ex).
Notation roundtrip := (roundtrip Dc Dci Lg Ex).
Notation from_dict := (from_dict Dc Dci Lg Ex).

(* all three grids have num_bins + 1 edges *)
Theorem gen_edges_len fx cos m a b n e : gen_edges fx cos m a b n = Some e -> length e = S n.
Proof.
  destruct m; simpl; intros H; inversion H; subst;
    [apply linear_edges_len | apply mapped_len | apply mapped_len].
Qed.

(* ---- no stage of the repaired model crashes ---- *)
Definition safe {A} (x : outcome A) : Prop := forall k, x <> Crashed k.
Lemma parse_safe a : safe (parse_cosmology true a).
Proof. intros k; destruct a; simpl; discriminate. Qed.
Lemma scales_safe rmin rmax u rw res : safe (create_scales rmin rmax u rw res).
Proof. intros k. unfold create_scales. destruct (default Ukpc u); try discriminate; destruct (scales_valid rmin rmax); discriminate. Qed.
Lemma mk_binning_safe e m cl : safe (mk_binning e m cl).
Proof. intros k. unfold mk_binning. destruct (valid_edges e); discriminate. Qed.
Lemma create_binning_safe fx cos zmin zmax nb m e cl : safe (create_binning fx cos zmin zmax nb m e cl).
Proof.
  intros k. unfold Config.create_binning.
  destruct zmin, zmax, e, (default ClRight cl); try discriminate;
    try apply mk_binning_safe;
    destruct (gen_edges _ _ _ _ _ _); try discriminate; apply mk_binning_safe.
Qed.

(* ---- what create returns ---- *)
Lemma mk_binning_ok e m cl b : mk_binning e m cl = Ok b -> b = mkBinning e m cl /\ valid_edges e = true.
Proof. unfold mk_binning. destruct (valid_edges e); intros H; inversion H; auto. Qed.

Lemma create_binning_gen fx cos a b nb m e cl bn :
  create_binning fx cos (Some a) (Some b) nb m e cl = Ok bn ->
  exists ed, gen_edges fx cos (default MLinear m) a b (default 30%nat nb) = Some ed /\
             bn = mkBinning ed (default MLinear m) (default ClRight cl) /\ valid_edges ed = true /\
             default ClRight cl <> ClUnknown.
Proof.
  unfold Config.create_binning. intros H.
  destruct (default ClRight cl) eqn:Ecl; try discriminate;
    destruct (gen_edges fx cos (default MLinear m) a b (default 30%nat nb)) as [ed|] eqn:Eg; try discriminate;
    apply mk_binning_ok in H; destruct H as [-> Hv]; exists ed; repeat split; auto; discriminate.
Qed.

Lemma create_inv fx p c :
  create fx p = Ok c ->
  exists cos s b,
    parse_cosmology fx (p_cosmo p) = Ok cos /\
    create_scales (p_rmin p) (p_rmax p) (p_unit p) (p_rweight p) (p_resolution p) = Ok s /\
    create_binning fx cos (p_zmin p) (p_zmax p) (p_num_bins p) (p_method p) (p_edges p) (p_closed p) = Ok b /\
    c = mkConfig s b cos (norm_workers (p_workers p)).
Proof.
  unfold Config.create, bind. intros H.
  destruct (parse_cosmology fx (p_cosmo p)) as [cos| |]; try discriminate.
  destruct (create_scales _ _ _ _ _) as [s| |]; try discriminate.
  destruct (create_binning _ _ _ _ _ _ _ _) as [b| |] eqn:Eb; try discriminate.
  inversion H. exists cos, s, b. auto.
Qed.

(* edges_strict, for every configuration create returns (any method, custom edges included):
   at least two edges, strictly increasing *)
Theorem created_edges_strict fx p c :
  create fx p = Ok c -> valid_edges (b_edges (c_binning c)) = true.
Proof.
  intros H. apply create_inv in H. destruct H as (cos & s & b & _ & _ & Hb & ->). simpl.
  unfold Config.create_binning in Hb.
  destruct (p_zmin p), (p_zmax p), (p_edges p), (default ClRight (p_closed p)); try discriminate;
    try (apply mk_binning_ok in Hb; destruct Hb as [-> Hv]; exact Hv);
    destruct (gen_edges _ _ _ _ _ _); try discriminate;
    apply mk_binning_ok in Hb; destruct Hb as [-> Hv]; exact Hv.
Qed.

(* edges_len: generated edges are num_bins + 1 *)
Theorem edges_len fx p c a b :
  create fx p = Ok c -> p_zmin p = Some a -> p_zmax p = Some b ->
  length (b_edges (c_binning c)) = S (default 30%nat (p_num_bins p)).
Proof.
  intros H Ha Hb. apply create_inv in H. destruct H as (cos & s & bn & _ & _ & H & ->). simpl.
  rewrite Ha, Hb in H. apply create_binning_gen in H. destruct H as (ed & Hg & -> & _ & _). simpl.
  eapply gen_edges_len; exact Hg.
Qed.

Lemma valid_len_n ed n : valid_edges ed = true -> length ed = S n -> (1 <= n)%nat.
Proof. unfold valid_edges. intros H L. rewrite L in H. destruct n; [discriminate|lia]. Qed.

(* edges_span for the repaired model: exactly [zmin, zmax], every method, no premise on the oracles *)
Theorem edges_span p c a b :
  create true p = Ok c -> p_zmin p = Some a -> p_zmax p = Some b ->
  hd 0 (b_edges (c_binning c)) = a /\ last (b_edges (c_binning c)) 0 = b.
Proof.
  intros H Ha Hb. apply create_inv in H. destruct H as (cos & s & bn & _ & _ & H & ->). simpl.
  rewrite Ha, Hb in H. apply create_binning_gen in H. destruct H as (ed & Hg & -> & Hv & _). simpl.
  pose proof (valid_len_n _ _ Hv (gen_edges_len _ _ _ _ _ _ _ Hg)) as Hn.
  destruct (default MLinear (p_method p)); simpl in Hg; inversion Hg; subst ed.
  - split; [reflexivity|apply linear_edges_last; exact Hn].
  - apply snapped_edges_span; exact Hn.
  - apply snapped_edges_span; exact Hn.
Qed.

(* edges_span, linear, also for the code as it is *)
Theorem edges_span_linear fx p c a b :
  create fx p = Ok c -> p_zmin p = Some a -> p_zmax p = Some b -> default MLinear (p_method p) = MLinear ->
  hd 0 (b_edges (c_binning c)) = a /\ last (b_edges (c_binning c)) 0 = b.
Proof.
  intros H Ha Hb Hm. apply create_inv in H. destruct H as (cos & s & bn & _ & _ & H & ->). simpl.
  rewrite Ha, Hb in H. apply create_binning_gen in H. destruct H as (ed & Hg & -> & Hv & _). simpl.
  pose proof (valid_len_n _ _ Hv (gen_edges_len _ _ _ _ _ _ _ Hg)) as Hn.
  rewrite Hm in Hg. simpl in Hg. inversion Hg; subst ed. split; [reflexivity|].
  apply linear_edges_last. exact Hn.
Qed.

(* edges_span, comoving and logspace, for the code of the pinned commit (no end point
   assignment): only under the end point hypothesis on the oracle *)
Theorem edges_span_current_comoving p c a b :
  create false p = Ok c -> p_zmin p = Some a -> p_zmax p = Some b -> p_method p = Some MComoving ->
  edges_span_endpoint_hypothesis (Dc (c_cosmo c)) (Dci (c_cosmo c)) a b ->
  hd 0 (b_edges (c_binning c)) == a /\ last (b_edges (c_binning c)) 0 == b.
Proof.
  intros H Ha Hb Hm Hyp. apply create_inv in H. destruct H as (cos & s & bn & _ & _ & H & ->).
  simpl in *. rewrite Ha, Hb, Hm in H. apply create_binning_gen in H.
  destruct H as (ed & Hg & -> & Hv & _).
  pose proof (valid_len_n _ _ Hv (gen_edges_len _ _ _ _ _ _ _ Hg)) as Hn.
  simpl in *. inversion Hg; subst ed. apply mapped_edges_span; assumption.
Qed.

Theorem edges_span_current_logspace p c a b :
  create false p = Ok c -> p_zmin p = Some a -> p_zmax p = Some b -> p_method p = Some MLogspace ->
  edges_span_endpoint_hypothesis Lg Ex a b ->
  hd 0 (b_edges (c_binning c)) == a /\ last (b_edges (c_binning c)) 0 == b.
Proof.
  intros H Ha Hb Hm Hyp. apply create_inv in H. destruct H as (cos & s & bn & _ & _ & H & ->).
  simpl in *. rewrite Ha, Hb, Hm in H. apply create_binning_gen in H.
  destruct H as (ed & Hg & -> & Hv & _).
  pose proof (valid_len_n _ _ Hv (gen_edges_len _ _ _ _ _ _ _ Hg)) as Hn.
  simpl in *. inversion Hg; subst ed. apply mapped_edges_span; assumption.
Qed.

(* the factories do not refuse what they should accept: zmin < zmax, num_bins >= 1 *)
Theorem create_binning_accepts cos a b n m cl :
  a < b -> (1 <= n)%nat -> cl <> ClUnknown ->
  match m with
  | MLinear => True
  | MComoving => strictly_increasing (Dc cos) /\ strictly_increasing (Dci cos) /\ interior_inside (Dc cos) (Dci cos) a b n
  | MLogspace => strictly_increasing Lg /\ strictly_increasing Ex /\ interior_inside Lg Ex a b n
  | _ => False
  end ->
  exists ed, gen_edges true cos m a b n = Some ed /\
             create_binning true cos (Some a) (Some b) (Some n) (Some m) None (Some cl) = Ok (mkBinning ed m cl).
Proof.
  intros Hab Hn Hcl Hm. unfold Config.create_binning, mk_binning. simpl default.
  destruct m; try contradiction; simpl Config.gen_edges.
  - exists (linear_edges a b n). rewrite linear_edges_valid by assumption. destruct cl; try congruence; auto.
  - destruct Hm as (H1 & H2 & H3). exists (comoving_edges Dc Dci true cos a b n). unfold comoving_edges, mapped.
    rewrite snapped_edges_valid by assumption. destruct cl; try congruence; auto.
  - destruct Hm as (H1 & H2 & H3). exists (logspace_edges Lg Ex true a b n). unfold logspace_edges, mapped.
    rewrite snapped_edges_valid by assumption. destruct cl; try congruence; auto.
Qed.

(* ------------------------------------------------------------------ invalid_rejected *)
Lemma mk_binning_invalid e m cl : valid_edges e = false -> mk_binning e m cl = Rejected.
Proof. unfold mk_binning. intros ->. reflexivity. Qed.

(* no premise on the oracles: with the end points assigned, zmin >= zmax is seen on the edges *)
Theorem invalid_rejected p : params_invalid p = true -> create true p = Rejected.
Proof.
  intros H. unfold Config.create.
  destruct (parse_cosmology true (p_cosmo p)) as [cos| |k] eqn:EP;
    [|reflexivity|exfalso; exact (parse_safe _ k EP)].
  cbn [bind].
  destruct (create_scales (p_rmin p) (p_rmax p) (p_unit p) (p_rweight p) (p_resolution p)) as [s| |k] eqn:ES;
    [|reflexivity|exfalso; exact (scales_safe _ _ _ _ _ k ES)].
  cbn [bind].
  assert (HB : create_binning true cos (p_zmin p) (p_zmax p) (p_num_bins p) (p_method p) (p_edges p) (p_closed p) = Rejected);
    [|rewrite HB; reflexivity].
  unfold params_invalid in H. repeat rewrite orb_true_iff in H.
  destruct H as [[[[H|H]|H]|H]|H].
  - destruct (p_cosmo p); simpl in *; discriminate.
  - unfold create_scales in ES. destruct (default Ukpc (p_unit p)); simpl in H; discriminate.
  - unfold create_scales in ES. rewrite negb_true_iff in H. rewrite H in ES.
    destruct (default Ukpc (p_unit p)); discriminate.
  - unfold Config.create_binning. destruct (default ClRight (p_closed p)); simpl in H; try discriminate.
    destruct (p_zmin p), (p_zmax p), (p_edges p); reflexivity.
  - unfold Config.create_binning.
    destruct (p_zmin p) as [a|], (p_zmax p) as [b|].
    + repeat rewrite orb_true_iff in H.
      assert (HG : match gen_edges true cos (default MLinear (p_method p)) a b (default 30%nat (p_num_bins p)) with
                   | None => True | Some e => valid_edges e = false end).
      { destruct H as [[H|H]|H].
        - apply Qleb_le in H.
          destruct (default MLinear (p_method p)); simpl; auto.
          + apply linear_edges_invalid; exact H.
          + apply snapped_edges_invalid; exact H.
          + apply snapped_edges_invalid; exact H.
        - apply Nat.eqb_eq in H. rewrite H.
          destruct (default MLinear (p_method p)); simpl; auto; try apply edges_invalid_n0;
            first [apply linear_edges_len | apply snapped_edges_len].
        - destruct (default MLinear (p_method p)); simpl; auto; discriminate. }
      destruct (gen_edges true cos (default MLinear (p_method p)) a b (default 30%nat (p_num_bins p))) as [e|];
        [rewrite (mk_binning_invalid _ _ _ HG)|]; destruct (default ClRight (p_closed p)); reflexivity.
    + destruct (p_edges p) as [e|]; [|reflexivity]. rewrite negb_true_iff in H.
      rewrite (mk_binning_invalid _ _ _ H). destruct (default ClRight (p_closed p)); reflexivity.
    + destruct (p_edges p) as [e|]; [|reflexivity]. rewrite negb_true_iff in H.
      rewrite (mk_binning_invalid _ _ _ H). destruct (default ClRight (p_closed p)); reflexivity.
    + destruct (p_edges p) as [e|]; [|reflexivity]. rewrite negb_true_iff in H.
      rewrite (mk_binning_invalid _ _ _ H). destruct (default ClRight (p_closed p)); reflexivity.
Qed.

(* the same for the code of the pinned commit needs monotone oracles (zmin >= zmax is only seen
   through the mapped end points) *)
Theorem invalid_rejected_current p :
  (forall cos, monotone (Dc cos)) -> (forall cos, monotone (Dci cos)) -> monotone Lg -> monotone Ex ->
  (forall id, p_cosmo p <> CosCustom id) ->
  params_invalid p = true -> create false p = Rejected.
Proof.
  intros HDc HDci HLg HEx Hnc H. unfold Config.create.
  destruct (parse_cosmology false (p_cosmo p)) as [cos| |k] eqn:EP;
    [|reflexivity|destruct (p_cosmo p); simpl in EP; try discriminate; exfalso; eapply Hnc; reflexivity].
  cbn [bind].
  destruct (create_scales (p_rmin p) (p_rmax p) (p_unit p) (p_rweight p) (p_resolution p)) as [s| |k] eqn:ES;
    [|reflexivity|exfalso; exact (scales_safe _ _ _ _ _ k ES)].
  cbn [bind].
  assert (HB : create_binning false cos (p_zmin p) (p_zmax p) (p_num_bins p) (p_method p) (p_edges p) (p_closed p) = Rejected);
    [|rewrite HB; reflexivity].
  unfold params_invalid in H. repeat rewrite orb_true_iff in H.
  destruct H as [[[[H|H]|H]|H]|H].
  - destruct (p_cosmo p); simpl in *; discriminate.
  - unfold create_scales in ES. destruct (default Ukpc (p_unit p)); simpl in H; discriminate.
  - unfold create_scales in ES. rewrite negb_true_iff in H. rewrite H in ES.
    destruct (default Ukpc (p_unit p)); discriminate.
  - unfold Config.create_binning. destruct (default ClRight (p_closed p)); simpl in H; try discriminate.
    destruct (p_zmin p), (p_zmax p), (p_edges p); reflexivity.
  - unfold Config.create_binning.
    destruct (p_zmin p) as [a|], (p_zmax p) as [b|].
    + repeat rewrite orb_true_iff in H.
      assert (HG : match gen_edges false cos (default MLinear (p_method p)) a b (default 30%nat (p_num_bins p)) with
                   | None => True | Some e => valid_edges e = false end).
      { destruct H as [[H|H]|H].
        - apply Qleb_le in H.
          destruct (default MLinear (p_method p)); simpl; auto.
          + apply linear_edges_invalid; exact H.
          + apply mapped_edges_invalid; auto.
          + apply mapped_edges_invalid; auto.
        - apply Nat.eqb_eq in H. rewrite H.
          destruct (default MLinear (p_method p)); simpl; auto; try apply edges_invalid_n0;
            first [apply linear_edges_len | apply mapped_edges_len].
        - destruct (default MLinear (p_method p)); simpl; auto; discriminate. }
      destruct (gen_edges false cos (default MLinear (p_method p)) a b (default 30%nat (p_num_bins p))) as [e|];
        [rewrite (mk_binning_invalid _ _ _ HG)|]; destruct (default ClRight (p_closed p)); reflexivity.
    + destruct (p_edges p) as [e|]; [|reflexivity]. rewrite negb_true_iff in H.
      rewrite (mk_binning_invalid _ _ _ H). destruct (default ClRight (p_closed p)); reflexivity.
    + destruct (p_edges p) as [e|]; [|reflexivity]. rewrite negb_true_iff in H.
      rewrite (mk_binning_invalid _ _ _ H). destruct (default ClRight (p_closed p)); reflexivity.
    + destruct (p_edges p) as [e|]; [|reflexivity]. rewrite negb_true_iff in H.
      rewrite (mk_binning_invalid _ _ _ H). destruct (default ClRight (p_closed p)); reflexivity.
Qed.

(* ------------------------------------------------------------------ modify = create o merge *)
Lemma parse_default own mc :
  parse_cosmology true (default (CosObj own) mc)
  = match mc with None => Ok own | Some a => parse_cosmology true a end.
Proof. destruct mc; reflexivity. Qed.

Lemma create_binning_custom cos nb m e cl :
  create_binning true cos None None nb m (Some e) (Some cl)
  = match cl with ClUnknown => Rejected | _ => mk_binning e MCustom cl end.
Proof. destruct cl; reflexivity. Qed.

Lemma create_binning_cl_unknown cos a b nb m e :
  create_binning true cos (Some a) (Some b) nb m e (Some ClUnknown) = Rejected.
Proof. reflexivity. Qed.

Lemma create_binning_m_unknown cos a b nb e cl :
  create_binning true cos (Some a) (Some b) nb (Some MUnknown) e cl = Rejected.
Proof. destruct cl as [[]|]; reflexivity. Qed.

Ltac crush_outcomes :=
  repeat match goal with
  | H : Crashed ?k = _ |- _ => symmetry in H
  | H : ?x = Crashed ?k |- _ =>
      first [ exfalso; exact (parse_safe _ _ H) | exfalso; exact (scales_safe _ _ _ _ _ _ H)
            | exfalso; exact (mk_binning_safe _ _ _ _ H)
            | exfalso; exact (create_binning_safe _ _ _ _ _ _ _ _ _ H) ]
  end.

Ltac split_binning :=
  try (match goal with |- context [Config.create_binning ?d1 ?d2 ?d3 ?d4 ?a1 ?a2 ?a3 ?a4 ?a5 ?a6 ?a7] =>
         destruct (Config.create_binning d1 d2 d3 d4 a1 a2 a3 a4 a5 a6 a7) eqn:EB end;
       cbn [bind]; try reflexivity; crush_outcomes);
  try (match goal with |- context [mk_binning ?a1 ?a2 ?a3] =>
         destruct (mk_binning a1 a2 a3) eqn:EB2 end;
       cbn [bind]; try reflexivity; crush_outcomes).

Ltac proj_params :=
  cbn [default bind p_cosmo p_rmin p_rmax p_unit p_rweight p_resolution p_zmin p_zmax p_num_bins p_method
       p_edges p_closed p_workers].

(* the two code paths of the repaired modify (dictionary merge for the scales, explicit
   re-dispatch for the binning, cosmology threaded through) give exactly the configuration
   that create builds from the merged parameters - for every configuration and every
   combination of modifications *)
Theorem modify_is_create_merge c m : modify true c m = modify_spec c m.
Proof.
  destruct c as [s b own w]. unfold Config.modify, Config.modify_spec, Config.overlay, Config.modify_binning,
    Config.create, modify_scales, factory_cosmo.
  cbn [c_scales c_binning c_cosmo c_workers].
  remember (default (b_closed b) (m_closed m)) as cl eqn:Ecl0.
  assert (FIN : forall (B : outcome binning) (B' : nat -> outcome binning),
    (forall cos, safe (B' cos)) ->
    (forall cos, parse_cosmology true (default (CosObj own) (m_cosmo m)) = Ok cos -> B = B' cos) ->
    (parse_cosmology true (default (CosObj own) (m_cosmo m)) = Rejected -> safe B) ->
    (s0 <- create_scales (default (s_rmin s) (m_rmin m)) (default (s_rmax s) (m_rmax m))
                         (Some (default (s_unit s) (m_unit m))) (default (s_rweight s) (m_rweight m))
                         (default (s_resolution s) (m_resolution m)) ;;
     b0 <- B ;;
     cos <- match m_cosmo m with None => Ok own | Some a => parse_cosmology true a end ;;
     Ok (mkConfig s0 b0 cos (norm_workers (default w (m_workers m)))))
    = (cos <- parse_cosmology true (default (CosObj own) (m_cosmo m)) ;;
       s0 <- create_scales (default (s_rmin s) (m_rmin m)) (default (s_rmax s) (m_rmax m))
                         (Some (default (s_unit s) (m_unit m))) (default (s_rweight s) (m_rweight m))
                         (default (s_resolution s) (m_resolution m)) ;;
       b0 <- B' cos ;;
       Ok (mkConfig s0 b0 cos (norm_workers (default w (m_workers m)))))).
  { intros B B' HS HB HR.
    rewrite <- parse_default.
    destruct (parse_cosmology true (default (CosObj own) (m_cosmo m))) as [cos| |k] eqn:EP.
    - rewrite (HB cos eq_refl). cbn [bind].
      destruct (create_scales _ _ _ _ _) eqn:ES; cbn [bind]; reflexivity.
    - specialize (HR eq_refl). cbn [bind].
      destruct (create_scales _ _ _ _ _) eqn:ES; cbn [bind]; try reflexivity; crush_outcomes.
      destruct B eqn:EB; cbn [bind]; try reflexivity. exfalso; exact (HR _ eq_refl).
    - exfalso; exact (parse_safe _ _ EP). }
  destruct (m_edges m) as [e|].
  - (* new edges *)
    proj_params.
    apply (FIN _ (fun cos => create_binning true cos None None None (Some MCustom) (Some e) (Some cl))).
    + intros; apply create_binning_safe.
    + intros. rewrite create_binning_custom. reflexivity.
    + intros _ k. destruct cl; try discriminate; apply mk_binning_safe.
  - assert (GEN : forall meth,
        (s0 <- create_scales (default (s_rmin s) (m_rmin m)) (default (s_rmax s) (m_rmax m))
                             (Some (default (s_unit s) (m_unit m))) (default (s_rweight s) (m_rweight m))
                             (default (s_resolution s) (m_resolution m)) ;;
         b0 <- match cl with
               | ClUnknown => Rejected
               | _ => cos <- match m_cosmo m with None => Ok own | Some a => parse_cosmology true a end ;;
                      create_binning true cos (Some (default (zmin_of b) (m_zmin m))) (Some (default (zmax_of b) (m_zmax m)))
                                     (Some (default (nbins_of b) (m_num_bins m))) (Some meth) None (Some cl)
               end ;;
         cos <- match m_cosmo m with None => Ok own | Some a => parse_cosmology true a end ;;
         Ok (mkConfig s0 b0 cos (norm_workers (default w (m_workers m)))))
        = (cos <- parse_cosmology true (default (CosObj own) (m_cosmo m)) ;;
           s0 <- create_scales (default (s_rmin s) (m_rmin m)) (default (s_rmax s) (m_rmax m))
                             (Some (default (s_unit s) (m_unit m))) (default (s_rweight s) (m_rweight m))
                             (default (s_resolution s) (m_resolution m)) ;;
           b0 <- create_binning true cos (Some (default (zmin_of b) (m_zmin m))) (Some (default (zmax_of b) (m_zmax m)))
                                     (Some (default (nbins_of b) (m_num_bins m))) (Some meth) None (Some cl) ;;
           Ok (mkConfig s0 b0 cos (norm_workers (default w (m_workers m)))))).
    { intros meth.
      apply (FIN _ (fun cos => create_binning true cos (Some (default (zmin_of b) (m_zmin m)))
                                     (Some (default (zmax_of b) (m_zmax m)))
                                     (Some (default (nbins_of b) (m_num_bins m))) (Some meth) None (Some cl))).
      - intros; apply create_binning_safe.
      - intros cos EP. rewrite parse_default in EP. rewrite EP. cbn [bind].
        destruct cl; reflexivity.
      - intros EP k. rewrite parse_default in EP. rewrite EP. destruct cl; discriminate. }
    destruct (m_method m) as [mm|] eqn:Emm.
    + destruct mm; proj_params.
      * apply GEN.
      * apply GEN.
      * apply GEN.
      * (* method = custom without edges *)
        clear FIN GEN. destruct (create_scales _ _ _ _ _) eqn:ES; try reflexivity; crush_outcomes.
      * (* unknown method *)
        apply (FIN Rejected (fun cos => create_binning true cos (Some (default (zmin_of b) (m_zmin m)))
                                     (Some (default (zmax_of b) (m_zmax m)))
                                     (Some (default (nbins_of b) (m_num_bins m))) (Some MUnknown) None (Some cl))).
        -- intros; apply create_binning_safe.
        -- intros. rewrite create_binning_m_unknown. reflexivity.
        -- intros _ k; discriminate.
    + (* the method stays *)
      cbn [default].
      destruct (b_method b) eqn:Ebm; proj_params.
      * apply GEN.
      * apply GEN.
      * apply GEN.
      * (* custom edges are carried over *)
        apply (FIN _ (fun cos => create_binning true cos None None None (Some MCustom) (Some (b_edges b)) (Some cl))).
        -- intros; apply create_binning_safe.
        -- intros. rewrite create_binning_custom. reflexivity.
        -- intros _ k. destruct cl; try discriminate; apply mk_binning_safe.
      * (* a configuration whose method is not a BinMethod cannot exist; the model is total *)
        apply GEN.
Qed.

(* consequently a modified configuration has all the properties of a created one *)
Corollary modified_edges_strict c m c' :
  modify true c m = Ok c' -> valid_edges (b_edges (c_binning c')) = true.
Proof.
  rewrite modify_is_create_merge. unfold Config.modify_spec, bind.
  destruct (overlay c m); try discriminate. apply created_edges_strict.
Qed.

End OraclesP.

(* ------------------------------------------------------------------ modify_pure *)
(* In a functional model "modify does not mutate the original" is true by construction: modify
   is a function of c and returns a new value.  The statement with content is about a store of
   objects: modify_st only ever appends, so every address that was allocated before - the
   original configuration among them - holds the same object afterwards.  That the real objects
   behave like this store (Immutable.__setattr__, no in-place numpy operation on shared arrays)
   is what the harness observes (flag 2 of c15_modify_case). *)
Theorem modify_pure Dc Dci Lg Ex fx st r m i :
  (i < length st)%nat ->
  nth_error (fst (modify_st Dc Dci Lg Ex fx st r m)) i = nth_error st i.
Proof.
  intros Hi. unfold modify_st. destruct (nth_error st r) as [c|]; [|reflexivity].
  destruct (modify Dc Dci Lg Ex fx c m); simpl; try reflexivity.
  apply nth_error_app1. exact Hi.
Qed.

Corollary modify_pure_original Dc Dci Lg Ex fx st r m c :
  nth_error st r = Some c -> nth_error (fst (modify_st Dc Dci Lg Ex fx st r m)) r = Some c.
Proof.
  intros H. rewrite modify_pure; [exact H|]. apply nth_error_Some. congruence.
Qed.

(* ------------------------------------------------------------------ equality *)
Lemma binning_eqb_refl b : binning_eqb b b = true.
Proof. unfold binning_eqb. rewrite method_eqb_refl, qlist_eqb_refl, closed_eqb_refl. reflexivity. Qed.

Theorem config_eq_refl c : config_eq true c c = Ok true.
Proof.
  unfold config_eq. rewrite binning_eqb_refl, !qlist_eqb_refl, unit_eqb_refl.
  rewrite (opt_eqb_refl Qeqb) by apply Qeqb_refl. rewrite (opt_eqb_refl Z.eqb) by apply Z.eqb_refl.
  simpl. rewrite Nat.eqb_refl. reflexivity.
Qed.

(* configurations built from equal parameters compare equal *)
Theorem eq_refl_params Dc Dci Lg Ex p c1 c2 :
  create Dc Dci Lg Ex true p = Ok c1 -> create Dc Dci Lg Ex true p = Ok c2 -> config_eq true c1 c2 = Ok true.
Proof. intros H1 H2. rewrite H1 in H2. inversion H2; subst. apply config_eq_refl. Qed.

(* == is never an error in the repaired model and decides config_eqb *)
Theorem config_eq_decides a b : config_eq true a b = Ok (config_eqb a b).
Proof.
  unfold config_eq, config_eqb, scales_eqb.
  destruct (binning_eqb (c_binning a) (c_binning b)); [|reflexivity].
  destruct (qlist_eqb (s_rmin (c_scales a)) (s_rmin (c_scales b))); [|reflexivity].
  destruct (qlist_eqb (s_rmax (c_scales a)) (s_rmax (c_scales b))); [|reflexivity].
  destruct (unit_eqb (s_unit (c_scales a)) (s_unit (c_scales b))); [|reflexivity].
  destruct (opt_eqb Qeqb (s_rweight (c_scales a)) (s_rweight (c_scales b))); [|reflexivity].
  destruct (opt_eqb Z.eqb (s_resolution (c_scales a)) (s_resolution (c_scales b))); reflexivity.
Qed.

(* ================================================================== the current code: refuted *)
(* concrete oracles for the witnesses: two cosmologies as tables.  Cosmology 0 (the default):
   D(1) = 10, D(3) = 30 and distances 10, 20, 30 are at z = 1, 2, 3.  Cosmology 1: D(1) = 10,
   D(3) = 50 and distances 10, 30, 50 are at z = 1, 5/2, 3. *)
Definition wit_tables : tables :=
  mkTables [(0%nat, [(1, 10); (3, 30)]); (1%nat, [(1, 10); (3, 50)])]
           [(0%nat, [(10, 1); (20, 2); (30, 3)]); (1%nat, [(10, 1); (30, 5 # 2); (50, 3)])]
           [] [].
Definition no_mods : mods := mkMods None None None None None None None None None None None None None.
Definition wit_params (m : method) (cos : cosmo_arg) (edges : option (list Q)) : params :=
  mkParams [1] [2] None None None
           (match edges with None => Some 1 | _ => None end) (match edges with None => Some 3 | _ => None end)
           (Some 2%nat) (Some m) edges None cos None.

Definition get {A} (d : A) (o : outcome A) : A := match o with Ok a => a | _ => d end.
Definition dummy_config : config := mkConfig (mkScales [] [] Ukpc None None) (mkBinning [] MLinear ClRight) 0 None.

Definition w15_p := wit_params MComoving (CosName 1) None.
Definition w15_m := mkMods (Some [1 # 2]) None None None None None None None None None None None None.
Definition w15_c := Eval vm_compute in get dummy_config (create_t wit_tables false w15_p).
Definition w15_c1 := Eval vm_compute in get dummy_config (modify_t wit_tables false w15_c w15_m).
Definition w15_c2 := Eval vm_compute in get dummy_config (modify_spec_t wit_tables w15_c w15_m).

Definition w15b_p := wit_params MComoving (CosName 0) None.
Definition w15b_m := mkMods None None None None None None None None None None None (Some (CosName 1)) None.
Definition w15b_c := Eval vm_compute in get dummy_config (create_t wit_tables false w15b_p).
Definition w15b_c2 := Eval vm_compute in get dummy_config (modify_spec_t wit_tables w15b_c w15b_m).

Definition w20_p := wit_params MLinear (CosName 0) (Some [1; 2; 4]).
Definition w20_m := mkMods None None None None None None None None None None (Some ClLeft) None None.
Definition w20_c := Eval vm_compute in get dummy_config (create_t wit_tables false w20_p).
Definition w20_c2 := Eval vm_compute in get dummy_config (modify_spec_t wit_tables w20_c w20_m).

Definition w14_p := wit_params MLinear (CosName 0) None.
Definition w14_c := Eval vm_compute in get dummy_config (create_t wit_tables false w14_p).

Definition wcc_p := wit_params MLinear (CosCustom 100) None.
Definition wcc_c := Eval vm_compute in get dummy_config (create_t wit_tables true wcc_p).

(* F15: modify with an unrelated change regenerates comoving edges with the default cosmology *)
Theorem modify_current_drops_cosmology_refuted :
  exists t p m c c1 c2,
    create_t t false p = Ok c /\ modify_t t false c m = Ok c1 /\ modify_spec_t t c m = Ok c2 /\
    m_cosmo m = None /\ m_zmin m = None /\ m_zmax m = None /\ m_num_bins m = None /\
    m_method m = None /\ m_edges m = None /\
    c_cosmo c1 = c_cosmo c /\
    b_edges (c_binning c) = [1; 5 # 2; 3] /\
    b_edges (c_binning c2) = [1; 5 # 2; 3] /\
    b_edges (c_binning c1) = [1; 2; 3].
Proof.
  exists wit_tables, w15_p, w15_m, w15_c, w15_c1, w15_c2. vm_compute. repeat split.
Qed.

(* F15, second form: a cosmology given by name reaches the comoving factory as a string *)
Theorem modify_current_cosmology_name_refuted :
  exists t p m c c2,
    create_t t false p = Ok c /\ modify_t t false c m = Crashed AttrErr /\ modify_spec_t t c m = Ok c2 /\
    c_cosmo c2 = 1%nat /\ b_edges (c_binning c2) = [1; 5 # 2; 3].
Proof.
  exists wit_tables, w15b_p, w15b_m, w15b_c, w15b_c2. vm_compute. repeat split.
Qed.

(* F20: any modify of a custom-edges configuration that passes no new edges: KeyError *)
Theorem modify_current_closed_custom_edges_refuted :
  exists t p m c c2,
    create_t t false p = Ok c /\ modify_t t false c m = Crashed KeyErr /\ modify_spec_t t c m = Ok c2 /\
    b_edges (c_binning c2) = b_edges (c_binning c) /\ b_closed (c_binning c2) = ClLeft.
Proof.
  exists wit_tables, w20_p, w20_m, w20_c, w20_c2. vm_compute. repeat split.
Qed.

(* F14: == of a configuration with itself raises *)
Theorem eq_current_refuted :
  exists t p c, create_t t false p = Ok c /\ config_eq false c c = Crashed AttrErr.
Proof.
  exists wit_tables, w14_p, w14_c. vm_compute. repeat split.
Qed.

(* ... exactly when nothing before the missing attribute differs *)
Theorem eq_current_raises_iff a b :
  config_eq false a b = Crashed AttrErr <->
  (binning_eqb (c_binning a) (c_binning b)
   && qlist_eqb (s_rmin (c_scales a)) (s_rmin (c_scales b))
   && qlist_eqb (s_rmax (c_scales a)) (s_rmax (c_scales b))
   && unit_eqb (s_unit (c_scales a)) (s_unit (c_scales b))
   && opt_eqb Qeqb (s_rweight (c_scales a)) (s_rweight (c_scales b)) = true).
Proof.
  unfold config_eq.
  destruct (binning_eqb _ _), (qlist_eqb (s_rmin _) _), (qlist_eqb (s_rmax _) _), (unit_eqb _ _),
    (opt_eqb Qeqb _ _); simpl; split; intros H; try discriminate; reflexivity.
Qed.

(* new: a configuration with custom edges cannot be restored from its own dictionary *)
Theorem roundtrip_current_custom_edges_refuted :
  exists t p c, create_t t false p = Ok c /\ roundtrip_t t false c = Rejected /\ roundtrip_t t true c = Ok c.
Proof.
  exists wit_tables, w20_p, w20_c. vm_compute. repeat split.
Qed.

(* new: a CustomCosmology instance is refused by parse_cosmology *)
Theorem create_current_custom_cosmology_refuted :
  exists t p c, params_invalid p = false /\ create_t t false p = Crashed TypeErr /\ create_t t true p = Ok c.
Proof.
  exists wit_tables, wcc_p, wcc_c. vm_compute. repeat split.
Qed.

(* ------------------------------------------------------------------ to_dict / from_dict *)
Lemma norm_workers_idem w : norm_workers (norm_workers w) = norm_workers w.
Proof. destruct w as [[|n]|]; reflexivity. Qed.

Lemma create_binning_inv Dc Dci Lg Ex fx cos zmin zmax nb m e cl b :
  create_binning Dc Dci Lg Ex fx cos zmin zmax nb m e cl = Ok b ->
  valid_edges (b_edges b) = true /\ b_closed b <> ClUnknown /\
  ((exists a bb, gen_edges Dc Dci Lg Ex fx cos (b_method b) a bb (default 30%nat nb) = Some (b_edges b))
   \/ b_method b = MCustom).
Proof.
  intros H. destruct zmin as [a|], zmax as [bb|].
  - apply create_binning_gen in H. destruct H as (ed & Hg & -> & Hv & Hcl). simpl.
    repeat split; auto. left. exists a, bb. exact Hg.
  - unfold create_binning in H. destruct e; [|discriminate].
    destruct (default ClRight cl) eqn:E; try discriminate;
      apply mk_binning_ok in H; destruct H as [-> Hv]; simpl; repeat split; auto; discriminate.
  - unfold create_binning in H. destruct e; [|discriminate].
    destruct (default ClRight cl) eqn:E; try discriminate;
      apply mk_binning_ok in H; destruct H as [-> Hv]; simpl; repeat split; auto; discriminate.
  - unfold create_binning in H. destruct e; [|discriminate].
    destruct (default ClRight cl) eqn:E; try discriminate;
      apply mk_binning_ok in H; destruct H as [-> Hv]; simpl; repeat split; auto; discriminate.
Qed.

(* restoring a configuration from its own dictionary gives the configuration back - for custom
   edges and for all three generating methods (the end point assignment makes the regenerated
   comoving / logspace edges the same rationals) *)
Theorem roundtrip_id Dc Dci Lg Ex p c :
  create Dc Dci Lg Ex true p = Ok c -> cosmo_named (c_cosmo c) = true ->
  roundtrip Dc Dci Lg Ex true c = Ok c.
Proof.
  intros H Hn.
  apply create_inv in H. destruct H as (cos & s & b & HP & HS & HB & ->).
  apply create_binning_inv in HB. destruct HB as (Hv & Hcl & Hg).
  unfold roundtrip, to_dict. cbn [c_cosmo c_scales c_binning c_workers] in *. rewrite Hn. cbn [bind].
  unfold from_dict.
  cbn [d_cosmo d_rmin d_rmax d_unit d_rweight d_resolution d_method d_zmin d_zmax d_num_bins d_edges d_closed d_workers].
  cbn [parse_cosmology bind].
  assert (ES : create_scales (s_rmin s) (s_rmax s) (Some (s_unit s)) (s_rweight s) (s_resolution s) = Ok s).
  { unfold create_scales in HS |- *.
    destruct (default Ukpc (p_unit p)) eqn:Eu; try discriminate;
      destruct (scales_valid (p_rmin p) (p_rmax p)) eqn:Ev; try discriminate;
      inversion HS; subst s; cbn; rewrite Ev; reflexivity. }
  rewrite ES. cbn [bind]. rewrite norm_workers_idem.
  destruct b as [e mth cl]. cbn [b_edges b_method b_closed] in *.
  destruct Hg as [(a & bb & Hg)|Hg].
  - (* generated: the edges are regenerated from their own first and last element *)
    set (n := default 30%nat (p_num_bins p)) in *.
    pose proof (valid_len_n _ _ Hv (gen_edges_len _ _ _ _ _ _ _ _ _ _ _ Hg)) as Hn1.
    assert (Hfl : hd 0 e = a /\ last e 0 = bb /\ length e = S n /\ mth <> MCustom).
    { destruct mth; cbn [gen_edges comoving_edges logspace_edges mapped] in Hg; try discriminate;
        injection Hg as He; subst e.
      - repeat split; [apply linear_edges_last; exact Hn1|apply linear_edges_len|discriminate].
      - repeat split; [apply snapped_edges_first; exact Hn1|apply snapped_edges_last|apply snapped_edges_len|discriminate].
      - repeat split; [apply snapped_edges_first; exact Hn1|apply snapped_edges_last|apply snapped_edges_len|discriminate]. }
    destruct Hfl as (Hf & Hl & Hlen & Hnc).
    assert (Hc : method_eqb mth MCustom = false) by (destruct mth; try reflexivity; congruence).
    rewrite Hc. cbn [orb is_some bind].
    unfold create_binning, zmin_of, zmax_of, nbins_of. cbn [b_edges default].
    rewrite Hf, Hl, Hlen. replace (S n - 1)%nat with n by lia. rewrite Hg.
    unfold mk_binning. rewrite Hv. destruct cl; try congruence; reflexivity.
  - (* custom *)
    subst mth. cbn [method_eqb orb is_some bind]. unfold mk_binning. rewrite Hv.
    destruct cl; try congruence; reflexivity.
Qed.
(* ================================================================== interpreter modes *)
Lemma fires_debug k bad : fires k true bad = bad.
Proof. destruct k; reflexivity. Qed.
Lemma fires_raise dbg bad : fires GRaise dbg bad = bad.
Proof. reflexivity. Qed.

Lemma mk_binning_as_guards e m cl :
  mk_binning e m cl
  = if negb (2 <=? length e)%nat || negb (strict_incb e) then Rejected else Ok (mkBinning e m cl).
Proof. unfold mk_binning, valid_edges. destruct (2 <=? length e)%nat, (strict_incb e); reflexivity. Qed.

(* the code as it is (every validation a raise statement): one behaviour in both modes *)
Lemma mk_binning_g_all_raise dbg e m cl : mk_binning_g all_raise dbg e m cl = mk_binning e m cl.
Proof. rewrite mk_binning_as_guards. reflexivity. Qed.
Lemma create_scales_g_all_raise dbg rmin rmax u rw res :
  create_scales_g all_raise dbg rmin rmax u rw res = create_scales rmin rmax u rw res.
Proof.
  unfold create_scales_g, create_scales, all_raise, fires, g_scales.
  destruct (default Ukpc u), (scales_valid rmin rmax); reflexivity.
Qed.
(* in a normally started interpreter an assert is as good as a raise: whatever the guards are *)
Lemma mk_binning_g_debug g e m cl : mk_binning_g g true e m cl = mk_binning e m cl.
Proof. rewrite mk_binning_as_guards. unfold mk_binning_g. rewrite !fires_debug. reflexivity. Qed.
Lemma create_scales_g_debug g rmin rmax u rw res :
  create_scales_g g true rmin rmax u rw res = create_scales rmin rmax u rw res.
Proof.
  unfold create_scales_g, create_scales. rewrite fires_debug.
  destruct (default Ukpc u), (scales_valid rmin rmax); reflexivity.
Qed.

Section ModesP.
Context (Dc Dci : nat -> Q -> Q) (Lg Ex : Q -> Q).
Notation create := (create Dc Dci Lg Ex).
Notation create_g := (create_g Dc Dci Lg Ex).
Notation create_binning := (create_binning Dc Dci Lg Ex).
Notation create_binning_g := (create_binning_g Dc Dci Lg Ex).

Lemma create_binning_g_eq g dbg cos zmin zmax nb m e cl :
  (forall e' m' cl', mk_binning_g g dbg e' m' cl' = mk_binning e' m' cl') ->
  create_binning_g g dbg cos zmin zmax nb m e cl = create_binning true cos zmin zmax nb m e cl.
Proof.
  intros H. unfold Config.create_binning_g, Config.create_binning.
  destruct zmin, zmax, e, (default ClRight cl); try reflexivity; try apply H;
    destruct (gen_edges _ _ _ _ _ _ _ _ _ _); try reflexivity; apply H.
Qed.

Lemma create_g_eq g dbg p :
  (forall e m cl, mk_binning_g g dbg e m cl = mk_binning e m cl) ->
  (forall rmin rmax u rw res, create_scales_g g dbg rmin rmax u rw res = create_scales rmin rmax u rw res) ->
  create_g g dbg p = create true p.
Proof.
  intros HB HS. unfold Config.create_g, Config.create.
  destruct (parse_cosmology true (p_cosmo p)); try reflexivity. cbn [bind].
  rewrite HS. destruct (create_scales _ _ _ _ _); try reflexivity. cbn [bind].
  rewrite (create_binning_g_eq _ _ _ _ _ _ _ _ _ HB). reflexivity.
Qed.

(* mode independence of the code as it is: the model of the default interpreter, [create true], is the
   model of the optimised interpreter *)
Theorem create_g_all_raise dbg p : create_g all_raise dbg p = create true p.
Proof.
  apply create_g_eq; intros; [apply mk_binning_g_all_raise | apply create_scales_g_all_raise].
Qed.

(* why a check that runs in the default interpreter cannot see a validation by assert *)
Theorem create_g_debug g p : create_g g true p = create true p.
Proof. apply create_g_eq; intros; [apply mk_binning_g_debug | apply create_scales_g_debug]. Qed.

Corollary invalid_rejected_any_mode dbg p : params_invalid p = true -> create_g all_raise dbg p = Rejected.
Proof. intros H. rewrite create_g_all_raise. apply invalid_rejected; exact H. Qed.

Corollary created_edges_strict_any_mode dbg p c :
  create_g all_raise dbg p = Ok c -> valid_edges (b_edges (c_binning c)) = true.
Proof. rewrite create_g_all_raise. apply created_edges_strict. Qed.
End ModesP.

(* a validation written as an assert (or behind `if __debug__`) is lost with -O: each of the three
   sites, by a witness *)
Definition no_oracle : nat -> Q -> Q := fun _ x => x.
Theorem assert_edges_inc_refuted :
  exists p c, params_invalid p = true /\
    create_g no_oracle no_oracle (fun x => x) (fun x => x) (mkGuards GRaise GAssert GRaise) false p = Ok c /\
    valid_edges (b_edges (c_binning c)) = false.
Proof.
  exists (mkParams [1] [2] None None None None None None None (Some [1 # 2; 1 # 4]) None (CosName 0) None).
  eexists. repeat split; vm_compute; reflexivity.
Qed.
Theorem assert_limits_refuted :
  exists p c, params_invalid p = true /\ p_zmin p = Some (3 # 4) /\ p_zmax p = Some (1 # 4) /\
    create_g no_oracle no_oracle (fun x => x) (fun x => x) (mkGuards GRaise GAssert GRaise) false p = Ok c /\
    valid_edges (b_edges (c_binning c)) = false.
Proof.
  exists (mkParams [1] [2] None None None (Some (3 # 4)) (Some (1 # 4)) (Some 2%nat) None None None (CosName 0) None).
  eexists. repeat split; vm_compute; reflexivity.
Qed.
Theorem assert_edges_len_refuted :
  exists p c, params_invalid p = true /\
    create_g no_oracle no_oracle (fun x => x) (fun x => x) (mkGuards GAssert GRaise GRaise) false p = Ok c /\
    length (b_edges (c_binning c)) = 1%nat.
Proof.
  exists (mkParams [1] [2] None None None None None None None (Some [1 # 2]) None (CosName 0) None).
  eexists. repeat split; vm_compute; reflexivity.
Qed.
Theorem assert_scales_refuted :
  exists p c, params_invalid p = true /\
    create_g no_oracle no_oracle (fun x => x) (fun x => x) (mkGuards GRaise GRaise GAssert) false p = Ok c /\
    scales_valid (s_rmin (c_scales c)) (s_rmax (c_scales c)) = false.
Proof.
  exists (mkParams [2] [1] None None None None None None None (Some [1 # 4; 1 # 2]) None (CosName 0) None).
  eexists. repeat split; vm_compute; reflexivity.
Qed.

(* ================================================================== python types of the values *)
Theorem linear_edges_prec_exact a b n : linear_edges_prec (fun x => x) a b n = linear_edges a b n.
Proof.
  unfold linear_edges_prec, linear_edges. apply map_ext. intros i. unfold lin_point.
  destruct (i =? 0)%nat; [reflexivity|]. destruct (i =? n)%nat; reflexivity.
Qed.
(* F26: limits that are representable in the narrow type, and yet another grid *)
Theorem linear_edges_prec_refuted :
  exists rnd a b n, rnd a == a /\ rnd b == b /\ (1 <= n)%nat /\
    hd 0 (linear_edges_prec rnd a b n) = a /\ last (linear_edges_prec rnd a b n) 0 = b /\
    qlist_eqb (linear_edges_prec rnd a b n) (linear_edges a b n) = false.
Proof. exists rnd_quarter, 0, 1, 3%nat. repeat split; try (vm_compute; reflexivity); lia. Qed.
