From Verif Require Import Cwd.
From Coq Require Import List Arith Bool.
Import ListNotations.

Section CwdP.
  Context {D : Type}.

  (* workers forked per section: every history of directory changes and measurements, with any worker counts *)
  Theorem fresh_workers_follow_cwd (fsys : @disk D) ops s :
    run (step_fresh fsys) s ops = spec fsys (cwd s) ops.
  Proof.
    revert s. induction ops as [|o r IH]; intro s; [reflexivity|].
    destruct o as [d|name w]; cbn [run step_fresh spec]; [apply (IH {| cwd := d; pool_cwd := pool_cwd s |})|].
    f_equal. apply IH.
  Qed.

  (* hence independent of the worker counts *)
  Definition one_worker (o : op) : op := match o with Measure n _ => Measure n 1 | o => o end.

  Lemma spec_count_free (fsys : @disk D) ops : forall ops' d,
    map one_worker ops = map one_worker ops' -> spec fsys d ops = spec fsys d ops'.
  Proof.
    induction ops as [|o r IH]; intros [|o' r'] d H; try discriminate; [reflexivity|].
    cbn [map] in H. injection H as Ho Hr.
    destruct o as [x|n w], o' as [x'|n' w']; try discriminate; injection Ho as E; subst; cbn [spec].
    - apply IH. exact Hr.
    - f_equal. apply IH. exact Hr.
  Qed.

  Corollary fresh_workers_count_free (fsys : @disk D) ops ops' s :
    map one_worker ops = map one_worker ops' -> run (step_fresh fsys) s ops = run (step_fresh fsys) s ops'.
  Proof. intro H. rewrite !fresh_workers_follow_cwd. apply spec_count_free. exact H. Qed.

  (* a persistent pool agrees as long as the directory never changes after the first parallel section ... *)
  Theorem pool_ok_without_chdir (fsys : @disk D) ops s :
    (forall o, In o ops -> match o with Chdir _ => False | _ => True end) ->
    (match pool_cwd s with Some d => d = cwd s | None => True end) ->
    run (step_pool fsys) s ops = spec fsys (cwd s) ops.
  Proof.
    revert s. induction ops as [|o r IH]; intros s Hn Hp; [reflexivity|].
    destruct o as [d|name w]; [exfalso; exact (Hn (Chdir d) (or_introl eq_refl))|].
    cbn [run step_pool spec]. destruct (Nat.leb w 1).
    - cbn [run]. f_equal. apply IH; [intros o Ho; apply Hn; right; exact Ho|exact Hp].
    - assert (E : match pool_cwd s with Some d => d | None => cwd s end = cwd s).
      { destruct (pool_cwd s); [exact Hp|reflexivity]. }
      rewrite E. cbn [run]. f_equal.
      apply (IH {| cwd := cwd s; pool_cwd := Some (cwd s) |}); [intros o Ho; apply Hn; right; exact Ho|reflexivity].
  Qed.
End CwdP.

(* ... and reads another directory's cache of the same name after the caller moved on *)
Theorem pool_after_chdir_refuted :
  exists (fsys : @disk nat) ops s,
    run (step_pool fsys) s ops <> spec fsys (cwd s) ops /\ run (step_fresh fsys) s ops = spec fsys (cwd s) ops.
Proof.
  exists (fun d n => Some (10 * d + n)), [Measure 1 2; Chdir 7; Measure 1 2], {| cwd := 3; pool_cwd := None |}.
  vm_compute. split; [discriminate|reflexivity].
Qed.
