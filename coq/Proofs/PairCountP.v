(* Proofs about the pair-count model (Model/PairCount.v). *)
From Verif Require Import Prelude PairCount.
From Coq Require Import Qring Setoid Morphisms Sorted.
Open Scope Q_scope.

(* ------------------------------------------------------------------ *)
(* 1. bin algebra: both dispatch modes give the (r_{k-1}, r_k] sums, and consecutive
      bins telescope to the enclosing interval                                      *)

Fixpoint ascending (l : list Q) : Prop :=
  match l with a :: ((b :: _) as t) => a < b /\ ascending t | _ => True end.

Lemma in_range_spec lo hi d : in_range lo hi d = true <-> lo < d /\ d <= hi.
Proof. unfold in_range. rewrite andb_true_iff, Qltb_lt, Qleb_le. tauto. Qed.

Lemma w_in_split lo hi ps : lo <= hi -> w_le hi ps - w_le lo ps == w_in lo hi ps.
Proof.
  intros H. unfold w_le, w_in. induction ps as [|[d w] ps IH]; simpl; [ring|].
  unfold in_range, Qltb, Qleb in *. simpl.
  destruct (Qle_bool d lo) eqn:E1, (Qle_bool d hi) eqn:E2; simpl.
  - rewrite <- IH. ring.
  - exfalso. apply Qle_bool_iff in E1. assert (Hd : d <= hi) by (eapply Qle_trans; eauto).
    apply Qle_bool_iff in Hd. congruence.
  - rewrite <- IH. ring.
  - rewrite <- IH. ring.
Qed.

Lemma Forall2_Qeq_refl (l : list Q) : Forall2 Qeq l l.
Proof. induction l; constructor; auto. reflexivity. Qed.

(* both branches of dispatch_counts produce the per-bin sums over (r_{k-1}, r_k] *)
Lemma dispatch_bins cum r ps :
  ascending r -> Forall2 Qeq (dispatch cum (if cum then cn_cum r ps else cn_bin r ps))
                             (match r with [] => [] | x :: xs => cn_bin_from x xs ps end).
Proof.
  intros Ha. destruct cum; simpl.
  - destruct r as [|x xs]; simpl; [constructor|]. revert x Ha.
    induction xs as [|y ys IH]; intros x Ha; simpl; [constructor|].
    destruct Ha as [Hxy Ha]. constructor.
    + apply w_in_split. apply Qlt_le_weak. exact Hxy.
    + apply IH. exact Ha.
  - destruct r as [|x xs]; simpl; [constructor|]. apply Forall2_Qeq_refl.
Qed.

Lemma ascending_nth_ge y ys n : ascending (y :: ys) -> y <= nth n (y :: ys) y.
Proof.
  revert y n. induction ys as [|z zs IH]; intros y n Ha.
  - destruct n as [|[|n]]; simpl; apply Qle_refl.
  - destruct n as [|n]; [simpl; apply Qle_refl|].
    destruct Ha as [Hyz Ha]. change (nth (S n) (y :: z :: zs) y) with (nth n (z :: zs) y).
    destruct (Nat.lt_ge_cases n (length (z :: zs))) as [Hlt|Hge].
    + rewrite (nth_indep (z :: zs) y z Hlt).
      apply Qle_trans with z; [apply Qlt_le_weak; exact Hyz | exact (IH z n Ha)].
    + rewrite (nth_overflow (z :: zs) y Hge). apply Qle_refl.
Qed.

Lemma bins_telescope x xs ps n :
  ascending (x :: xs) -> (n <= length xs)%nat ->
  qsum (firstn n (cn_bin_from x xs ps)) == w_in x (nth n (x :: xs) x) ps.
Proof.
  revert x n. induction xs as [|y ys IH]; intros x n Ha Hn.
  - simpl in Hn. assert (n = 0)%nat by lia. subst. simpl.
    rewrite <- (w_in_split x x ps) by apply Qle_refl. ring.
  - destruct n as [|n].
    + simpl. rewrite <- (w_in_split x x ps) by apply Qle_refl. ring.
    + destruct Ha as [Hxy Ha]. simpl in Hn.
      change (firstn (S n) (cn_bin_from x (y :: ys) ps))
        with (w_in x y ps :: firstn n (cn_bin_from y ys ps)).
      change (nth (S n) (x :: y :: ys) x) with (nth n (y :: ys) x).
      cbn [qsum]. rewrite (IH y n Ha) by lia.
      assert (Hd : nth n (y :: ys) x = nth n (y :: ys) y).
      { apply nth_indep. simpl. lia. }
      rewrite Hd.
      pose proof (ascending_nth_ge y ys n Ha) as Hyn.
      rewrite <- (w_in_split x y ps) by (apply Qlt_le_weak; exact Hxy).
      rewrite <- (w_in_split y _ ps) by exact Hyn.
      rewrite <- (w_in_split x _ ps) by (eapply Qle_trans; [apply Qlt_le_weak; exact Hxy | exact Hyn]).
      ring.
Qed.

Lemma ascending_skipn (l : list Q) a : ascending l -> ascending (skipn a l).
Proof.
  revert l; induction a as [|a IH]; intros l H; simpl; [exact H|].
  destruct l as [|x l]; [exact I|]. apply IH. destruct l; [exact I|]. destruct H; assumption.
Qed.

Lemma skipn_cn_bin_from a : forall x xs ps,
  (a < length (x :: xs))%nat ->
  skipn a (cn_bin_from x xs ps) =
  match skipn a (x :: xs) with [] => [] | y :: ys => cn_bin_from y ys ps end.
Proof.
  induction a as [|a IH]; intros x xs ps Hlen; [reflexivity|].
  destruct xs as [|y ys]; simpl in Hlen; [lia|].
  change (skipn (S a) (cn_bin_from x (y :: ys) ps)) with (skipn a (cn_bin_from y ys ps)).
  change (skipn (S a) (x :: y :: ys)) with (skipn a (y :: ys)).
  apply IH. simpl. lia.
Qed.

Lemma qsum_Forall2 l1 l2 : Forall2 Qeq l1 l2 -> qsum l1 == qsum l2.
Proof. induction 1; simpl; [reflexivity|]. rewrite H, IHForall2. reflexivity. Qed.

Lemma Forall2_firstn {A B} (R : A -> B -> Prop) n l1 l2 :
  Forall2 R l1 l2 -> Forall2 R (firstn n l1) (firstn n l2).
Proof. intros H; revert n; induction H; intros [|n]; simpl; constructor; auto. Qed.
Lemma Forall2_skipn {A B} (R : A -> B -> Prop) n l1 l2 :
  Forall2 R l1 l2 -> Forall2 R (skipn n l1) (skipn n l2).
Proof. intros H; revert n; induction H; intros [|n]; simpl; try constructor; auto. Qed.

(* the nearest-edge summation of get_counts_for_limits, for edge indices a <= b of an
   ascending grid and BOTH dispatch modes, is the pair sum over (r_a, r_b] *)
Theorem limits_sum_exact cum (r : list Q) ps a b :
  ascending r -> (a <= b)%nat -> (b < length r)%nat ->
  slice_sum (dispatch cum (if cum then cn_cum r ps else cn_bin r ps)) a b
  == w_in (nth a r 0) (nth b r 0) ps.
Proof.
  intros Ha Hab Hb. unfold slice_sum.
  rewrite (qsum_Forall2 _ _ (Forall2_firstn _ (b - a) _ _ (Forall2_skipn _ a _ _ (dispatch_bins cum r ps Ha)))).
  destruct r as [|x xs]; [simpl in Hb; lia|].
  rewrite skipn_cn_bin_from by (cbn [length] in *; lia).
  pose proof (ascending_skipn (x :: xs) a Ha) as Hs.
  assert (Hlen : length (skipn a (x :: xs)) = (length (x :: xs) - a)%nat) by apply skipn_length.
  destruct (skipn a (x :: xs)) as [|y ys] eqn:E; [cbn [length] in *; lia|].
  rewrite (bins_telescope y ys ps (b - a) Hs) by (cbn [length] in *; lia).
  assert (N1 : nth a (x :: xs) 0 = y).
  { rewrite <- (firstn_skipn a (x :: xs)), E.
    rewrite app_nth2 by (rewrite firstn_length; cbn [length] in *; lia).
    rewrite firstn_length. replace (a - Nat.min a (length (x :: xs)))%nat with 0%nat by (cbn [length] in *; lia). reflexivity. }
  assert (N2 : nth b (x :: xs) 0 = nth (b - a) (y :: ys) y).
  { rewrite <- (firstn_skipn a (x :: xs)) at 1. rewrite E.
    rewrite app_nth2 by (rewrite firstn_length; cbn [length] in *; lia).
    rewrite firstn_length. replace (b - Nat.min a (length (x :: xs)))%nat with (b - a)%nat by (cbn [length] in *; lia).
    apply nth_indep. cbn [length] in *. lia. }
  rewrite N1, N2. reflexivity.
Qed.

(* ------------------------------------------------------------------ *)
(* 2. nearest edge: a limit that is a grid edge selects exactly that edge        *)

Lemma argmin_from_zero_stays best ib i l :
  best == 0 -> Forall (fun y => 0 <= y) l -> argmin_from best ib i l = ib.
Proof.
  intros Hb Hl. revert i. induction Hl as [|y l Hy Hl IH]; intros i; simpl; [reflexivity|].
  assert (E : Qltb y best = false).
  { destruct (Qltb y best) eqn:E; [|reflexivity]. apply Qltb_lt in E. rewrite Hb in E.
    exfalso. apply (Qlt_not_le _ _ E Hy). }
  rewrite E. apply IH.
Qed.

Lemma argmin_from_finds best ib i l k :
  0 < best -> (k < length l)%nat -> nth k l 1 == 0 ->
  (forall m, (m < k)%nat -> 0 < nth m l 1) -> Forall (fun y => 0 <= y) l ->
  argmin_from best ib i l = (i + k)%nat.
Proof.
  revert best ib i k. induction l as [|y l IH]; intros best ib i k Hb Hk Hz Hpos Hall; simpl in Hk; [lia|].
  inversion Hall as [|? ? Hy Hall']; subst. simpl.
  destruct k as [|k].
  - simpl in Hz. assert (E : Qltb y best = true) by (apply Qltb_lt; rewrite Hz; exact Hb).
    rewrite E. rewrite argmin_from_zero_stays; [lia|exact Hz|exact Hall'].
  - assert (Hy0 : 0 < y) by (apply (Hpos 0%nat); lia).
    assert (Hpos' : forall m, (m < k)%nat -> 0 < nth m l 1).
    { intros m Hm. apply (Hpos (S m)). lia. }
    destruct (Qltb y best); rewrite (IH _ _ _ k) by (auto; lia); lia.
Qed.

Lemma Qabs_zero x : Qabs x == 0 -> x == 0.
Proof.
  intro H. apply Qle_antisym.
  - rewrite <- H. apply Qle_Qabs.
  - assert (H0 : - x <= 0) by (rewrite <- H, <- Qabs_opp; apply Qle_Qabs).
    apply Qopp_le_compat in H0. rewrite Qopp_opp in H0. exact H0.
Qed.

Lemma Qabs_sub_zero a b : Qabs (a - b) == 0 <-> a == b.
Proof.
  split; intro H.
  - apply Qabs_zero in H. rewrite <- (Qplus_0_l b), <- H. ring.
  - rewrite H. setoid_replace (b - b) with 0 by ring. reflexivity.
Qed.

Lemma nth_map_abs es x m :
  (m < length es)%nat -> nth m (map (fun e => Qabs (e - x)) es) 1 = Qabs (nth m es 0 - x).
Proof.
  intros H. rewrite (nth_indep _ 1 ((fun e => Qabs (e - x)) 0)) by (rewrite map_length; exact H).
  apply (map_nth (fun e => Qabs (e - x))).
Qed.

Theorem nearest_exact (edges : list Q) k :
  ascending edges -> (k < length edges)%nat -> nearest edges (nth k edges 0) = k.
Proof.
  intros Ha Hk. unfold nearest, argmin.
  set (x := nth k edges 0).
  assert (Hall : Forall (fun y => 0 <= y) (map (fun e => Qabs (e - x)) edges)).
  { apply Forall_forall. intros y Hy. apply in_map_iff in Hy as [e [<- _]]. apply Qabs_nonneg. }
  (* distinctness of an ascending list *)
  assert (Hmono : forall l i j, ascending l -> (i < j)%nat -> (j < length l)%nat -> nth i l 0 < nth j l 0).
  { clear. induction l as [|a l IH]; intros i j Ha Hij Hj; simpl in Hj; [lia|].
    destruct j as [|j]; [lia|]. destruct l as [|b l]; [simpl in Hj; lia|].
    destruct Ha as [Hab Ha]. destruct i as [|i].
    - destruct j as [|j]; [exact Hab|].
      eapply Qlt_trans; [exact Hab|]. apply (IH 0%nat (S j) Ha); simpl in *; lia.
    - apply (IH i j Ha); simpl in *; lia. }
  destruct edges as [|e0 es]; [simpl in Hk; lia|]. cbn [map] in *.
  destruct k as [|k].
  - subst x. simpl. inversion Hall; subst.
    apply argmin_from_zero_stays; [|assumption]. apply Qabs_sub_zero. reflexivity.
  - inversion Hall as [|? ? H0 Hall']; subst.
    rewrite (argmin_from_finds _ _ _ _ k).
    + reflexivity.
    + destruct (Qabs_sub_zero e0 x) as [P _].
      assert (N : ~ e0 == x).
      { intro E. pose proof (Hmono (e0 :: es) 0%nat (S k) Ha ltac:(lia) Hk) as L. simpl in L.
        unfold x in E. simpl in E. rewrite E in L. apply (Qlt_irrefl _ L). }
      destruct (Qle_lt_or_eq _ _ (Qabs_nonneg (e0 - x))) as [L|L]; [exact L|].
      exfalso. apply N, P. symmetry. exact L.
    + rewrite map_length. simpl in Hk. lia.
    + rewrite nth_map_abs by (simpl in Hk; lia). apply Qabs_sub_zero. reflexivity.
    + intros m Hm.
      rewrite nth_map_abs by (simpl in Hk; lia).
      assert (N : ~ nth m es 0 == x).
      { intro E. pose proof (Hmono (e0 :: es) (S m) (S k) Ha ltac:(lia) Hk) as L. simpl in L.
        unfold x in E. simpl in E. rewrite E in L. apply (Qlt_irrefl _ L). }
      destruct (Qle_lt_or_eq _ _ (Qabs_nonneg (nth m es 0 - x))) as [L|L]; [exact L|].
      exfalso. apply N. apply Qabs_sub_zero. symmetry. exact L.
    + exact Hall'.
Qed.

(* AngularTree.count without separation weighting: every scale whose limits are grid edges
   gets exactly the pair sum over (lo, hi], whichever dispatch branch the grid size selects *)
Theorem tree_count_exact (grid angs : list Q) (ps : pairs) (a b : nat) :
  ascending grid -> ascending angs -> length angs = length grid ->
  (a <= b)%nat -> (b < length grid)%nat ->
  tree_count grid angs None [(nth a angs 0, nth b angs 0)] ps
  = [slice_sum (dispatch (length grid <? 8)%nat
        (if (length grid <? 8)%nat then cn_cum grid ps else cn_bin grid ps)) a b] /\
  slice_sum (dispatch (length grid <? 8)%nat
        (if (length grid <? 8)%nat then cn_cum grid ps else cn_bin grid ps)) a b
  == w_in (nth a grid 0) (nth b grid 0) ps.
Proof.
  intros Hg Ha Hl Hab Hb. split.
  - unfold tree_count. simpl. rewrite !nearest_exact by (auto; lia). reflexivity.
  - apply limits_sum_exact; assumption.
Qed.

(* ------------------------------------------------------------------ *)
(* 3. pruning of distant patch pairs is sound in any metric space               *)
Section Prune.
  Context {P : Type} (ang : P -> P -> Q).
  Context (ang_sym : forall a b, ang a b == ang b a)
          (ang_tri : forall a b c, ang a c <= ang a b + ang b c).

  (* a in patch i (within ri of ci), b in patch j (within rj of cj): if the centres are at
     least ri + rj + M apart then a and b are at least M apart *)
  Lemma far_patches_far_pairs ci cj a b ri rj M :
    ang a ci <= ri -> ang b cj <= rj -> ri + rj + M <= ang ci cj -> M <= ang a b.
  Proof.
    intros Ha Hb Hc.
    pose proof (ang_tri ci a cj) as T1. pose proof (ang_tri a b cj) as T2.
    pose proof (ang_sym ci a) as S1.
    assert (H : ang ci cj <= ri + ang a b + rj).
    { eapply Qle_trans; [exact T1|]. rewrite S1.
      eapply Qle_trans; [apply Qplus_le_compat; [exact Ha|exact T2]|].
      rewrite <- Qplus_assoc. apply Qplus_le_compat; [apply Qle_refl|].
      apply Qplus_le_compat; [apply Qle_refl|exact Hb]. }
    apply (Qplus_le_l _ _ (ri + rj)).
    eapply Qle_trans; [|eapply Qle_trans; [exact H|]].
    - setoid_replace (M + (ri + rj)) with (ri + rj + M) by ring. exact Hc.
    - setoid_replace (ri + ang a b + rj) with (ang a b + (ri + rj)) by ring. apply Qle_refl.
  Qed.

  Definition pairs_of (A B : list (P * Q)) : pairs :=
    flat_map (fun a => map (fun b => (ang (fst a) (fst b), snd a * snd b)) B) A.

  Lemma w_in_zero lo hi ps : (forall p, In p ps -> hi < fst p) -> w_in lo hi ps == 0.
  Proof.
    intros H. unfold w_in. induction ps as [|p ps IH]; simpl; [reflexivity|].
    assert (E : in_range lo hi (fst p) = false).
    { destruct (in_range lo hi (fst p)) eqn:E; [|reflexivity]. apply in_range_spec in E as [_ E].
      exfalso. apply (Qlt_not_le _ _ (H p (or_introl eq_refl)) E). }
    rewrite E, IH; [ring|]. intros q Hq. apply H. right. exact Hq.
  Qed.

  (* the strict link test of the code (dist < ri + rj + M): an unlinked patch pair contains
     no pair inside (lo, hi] provided hi < M *)
  Theorem prune_sound_lt ci cj ri rj M lo hi (A B : list (P * Q)) :
    (forall a, In a A -> ang (fst a) ci <= ri) -> (forall b, In b B -> ang (fst b) cj <= rj) ->
    ~ (ang ci cj < ri + rj + M) -> hi < M ->
    w_in lo hi (pairs_of A B) == 0.
  Proof.
    intros HA HB Hun Hhi. apply w_in_zero. intros p Hp. unfold pairs_of in Hp.
    apply in_flat_map in Hp as [a [Ha Hp]]. apply in_map_iff in Hp as [b [<- Hb]]. simpl.
    eapply Qlt_le_trans; [exact Hhi|].
    apply (far_patches_far_pairs ci cj (fst a) (fst b) ri rj M); auto.
    apply Qnot_lt_le. exact Hun.
  Qed.

  (* the non-strict test (repaired): hi <= M suffices *)
  Theorem prune_sound_le ci cj ri rj M lo hi (A B : list (P * Q)) :
    (forall a, In a A -> ang (fst a) ci <= ri) -> (forall b, In b B -> ang (fst b) cj <= rj) ->
    ~ (ang ci cj <= ri + rj + M) -> hi <= M ->
    w_in lo hi (pairs_of A B) == 0.
  Proof.
    intros HA HB Hun Hhi. apply w_in_zero. intros p Hp. unfold pairs_of in Hp.
    apply in_flat_map in Hp as [a [Ha Hp]]. apply in_map_iff in Hp as [b [<- Hb]]. simpl.
    apply Qnot_le_lt in Hun.
    (* strictly farther than ri + rj + M, so strictly farther than M *)
    pose proof (ang_tri ci (fst a) cj) as T1. pose proof (ang_tri (fst a) (fst b) cj) as T2.
    pose proof (ang_sym ci (fst a)) as S1.
    assert (H : ang ci cj <= ri + ang (fst a) (fst b) + rj).
    { eapply Qle_trans; [exact T1|]. rewrite S1.
      eapply Qle_trans; [apply Qplus_le_compat; [exact (HA a Ha)|exact T2]|].
      rewrite <- Qplus_assoc. apply Qplus_le_compat; [apply Qle_refl|].
      apply Qplus_le_compat; [apply Qle_refl|exact (HB b Hb)]. }
    eapply Qle_lt_trans; [exact Hhi|].
    apply (Qplus_lt_l _ _ (ri + rj)).
    eapply Qlt_le_trans; [|eapply Qle_trans; [exact H|]].
    - setoid_replace (M + (ri + rj)) with (ri + rj + M) by ring. exact Hun.
    - setoid_replace (ri + ang (fst a) (fst b) + rj) with (ang (fst a) (fst b) + (ri + rj)) by ring. apply Qle_refl.
  Qed.
End Prune.

(* the strict test loses a pair at separation exactly M = hi (two single-object patches of
   radius 0): refutation witness on the rational line *)
Theorem prune_lt_refuted :
  exists (ang : Q -> Q -> Q) ci cj ri rj M lo hi (A B : list (Q * Q)),
    (forall a b, ang a b == ang b a) /\ (forall a b c, ang a c <= ang a b + ang b c) /\
    (forall a, In a A -> ang (fst a) ci <= ri) /\ (forall b, In b B -> ang (fst b) cj <= rj) /\
    ~ (ang ci cj < ri + rj + M) /\ hi <= M /\ ~ w_in lo hi (pairs_of ang A B) == 0.
Proof.
  exists (fun a b => Qabs (a - b)), 0, 1, 0, 0, 1, 0, 1, [(0, 1)], [(1, 1)].
  split; [|split; [|split; [|split; [|split; [|split]]]]].
  - intros a b. setoid_replace (a - b) with (- (b - a)) by ring. apply Qabs_opp.
  - intros a b c. setoid_replace (a - c) with ((a - b) + (b - c)) by ring. apply Qabs_triangle.
  - intros a [<-|[]]. vm_compute. discriminate.
  - intros b [<-|[]]. vm_compute. discriminate.
  - vm_compute. intro H. discriminate.
  - vm_compute. discriminate.
  - vm_compute. intro H. discriminate.
Qed.

(* ------------------------------------------------------------------ *)
(* 4. the pruning angle                                                          *)
Lemma qmax_ge_l a b : a <= qmax a b.
Proof. unfold qmax, Qleb. destruct (Qle_bool a b) eqn:E; [apply Qle_bool_iff; exact E|apply Qle_refl]. Qed.
Lemma qmax_ge_r a b : b <= qmax a b.
Proof.
  unfold qmax, Qleb. destruct (Qle_bool a b) eqn:E; [apply Qle_refl|].
  apply Qlt_le_weak, Qnot_le_lt. intro H. apply Qle_bool_iff in H. congruence.
Qed.
Lemma qmax_list_ge l x : In x l -> x <= qmax_list l.
Proof.
  induction l as [|y l IH]; intros []; simpl.
  - subst. apply qmax_ge_l.
  - eapply Qle_trans; [apply IH; assumption|apply qmax_ge_r].
Qed.

(* repaired get_max_angle: the maximum over all bin centres and scales bounds every angle
   at which pairs are counted — no hypothesis on the distance-redshift relation *)
Theorem maxangle_fix_sound (thetas : list (list Q)) row x :
  In row thetas -> In x row -> x <= max_angle_fix thetas.
Proof.
  intros Hr Hx. unfold max_angle_fix.
  eapply Qle_trans; [apply (qmax_list_ge row x Hx)|].
  apply qmax_list_ge. apply in_map. exact Hr.
Qed.

(* current get_max_angle: the angle at z0 = max(zmin, limit).  It bounds the angle at a bin
   centre only if theta is non-increasing between z0 and that centre *)
Theorem maxangle_cur_sound (theta : Q -> Q) (z0 zmid : Q) :
  (forall z z', z <= z' -> theta z' <= theta z) -> z0 <= zmid -> theta zmid <= theta z0.
Proof. intros H Hz. apply H. exact Hz. Qed.

(* … and is refuted below the limit: theta = 1/D with D(z) = z (strictly increasing),
   zmin = 1/100, zmax = 2/100, limit = 5/100: the bin centre 3/200 needs 200/3 > 20 *)
Theorem maxangle_lowz_refuted :
  exists (theta : Q -> Q) (zmin zmax limit : Q),
    (forall z z', 0 < z -> z <= z' -> theta z' <= theta z) /\
    let z0 := qmax zmin limit in let zmid := (zmin + zmax) / 2 in
    theta z0 < theta zmid.
Proof.
  exists (fun z => / z), (1 # 100), (2 # 100), (5 # 100). split.
  - intros z z' Hz Hzz'. apply Qle_shift_inv_l; [exact Hz|].
    rewrite Qmult_comm. apply Qle_shift_div_r; [eapply Qlt_le_trans; eassumption|]. rewrite Qmult_1_l. exact Hzz'.
  - vm_compute. reflexivity.
Qed.

(* ------------------------------------------------------------------ *)
(* 5. pair iteration: every linked pair once                                     *)
Lemma in_id_pairs auto lk ids i j :
  In (i, j) (id_pairs auto lk ids) <->
  In i ids /\ (i = j \/ (In j (lk i) /\ j <> i /\ (auto = true -> (i < j)%nat))).
Proof.
  unfold id_pairs. rewrite in_app_iff, in_map_iff, in_flat_map. split.
  - intros [[x [E Hx]]|[x [Hx Hin]]].
    + inversion E; subst. auto.
    + apply in_map_iff in Hin as [y [E Hy]]. inversion E; subst.
      apply filter_In in Hy as [Hy Hc]. apply andb_true_iff in Hc as [Hne Ha].
      split; [exact Hx|right]. split; [exact Hy|]. split.
      * apply negb_true_iff, Nat.eqb_neq in Hne. exact Hne.
      * intros ->. simpl in Ha. apply Nat.ltb_lt. exact Ha.
  - intros [Hi [->|[Hj [Hne Ha]]]].
    + left. exists j. auto.
    + right. exists i. split; [exact Hi|]. apply in_map. apply filter_In. split; [exact Hj|].
      apply andb_true_iff. split; [apply negb_true_iff, Nat.eqb_neq; exact Hne|].
      destruct auto; simpl; [apply Nat.ltb_lt; auto|reflexivity].
Qed.

Lemma nodup_app {A} (l1 l2 : list A) :
  NoDup l1 -> NoDup l2 -> (forall x, In x l1 -> ~ In x l2) -> NoDup (l1 ++ l2).
Proof.
  induction 1 as [|x l1 Hx Hn IH]; intros H2 Hd; simpl; [exact H2|].
  constructor.
  - rewrite in_app_iff. intros [H|H]; [contradiction|]. apply (Hd x (or_introl eq_refl) H).
  - apply IH; [exact H2|]. intros y Hy. apply Hd. right. exact Hy.
Qed.

Lemma nodup_map_inj {A B} (f : A -> B) l :
  (forall x y, f x = f y -> x = y) -> NoDup l -> NoDup (map f l).
Proof.
  intros Hf. induction 1 as [|x l Hx Hn IH]; simpl; constructor; [|exact IH].
  intro H. apply in_map_iff in H as [y [E Hy]]. apply Hf in E. subst. contradiction.
Qed.

Lemma nodup_filter {A} (f : A -> bool) l : NoDup l -> NoDup (filter f l).
Proof.
  induction 1 as [|x l Hx Hn IH]; simpl; [constructor|].
  destruct (f x); [constructor; [|exact IH]|exact IH].
  intro H. apply filter_In in H as [H _]. contradiction.
Qed.

(* iter_patch_id_pairs never yields a pair twice *)
Theorem pairs_once auto lk ids :
  NoDup ids -> (forall i, NoDup (lk i)) -> NoDup (id_pairs auto lk ids).
Proof.
  intros Hids Hlk. unfold id_pairs. apply nodup_app.
  - apply nodup_map_inj; [|exact Hids]. intros x y E. inversion E. reflexivity.
  - induction Hids as [|i ids Hi Hn IH]; simpl; [constructor|].
    apply nodup_app.
    + apply nodup_map_inj; [intros x y E; inversion E; reflexivity|]. apply nodup_filter, Hlk.
    + exact IH.
    + intros [a b] Hab Hin. apply in_map_iff in Hab as [y [E _]]. inversion E; subst.
      apply in_flat_map in Hin as [x [Hx Hin]]. apply in_map_iff in Hin as [z [E2 _]].
      inversion E2; subst. contradiction.
  - intros [a b] Hab Hin. apply in_map_iff in Hab as [x [E _]]. inversion E; subst.
    apply in_flat_map in Hin as [y [_ Hin]]. apply in_map_iff in Hin as [z [E2 Hz]].
    inversion E2; subst. apply filter_In in Hz as [_ Hc]. apply andb_true_iff in Hc as [Hne _].
    apply negb_true_iff, Nat.eqb_neq in Hne. congruence.
Qed.

(* symmetric links: an autocorrelation visits every unordered linked pair exactly once,
   as (min, max) *)
Corollary auto_unordered_once lk ids i j :
  (forall a b, In b (lk a) <-> In a (lk b)) -> In i ids -> In j ids -> In j (lk i) -> i <> j ->
  (In (i, j) (id_pairs true lk ids) /\ ~ In (j, i) (id_pairs true lk ids)) \/
  (In (j, i) (id_pairs true lk ids) /\ ~ In (i, j) (id_pairs true lk ids)).
Proof.
  intros Hsym Hi Hj Hl Hne.
  destruct (Nat.lt_ge_cases i j) as [Hlt|Hge].
  - left. split.
    + apply in_id_pairs. split; [exact Hi|right]. repeat split; auto.
    + intro H. apply in_id_pairs in H as [_ [E|[_ [_ H]]]]; [congruence|]. specialize (H eq_refl). lia.
  - right. split.
    + apply in_id_pairs. split; [exact Hj|right]. repeat split; [apply Hsym; exact Hl|congruence|intros _; lia].
    + intro H. apply in_id_pairs in H as [_ [E|[_ [_ H]]]]; [congruence|]. specialize (H eq_refl). lia.
Qed.

(* ------------------------------------------------------------------ *)
(* 6. composition: the cells written by count_pairs equal the specification       *)
Lemma pair_mem_In p l : pair_mem p l = true <-> In p l.
Proof.
  unfold pair_mem. rewrite existsb_exists. split.
  - intros [[a b] [Hin Hc]]. apply andb_true_iff in Hc as [H1 H2].
    apply Nat.eqb_eq in H1, H2. simpl in *. destruct p; simpl in *; subst. exact Hin.
  - intros H. exists p. split; [exact H|]. rewrite !Nat.eqb_refl. reflexivity.
Qed.

Definition cfg_default : bincfg := {| bgrid := []; bangs := []; balpha := None; blims := []; bthr := [] |}.

Theorem count_cell_exact (auto : bool) (cfgs : list bincfg) (C1 C2 : list obj) (binned2 : bool)
        (lk : nat -> list nat) (ids : list nat) (s b i j : nat) :
  let cfg := nth b cfgs cfg_default in
  let A := sel C1 i (Some b) in
  let B := sel C2 j (if binned2 then Some b else None) in
  In i ids -> In j ids ->
  (* tree layer (tree_count_exact): the counter returns the pair sum of the scale *)
  nth s (ppp cfg A B) 0 == nth s (ppp_spec cfg A B) 0 ->
  (* pruning (prune_sound_lt, prune_sound_le): an unlinked patch pair holds no pair of that scale *)
  (~ In j (lk i) -> i <> j -> nth s (ppp_spec cfg A B) 0 == 0) ->
  count_cell auto cfgs C1 C2 binned2 (id_pairs auto lk ids) s b i j
  == spec_cell auto cfgs C1 C2 binned2 s b i j.
Proof.
  intros cfg A B Hi Hj Htree Hprune.
  unfold count_cell, spec_cell, cell_value. fold cfg_default. fold cfg. fold A. fold B.
  destruct (pair_mem (i, j) (id_pairs auto lk ids)) eqn:E.
  - apply pair_mem_In, in_id_pairs in E as [_ [->|[Hl [Hne Ha]]]].
    + rewrite Nat.eqb_refl, Nat.ltb_irrefl. destruct auto; simpl; rewrite Htree; reflexivity.
    + destruct auto; simpl.
      * specialize (Ha eq_refl). apply Nat.ltb_lt in Ha as Ha'. rewrite Ha'.
        assert (E2 : (i =? j)%nat = false) by (apply Nat.eqb_neq; lia). rewrite E2. exact Htree.
      * exact Htree.
  - assert (Hn : ~ In (i, j) (id_pairs auto lk ids)).
    { intro H. apply pair_mem_In in H. congruence. }
    assert (Hne : i <> j).
    { intros ->. apply Hn. apply in_id_pairs. auto. }
    assert (E2 : (i =? j)%nat = false) by (apply Nat.eqb_neq; exact Hne). rewrite E2.
    destruct auto; simpl.
    + destruct (Nat.ltb_spec i j) as [Hlt|Hge]; [|reflexivity].
      rewrite Hprune; [reflexivity| |exact Hne].
      intro Hl. apply Hn. apply in_id_pairs. split; [exact Hi|right]. repeat split; auto.
    + rewrite Hprune; [reflexivity| |exact Hne].
      intro Hl. apply Hn. apply in_id_pairs. split; [exact Hi|right]. repeat split; auto. discriminate.
Qed.

(* ------------------------------------------------------------------ *)
(* 7. separation weighting: the weighted slice sums are the weighted pair sums    *)
(* per-pair contribution of the weighted fine bins: sum_k a_k [r_{k-1} < d <= r_k] *)
Fixpoint fw_sum (prev : Q) (r an : list Q) (d : Q) : Q :=
  match r, an with
  | x :: xs, a0 :: at_ => (if in_range prev x d then a0 else 0) + fw_sum x xs at_ d
  | _, _ => 0
  end.

Lemma fw_sum_zero_below prev r an d : ascending (prev :: r) -> d <= prev -> fw_sum prev r an d == 0.
Proof.
  revert prev an. induction r as [|x xs IH]; intros prev an Ha Hd; [destruct an; reflexivity|].
  destruct an as [|a0 at_]; [reflexivity|]. destruct Ha as [Hpx Ha]. cbn [fw_sum].
  destruct (in_range prev x d) eqn:E.
  - apply in_range_spec in E as [E _]. exfalso. apply (Qlt_not_le _ _ E Hd).
  - rewrite IH; [ring|exact Ha|]. eapply Qle_trans; [exact Hd|apply Qlt_le_weak; exact Hpx].
Qed.

(* at most one fine bin contains d: the sum is the weight of that bin = fine_weight *)
Lemma fw_sum_fine prev r an d : ascending (prev :: r) -> fw_sum prev r an d == fine_weight (prev :: r) an d.
Proof.
  revert prev an. induction r as [|x xs IH]; intros prev an Ha.
  - destruct an; reflexivity.
  - destruct an as [|a0 at_]; [reflexivity|]. destruct Ha as [Hpx Ha].
    cbn [fw_sum].
    change (fine_weight (prev :: x :: xs) (a0 :: at_) d) with (if in_range prev x d then a0 else fine_weight (x :: xs) at_ d).
    destruct (in_range prev x d) eqn:E.
    + apply in_range_spec in E as [_ E]. rewrite fw_sum_zero_below; [ring|exact Ha|exact E].
    + rewrite IH by exact Ha. ring.
Qed.

(* sum_k c_k * a_k over the bins *)
Fixpoint dot (c a : list Q) : Q :=
  match c, a with x :: xs, y :: ys => x * y + dot xs ys | _, _ => 0 end.
Lemma qsum_zipmul c a : qsum (zipmul c a) == dot c a.
Proof. revert a; induction c as [|x c IH]; intros [|y a]; simpl; try reflexivity. rewrite IH. reflexivity. Qed.

Lemma qsum_map_ext (f g : Q * Q -> Q) ps : (forall p, f p == g p) -> qsum (map f ps) == qsum (map g ps).
Proof. intro H. induction ps as [|p ps IH]; simpl; [reflexivity|]. rewrite H, IH. reflexivity. Qed.
Lemma qsum_map_add (f g : Q * Q -> Q) ps :
  qsum (map (fun p => f p + g p) ps) == qsum (map f ps) + qsum (map g ps).
Proof. induction ps as [|p ps IH]; simpl; [ring|]. rewrite IH. ring. Qed.
Lemma w_in_scale lo hi a ps :
  qsum (map (fun p : Q * Q => snd p * (if in_range lo hi (fst p) then a else 0)) ps) == w_in lo hi ps * a.
Proof.
  unfold w_in. induction ps as [|p ps IH]; simpl; [ring|]. rewrite IH.
  destruct (in_range lo hi (fst p)); ring.
Qed.

(* the per-bin sums dotted with the bin weights are the pair sum of w * weight(bin of d) *)
Lemma dot_bins r : forall prev an ps,
  dot (cn_bin_from prev r ps) an == qsum (map (fun p => snd p * fw_sum prev r an (fst p)) ps).
Proof.
  induction r as [|x xs IH]; intros prev an ps.
  - cbn [cn_bin_from dot fw_sum]. induction ps as [|p ps IHp]; simpl; [reflexivity|]. rewrite <- IHp. ring.
  - destruct an as [|a0 at_].
    + cbn [cn_bin_from dot fw_sum]. induction ps as [|p ps IHp]; simpl; [reflexivity|]. rewrite <- IHp. ring.
    + cbn [cn_bin_from dot fw_sum].
      rewrite (qsum_map_ext _ (fun p => snd p * (if in_range prev x (fst p) then a0 else 0)
                                       + snd p * fw_sum x xs at_ (fst p))) by (intro p; ring).
      rewrite (qsum_map_add (fun p => snd p * (if in_range prev x (fst p) then a0 else 0))
                            (fun p => snd p * fw_sum x xs at_ (fst p))).
      rewrite w_in_scale, IH. reflexivity.
Qed.

Lemma fw_sum_zero_above prev r an d : Forall (fun x => x < d) r -> fw_sum prev r an d == 0.
Proof.
  revert prev an. induction r as [|x xs IH]; intros prev an H; [destruct an; reflexivity|].
  destruct an as [|a0 at_]; [reflexivity|]. inversion H as [|? ? Hx Hxs]; subst. cbn [fw_sum].
  destruct (in_range prev x d) eqn:E.
  - apply in_range_spec in E as [_ E]. exfalso. apply (Qlt_not_le _ _ Hx E).
  - rewrite IH by exact Hxs. ring.
Qed.

Lemma last_cons {A} (xs : list A) : forall x d, last (x :: xs) d = last xs x.
Proof.
  induction xs as [|y ys IH]; intros x d; [reflexivity|].
  change (last (x :: y :: ys) d) with (last (y :: ys) d). rewrite (IH y d), (IH y x). reflexivity.
Qed.

(* splitting the grid: the sum over the bins of r1 ++ r2 *)
Lemma fw_sum_app prev r1 r2 an d :
  fw_sum prev (r1 ++ r2) an d ==
  fw_sum prev r1 an d + fw_sum (last r1 prev) r2 (skipn (length r1) an) d.
Proof.
  revert prev an. induction r1 as [|x xs IH]; intros prev an.
  - cbn [app fw_sum last length skipn]. destruct an; cbn [fw_sum]; ring.
  - destruct an as [|a0 at_].
    + cbn [app fw_sum length skipn]. destruct r2; cbn [fw_sum]; ring.
    + cbn [app fw_sum length skipn]. rewrite IH.
      rewrite last_cons. ring.
Qed.

Lemma ascending_ss l : ascending l -> StronglySorted Qlt l.
Proof.
  induction l as [|x l IH]; intro H; [constructor|].
  destruct l as [|y l]; [constructor; constructor|]. destruct H as [Hxy H].
  specialize (IH H). constructor; [exact IH|]. constructor; [exact Hxy|].
  inversion IH as [|? ? _ Hall]; subst. eapply Forall_impl; [|exact Hall].
  intros a Ha. eapply Qlt_trans; eassumption.
Qed.
Lemma ss_ascending l : StronglySorted Qlt l -> ascending l.
Proof.
  induction 1 as [|x l Hs IH Hall]; [exact I|]. destruct l as [|y l]; [exact I|].
  split; [inversion Hall; assumption|exact IH].
Qed.
Lemma ss_app l1 l2 : StronglySorted Qlt (l1 ++ l2) ->
  StronglySorted Qlt l1 /\ StronglySorted Qlt l2 /\ (forall a b, In a l1 -> In b l2 -> a < b).
Proof.
  induction l1 as [|x l1 IH]; simpl; intro H.
  - repeat split; [constructor|exact H|intros a b []].
  - inversion H as [|? ? Hs Hall]; subst. destruct (IH Hs) as [H1 [H2 H3]].
    apply Forall_app in Hall as [Ha1 Ha2]. repeat split.
    + constructor; assumption.
    + exact H2.
    + intros a b [<-|Ha] Hb; [apply (proj1 (Forall_forall _ _) Ha2 b Hb)|apply H3; assumption].
Qed.
Lemma ss_le_last prev l : StronglySorted Qlt (prev :: l) -> Forall (fun x => x <= last l prev) l /\ prev <= last l prev.
Proof.
  revert prev. induction l as [|x l IH]; intros prev H; [split; [constructor|apply Qle_refl]|].
  inversion H as [|? ? Hs Hall]; subst. destruct (IH x Hs) as [H1 H2]. rewrite last_cons.
  inversion Hall as [|? ? Hpx _]; subst. split.
  - constructor; [exact H2|exact H1].
  - eapply Qle_trans; [apply Qlt_le_weak; exact Hpx|exact H2].
Qed.

(* the window lemma: over an ascending grid prev :: p1 ++ r1 ++ r2 with lo = last of p1 (or prev)
   and hi = last of r1, the bins of r1 carry exactly the weight of the pairs in (lo, hi] *)
Lemma fw_sum_window prev p1 r1 r2 an d :
  ascending (prev :: p1 ++ r1 ++ r2) -> r1 <> [] ->
  let lo := last p1 prev in let hi := last r1 lo in
  fw_sum lo r1 (skipn (length p1) an) d ==
  if in_range lo hi d then fw_sum prev (p1 ++ r1 ++ r2) an d else 0.
Proof.
  intros Ha Hne lo hi.
  apply ascending_ss in Ha.
  change (prev :: p1 ++ r1 ++ r2) with ((prev :: p1) ++ r1 ++ r2) in Ha.
  destruct (ss_app _ _ Ha) as [S1 [S23 C1]]. destruct (ss_app _ _ S23) as [S2 [S3 C2]].
  destruct (ss_le_last prev p1 S1) as [L1 L1'].
  assert (Slo : StronglySorted Qlt (lo :: r1)).
  { constructor; [exact S2|]. apply Forall_forall. intros b Hb. apply C1; [|apply in_or_app; left; exact Hb].
    unfold lo. destruct p1 as [|q p1']; [left; reflexivity|]. right. rewrite last_cons.
    clear -p1'. revert q. induction p1' as [|y ys IH]; intros q; [left; reflexivity|]. right. rewrite last_cons. apply IH. }
  destruct (ss_le_last lo r1 Slo) as [L2 L2']. fold hi in L2, L2'.
  assert (Shi : StronglySorted Qlt (hi :: r2)).
  { constructor; [exact S3|]. apply Forall_forall. intros b Hb. apply C2; [|exact Hb].
    unfold hi. destruct r1 as [|q r1']; [congruence|]. rewrite last_cons.
    clear. revert q. induction r1' as [|y ys IH]; intros q; [left; reflexivity|]. right. rewrite last_cons. apply IH. }
  destruct (in_range lo hi d) eqn:E.
  - apply in_range_spec in E as [E1 E2].
    rewrite (fw_sum_app prev p1 (r1 ++ r2)). fold lo. rewrite (fw_sum_app lo r1 r2). fold hi.
    rewrite (fw_sum_zero_above prev p1).
    + rewrite (fw_sum_zero_below hi r2); [ring|apply ss_ascending; exact Shi|exact E2].
    + eapply Forall_impl; [|exact L1]. intros a Hale. eapply Qle_lt_trans; [exact Hale|exact E1].
  - destruct (Qlt_le_dec lo d) as [Hlo|Hlo].
    + assert (Hhi : hi < d).
      { apply Qnot_le_lt. intro C. assert (T : in_range lo hi d = true) by (apply in_range_spec; split; assumption). congruence. }
      apply fw_sum_zero_above. eapply Forall_impl; [|exact L2]. intros a Hale. eapply Qle_lt_trans; [exact Hale|exact Hhi].
    + apply fw_sum_zero_below; [apply ss_ascending; exact Slo|exact Hlo].
Qed.

Lemma skipn_zipmul n : forall c a, skipn n (zipmul c a) = zipmul (skipn n c) (skipn n a).
Proof.
  induction n as [|n IH]; intros c a; [reflexivity|].
  destruct c as [|x c]; [destruct a; reflexivity|]. destruct a as [|y a]; [simpl; destruct (skipn n c); reflexivity|].
  simpl. apply IH.
Qed.
Lemma firstn_zipmul n : forall c a, firstn n (zipmul c a) = zipmul (firstn n c) (firstn n a).
Proof.
  induction n as [|n IH]; intros c a; [reflexivity|].
  destruct c as [|x c]; [reflexivity|]. destruct a as [|y a]; [reflexivity|]. simpl. f_equal. apply IH.
Qed.
Lemma skipn_cn_bin_from_app p1 : forall prev rest ps,
  skipn (length p1) (cn_bin_from prev (p1 ++ rest) ps) = cn_bin_from (last p1 prev) rest ps.
Proof.
  induction p1 as [|x p1 IH]; intros prev rest ps; [reflexivity|].
  cbn [length app cn_bin_from skipn]. rewrite IH, last_cons. reflexivity.
Qed.
Lemma firstn_cn_bin_from_app r1 : forall lo r2 ps,
  firstn (length r1) (cn_bin_from lo (r1 ++ r2) ps) = cn_bin_from lo r1 ps.
Proof.
  induction r1 as [|x r1 IH]; intros lo r2 ps; [reflexivity|].
  cbn [length app cn_bin_from firstn]. rewrite IH. reflexivity.
Qed.
Lemma cn_bin_from_length prev r ps : length (cn_bin_from prev r ps) = length r.
Proof. revert prev; induction r; intros; simpl; auto. Qed.

Lemma dot_firstn c : forall a, dot c (firstn (length c) a) == dot c a.
Proof.
  induction c as [|x c IH]; intros a; [reflexivity|]. destruct a as [|y a]; [reflexivity|].
  cbn [length firstn dot]. rewrite IH. reflexivity.
Qed.

(* AngularTree.count WITH separation weighting: over an ascending grid prev :: p1 ++ r1 ++ r2 the
   slice of the weighted per-bin counts between the edges lo = last p1 and hi = last r1 is the
   sum over the pairs in (lo, hi] of  w * (weight of the fine bin containing the pair), for
   every list of bin weights `an` (the code uses alpha_k / sum alpha at the logarithmic bin centres) *)
Theorem weighted_count_exact prev p1 r1 r2 an ps :
  ascending (prev :: p1 ++ r1 ++ r2) -> r1 <> [] ->
  let lo := last p1 prev in let hi := last r1 lo in
  slice_sum (zipmul (cn_bin_from prev (p1 ++ r1 ++ r2) ps) an) (length p1) (length p1 + length r1)
  == qsum (map (fun p => if in_range lo hi (fst p)
                         then snd p * fine_weight (prev :: p1 ++ r1 ++ r2) an (fst p) else 0) ps).
Proof.
  intros Ha Hne. cbv zeta. unfold slice_sum.
  replace (length p1 + length r1 - length p1)%nat with (length r1) by lia.
  rewrite skipn_zipmul, firstn_zipmul, skipn_cn_bin_from_app.
  rewrite firstn_cn_bin_from_app, qsum_zipmul.
  pose proof (dot_firstn (cn_bin_from (last p1 prev) r1 ps) (skipn (length p1) an)) as DF.
  rewrite cn_bin_from_length in DF. rewrite DF, dot_bins.
  apply qsum_map_ext. intros [d w]. cbn [fst snd].
  pose proof (fw_sum_window prev p1 r1 r2 an d Ha Hne) as W. cbv zeta in W. rewrite W.
  destruct (in_range (last p1 prev) (last r1 (last p1 prev)) d); [|ring].
  rewrite (fw_sum_fine prev (p1 ++ r1 ++ r2) an d Ha). reflexivity.
Qed.

Lemma zipmul_Forall2 c c' an : Forall2 Qeq c c' -> Forall2 Qeq (zipmul c an) (zipmul c' an).
Proof.
  intro H. revert an. induction H as [|u v c c' Huv Hcc IH]; intros [|z an]; simpl; constructor.
  - rewrite Huv. reflexivity.
  - apply IH.
Qed.

(* ... and for BOTH dispatch modes of the code (cumulative counts + diff, per-bin counts + tail) *)
Corollary weighted_dispatch_exact cum prev p1 r1 r2 an ps :
  ascending (prev :: p1 ++ r1 ++ r2) -> r1 <> [] ->
  let grid := prev :: p1 ++ r1 ++ r2 in
  let lo := last p1 prev in let hi := last r1 lo in
  slice_sum (zipmul (dispatch cum (if cum then cn_cum grid ps else cn_bin grid ps)) an)
            (length p1) (length p1 + length r1)
  == qsum (map (fun p => if in_range lo hi (fst p) then snd p * fine_weight grid an (fst p) else 0) ps).
Proof.
  intros Ha Hne. cbv zeta.
  rewrite <- (weighted_count_exact prev p1 r1 r2 an ps Ha Hne). unfold slice_sum.
  apply qsum_Forall2, Forall2_firstn, Forall2_skipn, zipmul_Forall2.
  apply (dispatch_bins cum (prev :: p1 ++ r1 ++ r2) ps Ha).
Qed.

(* ------------------------------------------------------------------ *)
(* 8. stored patch radii: the radius measured around the STORED centre covers the patch, is the
      least such radius, and makes the pruning sound without any hypothesis on where the data sit
      relative to the centre; a radius measured around another point (e.g. the mean of the data
      while the given centre is stored) is refuted *)
Lemma qmax_list_le l r : 0 <= r -> (forall x, In x l -> x <= r) -> qmax_list l <= r.
Proof.
  intros Hr. induction l as [|y l IH]; intros H; simpl; [exact Hr|].
  unfold qmax, Qleb. destruct (Qle_bool y (qmax_list l)) eqn:E.
  - apply IH. intros x Hx. apply H. right. exact Hx.
  - apply H. left. reflexivity.
Qed.
Lemma qmax_list_nonneg l : 0 <= qmax_list l.
Proof.
  induction l as [|y l IH]; simpl; [apply Qle_refl|].
  eapply Qle_trans; [exact IH|apply qmax_ge_r].
Qed.

Section Radius.
  Context {P : Type} (ang : P -> P -> Q).
  Context (ang_sym : forall a b, ang a b == ang b a)
          (ang_tri : forall a b c, ang a c <= ang a b + ang b c).

  Theorem radius_of_covers c (A : list (P * Q)) a : In a A -> ang (fst a) c <= radius_of ang c A.
  Proof.
    intros Ha. unfold radius_of. apply qmax_list_ge.
    apply (in_map (fun a => ang (fst a) c)). exact Ha.
  Qed.

  Theorem radius_of_least c (A : list (P * Q)) r :
    0 <= r -> (forall a, In a A -> ang (fst a) c <= r) -> radius_of ang c A <= r.
  Proof.
    intros Hr H. unfold radius_of. apply qmax_list_le; [exact Hr|].
    intros x Hx. apply in_map_iff in Hx as [a [<- Ha]]. apply H. exact Ha.
  Qed.

  Theorem extent_covers c (cats : list (P * list (P * Q))) c' A a :
    In (c', A) cats -> In a A -> ang (fst a) c <= extent_of ang c cats.
  Proof.
    intros Hc Ha. unfold extent_of.
    eapply Qle_trans; [apply (ang_tri (fst a) c' c)|].
    eapply Qle_trans; [|apply qmax_list_ge;
      apply (in_map (fun cA => radius_of ang (fst cA) (snd cA) + ang c (fst cA))); exact Hc].
    simpl. apply Qplus_le_compat; [apply radius_of_covers; exact Ha|].
    rewrite (ang_sym c' c). apply Qle_refl.
  Qed.

  Theorem prune_sound_stored_radii ci cj (catsi catsj : list (P * list (P * Q))) c1 c2 A B M lo hi :
    In (c1, A) catsi -> In (c2, B) catsj ->
    ~ (ang ci cj <= extent_of ang ci catsi + extent_of ang cj catsj + M) -> hi <= M ->
    w_in lo hi (pairs_of ang A B) == 0.
  Proof.
    intros HA HB Hun Hhi.
    apply (prune_sound_le ang ang_sym ang_tri ci cj (extent_of ang ci catsi) (extent_of ang cj catsj) M lo hi A B);
      try assumption.
    - intros a Ha. eapply extent_covers; eassumption.
    - intros b Hb. eapply extent_covers; eassumption.
  Qed.
End Radius.

Theorem prune_offcentre_radius_refuted :
  exists (ang : Q -> Q -> Q) ci cj mi mj M lo hi (A B : list (Q * Q)),
    (forall a b, ang a b == ang b a) /\ (forall a b c, ang a c <= ang a b + ang b c) /\
    (forall a, In a A -> ang (fst a) ci <= ang (fst a) cj) /\
    (forall b, In b B -> ang (fst b) cj <= ang (fst b) ci) /\
    ~ (ang ci cj <= radius_of ang mi A + radius_of ang mj B + M) /\ hi <= M /\
    ~ w_in lo hi (pairs_of ang A B) == 0.
Proof.
  exists (fun a b => Qabs (a - b)), 0, 10, 4, 6, 3, 0, 3, [(4, 1)], [(6, 1)].
  split; [|split; [|split; [|split; [|split; [|split]]]]].
  - intros a b. setoid_replace (a - b) with (- (b - a)) by ring. apply Qabs_opp.
  - intros a b c. setoid_replace (a - c) with ((a - b) + (b - c)) by ring. apply Qabs_triangle.
  - intros a [<-|[]]. vm_compute. discriminate.
  - intros b [<-|[]]. vm_compute. discriminate.
  - vm_compute. intro H. apply H. reflexivity.
  - vm_compute. discriminate.
  - vm_compute. intro H. discriminate.
Qed.

Lemma covered_spec c t A : covered c t A = true <-> forall o, In o A -> dist2 o c <= t.
Proof.
  unfold covered. rewrite forallb_forall. split; intros H o Ho.
  - apply Qle_bool_iff. apply (H o Ho).
  - apply Qle_bool_iff. apply (H o Ho).
Qed.
Theorem radius2_covers c A : covered c (radius2 c A) A = true.
Proof.
  apply covered_spec. intros o Ho. unfold radius2. apply qmax_list_ge.
  apply (in_map (fun o => dist2 o c)). exact Ho.
Qed.
Theorem covered_mono c t t' A : t <= t' -> covered c t A = true -> covered c t' A = true.
Proof.
  intros Ht H. apply covered_spec. intros o Ho. eapply Qle_trans; [|exact Ht].
  apply (proj1 (covered_spec c t A) H o Ho).
Qed.
(* a passing coverage case: every object of every patch lies within the upper threshold *)
Theorem cover_case_sound C cens tlo thi i o :
  c01_cover_case C cens tlo thi = 0%nat -> (i < length cens)%nat -> In o (sel C i None) ->
  dist2 o (nth i cens obj_origin) <= nth i thi 0.
Proof.
  unfold c01_cover_case, code. simpl. intros H Hi Ho.
  match type of H with (?a + (?b + 0))%nat = _ =>
    assert (Hb : b = 0%nat) by lia end.
  match type of Hb with (if ?f then _ else _) = _ => destruct f eqn:E; [|discriminate] end.
  rewrite forallb_forall in E. specialize (E i). rewrite in_seq in E.
  assert (Hc := E ltac:(lia)). simpl in Hc.
  apply (proj1 (covered_spec _ _ _) Hc o Ho).
Qed.
Example cover_concrete :
  let o := fun x p => {| ox := x; oy := 0; oz := 0; ow := 1; obin := 1; opatch := p |} in
  c01_cover_case [o 3%Z 0%nat; o 4%Z 0%nat; o 6%Z 1%nat] [o 0%Z 0%nat; o 10%Z 1%nat] [16; 16] [16; 16] = 0%nat /\
  c01_cover_case [o 3%Z 0%nat; o 4%Z 0%nat; o 6%Z 1%nat] [o 0%Z 0%nat; o 10%Z 1%nat] [0; 0] [1; 0] = 3%nat.
Proof. vm_compute. split; reflexivity. Qed.
