(* C17 — proofs about Model/Cursors.v: cursors that own their position are independent of each other;
   a position shared per (object, axis) is not. *)
From Verif Require Import Prelude Containers ContainersP Cursors.
Open Scope nat_scope.

Section MachineP.
Context {A : Type}.
Variable len : source -> nat.
Variable get : source -> selector -> option A.

Lemma next_at_fst s j : fst (next_at len get s j) = yield len get s j.
Proof. unfold next_at, yield, look. destruct (j <? len s); [destruct (get s _)|]; reflexivity. Qed.
Lemma next_at_snd_lt s j :
  total_get len get -> j < len s -> snd (next_at len get s j) = S j.
Proof.
  intros T H. unfold next_at. destruct (Nat.ltb_spec j (len s)); [|lia].
  destruct (get s (SInt (Z.of_nat j))) eqn:E; [reflexivity|]. exfalso. exact (T s j H E).
Qed.
Lemma next_at_snd_ge s j : len s <= j -> snd (next_at len get s j) = j.
Proof. intros H. unfold next_at. destruct (Nat.ltb_spec j (len s)); [lia|reflexivity]. Qed.
Lemma yield_min s c : yield len get s (Nat.min c (len s)) = yield len get s c.
Proof.
  destruct (Nat.lt_ge_cases c (len s)) as [H|H].
  - rewrite Nat.min_l by lia. reflexivity.
  - rewrite Nat.min_r by lia. unfold yield.
    destruct (Nat.ltb_spec (len s) (len s)); [lia|]. destruct (Nat.ltb_spec c (len s)); [lia|]. reflexivity.
Qed.

(* ---------------- the machine satisfies the statement ---------------- *)
(* the table holds, for every cursor, the number of its next() calls capped at the length *)
Definition inv (t : ctab) (hist : list cur_op) : Prop :=
  forall k, lookup k t = match consumed k hist with Some (s, c) => Some (s, Nat.min c (len s)) | None => None end.

Lemma istep_sobs t hist op :
  total_get len get -> inv t hist ->
  snd (istep len get t op) = sobs len get hist op /\ inv (fst (istep len get t op)) (op :: hist).
Proof.
  intros T I. destruct op as [k s|k|s sel|s].
  - split; [reflexivity|]. intros k'. cbn [istep fst consumed lookup].
    destruct (k =? k'); [reflexivity|apply I].
  - pose proof (I k) as Ik. cbn [istep sobs]. destruct (consumed k hist) as [[s c]|] eqn:E.
    + rewrite Ik. cbn [fst snd]. split.
      * rewrite next_at_fst. apply yield_min.
      * intros k'. cbn [consumed lookup]. destruct (k =? k') eqn:Ek; [|apply I].
        apply Nat.eqb_eq in Ek. subst k'. rewrite E. f_equal. f_equal.
        destruct (Nat.lt_ge_cases c (len s)) as [H|H].
        -- rewrite (Nat.min_l c) by lia. rewrite next_at_snd_lt by assumption. rewrite Nat.min_l by lia. reflexivity.
        -- rewrite (Nat.min_r c) by lia. rewrite next_at_snd_ge by lia. rewrite Nat.min_r by lia. reflexivity.
    + rewrite Ik. cbn [fst snd]. split; [reflexivity|].
      intros k'. cbn [consumed]. destruct (k =? k') eqn:Ek; [|apply I].
      apply Nat.eqb_eq in Ek. subst k'. rewrite E. exact Ik.
  - split; [reflexivity|]. intros k'. cbn [istep fst consumed]. apply I.
  - split; [reflexivity|]. intros k'. cbn [istep fst consumed]. apply I.
Qed.

Lemma itrace_strace_from ops :
  total_get len get -> forall t hist, inv t hist -> itrace len get t ops = strace len get hist ops.
Proof.
  intros T. induction ops as [|op r IH]; intros t hist I; [reflexivity|].
  cbn [itrace strace]. destruct (istep_sobs t hist op T I) as [E I']. rewrite E. f_equal. apply IH. exact I'.
Qed.
(* for every sequence of operations: what the own-position machine returns is what the statement says *)
Theorem irun_srun ops : total_get len get -> irun len get ops = srun len get ops.
Proof.
  intros T. unfold irun, srun. rewrite (itrace_strace_from ops T [] []); [reflexivity|].
  intros k. reflexivity.
Qed.

(* ---------------- cursors do not interfere ---------------- *)
Lemma istep_same k t t' op :
  mentions k op = true -> lookup k t = lookup k t' ->
  snd (istep len get t op) = snd (istep len get t' op)
  /\ lookup k (fst (istep len get t op)) = lookup k (fst (istep len get t' op)).
Proof.
  intros M H. destruct op as [k' s|k'|s sel|s]; cbn [mentions] in M; try discriminate.
  - cbn [istep fst snd lookup]. rewrite M. split; reflexivity.
  - apply Nat.eqb_eq in M. subst k'. cbn [istep]. rewrite H.
    destruct (lookup k t') as [[s i]|] eqn:L; cbn [fst snd lookup].
    + rewrite Nat.eqb_refl. split; reflexivity.
    + split; [reflexivity|rewrite H, L; reflexivity].
Qed.
Lemma istep_other k t op :
  mentions k op = false -> lookup k (fst (istep len get t op)) = lookup k t.
Proof.
  intros M. destruct op as [k' s|k'|s sel|s]; cbn [mentions] in M; cbn [istep fst]; try reflexivity.
  - cbn [lookup]. rewrite M. reflexivity.
  - destruct (lookup k' t) as [[s i]|]; cbn [fst lookup]; [rewrite M|]; reflexivity.
Qed.

(* in ANY interleaving, what cursor k observes is what it observes when its operations run alone *)
Theorem cursor_noninterference_from ops : forall t t' k,
  lookup k t = lookup k t' ->
  own k (itrace len get t ops) = itrace len get t' (filter (mentions k) ops).
Proof.
  induction ops as [|op r IH]; intros t t' k H; [reflexivity|].
  cbn [itrace filter]. unfold own. cbn [filter fst]. destruct (mentions k op) eqn:M.
  - destruct (istep_same k t t' op M H) as [E1 E2]. cbn [itrace]. rewrite E1. f_equal.
    apply IH. exact E2.
  - apply IH. rewrite (istep_other k t op M). exact H.
Qed.
Theorem cursor_noninterference ops k :
  own k (itrace len get [] ops) = itrace len get [] (filter (mentions k) ops).
Proof. apply cursor_noninterference_from. reflexivity. Qed.

(* ---------------- a cursor alone ---------------- *)
Lemma strace_nexts k s m : forall hist c,
  consumed k hist = Some (s, c) ->
  map snd (strace len get hist (repeat (CNext k) m)) = map (yield len get s) (seq c m).
Proof.
  induction m as [|m IH]; intros hist c E; [reflexivity|].
  cbn [repeat strace map seq snd sobs]. rewrite E. f_equal. apply IH.
  cbn [consumed]. rewrite Nat.eqb_refl, E. reflexivity.
Qed.

(* THE theorem: whatever else happens in between (other cursors over the same or other containers being
   created and advanced, indexing, slicing, lengths), the j-th next() of a cursor yields item j of its
   source for j < n and StopIteration from then on *)
Theorem interleaving_own_sequence ops k s m :
  total_get len get ->
  filter (mentions k) ops = CNew k s :: repeat (CNext k) m ->
  map snd (own k (itrace len get [] ops)) = BNone :: map (yield len get s) (seq 0 m).
Proof.
  intros T F. rewrite cursor_noninterference, F.
  rewrite (itrace_strace_from _ T [] []) by (intros k'; reflexivity).
  cbn [strace map snd sobs]. f_equal. apply strace_nexts. cbn [consumed]. rewrite Nat.eqb_refl. reflexivity.
Qed.

(* a complete pass (n + 1 calls): the items 0 .. n-1 in order, then StopIteration *)
Theorem interleaving_complete_pass ops k s (item : nat -> A) :
  (forall j, j < len s -> get s (SInt (Z.of_nat j)) = Some (item j)) ->
  total_get len get ->
  filter (mentions k) ops = CNew k s :: repeat (CNext k) (S (len s)) ->
  map snd (own k (itrace len get [] ops)) = BNone :: map BItem (tab (len s) item) ++ [BStop].
Proof.
  intros G T F. rewrite (interleaving_own_sequence ops k s (S (len s)) T F). f_equal.
  rewrite seq_S, map_app. cbn [map plus]. f_equal.
  - unfold tab. rewrite map_map. apply map_ext_in. intros j Hj. apply in_seq in Hj.
    unfold yield, look. destruct (Nat.ltb_spec j (len s)); [|lia]. rewrite G by lia. reflexivity.
  - unfold yield. destruct (Nat.ltb_spec (len s) (len s)); [lia|reflexivity].
Qed.

(* ---------------- the shared position: harmless while only one cursor is ever used ---------------- *)
Definition only_cursor (k : nat) (op : cur_op) : Prop :=
  match op with CNew k' _ => k' = k | CNext k' => k' = k | _ => True end.
Definition hrel (k : nat) (t : ctab) (h : htab) : Prop :=
  match lookup k t with
  | Some (s, i) => src_of k (fst h) = Some s /\ pos_of s (snd h) = i
  | None => src_of k (fst h) = None
  end.
Lemma source_eqb_refl s : source_eqb s s = true.
Proof. destruct s as [o a]. unfold source_eqb. cbn [fst snd]. rewrite Nat.eqb_refl. destruct a; reflexivity. Qed.
Lemma hstep_istep k t h op :
  only_cursor k op -> hrel k t h ->
  snd (hstep len get h op) = snd (istep len get t op) /\ hrel k (fst (istep len get t op)) (fst (hstep len get h op)).
Proof.
  intros O R. destruct op as [k' s|k'|s sel|s]; cbn [only_cursor] in O.
  - subst k'. split; [reflexivity|]. unfold hrel. cbn [istep hstep fst snd lookup src_of pos_of].
    rewrite Nat.eqb_refl, source_eqb_refl. split; reflexivity.
  - subst k'. unfold hrel in R. cbn [istep hstep]. destruct (lookup k t) as [[s i]|] eqn:L.
    + destruct R as [R1 R2]. rewrite R1, R2. cbn [fst snd]. split; [reflexivity|].
      unfold hrel. cbn [lookup fst snd pos_of]. rewrite Nat.eqb_refl, source_eqb_refl. split; [exact R1|reflexivity].
    + rewrite R. cbn [fst snd]. split; [reflexivity|]. unfold hrel. rewrite L. exact R.
  - split; [reflexivity|exact R].
  - split; [reflexivity|exact R].
Qed.
Theorem shared_single_cursor_ok ops k :
  Forall (only_cursor k) ops -> hrun len get ops = irun len get ops.
Proof.
  intros F. unfold hrun, irun.
  assert (G : forall t h, hrel k t h -> map snd (htrace len get h ops) = map snd (itrace len get t ops)).
  { induction F as [|op r O F IH]; intros t h R; [reflexivity|].
    cbn [htrace itrace map snd]. destruct (hstep_istep k t h op O R) as [E R']. rewrite E. f_equal.
    apply IH. exact R'. }
  apply G. unfold hrel. reflexivity.
Qed.
End MachineP.

(* ---------------- ... and wrong as soon as two cursors over one container are alive ---------------- *)
(* zip(x.bins, x.bins) on 4 bins: the pairs (0,0) (1,1) (2,2) (3,3); with the shared position (0,1) (2,3)
   and then the end.  Nested loops over 2 bins: 2 x 2 pairs; with the shared position the outer loop
   ends after its first round. *)
Theorem shared_position_refuted :
  irun (toy_len 4) (toy_get 4) zip_4
    = [BNone; BNone; BItem 0; BItem 0; BItem 1; BItem 1; BItem 2; BItem 2; BItem 3; BItem 3; BStop]
  /\ hrun (toy_len 4) (toy_get 4) zip_4
    = [BNone; BNone; BItem 0; BItem 1; BItem 2; BItem 3; BStop; BStop; BStop; BStop; BStop]
  /\ irun (toy_len 2) (toy_get 2) nested_2x2
    = [BNone; BItem 0; BNone; BItem 0; BItem 1; BStop; BItem 1; BNone; BItem 0; BItem 1; BStop; BStop]
  /\ hrun (toy_len 2) (toy_get 2) nested_2x2
    = [BNone; BItem 0; BNone; BItem 0; BItem 1; BStop; BStop; BNone; BItem 0; BItem 1; BStop; BStop]
  /\ srun (toy_len 4) (toy_get 4) zip_4 <> hrun (toy_len 4) (toy_get 4) zip_4
  /\ srun (toy_len 2) (toy_get 2) nested_2x2 <> hrun (toy_len 2) (toy_get 2) nested_2x2.
Proof. vm_compute. repeat split; try reflexivity; intros H; discriminate H. Qed.

(* ---------------- pair-count containers as sources ---------------- *)
Lemma oseq_map_inv {B C} (f : B -> option C) (g : B -> C) : forall l,
  oseq (map f l) = Some (map g l) -> forall x, In x l -> f x = Some (g x).
Proof.
  induction l as [|a l IH]; intros H x Hx; [destruct Hx|].
  cbn [map oseq] in H. destruct (f a) as [v|] eqn:E; [|discriminate].
  destruct (oseq (map f l)) as [r|] eqn:E2; [|discriminate]. cbn [omap] in H. injection H as H1 H2.
  destruct Hx as [<-|Hx]; [rewrite E, H1; reflexivity|]. apply IH; [rewrite H2; reflexivity|exact Hx].
Qed.
Lemma oseq_tab_inv {C} n (f : nat -> option C) (g : nat -> C) :
  oseq (tab n f) = Some (tab n g) -> forall i, i < n -> f i = Some (g i).
Proof. unfold tab. intros H i Hi. apply (oseq_map_inv f g _ H). apply in_seq. lia. Qed.

Definition pc_axis_len (c : pcounts) (a : axis) : nat :=
  match a with ABins => nbins (pc_bin c) | APatches => pc_np c end.
Definition pc_axis_item (c : pcounts) (a : axis) (j : nat) : cval :=
  match a with ABins => VPC (pc_bin_item c j) | APatches => VPC (pc_patch_item c j) end.

Lemma pc_get_item c a j :
  pc_wfb c = true -> j < pc_axis_len c a ->
  c_get [VPC c] (0, a) (SInt (Z.of_nat j)) = Some (pc_axis_item c a j).
Proof.
  intros W H. unfold c_get. cbn [fst snd nth_error]. destruct a; cbn [pc_axis_len] in H; cbn [v_bins v_patches pc_axis_item].
  - pose proof (pc_iter_bins_b c W) as I. rewrite iteration_lists_all in I.
    rewrite (oseq_tab_inv _ _ _ I j H). reflexivity.
  - pose proof (pc_iter_patches c) as I. rewrite iteration_lists_all in I.
    rewrite (oseq_tab_inv _ _ _ I j H). reflexivity.
Qed.
Lemma pc_total_get c : pc_wfb c = true -> total_get (c_len [VPC c]) (c_get [VPC c]).
Proof.
  intros W [o a] i H. unfold c_len in H. cbn [fst snd] in H. destruct o as [|o].
  - cbn [nth_error] in H. rewrite (pc_get_item c a i W); [discriminate|].
    destruct a; exact H.
  - destruct o; cbn [nth_error] in H; lia.
Qed.

(* every loop over c.bins / c.patches of a well-formed PatchedCounts, in any interleaving with other loops
   over the same container, sees exactly the items c.bins[0] .. c.bins[n-1] (c.patches[...]) and ends *)
Theorem pc_cursor_sequence c ops k a :
  pc_wfb c = true ->
  filter (mentions k) ops = CNew k (0, a) :: repeat (CNext k) (S (pc_axis_len c a)) ->
  map snd (own k (itrace (c_len [VPC c]) (c_get [VPC c]) [] ops))
  = BNone :: map BItem (tab (pc_axis_len c a) (pc_axis_item c a)) ++ [BStop].
Proof.
  intros W F.
  assert (L : c_len [VPC c] (0, a) = pc_axis_len c a) by (destruct a; reflexivity).
  rewrite <- L in F |- *.
  apply (interleaving_complete_pass (c_len [VPC c]) (c_get [VPC c]) ops k (0, a) (pc_axis_item c a)).
  - intros j Hj. apply pc_get_item; [exact W|]. rewrite <- L. exact Hj.
  - apply pc_total_get. exact W.
  - exact F.
Qed.

(* the statement and the machine coincide on every sequence of operations over such a container, so the
   two flags of c17_cursor_case judge the same thing *)
Theorem pc_cursor_run_spec c ops :
  pc_wfb c = true -> irun (c_len [VPC c]) (c_get [VPC c]) ops = srun (c_len [VPC c]) (c_get [VPC c]) ops.
Proof. intros W. apply irun_srun. apply pc_total_get. exact W. Qed.
