(* Proofs about Model/MpiWrite.v: conservation of records in the MPI write pipeline, no loss
   with synchronous sends, no loss with eager sends and a single sending rank, and the
   refutation for eager sends with >= 2 sending ranks (finding F13b); error paths: termination
   of synchronising collectives iff the ranks' call sequences agree (finding F23).  No axioms. *)
From Verif Require Import Prelude Dispatch DispatchP MpiWrite.
From Coq Require Import Permutation.
From AAC_tactics Require Import AAC.
From AAC_tactics Require Instances.
Import Instances.Lists.
Open Scope nat_scope.
Set Implicit Arguments.

Lemma cons_app' A (x : A) l : x :: l = [x] ++ l. Proof. reflexivity. Qed.
Ltac perm_solve :=
  repeat match goal with
  | |- context [?x :: ?l] => lazymatch l with nil => fail | _ => rewrite (cons_app' x l) end
  end; aac_reflexivity.

Section MpiWriteP.
Context {A : Type}.
Local Notation wst := (MpiWrite.wst A).
Local Notation wk := (MpiWrite.wk A).
Local Notation payload := (MpiWrite.payload A).
Local Notation chunk := (MpiWrite.chunk A).

Definition wrecs (w : wk) : list A := concat (winb w).
Definition own_of (p : wpc A) : list A := match p with WSend own => own | _ => [] end.

(* every input record is in exactly one place *)
Definition conserved (cs0 : list chunk) (s : wst) : Prop :=
  Permutation (all_recs cs0)
    (stored s ++ dicts (rch s) ++ flat_map dicts (wch s) ++ flat_map wrecs (wks s)
     ++ own_of (rp s) ++ all_recs (chunks s)).

Lemma dicts_app (a b : list payload) : dicts (a ++ b) = dicts a ++ dicts b.
Proof. unfold dicts. apply flat_map_app. Qed.

Lemma fm_mid' B C (g : B -> list C) l1 w l2 :
  flat_map g (l1 ++ w :: l2) = flat_map g l1 ++ g w ++ flat_map g l2.
Proof. rewrite flat_map_app. reflexivity. Qed.

Lemma deliver_perm (ds : list (list A)) (l : list wk) :
  length ds = length l ->
  Permutation (flat_map wrecs (deliver ds l)) (flat_map wrecs l ++ concat ds).
Proof.
  revert l. induction ds as [|d ds IH]; intros [|w l] H; simpl in *; try discriminate.
  - constructor.
  - injection H as H. specialize (IH l H).
    unfold wrecs at 1. cbn [winb]. rewrite concat_app. simpl. rewrite app_nil_r.
    fold (wrecs w). rewrite IH. perm_solve.
Qed.

Lemma deliver_nil (ds : list (list A)) : deliver ds (@nil wk) = [].
Proof. destruct ds; reflexivity. Qed.

Lemma all_recs_cons (c : chunk) cs : all_recs (c :: cs) = fst c ++ concat (snd c) ++ all_recs cs.
Proof. unfold all_recs. simpl. unfold chunk_recs. rewrite <- app_assoc. reflexivity. Qed.

Ltac split_at Hn w' :=
  let l1 := fresh "l1" in let l2 := fresh "l2" in
  let E := fresh "E" in let E' := fresh "E'" in let Hl := fresh "Hl" in
  destruct (@upd_split _ _ _ _ w' Hn) as (l1 & l2 & E & E' & Hl); rewrite E' in *; clear E'; subst.

Lemma conserved_init cs k : conserved cs (winit cs k).
Proof.
  unfold conserved, winit; cbn [rp chunks wks rch wch stopped stored own_of].
  assert (E1 : flat_map dicts (repeat (@nil payload) k) = []) by (induction k; simpl; auto).
  assert (E2 : flat_map wrecs (repeat (@mkWk A [] false) k) = []) by (induction k; simpl; auto).
  rewrite E1, E2. simpl. apply Permutation_refl.
Qed.

Lemma conserved_step dm sm cs0 s s' : conserved cs0 s -> wstep dm sm s s' -> conserved cs0 s'.
Proof.
  intros Hc Hst. unfold conserved in *.
  inversion Hst; subst; cbn [rp chunks wks rch wch stopped stored own_of] in *.
  - (* scatter *)
    rewrite all_recs_cons in Hc. cbn [fst snd] in Hc.
    rewrite (deliver_perm _ _ H). etransitivity; [exact Hc|]. perm_solve.
  - rewrite dicts_app. cbn [dicts flat_map]. etransitivity; [exact Hc|]. perm_solve.
  - etransitivity; [exact Hc|]. perm_solve.
  - (* proc eager *)
    split_at H0 (mkWk ds false). split_at H1 (q ++ [Dict d]).
    rewrite !fm_mid' in *. rewrite dicts_app. unfold wrecs at 2 in Hc. unfold wrecs at 2.
    cbn [winb concat dicts flat_map] in *. etransitivity; [exact Hc|]. perm_solve.
  - (* proc sync *)
    split_at H0 (mkWk ds false).
    rewrite !fm_mid' in *. unfold wrecs at 2 in Hc. unfold wrecs at 2.
    cbn [winb concat] in *. etransitivity; [exact Hc|]. perm_solve.
  - (* enter *)
    split_at H (@mkWk A [] true).
    rewrite !fm_mid' in *. unfold wrecs at 2 in Hc. unfold wrecs at 2. cbn [winb concat] in *. exact Hc.
  - exact Hc.
  - exact Hc.
  - rewrite dicts_app. cbn [dicts flat_map]. rewrite app_nil_r. exact Hc.
  - exact Hc.
  - cbn [dicts flat_map] in Hc. fold (dicts rc) in Hc. etransitivity; [exact Hc|]. perm_solve.
  - cbn [dicts flat_map] in Hc. fold (dicts rc) in Hc. exact Hc.
  - (* take from worker channel *)
    split_at H q. rewrite !fm_mid' in *. cbn [dicts flat_map] in Hc. fold (dicts q) in Hc.
    etransitivity; [exact Hc|]. perm_solve.
  - exact Hc.
Qed.

(* ---- where the protocol is: structural invariant (all modes) ---- *)
Definition past_chunks (p : wpc A) : bool :=
  match p with WBarW | WStop | WBarrier | WDone => true | _ => false end.
Definition past_bar (p : wpc A) : bool :=
  match p with WStop | WBarrier | WDone => true | _ => false end.
Definition stop_sent (p : wpc A) : bool :=
  match p with WBarrier | WDone => true | _ => false end.

Definition Wf (s : wst) : Prop :=
  (past_chunks (rp s) = true -> chunks s = [])
  /\ (past_bar (rp s) = true -> forallb wbar (wks s) = true)
  /\ Forall (fun w : wk => wbar w = true -> winb w = []) (wks s)
  /\ (existsb wbar (wks s) = true -> chunks s = [])
  /\ (stopped s = true -> stop_sent (rp s) = true)
  /\ (In Stop (rch s) -> stop_sent (rp s) = true).

Lemma Wf_init cs k : Wf (winit cs k).
Proof.
  unfold Wf, winit; cbn [rp chunks wks rch wch stopped stored]. repeat split; try discriminate.
  - apply Forall_forall. intros w Hw. apply repeat_spec in Hw. subst. discriminate.
  - intros H. exfalso. induction k; simpl in *; [discriminate|auto].
  - intros [].
Qed.

Lemma deliver_keeps (ds : list (list A)) (l : list wk) :
  existsb wbar l = false ->
  existsb wbar (deliver ds l) = false /\ forallb wbar (deliver ds l) = forallb wbar l
  /\ Forall (fun w : wk => wbar w = true -> winb w = []) (deliver ds l).
Proof.
  revert l. induction ds as [|d ds IH]; intros [|w l] H; simpl in *; auto.
  - repeat split; auto. apply Forall_forall. intros x Hx Hb. exfalso.
    destruct Hx as [<-|Hx].
    + rewrite Hb in H. discriminate.
    + apply orb_false_iff in H as [_ H]. assert (existsb wbar l = true) by (apply existsb_exists; eauto). congruence.
  - apply orb_false_iff in H as [Hw Hl]. destruct (IH l Hl) as (E1 & E2 & E3).
    cbn [wbar]. rewrite Hw, E1, E2. repeat split; auto. constructor; auto. cbn [wbar]. congruence.
Qed.

Lemma existsb_upd_same (l1 l2 : list wk) w w' :
  wbar w' = wbar w -> existsb wbar (l1 ++ w' :: l2) = existsb wbar (l1 ++ w :: l2).
Proof. intros E. rewrite !existsb_app. simpl. rewrite E. reflexivity. Qed.

Lemma forallb_upd_same (l1 l2 : list wk) w w' :
  wbar w' = wbar w -> forallb wbar (l1 ++ w' :: l2) = forallb wbar (l1 ++ w :: l2).
Proof. intros E. rewrite !forallb_app. simpl. rewrite E. reflexivity. Qed.

Lemma Forall_mid (P : wk -> Prop) l1 w w' l2 : Forall P (l1 ++ w :: l2) -> P w' -> Forall P (l1 ++ w' :: l2).
Proof. intros H Hw. apply Forall_app in H as [Ha Hb]. inversion Hb; subst. apply Forall_app; split; auto. Qed.

Lemma Wf_step dm sm s s' : Wf s -> wstep dm sm s s' -> Wf s'.
Proof.
  intros (H1 & H2 & H3 & H4 & H5 & H6) Hst. unfold Wf in *.
  inversion Hst; subst; cbn [rp chunks wks rch wch stopped stored past_chunks past_bar stop_sent] in *.
  - (* scatter: no worker is in the barrier yet *)
    assert (Hn : existsb wbar l = false).
    { destruct (existsb wbar l) eqn:E; auto. specialize (H4 eq_refl). discriminate. }
    destruct (deliver_keeps splits l Hn) as (E1 & E2 & E3).
    repeat split; try discriminate; auto. rewrite E1. discriminate.
  - repeat split; try discriminate; auto.
    intros Hin. apply in_app_or in Hin as [Hin|[Hin|[]]]; [auto|discriminate].
  - repeat split; try discriminate; auto.
  - split_at H0 (mkWk ds false).
    rewrite (forallb_upd_same l1 l2 (mkWk (d :: ds) false) (mkWk ds false) eq_refl).
    rewrite (existsb_upd_same l1 l2 (mkWk (d :: ds) false) (mkWk ds false) eq_refl).
    repeat split; auto. eapply Forall_mid; eauto. cbn [wbar]. discriminate.
  - split_at H0 (mkWk ds false).
    rewrite (forallb_upd_same l1 l2 (mkWk (d :: ds) false) (mkWk ds false) eq_refl).
    rewrite (existsb_upd_same l1 l2 (mkWk (d :: ds) false) (mkWk ds false) eq_refl).
    repeat split; auto. eapply Forall_mid; eauto. cbn [wbar]. discriminate.
  - (* enter *)
    split_at H (@mkWk A [] true).
    repeat split; auto.
    + intros Hp. specialize (H2 Hp). rewrite forallb_app in H2. simpl in H2. rewrite andb_false_r in H2. discriminate.
    + eapply Forall_mid; eauto.
  - repeat split; try discriminate; auto.
  - repeat split; try discriminate; auto.
  - repeat split; try discriminate; auto.
  - repeat split; try discriminate; auto.
  - repeat split; auto. intros Hin. apply H6. right. exact Hin.
  - (* the writer takes the sentinel: it was sent, so the reader is past the worker barrier *)
    assert (Hs : stop_sent p = true) by (apply H6; left; reflexivity).
    repeat split; auto.
  - repeat split; auto.
  - repeat split; try discriminate; auto.
Qed.

Lemma Wf_reach dm sm (cs : list chunk) k (s : wst) : wreach dm sm (winit cs k) s -> Wf s /\ conserved cs s.
Proof.
  induction 1 as [|s s' _ [IH1 IH2] Hst].
  - split; [apply Wf_init | apply conserved_init].
  - split; [eapply Wf_step; eauto | eapply conserved_step; eauto].
Qed.

Lemma all_in_barrier_empty (l : list wk) :
  Forall (fun w : wk => wbar w = true -> winb w = []) l -> forallb wbar l = true -> flat_map wrecs l = [].
Proof.
  induction 1 as [|w l Hw Hl IH]; simpl; auto. intros Hb. apply andb_true_iff in Hb as [Hb1 Hb2].
  unfold wrecs at 1. rewrite (Hw Hb1), (IH Hb2). reflexivity.
Qed.

(* once the writer has stopped, everything that is not stored is an unreceived dictionary *)
Lemma stopped_rest dm sm (cs : list chunk) k (s : wst) :
  wreach dm sm (winit cs k) s -> stopped s = true -> Permutation (all_recs cs) (stored s ++ unreceived s).
Proof.
  intros Hr Hs. destruct (Wf_reach Hr) as [(H1 & H2 & H3 & H4 & H5 & H6) Hc].
  specialize (H5 Hs). unfold conserved in Hc. unfold unreceived.
  assert (Hpb : past_bar (rp s) = true) by (destruct (rp s); simpl in *; auto; discriminate).
  assert (Hpc : past_chunks (rp s) = true) by (destruct (rp s); simpl in *; auto; discriminate).
  rewrite (H1 Hpc) in Hc. rewrite (all_in_barrier_empty H3 (H2 Hpb)) in Hc.
  assert (Ho : own_of (rp s) = []) by (destruct (rp s); simpl in *; auto; discriminate).
  rewrite Ho in Hc. simpl in Hc. rewrite app_nil_r in Hc. rewrite app_assoc in Hc. rewrite <- app_assoc in Hc. exact Hc.
Qed.

(* ---- synchronous dictionary sends (the repaired code): no dictionary is ever queued ---- *)
Definition SyncI (s : wst) : Prop := dicts (rch s) = [] /\ Forall (fun q : list payload => q = []) (wch s).

Lemma SyncI_step sm s s' : SyncI s -> wstep Sync sm s s' -> SyncI s'.
Proof.
  intros [Hr Hw] Hst. unfold SyncI in *.
  inversion Hst; subst; cbn [rp chunks wks rch wch stopped stored] in *; try discriminate; auto.
  - (* the sentinel is appended eagerly: it carries no records *)
    split; auto. rewrite dicts_app, Hr. reflexivity.
  - cbn [dicts flat_map] in Hr. apply app_eq_nil in Hr as [_ Hr]. split; auto.
  - exfalso. eapply Forall_forall in Hw; [|eapply nth_error_In; eauto]. discriminate.
Qed.

(* the repaired write pipeline: dictionaries sent with ssend, the sentinel (and the scatter)
   with any send mode, ANY number k of further sending ranks, every schedule: when the writer
   stops it has stored every record and nothing is left unreceived *)
Theorem write_ssend_no_loss sm (cs : list chunk) k (s : wst) :
  wreach Sync sm (winit cs k) s -> stopped s = true ->
  Permutation (all_recs cs) (stored s) /\ unreceived s = [].
Proof.
  intros Hr Hs.
  assert (HI : SyncI s).
  { clear Hs. induction Hr; [|eapply SyncI_step; eauto].
    unfold SyncI, winit; cbn [rch wch]. split; auto. apply Forall_forall. intros q Hq. apply repeat_spec in Hq. exact Hq. }
  pose proof (stopped_rest Hr Hs) as Hp. destruct HI as [E1 E2].
  assert (E : unreceived s = []).
  { unfold unreceived. rewrite E1. simpl. clear - E2. induction E2; simpl; auto. subst. simpl. auto. }
  rewrite E, app_nil_r in Hp. auto.
Qed.

(* all sends synchronous: a special case *)
Theorem write_sync_no_loss (cs : list chunk) k (s : wst) :
  wreach Sync Sync (winit cs k) s -> stopped s = true ->
  Permutation (all_recs cs) (stored s) /\ unreceived s = [].
Proof. apply write_ssend_no_loss. Qed.

(* ---- eager sends, a single sending rank (max_workers = 2: the reader is the only sender) ---- *)
Definition Single (s : wst) : Prop :=
  wks s = [] /\ wch s = []
  /\ (forall a b, rch s = a ++ Stop :: b -> b = [])
  /\ (stopped s = true -> rch s = []).

Lemma nth_error_nil_none B j (x : B) : nth_error (@nil B) j = Some x -> False.
Proof. destruct j; discriminate. Qed.

Lemma Single_step sm s s' : Wf s -> Single s -> wstep Eager sm s s' -> Single s'.
Proof.
  intros (H1 & H2 & H3 & H4 & H5 & H6) (Hk & Hc & Hs & Ht) Hst. unfold Single in *.
  inversion Hst; subst; cbn [rp chunks wks rch wch stopped stored stop_sent] in *; subst;
    try discriminate; try (exfalso; eapply nth_error_nil_none; eassumption).
  - rewrite deliver_nil. repeat split; auto.
  - (* the reader appends a dictionary: the sentinel has not been sent *)
    repeat split; auto.
    + intros a b E. exfalso.
      assert (Hin : In Stop (rc ++ [Dict own])) by (rewrite E; apply in_or_app; right; left; reflexivity).
      apply in_app_or in Hin as [Hin|[Hin|[]]]; [specialize (H6 Hin); discriminate|discriminate].
    + intros Hst'. specialize (H5 Hst'). discriminate.
  - repeat split; auto.
  - repeat split; auto.
  - (* the reader appends the sentinel: none was there *)
    repeat split; auto.
    + intros a b E. destruct b as [|x b _] using rev_ind; auto. exfalso.
      rewrite app_comm_cons, app_assoc in E. apply app_inj_tail in E as [E _].
      assert (Hin : In Stop rc) by (rewrite E; apply in_or_app; right; left; reflexivity).
      specialize (H6 Hin). discriminate.
    + intros Hst'. specialize (H5 Hst'). discriminate.
  - (* synchronous sentinel: only when nothing older of the reader is queued *)
    repeat split; auto; intros a b E; destruct a; discriminate.
  - repeat split; auto.
    + intros a b E. apply (Hs (Dict d :: a) b). rewrite E. reflexivity.
    + discriminate.
  - repeat split; auto.
    + intros a b E. apply (Hs (Stop :: a) b). rewrite E. reflexivity.
    + intros _. apply (Hs [] rc). reflexivity.
  - repeat split; auto.
Qed.

Theorem write_eager_single_sender_no_loss sm (cs : list chunk) (s : wst) :
  wreach Eager sm (winit cs 0) s -> stopped s = true ->
  Permutation (all_recs cs) (stored s) /\ unreceived s = [].
Proof.
  intros Hr Hs.
  assert (HI : Single s).
  { clear Hs. induction Hr.
    - unfold Single, winit; cbn [wks wch rch stopped]. repeat split; auto; try discriminate.
      intros a b E. destruct a; discriminate.
    - eapply Single_step; eauto. apply (Wf_reach Hr). }
  pose proof (stopped_rest Hr Hs) as Hp. destruct HI as (_ & E2 & _ & E4).
  assert (E : unreceived s = []) by (unfold unreceived; rewrite E2, (E4 Hs); reflexivity).
  rewrite E, app_nil_r in Hp. auto.
Qed.

(* ---- the executable step is the relation (eager) ---- *)
Ltac dmw :=
  match goal with
  | H : context [match ?x with _ => _ end] |- _ => destruct x eqn:?; try discriminate
  end.

Lemma wstep_with_sound c (s s' : wst) : wstep_with c s = Some s' -> wstep Eager Eager s s'.
Proof.
  destruct s as [p cs l rc wc st sd]. unfold wstep_with; cbn [rp chunks wks rch wch stopped stored]. intros H.
  destruct c; repeat dmw; injection H as <-; subst;
  repeat match goal with H : (_ =? _) = true |- _ => apply Nat.eqb_eq in H end.
  - apply w_scatter; auto.
  - apply w_rsend_eager; auto.
  - eapply w_proc_eager; eauto.
  - eapply w_enter; eauto.
  - apply w_renter.
  - apply w_barrier; auto.
  - apply w_rstop_eager; auto.
  - apply w_take_r.
  - apply w_take_stop.
  - eapply w_take_w; eauto.
  - apply w_final.
Qed.

Lemma wrun_sound cs (s s' : wst) : wrun cs s = Some s' -> wreach Eager Eager s s'.
Proof.
  revert s. induction cs as [|c cs IH]; simpl; intros s H.
  - injection H as <-. constructor.
  - destruct (wstep_with c s) as [s1|] eqn:E; [|discriminate].
    specialize (IH s1 H). clear H.
    induction IH; [eapply wreach_step; [apply wreach_refl|eapply wstep_with_sound; exact E]|eapply wreach_step; eauto].
Qed.

End MpiWriteP.

(* ---- F13b: eager sends, two sending ranks: the sentinel overtakes ---- *)
Theorem write_eager_overtake_refuted :
  exists s : wst nat,
    wreach Eager Eager (winit f13b_chunks 1) s /\ rp s = WDone /\ stopped s = true /\
    wch s = [[Dict [2]]] /\ stored s = [1] /\
    ~ Permutation (all_recs f13b_chunks) (stored s).
Proof.
  destruct (wrun f13b_choices (winit f13b_chunks 1)) as [s|] eqn:E; [|vm_compute in E; discriminate].
  exists s. pose proof (wrun_sound _ _ E) as Hr. vm_compute in E. injection E as <-.
  cbn [rp stopped wch stored]. repeat split; auto.
  intros HP. apply Permutation_length in HP. discriminate.
Qed.

(* ---- error paths under MPI: alignment of collective calls (model at the end of Model/MpiWrite.v) ----
   A world of synchronising collectives terminates on all ranks iff all ranks enter the same
   sequence of calls; otherwise it runs into a state that is stuck for good.  Hence a refusal
   decided by every rank terminates everywhere, a refusal detected by only some ranks blocks
   the others (whatever the caller does next). *)
From Coq Require Import Lia.
Definition alleq (w : cworld) : Prop := forall t u, In t w -> In u w -> t = u.

Lemma aligned_alleq w : aligned w = true <-> alleq w.
Proof.
  destruct w as [|t0 r]; simpl.
  - split; [intros _ t u []|reflexivity].
  - rewrite forallb_forall. split.
    + intros H t u Ht Hu.
      assert (E : forall x, In x (t0 :: r) -> x = t0).
      { intros x [<-|Hx]; [reflexivity|]. symmetry. apply nlist_eqb_eq. apply H, Hx. }
      rewrite (E t Ht), (E u Hu). reflexivity.
    + intros H x Hx. apply nlist_eqb_eq. apply H; simpl; auto.
Qed.

Lemma alleq_tl w : alleq w -> alleq (map (@tl nat) w).
Proof.
  intros H t u Ht Hu. apply in_map_iff in Ht as (t1 & <- & Ht1). apply in_map_iff in Hu as (u1 & <- & Hu1).
  rewrite (H t1 u1 Ht1 Hu1). reflexivity.
Qed.

Lemma cterminates_alleq w : cterminates w -> alleq w.
Proof.
  intros (w' & Hr & Hd). induction Hr as [w|w w1 w2 Hs Hr IH].
  - intros t u Ht Hu. rewrite (Hd t Ht), (Hd u Hu). reflexivity.
  - specialize (IH Hd). destruct Hs as [k w Hne Hk].
    intros t u Ht Hu.
    destruct (Hk t Ht) as (t' & ->). destruct (Hk u Hu) as (u' & ->).
    f_equal. apply (IH t' u').
    + change t' with (tl (k :: t')). apply in_map, Ht.
    + change u' with (tl (k :: u')). apply in_map, Hu.
Qed.

Lemma alleq_cterminates w : alleq w -> cterminates w.
Proof.
  destruct w as [|t0 r].
  - intros _. exists []. split; [constructor|intros t []].
  - remember (t0 :: r) as w eqn:Ew. intros H.
    assert (H0 : forall t, In t w -> t = t0) by (intros t Ht; apply H; [exact Ht|subst w; simpl; auto]).
    assert (Hne : w <> []) by (subst w; discriminate).
    clear Ew H r. revert w H0 Hne. induction t0 as [|k t0 IH]; intros w H0 Hne.
    + exists w. split; [constructor|exact H0].
    + destruct (IH (map (@tl nat) w)) as (w' & Hr & Hd).
      * intros t Ht. apply in_map_iff in Ht as (t1 & <- & Ht1). rewrite (H0 t1 Ht1). reflexivity.
      * destruct w; [congruence|discriminate].
      * exists w'. split; [|exact Hd]. eapply creach_step; [|exact Hr].
        apply cstep_all with (k := k); [exact Hne|]. intros t Ht. exists t0. apply H0, Ht.
Qed.

Theorem cterminates_iff_aligned w : cterminates w <-> aligned w = true.
Proof. rewrite aligned_alleq. split; [apply cterminates_alleq|apply alleq_cterminates]. Qed.

(* a world that is not aligned runs into a state in which nothing is enabled although some rank
   has not returned: once the common prefix is consumed, it is stuck for good *)
Lemma cstep_det w w1 w2 : cstep w w1 -> cstep w w2 -> w1 = w2.
Proof. intros H1 H2. destruct H1. inversion H2. reflexivity. Qed.

Lemma cstep_length w w1 : cstep w w1 -> forall t, In t w -> exists t1, In t1 w1 /\ length t = S (length t1).
Proof.
  intros H. destruct H as [k w Hne Hk]. intros t Ht. destruct (Hk t Ht) as (t' & ->).
  exists t'. split; [|reflexivity]. change t' with (tl (k :: t')). apply in_map, Ht.
Qed.

Lemma head_is_spec k t : head_is k t = true <-> exists t', t = k :: t'.
Proof.
  destruct t as [|k' t]; simpl.
  - split; [discriminate|intros (t' & E); discriminate].
  - rewrite Nat.eqb_eq. split; [intros ->; eauto|intros (t' & E); congruence].
Qed.

Lemma cstep_fun_spec w w1 : cstep w w1 <-> cstep_fun w = Some w1.
Proof.
  split.
  - intros H. destruct H as [k w Hne Hk]. destruct w as [|t0 r]; [congruence|].
    destruct (Hk t0 (or_introl eq_refl)) as (t0' & ->).
    assert (E : forallb (head_is k) ((k :: t0') :: r) = true).
    { apply forallb_forall. intros t Ht. apply head_is_spec, Hk, Ht. }
    unfold cstep_fun. rewrite E. reflexivity.
  - unfold cstep_fun. destruct w as [|[|k t0] r]; try discriminate.
    destruct (forallb (head_is k) ((k :: t0) :: r)) eqn:E; [|discriminate].
    intros [= <-]. apply cstep_all with (k := k); [discriminate|].
    intros t Ht. apply head_is_spec. rewrite forallb_forall in E. apply E, Ht.
Qed.

Lemma classic_step w : (exists w1, cstep w w1) \/ ~ (exists w1, cstep w w1).
Proof.
  destruct (cstep_fun w) as [w1|] eqn:E.
  - left. exists w1. apply cstep_fun_spec, E.
  - right. intros (w1 & H). apply cstep_fun_spec in H. congruence.
Qed.

Theorem not_aligned_reaches_stuck w : aligned w = false -> exists w', creach w w' /\ cstuck w'.
Proof.
  intros Ha.
  assert (Hn : ~ cterminates w) by (rewrite cterminates_iff_aligned, Ha; discriminate).
  destruct w as [|t0 r]; [discriminate|].
  remember (length t0) as m eqn:Em. remember (t0 :: r) as w eqn:Ew.
  assert (Hin : exists t, In t w /\ length t = m) by (exists t0; subst; simpl; auto).
  clear Ew Em Ha t0 r. revert w Hn Hin. induction m as [|m IH]; intros w Hn (t & Ht & Hl).
  - exists w. split; [constructor|]. split.
    + intros Hd. apply Hn. exists w. split; [constructor|exact Hd].
    + intros w' Hs. destruct (cstep_length Hs t Ht) as (t1 & _ & E). lia.
  - destruct (classic_step w) as [(w1 & Hs)|Hno].
    + destruct (cstep_length Hs t Ht) as (t1 & Ht1 & E).
      destruct (IH w1) as (w' & Hr & Hst).
      * intros (w2 & Hr2 & Hd2). apply Hn. exists w2. split; [eapply creach_step; eauto|exact Hd2].
      * exists t1. split; [exact Ht1|lia].
      * exists w'. split; [eapply creach_step; eauto|exact Hst].
    + exists w. split; [constructor|]. split.
      * intros Hd. apply Hn. exists w. split; [constructor|exact Hd].
      * intros w' Hs. apply Hno. exists w'. exact Hs.
Qed.

(* ---- refusal disciplines ---- *)
Lemma world_of_in n prog r : r < n -> In (prog r) (world_of n prog).
Proof. intros H. unfold world_of. apply in_map, in_seq. lia. Qed.

Theorem refusal_all_ranks_terminates n pre next : cterminates (world_of n (refuse_all pre next)).
Proof.
  apply alleq_cterminates. intros t u Ht Hu. unfold world_of in *.
  apply in_map_iff in Ht as (r1 & <- & _). apply in_map_iff in Hu as (r2 & <- & _). reflexivity.
Qed.

Theorem refusal_some_ranks_blocks n who pre body next r1 r2 :
  r1 < n -> r2 < n -> who r1 = true -> who r2 = false -> body <> [] ->
  ~ cterminates (world_of n (refuse_some who pre body next)).
Proof.
  intros H1 H2 W1 W2 Hb Ht. apply cterminates_alleq in Ht.
  specialize (Ht _ _ (world_of_in _ H1) (world_of_in _ H2)).
  unfold refuse_some in Ht. rewrite W1, W2 in Ht. apply (f_equal (@length nat)) in Ht.
  rewrite !app_length in Ht. simpl in Ht. destruct body; [congruence|simpl in Ht; lia].
Qed.

Corollary refusal_some_ranks_stuck n who pre body next r1 r2 :
  r1 < n -> r2 < n -> who r1 = true -> who r2 = false -> body <> [] ->
  exists w', creach (world_of n (refuse_some who pre body next)) w' /\ cstuck w'.
Proof.
  intros. apply not_aligned_reaches_stuck.
  destruct (aligned _) eqn:E; [|reflexivity]. exfalso.
  apply (@refusal_some_ranks_blocks n who pre body next r1 r2); auto. apply cterminates_iff_aligned, E.
Qed.

(* ---- node layouts: the scatter hands every record to exactly one processing rank, for every
   assignment of processor names and every worker limit; the variant that cuts a chunk by the
   worker limit agrees with it on one node and loses records on several ---- *)
Lemma split_sizes_length n k : 0 < k -> length (split_sizes n k) = k.
Proof.
  intros Hk. unfold split_sizes. rewrite app_length, !repeat_length.
  pose proof (Nat.mod_upper_bound n k). lia.
Qed.

Lemma list_sum_repeat x m : list_sum (repeat x m) = m * x.
Proof. induction m; simpl; auto. Qed.

Lemma split_sizes_sum n k : 0 < k -> list_sum (split_sizes n k) = n.
Proof.
  intros Hk. unfold split_sizes. rewrite list_sum_app, !list_sum_repeat.
  pose proof (Nat.mod_upper_bound n k ltac:(lia)) as Hm.
  pose proof (Nat.div_mod n k ltac:(lia)) as Hd.
  nia.
Qed.

Section ScatterP.
Context {A : Type}.

Lemma take_pieces_length sizes (l : list A) : length (take_pieces sizes l) = length sizes.
Proof. revert l. induction sizes; intros; simpl; auto. Qed.

Lemma take_pieces_concat sizes (l : list A) : length l <= list_sum sizes -> concat (take_pieces sizes l) = l.
Proof.
  revert l. induction sizes as [|n ns IH]; intros l H; simpl in *.
  - destruct l; simpl in *; auto; lia.
  - rewrite IH; [apply firstn_skipn|]. rewrite skipn_length. lia.
Qed.

Lemma array_split_length (l : list A) k : 0 < k -> length (array_split l k) = k.
Proof. intros. unfold array_split. rewrite take_pieces_length. apply split_sizes_length; auto. Qed.

Lemma array_split_concat (l : list A) k : 0 < k -> concat (array_split l k) = l.
Proof. intros. unfold array_split. apply take_pieces_concat. rewrite split_sizes_sum; auto. Qed.

Lemma scatter_recs np (l : list A) : 0 < np -> chunk_recs (scatter np l) = l.
Proof.
  intros H. unfold scatter, chunk_recs. pose proof (array_split_concat l H) as Hc.
  pose proof (array_split_length l H) as Hl.
  destruct (array_split l np) as [|own rest]; simpl in *; [lia|exact Hc].
Qed.

(* the premise of the scatter step of the protocol: one piece per further processing rank *)
Lemma scatter_length np (l : list A) : 0 < np -> length (snd (scatter np l)) = np - 1.
Proof.
  intros H. unfold scatter. pose proof (array_split_length l H) as Hl.
  destruct (array_split l np) as [|own rest]; simpl in *; lia.
Qed.

Lemma all_recs_scatter np (data : list (list A)) : 0 < np -> all_recs (map (scatter np) data) = concat data.
Proof.
  intros H. unfold all_recs. induction data as [|l data IH]; simpl; auto.
  rewrite IH, scatter_recs; auto.
Qed.

Lemma scatter_var_same np (l : list A) : 0 < np -> scatter_var np np l = scatter np l.
Proof.
  intros H. unfold scatter_var, scatter. pose proof (array_split_length l H) as Hl.
  destruct (array_split l np) as [|own rest]; simpl in *; auto.
  rewrite firstn_all2; auto. lia.
Qed.
End ScatterP.

Lemma nproc_pos hosts mw np : nproc hosts mw = Some np -> 0 < np.
Proof.
  unfold nproc. destruct (_ <? 2); [discriminate|].
  destruct (active_ranks hosts mw) as [|a [|b r]]; try discriminate. intros E. inversion E. lia.
Qed.

(* processing ranks + writer = the allowed ranks on the reader's node *)
Lemma nproc_length hosts mw np : nproc hosts mw = Some np -> length (active_ranks hosts mw) = S np.
Proof.
  unfold nproc. destruct (_ <? 2); [discriminate|].
  destruct (active_ranks hosts mw) as [|a [|b r]]; try discriminate. intros E. inversion E. reflexivity.
Qed.

(* the request is refused exactly when fewer than two workers are allowed or the reader has no
   allowed rank on its node *)
Lemma nproc_none_iff hosts mw :
  nproc hosts mw = None <-> eff_workers (length hosts) mw < 2 \/ length (active_ranks hosts mw) < 2.
Proof.
  unfold nproc. destruct (_ <? 2) eqn:E.
  - apply Nat.ltb_lt in E. tauto.
  - apply Nat.ltb_ge in E. destruct (active_ranks hosts mw) as [|a [|b r]]; simpl; split; intros H; auto; try lia; try discriminate.
Qed.

(* every layout, every worker limit, every chunk list, every schedule: the root's catalog holds
   exactly the input records (dictionaries sent with ssend) *)
Theorem layout_no_loss (A : Type) hosts mw np sm (data : list (list A)) (s : MpiWrite.wst A) :
  nproc hosts mw = Some np ->
  wreach Sync sm (winit (map (scatter np) data) (np - 1)) s -> stopped s = true ->
  Permutation (concat data) (stored s) /\ unreceived s = [].
Proof.
  intros Hn Hr Hs. apply nproc_pos in Hn.
  destruct (write_ssend_no_loss Hr Hs) as [Hp Hu]. rewrite all_recs_scatter in Hp; auto.
Qed.

(* one node: every rank is on the reader's node, the processing ranks are all allowed ranks but one *)
Lemma idx_where_all p l i : Forall (fun h => p h = true) l -> idx_where p l i = seq i (length l).
Proof.
  revert i. induction l as [|h t IH]; intros i H; simpl; auto.
  inversion H; subst. rewrite H2, IH; auto.
Qed.

Lemma nproc_single_node h0 t mw :
  Forall (eq h0) t ->
  nproc (h0 :: t) mw = if eff_workers (S (length t)) mw <? 2 then None else Some (eff_workers (S (length t)) mw - 1).
Proof.
  intros H. unfold nproc, active_ranks, same_node. cbn [length].
  rewrite idx_where_all.
  2:{ constructor; [apply Nat.eqb_refl|]. eapply Forall_impl; [|exact H]. intros a <-. apply Nat.eqb_refl. }
  cbn [length]. set (e := eff_workers (S (length t)) mw).
  assert (He : e <= S (length t)).
  { unfold e, eff_workers. destruct mw as [[|m]|]; lia. }
  destruct (e <? 2) eqn:E; auto. apply Nat.ltb_ge in E.
  assert (Hf : firstn e (seq 0 (S (length t))) = seq 0 e).
  { replace (S (length t)) with (e + (S (length t) - e)) by lia. rewrite seq_app, firstn_app, seq_length.
    replace (e - e) with 0 by lia. rewrite firstn_O, app_nil_r. apply firstn_all2. rewrite seq_length. lia. }
  rewrite Hf. destruct e as [|[|e']]; try lia. cbn [seq]. rewrite seq_length. f_equal; lia.
Qed.

(* ... so on one node cutting by the worker limit (minus the writer) is cutting by the number of
   processing ranks: no single-node world, whatever its size, limit or schedule, tells them apart *)
Corollary variant_single_node_agrees (A : Type) h0 t mw np (l : list A) :
  Forall (eq h0) t -> nproc (h0 :: t) mw = Some np ->
  scatter_var (eff_workers (S (length t)) mw - 1) np l = scatter np l.
Proof.
  intros H Hn. assert (Hp : 0 < np) by (eapply nproc_pos; eauto).
  rewrite (@nproc_single_node h0 t mw H) in Hn.
  destruct (_ <? 2); [discriminate|]. inversion Hn as [E]. rewrite E.
  apply scatter_var_same; auto.
Qed.

(* two nodes with two ranks each, no limit: 4 workers allowed, one processing rank.  Cutting the
   chunk into 4 - 1 pieces and handing out one loses records 2 and 3 on EVERY schedule, all
   ranks return *)
Theorem variant_multi_node_refuted :
  nproc [0; 0; 1; 1] None = Some 1 /\
  forall sm (s : MpiWrite.wst nat),
    wreach Sync sm (winit (map (scatter_var (eff_workers 4 None - 1) 1) [[1; 2; 3]]) (1 - 1)) s -> stopped s = true ->
    stored s <> [] /\ ~ Permutation (concat [[1; 2; 3]]) (stored s).
Proof.
  split; [reflexivity|]. intros sm s Hr Hs.
  destruct (write_ssend_no_loss Hr Hs) as [Hp _].
  assert (Ha : all_recs (map (scatter_var (eff_workers 4 None - 1) 1) [[1; 2; 3]]) = [1]) by reflexivity.
  rewrite Ha in Hp. clear Ha.
  split.
  - intros E. rewrite E in Hp. apply Permutation_length in Hp. discriminate.
  - intros Hq. apply Permutation_length in Hp. apply Permutation_length in Hq. simpl in *. congruence.
Qed.
