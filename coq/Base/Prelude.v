(* Shared helpers for all models: rational sums with normalisation, list helpers,
   and the status-code convention used by the correspondence shards.
   No axioms, no admits. *)
From Coq Require Export List Arith ZArith QArith Qreduction Qabs Bool Lia.
Export ListNotations.
Open Scope Q_scope.

(* ---- rational sums ---- *)
Fixpoint qsum (l : list Q) : Q :=
  match l with [] => 0 | x :: xs => x + qsum xs end.

(* executable version: reduces the fraction at every step so that long sums of
   dyadic numbers stay small; [qsumr_qsum] shows it is the same rational *)
Fixpoint qsumr (l : list Q) : Q :=
  match l with [] => 0 | x :: xs => Qred (x + qsumr xs) end.

Lemma qsumr_qsum l : qsumr l == qsum l.
Proof. induction l as [|x l IH]; simpl; [reflexivity|]. rewrite (Qred_correct (x + qsumr l)), IH. reflexivity. Qed.

Lemma qsum_app l1 l2 : qsum (l1 ++ l2) == qsum l1 + qsum l2.
Proof. induction l1 as [|x l IH]; simpl; [ring|]. rewrite IH. ring. Qed.

Definition Qeqb (a b : Q) : bool := Qeq_bool a b.
Definition Qleb (a b : Q) : bool := Qle_bool a b.
Definition Qltb (a b : Q) : bool := negb (Qle_bool b a).

Lemma Qltb_lt a b : Qltb a b = true <-> a < b.
Proof.
  unfold Qltb. rewrite negb_true_iff. split; intro H.
  - apply Qnot_le_lt. intro C. apply Qle_bool_iff in C. congruence.
  - destruct (Qle_bool b a) eqn:E; [|reflexivity]. apply Qle_bool_iff in E.
    exfalso. apply (Qlt_not_le _ _ H E).
Qed.
Lemma Qleb_le a b : Qleb a b = true <-> a <= b.
Proof. apply Qle_bool_iff. Qed.

Fixpoint list_eqb {A} (eqb : A -> A -> bool) (l1 l2 : list A) : bool :=
  match l1, l2 with
  | [], [] => true
  | x :: xs, y :: ys => eqb x y && list_eqb eqb xs ys
  | _, _ => false
  end.

Definition qlist_eqb := list_eqb Qeqb.
Definition qmat_eqb := list_eqb qlist_eqb.
Definition nlist_eqb := list_eqb Nat.eqb.
Definition zlist_eqb := list_eqb Z.eqb.

Lemma list_eqb_refl {A} (eqb : A -> A -> bool) :
  (forall x, eqb x x = true) -> forall l, list_eqb eqb l l = true.
Proof. intros H l; induction l; simpl; [reflexivity|]. rewrite H, IHl. reflexivity. Qed.

Lemma nlist_eqb_eq l1 l2 : nlist_eqb l1 l2 = true <-> l1 = l2.
Proof.
  unfold nlist_eqb. revert l2; induction l1 as [|x l1 IH]; intros [|y l2]; simpl.
  - tauto.
  - split; intro H; discriminate.
  - split; intro H; discriminate.
  - rewrite andb_true_iff, Nat.eqb_eq, IH. split.
    + intros [H1 H2]; congruence.
    + intro H; inversion H; auto.
Qed.

(* |a - b| <= tol * |b|  : relative closeness used for results of a division or sqrt *)
Definition Qclose (tol a b : Q) : bool := Qleb (Qabs (a - b)) (tol * Qabs b).
Definition tol48 : Q := 1 # 281474976710656.   (* 2^-48 *)
Definition qlist_close tol := list_eqb (Qclose tol).

(* ---- remove the k-th element ---- *)
Fixpoint remove_nth {A} (k : nat) (l : list A) : list A :=
  match l, k with
  | [], _ => []
  | _ :: xs, O => xs
  | x :: xs, S k' => x :: remove_nth k' xs
  end.

(* ---- status code of one correspondence case: a bitmask over a list of flags,
        flag i contributes 2^i when it is FALSE (so 0 = everything fine) ---- *)
Fixpoint code_from (w : nat) (flags : list bool) : nat :=
  match flags with
  | [] => 0
  | b :: r => ((if b then 0 else w) + code_from (2 * w) r)%nat
  end.
Definition code (flags : list bool) : nat := code_from 1 flags.

Definition count_if {A} (p : A -> bool) (l : list A) : nat := length (filter p l).
