(* C17 — pair-count and data containers obey their documented algebra and indexing.
   Statements only; definitions in Model/Containers.v, proofs in Proofs/ContainersP.v.
   Arrays are nested lists over Q; an operation that raises is None / Err.
   The positive theorems are about the repaired algorithm; the theorems named *_refuted /
   *_current_* state what the pinned code does instead (findings F3, F4, F5 and the dropped
   CorrFunc member). *)
From Verif Require Import Prelude Containers ContainersP ContainersAcc ContainersAccP Cursors CursorsP.
From Verif Require Import ContainersWide ContainersWideP.
Open Scope Q_scope.

(* ---------------- addition ---------------- *)
(* a + b keeps binning / auto / shape of a and adds the counts entry by entry *)
Theorem C17_add_counts : forall a b r,
  pc_wfb a = true -> pc_wfb b = true -> pc_add a b = Some r ->
  pc_bin r = pc_bin a /\ pc_auto r = pc_auto a /\ pc_nb r = pc_nb a /\ pc_np r = pc_np a /\
  forall bi i j, (bi < pc_nb a)%nat -> (i < pc_np a)%nat -> (j < pc_np a)%nat ->
    nth3 (pc_counts r) bi i j = nth3 (pc_counts a) bi i j + nth3 (pc_counts b) bi i j.
Proof. exact add_counts_b. Qed.
Print Assumptions C17_add_counts.

Theorem C17_add_comm : forall a b r,
  pc_add a b = Some r -> exists r', pc_add b a = Some r' /\ pc_equiv r r'.
Proof. exact add_comm. Qed.
Print Assumptions C17_add_comm.

Theorem C17_add_assoc : forall a b c ab r,
  pc_wfb a = true -> pc_wfb b = true -> pc_wfb c = true ->
  pc_add a b = Some ab -> pc_add ab c = Some r ->
  exists bc r', pc_add b c = Some bc /\ pc_add a bc = Some r' /\ pc_equiv r r'.
Proof. exact add_assoc_b. Qed.
Print Assumptions C17_add_assoc.

(* + is defined only for equal binning (edges and closed side) and equal patch count *)
Theorem C17_add_requires_compat : forall a b r,
  pc_add a b = Some r -> bin_eqb (pc_bin a) (pc_bin b) = true /\ pc_np a = pc_np b.
Proof. exact add_requires_compat. Qed.
Print Assumptions C17_add_requires_compat.

Theorem C17_incompatible_rejected : forall a b, pc_compat a b = false -> pc_add a b = None.
Proof. exact incompatible_rejected. Qed.
Print Assumptions C17_incompatible_rejected.

(* NormalisedCounts: identical sums of weights and compatible counts; the counts are added *)
Theorem C17_nc_add_requires : forall a b r,
  nc_add a b = Some r ->
  sw_eqb (nc_sumw a) (nc_sumw b) = true /\ pc_compat (nc_counts a) (nc_counts b) = true
  /\ nc_sumw r = nc_sumw a /\ pc_add (nc_counts a) (nc_counts b) = Some (nc_counts r).
Proof. exact nc_add_requires. Qed.
Print Assumptions C17_nc_add_requires.

(* CorrFunc: compatible dd and the same optional members on both sides *)
Theorem C17_cf_add_requires : forall a b r,
  cf_add a b = Some r ->
  cf_compat a b = true /\ is_some (cf_dr a) = is_some (cf_dr b)
  /\ is_some (cf_rd a) = is_some (cf_rd b) /\ is_some (cf_rr a) = is_some (cf_rr b).
Proof. exact cf_add_requires. Qed.
Print Assumptions C17_cf_add_requires.

(* CorrData: equal binning and number of samples; data are combined entry by entry *)
Theorem C17_sd_add_requires : forall a b r,
  sd_add a b = Some r -> bin_eqb (sd_bin a) (sd_bin b) = true /\ sd_nsamples a = sd_nsamples b.
Proof. exact sd_add_requires. Qed.
Print Assumptions C17_sd_add_requires.
Theorem C17_sd_binop_data : forall f a b r i,
  sd_binop f a b = Some r -> (i < length (sd_data a))%nat -> (i < length (sd_data b))%nat ->
  nth i (sd_data r) 0 = f (nth i (sd_data a) 0) (nth i (sd_data b) 0).
Proof. exact sd_binop_data. Qed.
Print Assumptions C17_sd_binop_data.

(* ---------------- scalar multiplication ---------------- *)
Theorem C17_mul_scales_counts : forall k a bi i j,
  nth3 (pc_counts (pc_mul k a)) bi i j == k * nth3 (pc_counts a) bi i j.
Proof. exact mul_scales_counts. Qed.
Print Assumptions C17_mul_scales_counts.

Theorem C17_bool_scalar_rejected : forall x, run x OMulBool = Err.
Proof. exact bool_scalar_rejected. Qed.
Print Assumptions C17_bool_scalar_rejected.

(* sums over patches and their jackknife samples scale with k (counts, normalised counts) *)
Theorem C17_pc_sample_mul : forall k c, sd_equiv (pc_sample (pc_mul k c)) (sd_scale k (pc_sample c)).
Proof. exact pc_sample_mul. Qed.
Print Assumptions C17_pc_sample_mul.
Theorem C17_nc_sample_mul : forall k n, sd_equiv (nc_sample (nc_mul k n)) (sd_scale k (nc_sample n)).
Proof. exact nc_sample_mul. Qed.
Print Assumptions C17_nc_sample_mul.

(* CorrFunc * k, k <> 0: the sampled estimate (DP or LS) and all its jackknife samples are unchanged *)
Theorem C17_sample_mul_invariant : forall k f s,
  ~ k == 0 -> cf_sample f = Some s ->
  exists s', cf_sample (cf_mul k f) = Some s' /\ sd_equiv s' s.
Proof. exact sample_mul_invariant. Qed.
Print Assumptions C17_sample_mul_invariant.

(* ---------------- equality ---------------- *)
Theorem C17_eq_refl : forall x, run x (OEq x) = Flag true.
Proof. exact eq_refl_all. Qed.
Print Assumptions C17_eq_refl.

Theorem C17_eq_structural : forall a b,
  pc_eqb a b = true ->
  qeq1 (edges (pc_bin a)) (edges (pc_bin b)) /\ closed_right (pc_bin a) = closed_right (pc_bin b)
  /\ qeq3 (pc_counts a) (pc_counts b) /\ pc_auto a = pc_auto b.
Proof. exact pc_eqb_struct. Qed.
Print Assumptions C17_eq_structural.

(* ---------------- index expressions ---------------- *)
Theorem C17_resolve_int : forall n i, (i < n)%nat -> resolve n (SInt (Z.of_nat i)) = Some [i].
Proof. exact resolve_int. Qed.
Print Assumptions C17_resolve_int.
Theorem C17_resolve_int_neg : forall n k,
  (1 <= k <= n)%nat -> resolve n (SInt (- Z.of_nat k)) = Some [(n - k)%nat].
Proof. exact resolve_int_neg. Qed.
Print Assumptions C17_resolve_int_neg.
Theorem C17_resolve_slice : forall n a b, (a <= b <= n)%nat ->
  resolve n (SSlice (Some (Z.of_nat a)) (Some (Z.of_nat b)) 1) = Some (seq a (b - a)).
Proof. exact resolve_slice. Qed.
Print Assumptions C17_resolve_slice.

(* ---------------- selecting bins ---------------- *)
Theorem C17_binning_select : forall b I b',
  bin_select b I = Some b' ->
  closed_right b' = closed_right b /\ nbins b' = length I /\ all_lt (nbins b) I = true /\ I <> [] /\
  (forall j, (j < length I)%nat -> nth j (edges b') 0 = nth (nth j I 0%nat) (edges b) 0) /\
  nth (length I) (edges b') 0 = nth (S (last I 0%nat)) (edges b) 0.
Proof. exact bin_select_spec. Qed.
Print Assumptions C17_binning_select.

Theorem C17_bins_slice : forall c I r,
  pc_select_bins c I = Some r ->
  bin_select (pc_bin c) I = Some (pc_bin r) /\ pc_auto r = pc_auto c /\ pc_nb r = length I
  /\ all_lt (pc_nb c) I = true
  /\ forall j, (j < length I)%nat -> nth j (pc_counts r) [] = nth (nth j I 0%nat) (pc_counts c) [].
Proof. exact bins_slice_spec. Qed.
Print Assumptions C17_bins_slice.

Theorem C17_bins_out_of_range_rejected : forall c i,
  (nbins (pc_bin c) <= i)%nat -> pc_bins c (SInt (Z.of_nat i)) = None.
Proof. exact bins_out_of_range_rejected. Qed.
Print Assumptions C17_bins_out_of_range_rejected.

(* ---------------- selecting patches: the sub-matrix [I x I] ---------------- *)
Theorem C17_patches_slice : forall c I r,
  pc_select_patches c I = Some r ->
  pc_bin r = pc_bin c /\ pc_auto r = pc_auto c /\ pc_nb r = pc_nb c /\ all_lt (pc_np c) I = true /\
  forall b i j, (b < pc_nb c)%nat -> (i < length I)%nat -> (j < length I)%nat ->
    nth3 (pc_counts r) b i j = nth3 (pc_counts c) b (nth i I 0%nat) (nth j I 0%nat).
Proof. exact patches_slice_spec. Qed.
Print Assumptions C17_patches_slice.

Theorem C17_patches_out_of_range_rejected : forall c i,
  (pc_np c <= i)%nat -> pc_patches c (SInt (Z.of_nat i)) = None.
Proof. exact patches_out_of_range_rejected. Qed.
Print Assumptions C17_patches_out_of_range_rejected.

(* ---------------- selection commutes with summation ---------------- *)
Theorem C17_slice_commutes_sum_bins : forall c I r j,
  pc_select_bins c I = Some r -> (j < length I)%nat -> pc_total_at r j = pc_total_at c (nth j I 0%nat).
Proof. exact slice_commutes_sum_bins. Qed.
Print Assumptions C17_slice_commutes_sum_bins.
Theorem C17_slice_commutes_sum_patches : forall c I r b,
  pc_select_patches c I = Some r -> (b < pc_nb c)%nat ->
  pc_total_at r b = qsum (map (fun i => qsum (map (fun j => nth3 (pc_counts c) b i j) I)) I).
Proof. exact slice_commutes_sum_patches. Qed.
Print Assumptions C17_slice_commutes_sum_patches.

(* ---------------- selection commutes with sampling ---------------- *)
(* bins: sampling the selection = selecting from the sample, for all four count containers *)
Theorem C17_slice_commutes_sample_bins : forall c I r,
  pc_wfb c = true -> pc_select_bins c I = Some r -> sd_select (pc_sample c) I = Some (pc_sample r).
Proof. exact slice_commutes_sample_bins_b. Qed.
Print Assumptions C17_slice_commutes_sample_bins.
Theorem C17_slice_commutes_sample_bins_sumweights : forall s I r,
  sw_wfb s = true -> sw_select_bins s I = Some r -> sd_select (sw_sample s) I = Some (sw_sample r).
Proof. exact sw_slice_commutes_sample_bins_b. Qed.
Print Assumptions C17_slice_commutes_sample_bins_sumweights.
Theorem C17_slice_commutes_sample_bins_normalised : forall n I r,
  nc_wfb n = true -> nc_select_bins n I = Some r -> sd_select (nc_sample n) I = Some (nc_sample r).
Proof. exact nc_slice_commutes_sample_bins_b. Qed.
Print Assumptions C17_slice_commutes_sample_bins_normalised.
Theorem C17_slice_commutes_sample_bins_corrfunc : forall f I r s,
  cf_wfb f = true -> cf_select_bins f I = Some r -> cf_sample f = Some s ->
  exists s', cf_sample r = Some s' /\ sd_select s I = Some s'.
Proof. exact cf_slice_commutes_sample_bins_b. Qed.
Print Assumptions C17_slice_commutes_sample_bins_corrfunc.

(* patches: jackknife sample m of x.patches[I] is the total of x.patches[I without its m-th
   entry] (patch I_m left out as well) *)
Theorem C17_slice_commutes_sample_patches : forall c I r k b,
  pc_select_patches c I = Some r -> (b < pc_nb c)%nat -> (k < length I)%nat ->
  exists r', pc_select_patches c (remove_nth k I) = Some r' /\ pc_jack_at r k b == pc_total_at r' b.
Proof. exact patch_slice_sample_loo. Qed.
Print Assumptions C17_slice_commutes_sample_patches.
Theorem C17_slice_commutes_sample_patches_sumweights : forall s I r k b,
  sw_select_patches s I = Some r -> (b < sw_nb s)%nat -> (b < length (sw2 s))%nat -> (k < length I)%nat ->
  exists r', sw_select_patches s (remove_nth k I) = Some r' /\ sw_jack_at r k b == sw_total_at r' b.
Proof. exact sw_patch_slice_sample_loo. Qed.
Print Assumptions C17_slice_commutes_sample_patches_sumweights.
Theorem C17_slice_commutes_sample_patches_normalised : forall n I r k b,
  (1 <= pc_nb (nc_counts n))%nat -> (1 <= sw_nb (nc_sumw n))%nat ->
  nc_select_patches n I = Some r ->
  (b < pc_nb (nc_counts n))%nat -> (b < sw_nb (nc_sumw n))%nat -> (b < length (sw2 (nc_sumw n)))%nat ->
  (k < length I)%nat ->
  exists r', nc_select_patches n (remove_nth k I) = Some r' /\ nc_jack_at r k b == nc_total_at r' b.
Proof. exact nc_patch_slice_sample_loo. Qed.
Print Assumptions C17_slice_commutes_sample_patches_normalised.
Theorem C17_slice_commutes_sample_patches_corrfunc : forall f I r r' k b,
  (forall n, In n (cf_dd f :: concat (map (fun o => match o with Some n => [n] | None => [] end)
                                       [cf_dr f; cf_rd f; cf_rr f])) ->
      (1 <= pc_nb (nc_counts n))%nat /\ (1 <= sw_nb (nc_sumw n))%nat /\ (b < pc_nb (nc_counts n))%nat
      /\ (b < sw_nb (nc_sumw n))%nat /\ (b < length (sw2 (nc_sumw n)))%nat) ->
  cf_select_patches f I = Some r -> cf_select_patches f (remove_nth k I) = Some r' -> (k < length I)%nat ->
  cf_est r (fun n => nc_jack_at n k b) == cf_est r' (fun n => nc_total_at n b).
Proof. exact cf_patch_slice_sample_loo. Qed.
Print Assumptions C17_slice_commutes_sample_patches_corrfunc.

(* ---------------- iteration ---------------- *)
Theorem C17_iteration_lists_all : forall (A : Type) n (cb : selector -> option A),
  iter_all n cb = oseq (tab n (fun i => cb (SInt (Z.of_nat i)))).
Proof. exact @iteration_lists_all. Qed.
Print Assumptions C17_iteration_lists_all.
Theorem C17_iteration_bins : forall c,
  pc_wfb c = true -> iter_all (nbins (pc_bin c)) (pc_bins c) = Some (tab (nbins (pc_bin c)) (pc_bin_item c)).
Proof. exact pc_iter_bins_b. Qed.
Print Assumptions C17_iteration_bins.
Theorem C17_iteration_patches : forall c,
  iter_all (pc_np c) (pc_patches c) = Some (tab (pc_np c) (pc_patch_item c)).
Proof. exact pc_iter_patches. Qed.
Print Assumptions C17_iteration_patches.

(* ---------------- the two sides evaluated by the correspondence checker ---------------- *)
Theorem C17_run_spec_add : forall a b,
  pc_wfb a = true -> pc_wfb b = true -> run (VPC a) (OAdd (VPC b)) = spec (VPC a) (OAdd (VPC b)).
Proof. exact run_spec_add_b. Qed.
Print Assumptions C17_run_spec_add.
Theorem C17_run_spec_mul : forall k a, pc_wfb a = true -> run (VPC a) (OMul k) = spec (VPC a) (OMul k).
Proof. exact run_spec_mul_b. Qed.
Print Assumptions C17_run_spec_mul.
Theorem C17_run_spec_iter_bins : forall x, run x OIterBins = spec x OIterBins.
Proof. exact run_spec_iter_bins. Qed.
Print Assumptions C17_run_spec_iter_bins.
Theorem C17_run_spec_iter_patches : forall x, run x OIterPatches = spec x OIterPatches.
Proof. exact run_spec_iter_patches. Qed.
Print Assumptions C17_run_spec_iter_patches.
Theorem C17_run_spec_bins_sample : forall c s,
  pc_wfb c = true -> run (VPC c) (OBinsSample s) = spec (VPC c) (OBinsSample s).
Proof. exact run_spec_bins_sample_b. Qed.
Print Assumptions C17_run_spec_bins_sample.

(* ---------------- the pinned code ---------------- *)
(* F4: counts[:, item, item] is the sub-matrix for slices only *)
Theorem C17_patches_slice_current_slice_ok : forall c s,
  is_slice s = true -> pc_patches_current c s = pc_patches c s.
Proof. exact patches_slice_current_slice_ok. Qed.
Print Assumptions C17_patches_slice_current_slice_ok.
Theorem C17_patches_slice_current_nonslice : forall c s,
  is_slice s = false -> pc_patches_current c s = None.
Proof. exact patches_slice_current_nonslice. Qed.
Print Assumptions C17_patches_slice_current_nonslice.
Theorem C17_patches_slice_current_refuted :
  exists c, pc_wfb c = true /\
    (exists r, pc_patches c (SInt 1) = Some r) /\ pc_patches_current c (SInt 1) = None /\
    (exists r, pc_patches c (SList [0; 2]%Z) = Some r /\
               nth 0 (pc_counts r) [] = [[1; 3]; [7; 9]]) /\
    pc_patches_current c (SList [0; 2]%Z) = None /\
    fancy_pairs (pc_counts c) [0; 2]%nat = [[1; 9]; [10; 90]] /\
    (exists r, iter_all (pc_np c) (pc_patches c) = Some r) /\
    iter_all (pc_np c) (pc_patches_current c) = None.
Proof. exact patches_slice_current_refuted. Qed.
Print Assumptions C17_patches_slice_current_refuted.
(* F3 *)
Theorem C17_nc_mul_current_refuted :
  exists n k, nc_wfb n = true /\ nc_mul_current k n = None /\ run (VNC n) (OMul k) <> Err.
Proof. exact nc_mul_current_refuted. Qed.
Print Assumptions C17_nc_mul_current_refuted.
(* F5 *)
Theorem C17_sd_add_current_refuted :
  exists d, sd_wfb d = true /\ sd_add_current d d = None /\ sd_sub_current d d = None /\
            (exists r, sd_add d d = Some r /\ sd_data r = [2; 4]) /\
            (exists r, sd_sub d d = Some r /\ Forall (fun x => x == 0) (sd_data r)).
Proof. exact sd_add_current_refuted. Qed.
Print Assumptions C17_sd_add_current_refuted.
(* CorrFunc + CorrFunc with different members: a + b drops a member, b + a raises *)
Theorem C17_cf_add_current_refuted :
  exists a b, cf_wfb a = true /\ cf_wfb b = true /\
    (exists r, cf_add_current a b = Some r /\ cf_rr r = None) /\ cf_add_current b a = None /\
    cf_add a b = None /\ cf_add b a = None.
Proof. exact cf_add_current_refuted. Qed.
Print Assumptions C17_cf_add_current_refuted.

(* ---------------- running totals (total = 0; total += c ...; sum(parts)) ---------------- *)
(* for any number of operands: binning / auto / shape of the first operand, every entry the sum of
   the operands' entries; containers are values, so the operands themselves are what they were *)
Theorem C17_running_total : forall l r,
  Forall (fun c => pc_wfb c = true) l -> pc_accum l = Some r ->
  exists a t, l = a :: t /\ pc_bin r = pc_bin a /\ pc_auto r = pc_auto a /\ pc_nb r = pc_nb a /\
  pc_np r = pc_np a /\ forall bi i j, (bi < pc_nb a)%nat -> (i < pc_np a)%nat -> (j < pc_np a)%nat ->
    nth3 (pc_counts r) bi i j == qsum (map (fun c => nth3 (pc_counts c) bi i j) l).
Proof. exact accum_counts. Qed.
Print Assumptions C17_running_total.

(* it is defined exactly when every further operand is compatible with the first *)
Theorem C17_running_total_defined : forall t a,
  pc_wf a -> Forall pc_wf t ->
  ((exists r, pc_accum_from a t = Some r) <-> Forall (fun c => pc_compat a c = true) t).
Proof. exact accum_defined_iff. Qed.
Print Assumptions C17_running_total_defined.

Example C17_running_total_concrete :
  let c := c17_pc_example in
  omap pc_counts (pc_accum [c; c; pc_mul 2 c]) = Some (pc_counts (pc_mul 4 c)).
Proof. vm_compute. reflexivity. Qed.

(* non-vacuity: a concrete 2-bin, 3-patch container: patches [0,2] then sampling; the
   jackknife sample that leaves out patch 2 as well is the single entry [0][0] *)
Example C17_concrete :
  let c := c17_pc_example in
  omap pc_counts (pc_patches c (SList [0; 2]%Z)) = Some [[[1; 3]; [7; 9]]; [[10; 30]; [70; 90]]]
  /\ omap (fun r => (qlist_eqb (sd_data (pc_sample r)) [20; 200],
                     qmat_eqb (sd_samples (pc_sample r)) [[9; 90]; [1; 10]]))
          (pc_patches c (SList [0; 2]%Z)) = Some (true, true)
  /\ omap (fun r => edges (pc_bin r)) (pc_bins c (SSlice (Some 1%Z) None 1)) = Some [1; 2]
  /\ c17_case true (VPC c) (OAdd (VPC c)) (Val (VPC (pc_mul 2 c))) = 0%nat.
Proof. vm_compute. repeat split; reflexivity. Qed.

(* ---------------- re-entrant and interleaved iteration (Model/Cursors.v) ---------------- *)
(* iter(x.bins) creates a cursor that owns its position.  For ANY sequence of operations (cursors over the
   same or other containers created and advanced in any order, indexing, slicing, lengths in between): *)
(* what the own-position machine returns is what the statement says (the j-th next() of a cursor yields
   item j, read off the history alone) *)
Theorem C17_cursor_machine_is_statement : forall (A : Type) len (get : source -> selector -> option A) ops,
  total_get len get -> irun len get ops = srun len get ops.
Proof. exact @irun_srun. Qed.
Print Assumptions C17_cursor_machine_is_statement.

(* what cursor k observes in an interleaving is what it observes when its operations run alone *)
Theorem C17_cursor_noninterference : forall (A : Type) len (get : source -> selector -> option A) ops k,
  own k (itrace len get [] ops) = itrace len get [] (filter (mentions k) ops).
Proof. exact @cursor_noninterference. Qed.
Print Assumptions C17_cursor_noninterference.

(* every cursor yields item 0, 1, ..., n-1 of its source and StopIteration from then on *)
Theorem C17_interleaving_own_sequence : forall (A : Type) len (get : source -> selector -> option A) ops k s m,
  total_get len get ->
  filter (mentions k) ops = CNew k s :: repeat (CNext k) m ->
  map snd (own k (itrace len get [] ops)) = BNone :: map (yield len get s) (seq 0 m).
Proof. exact @interleaving_own_sequence. Qed.
Print Assumptions C17_interleaving_own_sequence.

(* PatchedCounts: every loop over c.bins / c.patches, interleaved in any way with other loops over the same
   container, sees c.bins[0] .. c.bins[n-1] (c.patches[0] .. c.patches[N-1]) and ends *)
Theorem C17_cursor_sequence_counts : forall c ops k a,
  pc_wfb c = true ->
  filter (mentions k) ops = CNew k (0%nat, a) :: repeat (CNext k) (S (pc_axis_len c a)) ->
  map snd (own k (itrace (c_len [VPC c]) (c_get [VPC c]) [] ops))
  = BNone :: map BItem (tab (pc_axis_len c a) (pc_axis_item c a)) ++ [BStop].
Proof. exact pc_cursor_sequence. Qed.
Print Assumptions C17_cursor_sequence_counts.
Theorem C17_cursor_run_spec_counts : forall c ops,
  pc_wfb c = true -> irun (c_len [VPC c]) (c_get [VPC c]) ops = srun (c_len [VPC c]) (c_get [VPC c]) ops.
Proof. exact pc_cursor_run_spec. Qed.
Print Assumptions C17_cursor_run_spec_counts.

(* the variant with ONE position per (object, axis) (a helper that is its own iterator, handed out once per
   container): indistinguishable while a single cursor is used ... *)
Theorem C17_shared_position_single_cursor_ok : forall (A : Type) len (get : source -> selector -> option A) ops k,
  Forall (only_cursor k) ops -> hrun len get ops = irun len get ops.
Proof. exact @shared_single_cursor_ok. Qed.
Print Assumptions C17_shared_position_single_cursor_ok.
(* ... and wrong for zip(x.bins, x.bins) and for nested loops *)
Theorem C17_shared_position_refuted :
  irun (toy_len 4) (toy_get 4) zip_4
    = [BNone; BNone; BItem 0; BItem 0; BItem 1; BItem 1; BItem 2; BItem 2; BItem 3; BItem 3; BStop]%nat
  /\ hrun (toy_len 4) (toy_get 4) zip_4
    = [BNone; BNone; BItem 0; BItem 1; BItem 2; BItem 3; BStop; BStop; BStop; BStop; BStop]%nat
  /\ irun (toy_len 2) (toy_get 2) nested_2x2
    = [BNone; BItem 0; BNone; BItem 0; BItem 1; BStop; BItem 1; BNone; BItem 0; BItem 1; BStop; BStop]%nat
  /\ hrun (toy_len 2) (toy_get 2) nested_2x2
    = [BNone; BItem 0; BNone; BItem 0; BItem 1; BStop; BStop; BNone; BItem 0; BItem 1; BStop; BStop]%nat
  /\ srun (toy_len 4) (toy_get 4) zip_4 <> hrun (toy_len 4) (toy_get 4) zip_4
  /\ srun (toy_len 2) (toy_get 2) nested_2x2 <> hrun (toy_len 2) (toy_get 2) nested_2x2.
Proof. exact shared_position_refuted. Qed.
Print Assumptions C17_shared_position_refuted.

(* non-vacuity on the concrete 2-bin, 3-patch container: a loop over the bins with a loop over the patches
   nested in its first round and an index expression in between; the checker accepts exactly these
   observations and flags the ones of the shared-position variant for zip(c.bins, c.bins) *)
Example C17_cursor_concrete :
  let c := c17_pc_example in
  let ops := [CNew 0 (0, ABins); CNext 0; CNew 1 (0, APatches); CNext 1; CIndex (0, ABins) (SInt (-1));
              CNext 1; CNext 0; CNext 1; CNext 1; CLen (0, APatches); CNext 0]%nat in
  irun (c_len [VPC c]) (c_get [VPC c]) ops
  = [BNone; BItem (VPC (pc_bin_item c 0)); BNone; BItem (VPC (pc_patch_item c 0)); BItem (VPC (pc_bin_item c 1));
     BItem (VPC (pc_patch_item c 1)); BItem (VPC (pc_bin_item c 1)); BItem (VPC (pc_patch_item c 2)); BStop;
     BNum 3; BStop]%nat
  /\ c17_cursor_case [VPC c] ops (irun (c_len [VPC c]) (c_get [VPC c]) ops) = 0%nat
  /\ (let z := [CNew 0 (0, ABins); CNew 1 (0, ABins); CNext 0; CNext 1; CNext 0]%nat in
      c17_cursor_case [VPC c] z (irun (c_len [VPC c]) (c_get [VPC c]) z) = 0%nat
      /\ c17_cursor_case [VPC c] z (hrun (c_len [VPC c]) (c_get [VPC c]) z) = (1 + 2 + 8 + 16 * 4)%nat).
Proof. vm_compute. repeat split; reflexivity. Qed.

(* ---------------- many patches / bins, index expressions of every representation ---------------- *)
(* Model/ContainersWide.v: the index VALUES are unbounded integers whatever their representation (python int,
   numpy scalar, list, integer array of any dtype, boolean mask); containers with thousands of patches are
   functions of the position.  Selecting on the function is selecting on the materialised container ... *)
Theorem C17_wide_patches_is_model : forall bin auto nb P f I,
  (1 <= nb)%nat -> fpc_select_patches bin auto nb P f I = pc_select_patches (pc_of_fun bin auto nb P f) I.
Proof. exact fpc_select_patches_model. Qed.
Print Assumptions C17_wide_patches_is_model.
Theorem C17_wide_bins_is_model : forall bin auto nb P f I,
  fpc_select_bins bin auto nb P f I = pc_select_bins (pc_of_fun bin auto nb P f) I.
Proof. exact fpc_select_bins_model. Qed.
Print Assumptions C17_wide_bins_is_model.
Theorem C17_wide_weights_patches_is_model : forall bin auto nb P g1 g2 I,
  (1 <= nb)%nat -> fsw_select_patches bin auto nb P g1 g2 I = sw_select_patches (sw_of_fun bin auto nb P g1 g2) I.
Proof. exact fsw_select_patches_model. Qed.
Print Assumptions C17_wide_weights_patches_is_model.
Theorem C17_wide_weights_bins_is_model : forall bin auto nb P g1 g2 I,
  fsw_select_bins bin auto nb P g1 g2 I = sw_select_bins (sw_of_fun bin auto nb P g1 g2) I.
Proof. exact fsw_select_bins_model. Qed.
Print Assumptions C17_wide_weights_bins_is_model.
Theorem C17_wide_sampled_bins_is_model : forall bin nb M d s I,
  fsd_select bin nb M d s I = sd_select (sd_of_fun bin nb M d s) I.
Proof. exact fsd_select_model. Qed.
Print Assumptions C17_wide_sampled_bins_is_model.

(* ... entry (a, c) of the selection is entry (I_a, I_c) of the original, for every number of patches ... *)
Theorem C17_wide_patches_entry : forall bin auto nb P f I r,
  fpc_select_patches bin auto nb P f I = Some r ->
  pc_bin r = bin /\ pc_auto r = auto /\ pc_nb r = nb /\ all_lt P I = true /\
  forall b a c, (b < nb)%nat -> (a < length I)%nat -> (c < length I)%nat ->
    nth3 (pc_counts r) b a c = f b (nth a I 0%nat) (nth c I 0%nat).
Proof. exact wide_patches_entry. Qed.
Print Assumptions C17_wide_patches_entry.
(* ... and the selected counts and sums of weights describe the same sub-catalogue *)
Theorem C17_wide_same_subcatalogue : forall bin auto nb P f g1 g2 I rc rs,
  fpc_select_patches bin auto nb P f I = Some rc ->
  fsw_select_patches bin auto nb P g1 g2 I = Some rs ->
  forall b a c, (b < nb)%nat -> (a < length I)%nat -> (c < length I)%nat ->
    exists p q, p = nth a I 0%nat /\ q = nth c I 0%nat /\ (p < P)%nat /\ (q < P)%nat /\
      nth3 (pc_counts rc) b a c = f b p q /\
      nth a (nth b (sw1 rs) []) 0 = g1 b p /\ nth c (nth b (sw2 rs) []) 0 = g2 b q.
Proof. exact wide_same_subcatalogue. Qed.
Print Assumptions C17_wide_same_subcatalogue.

(* boolean masks select the positions where they are True; a mask of another length is rejected *)
Theorem C17_wide_mask_positions : forall n m I,
  wresolve n (WMask m) = Some I ->
  length m = n /\ all_lt n I = true /\ forall i, In i I <-> nth i m false = true.
Proof. exact wide_mask_positions. Qed.
Print Assumptions C17_wide_mask_positions.
Theorem C17_wide_mask_wrong_length_rejected : forall n m, length m <> n -> wresolve n (WMask m) = None.
Proof. exact wide_mask_wrong_length_rejected. Qed.
Print Assumptions C17_wide_mask_wrong_length_rejected.

(* the position-coded containers of the correspondence: two entries are equal only at the same position, so a
   result equal to the model's reads every entry from the right patch pair *)
Theorem C17_wide_code_injective : forall off P b i j b' i' j',
  (i < P)%nat -> (j < P)%nat -> (i' < P)%nat -> (j' < P)%nat ->
  code3 off P b i j == code3 off P b' i' j' -> b = b' /\ i = i' /\ j = j'.
Proof. exact code3_injective. Qed.
Print Assumptions C17_wide_code_injective.
Theorem C17_wide_case_sound : forall strict leaf c ax w impl,
  c17_wide_case strict leaf c ax w impl = 0%nat ->
  (wobs_eqb impl (wmodel leaf c ax w) = true \/ (strict = false /\ impl = WErr)) /\
  w_wf c = true /\ wobs_wfb impl = true /\
  (wmodel leaf c ax w = WErr -> impl = WErr).
Proof. exact wide_case_sound. Qed.
Print Assumptions C17_wide_case_sound.
Theorem C17_wide_model_is_pc_patches : forall c s,
  w_wf c = true ->
  wmodel LPC c WPatches (WSel s)
  = wlift WPC (pc_patches (pc_of_fun (w_bin c) (w_auto c) (w_nb c) (w_np c) (w_counts c)) s).
Proof. exact wide_model_is_pc_patches. Qed.
Print Assumptions C17_wide_model_is_pc_patches.

(* gathering the sub-matrix through the flattened patch-pair axis at I_a * P + I_c: the selection, when the
   arithmetic is done in unbounded integers or in a type that holds all P * P positions ... *)
Theorem C17_flat_select_unbounded : forall bin auto nb P f I,
  fpc_select_patches_flat IUnbounded bin auto nb P f I = fpc_select_patches bin auto nb P f I.
Proof. exact flat_select_unbounded_is_selection. Qed.
Print Assumptions C17_flat_select_unbounded.
Theorem C17_flat_select_wide_enough : forall w bin auto nb P f I,
  (0 < w)%Z -> (Z.of_nat P * Z.of_nat P <= 2 ^ (w - 1))%Z ->
  fpc_select_patches_flat (ISigned w) bin auto nb P f I = fpc_select_patches bin auto nb P f I.
Proof. exact flat_select_signed_wide_enough. Qed.
Print Assumptions C17_flat_select_wide_enough.
Theorem C17_flat_int16_exact_upto_181 : forall P i j,
  (P <= 181)%Z -> (0 <= i < P)%Z -> (0 <= j < P)%Z -> flat_index (ISigned 16) P i j = Some (i * P + j)%Z.
Proof. exact flat_index_int16_exact_upto_181. Qed.
Print Assumptions C17_flat_int16_exact_upto_181.
(* ... and refuted in int16, the library's own patch-id dtype, from 182 patches on: the flat positions are
   computed modulo 2^16 and the entry of another patch pair is returned without any error *)
Theorem C17_flat_int16_refuted_182 :
  flat_index (ISigned 16) 182 181 0 = Some 530%Z /\ unflat 182 530 = (2, 166)%Z /\
  flat_index IUnbounded 182 181 0 = Some 32942%Z /\ unflat 182 32942 = (181, 0)%Z.
Proof. exact flat_int16_refuted_182. Qed.
Print Assumptions C17_flat_int16_refuted_182.
Theorem C17_flat_int16_wrong_from_182 : forall P,
  (182 <= P <= 32768)%Z -> P <> 256%Z ->
  (0 <= int16_witness P < P)%Z /\
  flat_index (ISigned 16) P (int16_witness P) 0 <> Some (int16_witness P * P)%Z.
Proof. exact flat_int16_wrong_from_182. Qed.
Print Assumptions C17_flat_int16_wrong_from_182.
(* 256 patches is the one size where the wrap-around cancels (so the number of patches has to be varied);
   int8 is lost from 12 patches on, uint8 from 17 *)
Theorem C17_flat_int16_256_exact : flat_exact_b (ISigned 16) 256 = true.
Proof. exact flat_int16_256_exact. Qed.
Print Assumptions C17_flat_int16_256_exact.
Theorem C17_flat_int8_uint8_thresholds :
  flat_exact_b (ISigned 8) 11 = true /\ flat_exact_b (ISigned 8) 12 = false /\
  flat_exact_b (IUnsigned 8) 16 = true /\ flat_exact_b (IUnsigned 8) 17 = false.
Proof. exact flat_int8_uint8_thresholds. Qed.
Print Assumptions C17_flat_int8_uint8_thresholds.

(* non-vacuity: 200 position-coded patches, x.patches[[150, -1, 181]].  The checker accepts the sub-matrix
   (code 0), flags the matrix gathered with int16 arithmetic (code 1: rows of patches 199 and 181 come from
   other patch pairs), flags a rejection of this valid selection (code 1), accepts the rejection of a numpy
   scalar (not a documented index type) and flags an out-of-range index that was not rejected (code 1 + 4) *)
Example C17_wide_concrete :
  (exists r, fpc_select_patches (w_bin wide_example) false 2 200 (w_counts wide_example) [150; 199; 181]%nat = Some r
     /\ nth 0 (pc_counts r) [] = [[30150; 30199; 30181]; [39950; 39999; 39981]; [36350; 36399; 36381]]
     /\ c17_wide_case true LPC wide_example WPatches wide_example_sel (WPC r) = 0%nat)
  /\ (exists r, fpc_select_patches_flat (ISigned 16) (w_bin wide_example) false 2 200 (w_counts wide_example)
                  [150; 199; 181]%nat = Some r
     /\ nth 0 (pc_counts r) [] = [[30150; 30199; 30181]; [14414; 14463; 14445]; [10814; 10863; 10845]]
     /\ c17_wide_case true LPC wide_example WPatches wide_example_sel (WPC r) = 1%nat)
  /\ c17_wide_case true LPC wide_example WPatches wide_example_sel WErr = 1%nat
  /\ c17_wide_case false LPC wide_example WPatches (WSel (SInt 199)) WErr = 0%nat
  /\ c17_wide_case true LPC wide_example WPatches (WSel (SList [200]%Z))
       (WPC (pc_of_fun (w_bin wide_example) false 2 1 (fun _ _ _ => 0))) = 5%nat.
Proof. exact wide_example_refuted. Qed.
Print Assumptions C17_wide_concrete.

(* ---------------- selection by an index list (Model/SmallVariants2.v) ---------------- *)
From Verif Require SmallVariants2 SmallVariants2P.
(* entry a of a selection is the entry the a-th listed index names: the order (and the repeats) of the list are kept ... *)
Theorem C17_select_entry : forall (A : Type) (d : A) (idx : list nat) (l : list A) (a : nat),
  (a < length idx)%nat -> nth a (SmallVariants2.select d idx l) d = nth (nth a idx 0%nat) l d.
Proof. exact @SmallVariants2P.select_entry. Qed.
Print Assumptions C17_select_entry.
(* ... a selection through a boolean mask returns the entries in ascending position: for an unsorted list the counts (by list)
   and the weight sums (by mask) of one selection describe different patches *)
Theorem C17_select_through_mask_refuted :
  exists (idx : list nat) (l : list nat),
    SmallVariants2.select 0%nat idx l <> SmallVariants2.select_mask 0%nat idx l /\
    length (SmallVariants2.select 0%nat idx l) = length (SmallVariants2.select_mask 0%nat idx l).
Proof. exact SmallVariants2P.select_mask_refuted. Qed.
Print Assumptions C17_select_through_mask_refuted.
