(* C13 — results are invariant under rotations, row order, patch labels and weight scale; raw
   counts are additive.  Statements about the specification of the measurement
   (count / norm_count / loo_count over labelled weighted points, any distance function). *)
From Verif Require Import Prelude PairCount Invariance InvarianceP.
From Coq Require Import Permutation.
Open Scope Q_scope.

Theorem C13_count_row_perm : forall (P : Type) (ang : P -> P -> Q) lo hi (A A' B B' : list (lobj P)),
  Permutation A A' -> Permutation B B' -> count ang lo hi A B == count ang lo hi A' B'.
Proof. exact @count_row_perm. Qed.
Print Assumptions C13_count_row_perm.

Theorem C13_count_isometry : forall (P : Type) (ang : P -> P -> Q) (phi : P -> P) lo hi (A B : list (lobj P)),
  (forall a b, ang (phi a) (phi b) = ang a b) ->
  count ang lo hi (map (move phi) A) (map (move phi) B) = count ang lo hi A B.
Proof. exact @count_isometry. Qed.
Print Assumptions C13_count_isometry.

Theorem C13_count_patch_relabel : forall (P : Type) (ang : P -> P -> Q) pi lo hi (A B : list (lobj P)),
  count ang lo hi (map (relabel pi) A) (map (relabel pi) B) = count ang lo hi A B.
Proof. exact @count_patch_relabel. Qed.
Print Assumptions C13_count_patch_relabel.

(* jackknife samples permute with the relabelling *)
Theorem C13_loo_patch_relabel : forall (P : Type) (ang : P -> P -> Q) pi lo hi k (A B : list (lobj P)),
  (forall i j, pi i = pi j -> i = j) ->
  loo_count ang lo hi (pi k) (map (relabel pi) A) (map (relabel pi) B) = loo_count ang lo hi k A B.
Proof. exact @loo_patch_relabel. Qed.
Print Assumptions C13_loo_patch_relabel.

Theorem C13_count_additive : forall (P : Type) (ang : P -> P -> Q) lo hi (A B1 B2 : list (lobj P)),
  count ang lo hi A (B1 ++ B2) == count ang lo hi A B1 + count ang lo hi A B2.
Proof. exact @count_additive. Qed.
Print Assumptions C13_count_additive.

Theorem C13_norm_weight_scale : forall (P : Type) (ang : P -> P -> Q) k lo hi (A B : list (lobj P)),
  ~ k == 0 -> ~ totw A * totw B == 0 ->
  norm_count ang lo hi (map (scale k) A) B == norm_count ang lo hi A B.
Proof. exact @norm_weight_scale. Qed.
Print Assumptions C13_norm_weight_scale.

Example C13_concrete :
  let ang := fun a b : Q => Qabs (a - b) in
  let A := [{| lp := 0; lw := 2; lpatch := 0%nat |}; {| lp := 1; lw := 1; lpatch := 1%nat |}] in
  let B := [{| lp := 1 # 2; lw := 3; lpatch := 0%nat |}] in
  Qeq_bool (count ang 0 1 A B) 9 = true /\
  Qeq_bool (norm_count ang 0 1 (map (scale 4) A) B) (norm_count ang 0 1 A B) = true.
Proof. vm_compute. split; reflexivity. Qed.
