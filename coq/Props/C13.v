(* C13 — results are invariant under rotations, row order, patch labels and weight scale; raw
   counts are additive.  Statements about the specification of the measurement
   (count / norm_count / loo_count over labelled weighted points, any distance function). *)
From Verif Require Import Prelude PairCount Invariance InvarianceP Rotation Jackknife InvarianceXP InvarianceSize InvarianceSizeP.
From Verif Require Import RoundRobin RoundRobinP RoundRobinGraph RoundRobinGraphP.
From Coq Require Import Permutation.
Open Scope Q_scope.

Theorem C13_count_row_perm : forall (P : Type) (ang : P -> P -> Q) lo hi (A A' B B' : list (lobj P)),
  Permutation A A' -> Permutation B B' -> count ang lo hi A B == count ang lo hi A' B'.
Proof. exact @count_row_perm. Qed.
Print Assumptions C13_count_row_perm.

Theorem C13_count_isometry : forall (P : Type) (ang : P -> P -> Q) (phi : P -> P) lo hi (A B : list (lobj P)),
  (forall a b, ang (phi a) (phi b) = ang a b) ->
  count ang lo hi (map (move phi) A) (map (move phi) B) = count ang lo hi A B.
Proof. exact @count_isometry. Qed.
Print Assumptions C13_count_isometry.

Theorem C13_count_patch_relabel : forall (P : Type) (ang : P -> P -> Q) pi lo hi (A B : list (lobj P)),
  count ang lo hi (map (relabel pi) A) (map (relabel pi) B) = count ang lo hi A B.
Proof. exact @count_patch_relabel. Qed.
Print Assumptions C13_count_patch_relabel.

(* jackknife samples permute with the relabelling *)
Theorem C13_loo_patch_relabel : forall (P : Type) (ang : P -> P -> Q) pi lo hi k (A B : list (lobj P)),
  (forall i j, pi i = pi j -> i = j) ->
  loo_count ang lo hi (pi k) (map (relabel pi) A) (map (relabel pi) B) = loo_count ang lo hi k A B.
Proof. exact @loo_patch_relabel. Qed.
Print Assumptions C13_loo_patch_relabel.

Theorem C13_count_additive : forall (P : Type) (ang : P -> P -> Q) lo hi (A B1 B2 : list (lobj P)),
  count ang lo hi A (B1 ++ B2) == count ang lo hi A B1 + count ang lo hi A B2.
Proof. exact @count_additive. Qed.
Print Assumptions C13_count_additive.

Theorem C13_norm_weight_scale : forall (P : Type) (ang : P -> P -> Q) k lo hi (A B : list (lobj P)),
  ~ k == 0 -> ~ totw A * totw B == 0 ->
  norm_count ang lo hi (map (scale k) A) B == norm_count ang lo hi A B.
Proof. exact @norm_weight_scale. Qed.
Print Assumptions C13_norm_weight_scale.

(* ---------------- rigid rotations are isometries of the quantity the counter compares ---------------- *)
(* a 3x3 matrix with orthonormal columns preserves squared chord lengths of 3-vectors (and keeps unit vectors
   on the sphere), so it is an instance of the isometries of C13_count_isometry, for counts, for every
   jackknife sample and for the normalised terms; poles and RA = 0 play no role on 3-vectors *)
Theorem C13_rotation_preserves_chords : forall R u v, orth R -> chord2 (mv R u) (mv R v) == chord2 u v.
Proof. exact chord2_rot. Qed.
Print Assumptions C13_rotation_preserves_chords.

Theorem C13_rotation_keeps_sphere : forall R u, orth R -> dot3 u u == 1 -> dot3 (mv R u) (mv R u) == 1.
Proof. exact unit_rot. Qed.
Print Assumptions C13_rotation_keeps_sphere.

Theorem C13_count_isometry_eq : forall (P : Type) (ang : P -> P -> Q) (phi : P -> P) lo hi (A B : list (lobj P)),
  (forall a b, ang (phi a) (phi b) == ang a b) ->
  count ang lo hi (map (move phi) A) (map (move phi) B) == count ang lo hi A B.
Proof. exact @count_isometry_eq. Qed.
Print Assumptions C13_count_isometry_eq.

Theorem C13_count_rotation : forall R lo hi (A B : list (lobj v3)), orth R ->
  count chord2 lo hi (map (move (mv R)) A) (map (move (mv R)) B) == count chord2 lo hi A B.
Proof. exact count_rotation. Qed.
Print Assumptions C13_count_rotation.

Theorem C13_loo_rotation : forall R lo hi k (A B : list (lobj v3)), orth R ->
  loo_count chord2 lo hi k (map (move (mv R)) A) (map (move (mv R)) B) == loo_count chord2 lo hi k A B.
Proof. exact loo_rotation. Qed.
Print Assumptions C13_loo_rotation.

Theorem C13_norm_rotation : forall R lo hi (A B : list (lobj v3)), orth R ->
  norm_count chord2 lo hi (map (move (mv R)) A) (map (move (mv R)) B) == norm_count chord2 lo hi A B.
Proof. exact norm_rotation. Qed.
Print Assumptions C13_norm_rotation.

(* ---------------- additivity and weight scale, the remaining cases ---------------- *)
Theorem C13_count_additive_first : forall (P : Type) (ang : P -> P -> Q) lo hi (A1 A2 B : list (lobj P)),
  count ang lo hi (A1 ++ A2) B == count ang lo hi A1 B + count ang lo hi A2 B.
Proof. exact @count_additive_l. Qed.
Print Assumptions C13_count_additive_first.

(* any split of the rows into two catalogs, not only a cut *)
Theorem C13_count_additive_split : forall (P : Type) (ang : P -> P -> Q) lo hi (A B B1 B2 : list (lobj P)),
  Permutation B (B1 ++ B2) -> count ang lo hi A B == count ang lo hi A B1 + count ang lo hi A B2.
Proof. exact @count_additive_split. Qed.
Print Assumptions C13_count_additive_split.

Theorem C13_norm_weight_scale_second : forall (P : Type) (ang : P -> P -> Q) k lo hi (A B : list (lobj P)),
  ~ k == 0 -> ~ totw A * totw B == 0 ->
  norm_count ang lo hi A (map (scale k) B) == norm_count ang lo hi A B.
Proof. exact @norm_weight_scale_r. Qed.
Print Assumptions C13_norm_weight_scale_second.

(* autocorrelation: the one catalog enters twice, k^2 cancels *)
Theorem C13_norm_weight_scale_auto : forall (P : Type) (ang : P -> P -> Q) k lo hi (A : list (lobj P)),
  ~ k == 0 -> ~ totw A == 0 ->
  norm_count ang lo hi (map (scale k) A) (map (scale k) A) == norm_count ang lo hi A A.
Proof. exact @norm_weight_scale_both. Qed.
Print Assumptions C13_norm_weight_scale_auto.

(* ---------------- the jackknife covariance under relabelling ---------------- *)
(* relabelling patches permutes the jackknife samples (C13_loo_patch_relabel); the covariance is a symmetric
   function of the samples *)
Theorem C13_covariance_sample_order : forall X X' i j, Permutation X X' -> cov_code X i j == cov_code X' i j.
Proof. exact cov_sample_order. Qed.
Print Assumptions C13_covariance_sample_order.

Example C13_rotation_concrete :
  let R : m3 := ((1 # 3, 2 # 3, 2 # 3), (2 # 3, 1 # 3, - (2 # 3)), (2 # 3, - (2 # 3), 1 # 3)) in
  let u : v3 := (3 # 5, 4 # 5, 0) in let v : v3 := (0, 0, 1) in
  orthb R = true /\ Qeqb (chord2 (mv R u) (mv R v)) (chord2 u v) = true /\ Qeqb (chord2 u v) 2 = true
  /\ Qeqb (dot3 (mv R u) (mv R u)) 1 = true.
Proof. vm_compute. repeat split; reflexivity. Qed.

Example C13_concrete :
  let ang := fun a b : Q => Qabs (a - b) in
  let A := [{| lp := 0; lw := 2; lpatch := 0%nat |}; {| lp := 1; lw := 1; lpatch := 1%nat |}] in
  let B := [{| lp := 1 # 2; lw := 3; lpatch := 0%nat |}] in
  Qeq_bool (count ang 0 1 A B) 9 = true /\
  Qeq_bool (norm_count ang 0 1 (map (scale 4) A) B) (norm_count ang 0 1 A B) = true.
Proof. vm_compute. split; reflexivity. Qed.

(* ---------------- the weight scale and results that went through a file ---------------- *)
(* the stored form of a count table keeps the patch pairs with a count that is not zero, whatever its magnitude:
   reading back gives the table that was written, so it commutes with a weight factor and the normalised counts
   computed after CorrFunc.to_file / from_file do not depend on the factor *)
Theorem C13_stored_counts_read_back : forall T, Forall2 (Forall2 Qeq) (roundtrip any_nonzero T) T.
Proof. exact roundtrip_id. Qed.
Print Assumptions C13_stored_counts_read_back.

Theorem C13_stored_counts_weight_scale : forall k row,
  Forall2 Qeq (roundtrip_row any_nonzero (scale_row k row)) (scale_row k (roundtrip_row any_nonzero row)).
Proof. exact roundtrip_row_scale. Qed.
Print Assumptions C13_stored_counts_weight_scale.

Theorem C13_stored_norm_weight_scale : forall k n row, ~ k == 0 -> ~ n == 0 ->
  Forall2 Qeq (map (fun x => x / (k * n)) (roundtrip_row any_nonzero (scale_row k row)))
              (map (fun x => x / n) (roundtrip_row any_nonzero row)).
Proof. exact roundtrip_row_norm_scale. Qed.
Print Assumptions C13_stored_norm_weight_scale.

(* a selection with any absolute threshold breaks this for some positive factor *)
Theorem C13_stored_threshold_refuted : forall eps, 0 < eps ->
  exists row k, 0 < k /\
    ~ Forall2 Qeq (roundtrip_row (any_above eps) (scale_row k row)) (scale_row k (roundtrip_row (any_above eps) row)).
Proof. exact roundtrip_threshold_refuted. Qed.
Print Assumptions C13_stored_threshold_refuted.

Example C13_stored_concrete :
  let row := [1 # 4; 0; 3] in let k := 1 # 1099511627776 in let eps := 1 # 100000000 in
  any_nonzero (scale_row k row) = true /\
  qlist_eqb (roundtrip_row any_nonzero (scale_row k row)) (scale_row k row) = true /\
  qlist_eqb (roundtrip_row (any_above eps) row) row = true /\
  qlist_eqb (roundtrip_row (any_above eps) (scale_row k row)) [0; 0; 0] = true /\
  c13_store_case [row; [0; 0; 0]] [row; [0; 0; 0]] = 0%nat /\ c13_store_case [scale_row k row] [[0; 0; 0]] = 1%nat.
Proof. vm_compute. repeat split; reflexivity. Qed.

(* ---------------- the coordinate convention of the input ---------------- *)
(* catalogs are given as coordinates (Model/Invariance.v: cobj), read through a unit factor c and a position function
   [pos] with a period T in the right ascension; the code applies no range check or canonicalisation ([read]).  The same
   objects in another unit (all coordinates times u, read with c / u) and with right ascensions moved by whole periods of
   the unit, an own number per object (so [0, T'), (-T'/2, T'/2], +-T' and mixtures), are read as the same labelled
   objects: every function of the catalogs - counts, jackknife samples, normalised terms - is unchanged, each catalog
   in a convention of its own *)
Theorem C13_read_ra_convention : forall (P : Type) (pos : Q -> Q -> P) (T : Q),
  (forall a a' d d', a == a' -> d == d' -> pos a d = pos a' d') -> (forall a d, pos (a + T) d = pos a d) ->
  forall c u T' k (A : list cobj), c * T' == T -> ~ u == 0 ->
  map (read pos (c / u)) (map (in_unit u) (map (shift_ra T' k) A)) = map (read pos c) A.
Proof. exact @read_convention. Qed.
Print Assumptions C13_read_ra_convention.

Theorem C13_count_ra_convention : forall (P : Type) (pos : Q -> Q -> P) (T : Q),
  (forall a a' d d', a == a' -> d == d' -> pos a d = pos a' d') -> (forall a d, pos (a + T) d = pos a d) ->
  forall (ang : P -> P -> Q) c uA uB T' kA kB lo hi (A B : list cobj), c * T' == T -> ~ uA == 0 -> ~ uB == 0 ->
  count ang lo hi (map (read pos (c / uA)) (map (in_unit uA) (map (shift_ra T' kA) A)))
                  (map (read pos (c / uB)) (map (in_unit uB) (map (shift_ra T' kB) B)))
  = count ang lo hi (map (read pos c) A) (map (read pos c) B).
Proof. exact @count_ra_convention. Qed.
Print Assumptions C13_count_ra_convention.

Theorem C13_loo_ra_convention : forall (P : Type) (pos : Q -> Q -> P) (T : Q),
  (forall a a' d d', a == a' -> d == d' -> pos a d = pos a' d') -> (forall a d, pos (a + T) d = pos a d) ->
  forall (ang : P -> P -> Q) c uA uB T' kA kB lo hi p (A B : list cobj), c * T' == T -> ~ uA == 0 -> ~ uB == 0 ->
  loo_count ang lo hi p (map (read pos (c / uA)) (map (in_unit uA) (map (shift_ra T' kA) A)))
                        (map (read pos (c / uB)) (map (in_unit uB) (map (shift_ra T' kB) B)))
  = loo_count ang lo hi p (map (read pos c) A) (map (read pos c) B).
Proof. exact @loo_ra_convention. Qed.
Print Assumptions C13_loo_ra_convention.

Theorem C13_norm_ra_convention : forall (P : Type) (pos : Q -> Q -> P) (T : Q),
  (forall a a' d d', a == a' -> d == d' -> pos a d = pos a' d') -> (forall a d, pos (a + T) d = pos a d) ->
  forall (ang : P -> P -> Q) c uA uB T' kA kB lo hi (A B : list cobj), c * T' == T -> ~ uA == 0 -> ~ uB == 0 ->
  norm_count ang lo hi (map (read pos (c / uA)) (map (in_unit uA) (map (shift_ra T' kA) A)))
                       (map (read pos (c / uB)) (map (in_unit uB) (map (shift_ra T' kB) B)))
  = norm_count ang lo hi (map (read pos c) A) (map (read pos c) B).
Proof. exact @norm_ra_convention. Qed.
Print Assumptions C13_norm_ra_convention.

(* a reading that first wraps the right ascension into [0, W) reads the same objects when W is a period in the unit of
   the input (degrees: W = 360 with c * 360 == T) ... *)
Theorem C13_wrap_in_unit_harmless : forall (P : Type) (pos : Q -> Q -> P) (T : Q),
  (forall a a' d d', a == a' -> d == d' -> pos a d = pos a' d') -> (forall a d, pos (a + T) d = pos a d) ->
  forall W c o, c * W == T -> read_wrapped pos W c o = read pos c o.
Proof. exact @read_wrapped_period. Qed.
Print Assumptions C13_wrap_in_unit_harmless.

(* ... and changes the counts when it is applied whatever the unit: for some periodic reading, wrapping by W the
   coordinates whose period is not a divisor of W moves the objects given with a negative right ascension *)
Theorem C13_wrap_before_unit_refuted :
  exists (T W : Q) (A B : list cobj) lo hi,
    (forall a a' d d', a == a' -> d == d' -> circle_pos T a d = circle_pos T a' d') /\
    (forall a d, circle_pos T (a + T) d = circle_pos T a d) /\
    ~ count (circle_ang T) lo hi (map (read_wrapped (circle_pos T) W 1) A) (map (read_wrapped (circle_pos T) W 1) B)
      == count (circle_ang T) lo hi (map (read (circle_pos T) 1) A) (map (read (circle_pos T) 1) B).
Proof. exact wrap_before_unit_refuted. Qed.
Print Assumptions C13_wrap_before_unit_refuted.

(* on the circle of circumference 7 ("radian") = 360 "degrees" (c = 7 # 360): a field on both sides of RA = 0 given in
   degrees within [0, 360), in degrees within (-180, 180] and beyond, and in "radian" with negative values, counts the
   same pairs; the wrap by 360 is harmless on the degrees and loses the pair on the "radian" *)
Example C13_convention_concrete :
  let pos := circle_pos 7 in let ang := circle_ang 7 in let c := 7 # 360 in
  let o := fun ra w => {| cra := ra; cdec := 0; cw := w; cpatch := 0%nat |} in
  let A := [o 350 2; o 10 1] in let B := [o 0 3] in
  let k := fun x : cobj => if Qleb 180 (cra x) then (-1)%Z else 1%Z in
  let A' := map (shift_ra 360 k) A in
  let Arad := map (in_unit c) A' in
  qlist_eqb (map cra A') [- (10); 370] = true /\ qlist_eqb (map cra Arad) [- (7 # 36); 259 # 36] = true /\
  Qeqb (count ang 0 (1 # 4) (map (read pos c) A) (map (read pos c) B)) 9 = true /\
  Qeqb (count ang 0 (1 # 4) (map (read pos c) A') (map (read pos c) B)) 9 = true /\
  Qeqb (count ang 0 (1 # 4) (map (read pos (c / c)) Arad) (map (read pos c) B)) 9 = true /\
  Qeqb (count ang 0 (1 # 4) (map (read_wrapped pos 360 c) A') (map (read pos c) B)) 9 = true /\
  Qeqb (count ang 0 (1 # 4) (map (read_wrapped pos 360 (c / c)) Arad) (map (read pos c) B)) 3 = true.
Proof. vm_compute. repeat split; reflexivity. Qed.

(* ---------- counting over linked patch pairs only, catalogs with extents of their own ---------- *)
(* The pair counting visits the linked patch pairs only, and the catalogs of a measurement share the centres, not the
   extent of the data in a patch.  Whatever link test is used, nothing is lost as long as no unlinked patch pair holds a
   counted pair ... *)
Theorem C13_linked_count_sound : forall (P : Type) (ang : P -> P -> Q) link lo hi (A B : list (lobj P)),
  (forall a b, In a A -> In b B -> in_range lo hi (ang (lp a) (lp b)) = true -> link (lpatch a) (lpatch b) = true) ->
  linked_count ang link lo hi A B == count ang lo hi A B.
Proof. exact @linked_count_sound. Qed.
Print Assumptions C13_linked_count_sound.

(* ... which the symmetric test does in any metric space, from ANY centres and radii that cover both catalogs and any
   angle M >= hi ... *)
Theorem C13_linked_count_covering : forall (P : Type) (ang : P -> P -> Q),
  (forall a b, ang a b == ang b a) -> (forall a b c, ang a c <= ang a b + ang b c) ->
  forall c R M lo hi (A B : list (lobj P)),
  covers ang c R A = true -> covers ang c R B = true -> hi <= M ->
  linked_count ang (link_sym ang c R M) lo hi A B == count ang lo hi A B.
Proof. exact @linked_count_covering. Qed.
Print Assumptions C13_linked_count_covering.

(* ... and the radii of the code - per patch the farthest object of any catalog of the measurement - cover every one of
   them, whichever catalog is the largest and however much wider or narrower than it the others are, patch by patch *)
Theorem C13_reach_covers : forall (P : Type) (ang : P -> P -> Q) c (cats : list (list (lobj P))) A,
  In A cats -> covers ang c (reach ang c cats) A = true.
Proof. exact @reach_covers. Qed.
Print Assumptions C13_reach_covers.

(* hence: the same objects under other patch labels, measured with a geometry of its own (centres and radii listed in
   another order, possibly taken from another catalog), give the same counts ... *)
Theorem C13_linked_count_relabel_extents : forall (P : Type) (ang : P -> P -> Q),
  (forall a b, ang a b == ang b a) -> (forall a b c, ang a c <= ang a b + ang b c) ->
  forall pi c R M c' R' M' lo hi (A B : list (lobj P)),
  covers ang c R A = true -> covers ang c R B = true -> hi <= M ->
  covers ang c' R' (map (relabel pi) A) = true -> covers ang c' R' (map (relabel pi) B) = true -> hi <= M' ->
  linked_count ang (link_sym ang c' R' M') lo hi (map (relabel pi) A) (map (relabel pi) B)
  == linked_count ang (link_sym ang c R M) lo hi A B.
Proof. exact @linked_count_relabel_extents. Qed.
Print Assumptions C13_linked_count_relabel_extents.

(* ... and the measurements of the two parts of a split catalog - either catalog of the pair - each with the geometry of
   its own measurement (another catalog may be the largest there), add up to the unsplit counts *)
Theorem C13_linked_count_additive_extents : forall (P : Type) (ang : P -> P -> Q),
  (forall a b, ang a b == ang b a) -> (forall a b c, ang a c <= ang a b + ang b c) ->
  forall c R M c1 R1 M1 c2 R2 M2 lo hi (A B1 B2 : list (lobj P)),
  covers ang c R A = true -> covers ang c R (B1 ++ B2) = true -> hi <= M ->
  covers ang c1 R1 A = true -> covers ang c1 R1 B1 = true -> hi <= M1 ->
  covers ang c2 R2 A = true -> covers ang c2 R2 B2 = true -> hi <= M2 ->
  linked_count ang (link_sym ang c R M) lo hi A (B1 ++ B2)
  == linked_count ang (link_sym ang c1 R1 M1) lo hi A B1 + linked_count ang (link_sym ang c2 R2 M2) lo hi A B2.
Proof. exact @linked_count_additive_extents. Qed.
Print Assumptions C13_linked_count_additive_extents.
Theorem C13_linked_count_additive_extents_first : forall (P : Type) (ang : P -> P -> Q),
  (forall a b, ang a b == ang b a) -> (forall a b c, ang a c <= ang a b + ang b c) ->
  forall c R M c1 R1 M1 c2 R2 M2 lo hi (A1 A2 B : list (lobj P)),
  covers ang c R (A1 ++ A2) = true -> covers ang c R B = true -> hi <= M ->
  covers ang c1 R1 A1 = true -> covers ang c1 R1 B = true -> hi <= M1 ->
  covers ang c2 R2 A2 = true -> covers ang c2 R2 B = true -> hi <= M2 ->
  linked_count ang (link_sym ang c R M) lo hi (A1 ++ A2) B
  == linked_count ang (link_sym ang c1 R1 M1) lo hi A1 B + linked_count ang (link_sym ang c2 R2 M2) lo hi A2 B.
Proof. exact @linked_count_additive_extents_first. Qed.
Print Assumptions C13_linked_count_additive_extents_first.

(* the symmetric test does not care which of two patches carries the lower id (an autocorrelation visits a patch pair
   once, from the lower id) *)
Theorem C13_link_sym_symmetric : forall (P : Type) (ang : P -> P -> Q), (forall a b, ang a b == ang b a) ->
  forall c R M i j, link_sym ang c R M i j = link_sym ang c R M j i.
Proof. exact @link_sym_symmetric. Qed.
Print Assumptions C13_link_sym_symmetric.

(* a one-sided test - the own radius of the largest catalog for the patch being linked, the enlarged radius for the other
   one - is not such a test: where a smaller catalog reaches beyond the largest one in a patch, the cross-correlation loses
   the pairs to the neighbouring patch, the autocorrelation counts them or not depending on the patch numbering, and the
   counts of a split catalog do not add up when the whole is the largest catalog of its measurement and the parts are not;
   the symmetric test on the same radii passes the relabelling *)
Theorem C13_one_sided_link_refuted :
  exists (c c' : nat -> Q) (r R r' R' : nat -> Q) (M lo hi : Q) (D U1 U2 : list (lobj Q)),
    covers line_ang c R D = true /\ covers line_ang c R (U1 ++ U2) = true /\ hi <= M /\
    covers line_ang c' R' (map (relabel swap01) D) = true /\
    (forall i, c' (swap01 i) = c i /\ r' (swap01 i) = r i /\ R' (swap01 i) = R i) /\
    ~ linked_count line_ang (link_own line_ang c r R M) lo hi D (U1 ++ U2) == count line_ang lo hi D (U1 ++ U2) /\
    ~ linked_count line_ang (auto_link (link_own line_ang c' r' R' M)) lo hi (map (relabel swap01) D) (map (relabel swap01) D)
      == linked_count line_ang (auto_link (link_own line_ang c r R M)) lo hi D D /\
    ~ linked_count line_ang (link_own line_ang c R R M) lo hi D (U1 ++ U2)
      == linked_count line_ang (link_own line_ang c r R M) lo hi D U1 + linked_count line_ang (link_own line_ang c r R M) lo hi D U2 /\
    linked_count line_ang (auto_link (link_sym line_ang c' R' M)) lo hi (map (relabel swap01) D) (map (relabel swap01) D)
      == linked_count line_ang (auto_link (link_sym line_ang c R M)) lo hi D D.
Proof. exact link_own_refuted. Qed.
Print Assumptions C13_one_sided_link_refuted.

(* on the line: centres 0 and 4, randoms within 1 of either centre (the largest catalog), data reaching to 17/10 in patch 0
   and sitting at 3 in patch 1, an unknown sample at 3 and 5; M = hi = 16/10.  With the radii taken over all three catalogs
   the two patches are linked in either direction and under either numbering, the linked counts are the full counts
   (data x unknown: 2 * 5 = 10; data x data in one direction: 2 * 3 = 6), and the unknown sample split into its two
   objects adds up; with the randoms' own radius for the patch being linked the link 0 -> 1 is missing *)
Example C13_extents_concrete :
  let o := fun (x w : Q) (k : nat) => {| lp := x; lw := w; lpatch := k |} in
  let c := fun i : nat => match i with O => 0 | _ => 4 end in
  let Rn := [o (- (1)) 1 0%nat; o 1 1 0%nat; o 3 1 1%nat; o 5 1 1%nat; o 4 1 1%nat] in
  let D := [o (17 # 10) 2 0%nat; o 3 3 1%nat] in
  let U1 := [o 3 5 1%nat] in let U2 := [o 5 7 1%nat] in
  let R := reach line_ang c [Rn; D; U1 ++ U2] in let r := reach line_ang c [Rn] in
  let M := 16 # 10 in
  Qeqb (R 0%nat) (17 # 10) = true /\ Qeqb (r 0%nat) 1 = true /\ Qeqb (R 1%nat) 1 = true /\
  covers line_ang c R D = true /\ covers line_ang c R (U1 ++ U2) = true /\ covers line_ang c r D = false /\
  link_sym line_ang c R M 0 1 = true /\ link_sym line_ang c R M 1 0 = true /\
  link_own line_ang c r R M 0 1 = false /\ link_own line_ang c r R M 1 0 = true /\
  Qeqb (linked_count line_ang (link_sym line_ang c R M) 0 M D (U1 ++ U2)) 10 = true /\
  Qeqb (count line_ang 0 M D (U1 ++ U2)) 10 = true /\
  Qeqb (linked_count line_ang (link_sym line_ang c R M) 0 M D U1 + linked_count line_ang (link_sym line_ang c R M) 0 M D U2) 10 = true /\
  Qeqb (linked_count line_ang (auto_link (link_sym line_ang c R M)) 0 M D D) 6 = true /\
  Qeqb (linked_count line_ang (link_own line_ang c r R M) 0 M D (U1 ++ U2)) 0 = true.
Proof. vm_compute. repeat split; reflexivity. Qed.

(* ---------- catalogs of any size: the metadata that decide the linkage are taken over ALL rows ---------- *)
(* The radius stored with a patch is the largest separation of any of its rows from the stored centre.  As a maximum over
   all rows it does not depend on the order of the rows ... *)
Theorem C13_radius_row_perm : forall (P : Type) (ang : P -> P -> Q) c (A A' : list (lobj P)),
  Permutation A A' -> radius_all ang c A == radius_all ang c A'.
Proof. exact @radius_all_row_perm. Qed.
Print Assumptions C13_radius_row_perm.

(* ... nor on how they are cut into chunks (the maximum of the maxima of the chunks) ... *)
Theorem C13_radius_chunks : forall (P : Type) (ang : P -> P -> Q) c (chunks : list (list (lobj P))),
  radius_all ang c (concat chunks) == qmax_list (map (radius_all ang c) chunks).
Proof. exact @radius_all_chunks. Qed.
Print Assumptions C13_radius_chunks.

(* ... it bounds the separation of every row and is the least such bound ... *)
Theorem C13_radius_covers : forall (P : Type) (ang : P -> P -> Q) c (A : list (lobj P)) o,
  In o A -> ang (lp o) c <= radius_all ang c A.
Proof. exact @radius_all_covers. Qed.
Print Assumptions C13_radius_covers.
Theorem C13_radius_least : forall (P : Type) (ang : P -> P -> Q) c (A : list (lobj P)) r,
  0 <= r -> (forall o, In o A -> ang (lp o) c <= r) -> radius_all ang c A <= r.
Proof. exact @radius_all_least. Qed.
Print Assumptions C13_radius_least.

(* ... and the radii of a measurement (per patch the maximum over the catalogs, [reach]) are made of it and do not depend
   on the row order of any catalog, nor does the decision which patch pairs are visited *)
Theorem C13_reach_is_radius_over_all_rows : forall (P : Type) (ang : P -> P -> Q) c (cats : list (list (lobj P))) i,
  reach_by (radius_all ang) c cats i == reach ang c cats i.
Proof. exact @reach_by_all. Qed.
Print Assumptions C13_reach_is_radius_over_all_rows.
Theorem C13_reach_row_perm : forall (P : Type) (ang : P -> P -> Q) c (cats cats' : list (list (lobj P))) i,
  Forall2 (@Permutation (lobj P)) cats cats' -> reach ang c cats i == reach ang c cats' i.
Proof. exact @reach_row_perm. Qed.
Print Assumptions C13_reach_row_perm.
Theorem C13_link_row_perm : forall (P : Type) (ang : P -> P -> Q) c (cats cats' : list (list (lobj P))) M i j,
  Forall2 (@Permutation (lobj P)) cats cats' ->
  link_sym ang c (reach ang c cats) M i j = link_sym ang c (reach ang c cats') M i j.
Proof. exact @link_row_perm. Qed.
Print Assumptions C13_link_row_perm.

(* hence, in any metric space and at any size: counting over the patch pairs linked through these radii loses nothing,
   the same rows in another order count the same, and the parts of a split catalog - however much smaller than the whole -
   add up to it *)
Theorem C13_linked_count_all_rows : forall (P : Type) (ang : P -> P -> Q),
  (forall a b, ang a b == ang b a) -> (forall a b c, ang a c <= ang a b + ang b c) ->
  forall c (cats : list (list (lobj P))) M lo hi A B, In A cats -> In B cats -> hi <= M ->
  linked_count ang (link_sym ang c (reach ang c cats) M) lo hi A B == count ang lo hi A B.
Proof. exact @linked_count_all_rows. Qed.
Print Assumptions C13_linked_count_all_rows.
Theorem C13_linked_count_all_rows_perm : forall (P : Type) (ang : P -> P -> Q),
  (forall a b, ang a b == ang b a) -> (forall a b c, ang a c <= ang a b + ang b c) ->
  forall c (cats cats' : list (list (lobj P))) M lo hi A A' B B',
  In A cats -> In B cats -> In A' cats' -> In B' cats' -> hi <= M -> Permutation A A' -> Permutation B B' ->
  linked_count ang (link_sym ang c (reach ang c cats') M) lo hi A' B'
  == linked_count ang (link_sym ang c (reach ang c cats) M) lo hi A B.
Proof. exact @linked_count_all_rows_perm. Qed.
Print Assumptions C13_linked_count_all_rows_perm.
Theorem C13_linked_count_all_rows_split : forall (P : Type) (ang : P -> P -> Q),
  (forall a b, ang a b == ang b a) -> (forall a b c, ang a c <= ang a b + ang b c) ->
  forall c (cats cats1 cats2 : list (list (lobj P))) M lo hi A B1 B2,
  In A cats -> In (B1 ++ B2) cats -> In A cats1 -> In B1 cats1 -> In A cats2 -> In B2 cats2 -> hi <= M ->
  linked_count ang (link_sym ang c (reach ang c cats) M) lo hi A (B1 ++ B2)
  == linked_count ang (link_sym ang c (reach ang c cats1) M) lo hi A B1
     + linked_count ang (link_sym ang c (reach ang c cats2) M) lo hi A B2.
Proof. exact @linked_count_all_rows_split. Qed.
Print Assumptions C13_linked_count_all_rows_split.

(* A maximum over the rows picked by a rule on the row index is a lower bound of the radius, whatever the rule ... *)
Theorem C13_radius_sub_lower_bound : forall (P : Type) (ang : P -> P -> Q) sel c (A : list (lobj P)),
  radius_sub ang sel c A <= radius_all ang c A.
Proof. exact @radius_sub_le. Qed.
Print Assumptions C13_radius_sub_lower_bound.
(* ... a probe of about m rows IS the radius on every patch of fewer than 2 m rows (no catalog of such sizes tells them
   apart) ... *)
Theorem C13_radius_probe_small_sizes : forall (P : Type) (ang : P -> P -> Q) m c (A : list (lobj P)),
  (length A < 2 * m)%nat -> radius_probe ang m c A = radius_all ang c A.
Proof. exact @radius_probe_small. Qed.
Print Assumptions C13_radius_probe_small_sizes.
(* ... and beyond that it depends on the order of the rows and does not cover the patch: every k-th row, any k >= 2 ... *)
Theorem C13_radius_stride_order_refuted : forall k, (2 <= k)%nat ->
  exists (A A' : list (lobj Q)) (c : Q),
    Permutation A A' /\
    radius_sub line_ang (every k) c A == radius_all line_ang c A /\
    radius_sub line_ang (every k) c A' < radius_all line_ang c A' /\
    ~ radius_sub line_ang (every k) c A == radius_sub line_ang (every k) c A'.
Proof. exact radius_stride_order_refuted. Qed.
Print Assumptions C13_radius_stride_order_refuted.
(* ... the first m rows, any m >= 1 *)
Theorem C13_radius_first_rows_order_refuted : forall m, (1 <= m)%nat ->
  exists (A A' : list (lobj Q)) (c : Q),
    Permutation A A' /\ ~ radius_sub line_ang (first_rows m) c A == radius_sub line_ang (first_rows m) c A'.
Proof. exact radius_first_rows_order_refuted. Qed.
Print Assumptions C13_radius_first_rows_order_refuted.

(* the linkage made from probed radii: a counted pair is lost, or not, depending on the row order, and the parts of a split
   catalog - small enough for every row to be looked at - do not add up to the whole *)
Theorem C13_probe_link_refuted :
  exists (m : nat) (c : nat -> Q) (M lo hi : Q) (D U U' U1 U2 : list (lobj Q)),
    Permutation U U' /\ U = U1 ++ U2 /\ hi <= M /\
    linked_count line_ang (link_sym line_ang c (reach line_ang c [D; U]) M) lo hi D U == count line_ang lo hi D U /\
    ~ linked_count line_ang (link_sym line_ang c (reach_by (radius_probe line_ang m) c [D; U]) M) lo hi D U
      == count line_ang lo hi D U /\
    ~ linked_count line_ang (link_sym line_ang c (reach_by (radius_probe line_ang m) c [D; U']) M) lo hi D U'
      == linked_count line_ang (link_sym line_ang c (reach_by (radius_probe line_ang m) c [D; U]) M) lo hi D U /\
    ~ linked_count line_ang (link_sym line_ang c (reach_by (radius_probe line_ang m) c [D; U]) M) lo hi D U
      == linked_count line_ang (link_sym line_ang c (reach_by (radius_probe line_ang m) c [D; U1]) M) lo hi D U1
         + linked_count line_ang (link_sym line_ang c (reach_by (radius_probe line_ang m) c [D; U2]) M) lo hi D U2.
Proof. exact probe_link_refuted. Qed.
Print Assumptions C13_probe_link_refuted.

(* on the line, centres 0 and 4, M = hi = 16/10: a sample U of four rows in patch 0, one of them out at 17/10, and data at 3
   in patch 1.  Over all rows the radius of patch 0 is 17/10 in either row order and in two chunks, the patches are linked
   and the pair (weight 3 * 5) is counted; a probe of about 2 rows sees 1/10 or 17/10 depending on the order.  The checkers
   of the harness: the stored metadata pass against the separations that decide the maximum and fail with the probed radius,
   a wrong number of rows or a shifted centre; a patch pair that has to be linked and is not is reported *)
Example C13_size_concrete :
  let c := fun i : nat => match i with O => 0 | _ => 4 end in
  let D := [lrow 3 3 1] in
  let U := [lrow 0 1 0; lrow (17 # 10) 5 0; lrow (1 # 10) 1 0; lrow (- (1 # 10)) 1 0] in
  let U' := [lrow (17 # 10) 5 0; lrow 0 1 0; lrow (1 # 10) 1 0; lrow (- (1 # 10)) 1 0] in
  let M := 16 # 10 in
  Qeqb (radius_all line_ang 0 U) (17 # 10) = true /\ Qeqb (radius_all line_ang 0 U') (17 # 10) = true /\
  Qeqb (qmax_list (map (radius_all line_ang 0) [firstn 2 U; skipn 2 U])) (17 # 10) = true /\
  Qeqb (radius_probe line_ang 2 0 U) (1 # 10) = true /\ Qeqb (radius_probe line_ang 2 0 U') (17 # 10) = true /\
  Qeqb (radius_probe line_ang 3 0 U) (17 # 10) = true /\
  link_sym line_ang c (reach line_ang c [D; U]) M 1 0 = true /\
  link_sym line_ang c (reach_by (radius_probe line_ang 2) c [D; U]) M 1 0 = false /\
  Qeqb (linked_count line_ang (link_sym line_ang c (reach line_ang c [D; U]) M) 0 M D U) 15 = true /\
  Qeqb (linked_count line_ang (link_sym line_ang c (reach_by (radius_probe line_ang 2) c [D; U]) M) 0 M D U) 0 = true /\
  c13_meta_case (17 # 10) [1 # 10; 17 # 10] 4 4 8 8 0 (1 # 1000000) = 0%nat /\
  c13_meta_case (1 # 10) [1 # 10; 17 # 10] 4 4 8 8 0 (1 # 1000000) = 3%nat /\
  c13_meta_case (17 # 10) [1 # 10; 17 # 10] 3 4 8 8 0 (1 # 1000000) = 4%nat /\
  c13_meta_case (17 # 10) [1 # 10; 17 # 10] 4 4 8 8 (1 # 1000) (1 # 1000000) = 8%nat /\
  c13_links_case M [(4, 17 # 10, 1, true)] = 0%nat /\ c13_links_case M [(4, 17 # 10, 1, false)] = 2%nat /\
  c13_links_case M [(4, 1 # 10, 1, false)] = 3%nat.
Proof. vm_compute. repeat split; reflexivity. Qed.

(* ---------- the shape of the patch linkage graph: the job list (Model/RoundRobin.v, Model/RoundRobinGraph.v) ---------- *)
Open Scope nat_scope.
(* The patch labels are the positions of the centres in the list handed over.  After a relabelling pi the dictionary of link
   sets holds the relabelled entries in some order and its sets hand out their elements in some order; the round-robin
   iterator then lists exactly the relabelled jobs of the cross-correlation, each once - whatever the numbers of links of
   the patches are (a hub that stays alone in the dictionary for many sweeps, isolated patches, chains) *)
Theorem C13_jobs_relabel_cross : forall pi st st2a st2 ys ys2,
  injective pi -> (forall e, In e st -> NoDup (snd e)) ->
  Permutation (relabel_st pi st) st2a -> Forall2 same_sets st2a st2 ->
  iter_pairs false st = Some ys -> iter_pairs false st2 = Some ys2 ->
  Permutation ys2 (map (pmap pi) ys).
Proof. exact rr_jobs_relabel_cross. Qed.
Print Assumptions C13_jobs_relabel_cross.
(* autocorrelation: a job is an unordered pair of patches, kept under (lower label, higher label); with symmetric links the
   pair {pi a, pi b} is listed after the relabelling exactly when {a, b} was listed before it *)
Theorem C13_jobs_relabel_auto_members : forall pi st ys ys2 a b,
  injective pi -> symmetric_st st -> (forall e, In e st -> NoDup (snd e)) -> a <> b ->
  iter_pairs true st = Some ys -> iter_pairs true (relabel_st pi st) = Some ys2 ->
  (In (a, b) ys \/ In (b, a) ys <-> In (pi a, pi b) ys2 \/ In (pi b, pi a) ys2).
Proof. exact rr_jobs_relabel_auto_members. Qed.
Print Assumptions C13_jobs_relabel_auto_members.
(* the loop ended when a single key is left ("it has no partner"): a hub with three or more leaves keeps its first two jobs
   and loses the jobs with all other leaves - documented jobs whose pairs are never counted; which leaves come first is the
   pop order of the hub's set, a matter of the labels *)
Theorem C13_stop_at_one_key_star_loses : forall hub a b c rest,
  NoDup (hub :: a :: b :: c :: rest) ->
  exists ys, iter_pairs1 false (star_st hub (a :: b :: c :: rest)) = Some ys /\
    In (hub, a) ys /\ In (hub, b) ys /\
    (forall l, In l (c :: rest) -> In (hub, l) (jobs_spec false (star_st hub (a :: b :: c :: rest))) /\ ~ In (hub, l) ys) /\
    ~ Permutation ys (jobs_spec false (star_st hub (a :: b :: c :: rest))).
Proof. exact rr_stop_at_one_key_star_loses. Qed.
Print Assumptions C13_stop_at_one_key_star_loses.
(* ... and its job set is not invariant under a relabelling: the premises of C13_jobs_relabel_cross, the conclusion false *)
Theorem C13_stop_at_one_key_label_dependent :
  exists pi st st2a st2 ys ys2,
    injective pi /\ (forall e, In e st -> NoDup (snd e)) /\
    Permutation (relabel_st pi st) st2a /\ Forall2 same_sets st2a st2 /\
    iter_pairs1 false st = Some ys /\ iter_pairs1 false st2 = Some ys2 /\
    ~ Permutation ys2 (map (pmap pi) ys).
Proof. exact rr_stop_at_one_key_label_dependent. Qed.
Print Assumptions C13_stop_at_one_key_label_dependent.

(* hub 0 with the leaves 1, 2, 3 (the dictionary as from_catalogs builds it): the iterator lists the 4 + 6 jobs of the
   cross-correlation and the 4 + 3 of the autocorrelation, and the checker of the harness accepts them against the
   brute-force linkage; the loop that stops at one key lists 9: (0, 3) is missing, the checker says so (flag 0), a job
   listed twice raises flag 1, a job beyond the linkage flag 2.  Exchanging the labels 1 and 3 gives the same sorted
   dictionary, so the same job (0, 3) is lost - the pair of the hub with the patch that was called 1.  With two leaves
   nothing is lost: the hub's set is empty when it is left alone. *)
Example C13_graph_concrete :
  let st := star_st 0 [1; 2; 3] in
  iter_pairs false st = Some [(0, 0); (1, 1); (2, 2); (3, 3); (0, 1); (1, 0); (2, 0); (3, 0); (0, 2); (0, 3)] /\
  iter_pairs1 false st = Some [(0, 0); (1, 1); (2, 2); (3, 3); (0, 1); (1, 0); (2, 0); (3, 0); (0, 2)] /\
  iter_pairs true st = Some [(0, 0); (1, 1); (2, 2); (3, 3); (0, 1); (0, 2); (0, 3)] /\
  iter_pairs1 true st = Some [(0, 0); (1, 1); (2, 2); (3, 3); (0, 1); (0, 2)] /\
  c13_jobs_case false st [(0, 0); (1, 1); (2, 2); (3, 3); (0, 1); (1, 0); (2, 0); (3, 0); (0, 2); (0, 3)] = 0%nat /\
  c13_jobs_case false st [(0, 0); (1, 1); (2, 2); (3, 3); (0, 1); (1, 0); (2, 0); (3, 0); (0, 2)] = 1%nat /\
  c13_jobs_case true st [(0, 0); (1, 1); (2, 2); (3, 3); (0, 1); (0, 2); (0, 3)] = 0%nat /\
  c13_jobs_case true st [(0, 0); (1, 1); (2, 2); (3, 3); (0, 1); (0, 2)] = 1%nat /\
  c13_jobs_case true st [(0, 0); (1, 1); (2, 2); (3, 3); (0, 1); (0, 2); (0, 3); (0, 1)] = 2%nat /\
  c13_jobs_case true st [(0, 0); (1, 1); (2, 2); (3, 3); (0, 1); (0, 2); (0, 3); (1, 2)] = 4%nat /\
  map (pmap swap13) [(0, 1); (0, 2); (0, 3)] = [(0, 3); (0, 2); (0, 1)] /\
  iter_pairs1 false (star_st 0 [1; 2]) = iter_pairs false (star_st 0 [1; 2]).
Proof. vm_compute. repeat split; reflexivity. Qed.

