(* C13 — results are invariant under rotations, row order, patch labels and weight scale; raw
   counts are additive.  Statements about the specification of the measurement
   (count / norm_count / loo_count over labelled weighted points, any distance function). *)
From Verif Require Import Prelude PairCount Invariance InvarianceP Rotation Jackknife InvarianceXP.
From Coq Require Import Permutation.
Open Scope Q_scope.

Theorem C13_count_row_perm : forall (P : Type) (ang : P -> P -> Q) lo hi (A A' B B' : list (lobj P)),
  Permutation A A' -> Permutation B B' -> count ang lo hi A B == count ang lo hi A' B'.
Proof. exact @count_row_perm. Qed.
Print Assumptions C13_count_row_perm.

Theorem C13_count_isometry : forall (P : Type) (ang : P -> P -> Q) (phi : P -> P) lo hi (A B : list (lobj P)),
  (forall a b, ang (phi a) (phi b) = ang a b) ->
  count ang lo hi (map (move phi) A) (map (move phi) B) = count ang lo hi A B.
Proof. exact @count_isometry. Qed.
Print Assumptions C13_count_isometry.

Theorem C13_count_patch_relabel : forall (P : Type) (ang : P -> P -> Q) pi lo hi (A B : list (lobj P)),
  count ang lo hi (map (relabel pi) A) (map (relabel pi) B) = count ang lo hi A B.
Proof. exact @count_patch_relabel. Qed.
Print Assumptions C13_count_patch_relabel.

(* jackknife samples permute with the relabelling *)
Theorem C13_loo_patch_relabel : forall (P : Type) (ang : P -> P -> Q) pi lo hi k (A B : list (lobj P)),
  (forall i j, pi i = pi j -> i = j) ->
  loo_count ang lo hi (pi k) (map (relabel pi) A) (map (relabel pi) B) = loo_count ang lo hi k A B.
Proof. exact @loo_patch_relabel. Qed.
Print Assumptions C13_loo_patch_relabel.

Theorem C13_count_additive : forall (P : Type) (ang : P -> P -> Q) lo hi (A B1 B2 : list (lobj P)),
  count ang lo hi A (B1 ++ B2) == count ang lo hi A B1 + count ang lo hi A B2.
Proof. exact @count_additive. Qed.
Print Assumptions C13_count_additive.

Theorem C13_norm_weight_scale : forall (P : Type) (ang : P -> P -> Q) k lo hi (A B : list (lobj P)),
  ~ k == 0 -> ~ totw A * totw B == 0 ->
  norm_count ang lo hi (map (scale k) A) B == norm_count ang lo hi A B.
Proof. exact @norm_weight_scale. Qed.
Print Assumptions C13_norm_weight_scale.

(* ---------------- rigid rotations are isometries of the quantity the counter compares ---------------- *)
(* a 3x3 matrix with orthonormal columns preserves squared chord lengths of 3-vectors (and keeps unit vectors
   on the sphere), so it is an instance of the isometries of C13_count_isometry, for counts, for every
   jackknife sample and for the normalised terms; poles and RA = 0 play no role on 3-vectors *)
Theorem C13_rotation_preserves_chords : forall R u v, orth R -> chord2 (mv R u) (mv R v) == chord2 u v.
Proof. exact chord2_rot. Qed.
Print Assumptions C13_rotation_preserves_chords.

Theorem C13_rotation_keeps_sphere : forall R u, orth R -> dot3 u u == 1 -> dot3 (mv R u) (mv R u) == 1.
Proof. exact unit_rot. Qed.
Print Assumptions C13_rotation_keeps_sphere.

Theorem C13_count_isometry_eq : forall (P : Type) (ang : P -> P -> Q) (phi : P -> P) lo hi (A B : list (lobj P)),
  (forall a b, ang (phi a) (phi b) == ang a b) ->
  count ang lo hi (map (move phi) A) (map (move phi) B) == count ang lo hi A B.
Proof. exact @count_isometry_eq. Qed.
Print Assumptions C13_count_isometry_eq.

Theorem C13_count_rotation : forall R lo hi (A B : list (lobj v3)), orth R ->
  count chord2 lo hi (map (move (mv R)) A) (map (move (mv R)) B) == count chord2 lo hi A B.
Proof. exact count_rotation. Qed.
Print Assumptions C13_count_rotation.

Theorem C13_loo_rotation : forall R lo hi k (A B : list (lobj v3)), orth R ->
  loo_count chord2 lo hi k (map (move (mv R)) A) (map (move (mv R)) B) == loo_count chord2 lo hi k A B.
Proof. exact loo_rotation. Qed.
Print Assumptions C13_loo_rotation.

Theorem C13_norm_rotation : forall R lo hi (A B : list (lobj v3)), orth R ->
  norm_count chord2 lo hi (map (move (mv R)) A) (map (move (mv R)) B) == norm_count chord2 lo hi A B.
Proof. exact norm_rotation. Qed.
Print Assumptions C13_norm_rotation.

(* ---------------- additivity and weight scale, the remaining cases ---------------- *)
Theorem C13_count_additive_first : forall (P : Type) (ang : P -> P -> Q) lo hi (A1 A2 B : list (lobj P)),
  count ang lo hi (A1 ++ A2) B == count ang lo hi A1 B + count ang lo hi A2 B.
Proof. exact @count_additive_l. Qed.
Print Assumptions C13_count_additive_first.

(* any split of the rows into two catalogs, not only a cut *)
Theorem C13_count_additive_split : forall (P : Type) (ang : P -> P -> Q) lo hi (A B B1 B2 : list (lobj P)),
  Permutation B (B1 ++ B2) -> count ang lo hi A B == count ang lo hi A B1 + count ang lo hi A B2.
Proof. exact @count_additive_split. Qed.
Print Assumptions C13_count_additive_split.

Theorem C13_norm_weight_scale_second : forall (P : Type) (ang : P -> P -> Q) k lo hi (A B : list (lobj P)),
  ~ k == 0 -> ~ totw A * totw B == 0 ->
  norm_count ang lo hi A (map (scale k) B) == norm_count ang lo hi A B.
Proof. exact @norm_weight_scale_r. Qed.
Print Assumptions C13_norm_weight_scale_second.

(* autocorrelation: the one catalog enters twice, k^2 cancels *)
Theorem C13_norm_weight_scale_auto : forall (P : Type) (ang : P -> P -> Q) k lo hi (A : list (lobj P)),
  ~ k == 0 -> ~ totw A == 0 ->
  norm_count ang lo hi (map (scale k) A) (map (scale k) A) == norm_count ang lo hi A A.
Proof. exact @norm_weight_scale_both. Qed.
Print Assumptions C13_norm_weight_scale_auto.

(* ---------------- the jackknife covariance under relabelling ---------------- *)
(* relabelling patches permutes the jackknife samples (C13_loo_patch_relabel); the covariance is a symmetric
   function of the samples *)
Theorem C13_covariance_sample_order : forall X X' i j, Permutation X X' -> cov_code X i j == cov_code X' i j.
Proof. exact cov_sample_order. Qed.
Print Assumptions C13_covariance_sample_order.

Example C13_rotation_concrete :
  let R : m3 := ((1 # 3, 2 # 3, 2 # 3), (2 # 3, 1 # 3, - (2 # 3)), (2 # 3, - (2 # 3), 1 # 3)) in
  let u : v3 := (3 # 5, 4 # 5, 0) in let v : v3 := (0, 0, 1) in
  orthb R = true /\ Qeqb (chord2 (mv R u) (mv R v)) (chord2 u v) = true /\ Qeqb (chord2 u v) 2 = true
  /\ Qeqb (dot3 (mv R u) (mv R u)) 1 = true.
Proof. vm_compute. repeat split; reflexivity. Qed.

Example C13_concrete :
  let ang := fun a b : Q => Qabs (a - b) in
  let A := [{| lp := 0; lw := 2; lpatch := 0%nat |}; {| lp := 1; lw := 1; lpatch := 1%nat |}] in
  let B := [{| lp := 1 # 2; lw := 3; lpatch := 0%nat |}] in
  Qeq_bool (count ang 0 1 A B) 9 = true /\
  Qeq_bool (norm_count ang 0 1 (map (scale 4) A) B) (norm_count ang 0 1 A B) = true.
Proof. vm_compute. split; reflexivity. Qed.

(* ---------------- the weight scale and results that went through a file ---------------- *)
(* the stored form of a count table keeps the patch pairs with a count that is not zero, whatever its magnitude:
   reading back gives the table that was written, so it commutes with a weight factor and the normalised counts
   computed after CorrFunc.to_file / from_file do not depend on the factor *)
Theorem C13_stored_counts_read_back : forall T, Forall2 (Forall2 Qeq) (roundtrip any_nonzero T) T.
Proof. exact roundtrip_id. Qed.
Print Assumptions C13_stored_counts_read_back.

Theorem C13_stored_counts_weight_scale : forall k row,
  Forall2 Qeq (roundtrip_row any_nonzero (scale_row k row)) (scale_row k (roundtrip_row any_nonzero row)).
Proof. exact roundtrip_row_scale. Qed.
Print Assumptions C13_stored_counts_weight_scale.

Theorem C13_stored_norm_weight_scale : forall k n row, ~ k == 0 -> ~ n == 0 ->
  Forall2 Qeq (map (fun x => x / (k * n)) (roundtrip_row any_nonzero (scale_row k row)))
              (map (fun x => x / n) (roundtrip_row any_nonzero row)).
Proof. exact roundtrip_row_norm_scale. Qed.
Print Assumptions C13_stored_norm_weight_scale.

(* a selection with any absolute threshold breaks this for some positive factor *)
Theorem C13_stored_threshold_refuted : forall eps, 0 < eps ->
  exists row k, 0 < k /\
    ~ Forall2 Qeq (roundtrip_row (any_above eps) (scale_row k row)) (scale_row k (roundtrip_row (any_above eps) row)).
Proof. exact roundtrip_threshold_refuted. Qed.
Print Assumptions C13_stored_threshold_refuted.

Example C13_stored_concrete :
  let row := [1 # 4; 0; 3] in let k := 1 # 1099511627776 in let eps := 1 # 100000000 in
  any_nonzero (scale_row k row) = true /\
  qlist_eqb (roundtrip_row any_nonzero (scale_row k row)) (scale_row k row) = true /\
  qlist_eqb (roundtrip_row (any_above eps) row) row = true /\
  qlist_eqb (roundtrip_row (any_above eps) (scale_row k row)) [0; 0; 0] = true /\
  c13_store_case [row; [0; 0; 0]] [row; [0; 0; 0]] = 0%nat /\ c13_store_case [scale_row k row] [[0; 0; 0]] = 1%nat.
Proof. vm_compute. repeat split; reflexivity. Qed.
