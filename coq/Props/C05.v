(* C05 — results do not depend on worker count or completion order. *)
From Verif Require Import Prelude Schedule ScheduleP ScheduleRed ScheduleRedP PairCount RoundRobin RoundRobinP Cwd CwdP StartMethod StartMethodP.
From Verif Require MemoHistory MemoHistoryP.
From Coq Require Import Permutation.
Open Scope nat_scope.

Theorem C05_keyed_fold_perm : forall (V : Type) (rs rs' : list (nat * V)) (st : @store V),
  NoDup (map fst rs) -> Permutation rs rs' -> forall q, run_writes rs st q = run_writes rs' st q.
Proof. exact @keyed_fold_perm. Qed.
Print Assumptions C05_keyed_fold_perm.

Theorem C05_keyed_fold_perm_fun : forall (V : Type) (rs rs' : list (nat * V)) (st : @store V) (g : nat -> V),
  (forall k v, In (k, v) rs -> v = g k) -> Permutation rs rs' ->
  forall q, run_writes rs st q = run_writes rs' st q.
Proof. exact @keyed_fold_perm_fun. Qed.
Print Assumptions C05_keyed_fold_perm_fun.

Theorem C05_count_pairs_schedule_free : forall auto n (rs rs' : list ppc) (g1 g2 : nat -> list Q),
  NoDup (map (fun r => pair_key n (id1 r) (id2 r)) rs) ->
  (forall r, In r rs -> sw1 r = g1 (id1 r) /\ sw2 r = g2 (id2 r)) ->
  Permutation rs rs' ->
  (forall q, consume_cells auto n rs q = consume_cells auto n rs' q) /\
  (forall q, consume_sw1 rs q = consume_sw1 rs' q) /\
  (forall q, consume_sw2 rs q = consume_sw2 rs' q).
Proof. exact count_pairs_schedule_free. Qed.
Print Assumptions C05_count_pairs_schedule_free.

Theorem C05_load_patches_schedule_free : forall (V : Type) (ps ps' : list (nat * V)),
  NoDup (map fst ps) -> Permutation ps ps' ->
  forall q, run_writes ps empty_store q = run_writes ps' empty_store q.
Proof. exact @load_patches_schedule_free. Qed.
Print Assumptions C05_load_patches_schedule_free.

Theorem C05_hist_rows_schedule_free : forall n (arr arr' : list (nat * list Q)),
  NoDup (map fst arr) -> Permutation arr arr' -> hist_rows_fix n arr = hist_rows_fix n arr'.
Proof. exact hist_rows_schedule_free. Qed.
Print Assumptions C05_hist_rows_schedule_free.

Theorem C05_hist_rows_arrival_refuted :
  exists (arr arr' : list (nat * list Q)),
    Permutation arr arr' /\ NoDup (map fst arr) /\ hist_rows_cur arr <> hist_rows_cur arr'.
Proof. exact hist_rows_arrival_refuted. Qed.
Print Assumptions C05_hist_rows_arrival_refuted.

(* ---------------- what is reduced from the gathered results ---------------- *)
(* anything computed from the rows in index order is schedule-free, with no algebraic assumption on the
   reduction: this is why the results are bit-identical although floating-point addition is not associative *)
Theorem C05_reduce_by_index_schedule_free : forall (V R : Type) (red : list (option V) -> R) n (arr arr' : list (nat * V)),
  NoDup (map fst arr) -> Permutation arr arr' -> reduce_by_index red n arr = reduce_by_index red n arr'.
Proof. exact @reduce_by_index_schedule_free. Qed.
Print Assumptions C05_reduce_by_index_schedule_free.

(* a running total in arrival order needs an operation whose steps commute ... *)
Theorem C05_reduce_by_arrival_needs_commuting_steps : forall (V R : Type) (op : R -> V -> R) zero (arr arr' : list (nat * V)),
  (forall a x y, op (op a x) y = op (op a y) x) -> Permutation arr arr' ->
  reduce_by_arrival op zero arr = reduce_by_arrival op zero arr'.
Proof. exact @reduce_by_arrival_comm. Qed.
Print Assumptions C05_reduce_by_arrival_needs_commuting_steps.

(* ... which a rounding addition does not have: two completion orders of the same three results give different
   running totals, while the reduction in index order gives the same *)
Theorem C05_reduce_by_arrival_rounding_refuted :
  exists (arr arr' : list (nat * Z)),
    Permutation arr arr' /\ NoDup (map fst arr) /\
    reduce_by_arrival radd 0%Z arr <> reduce_by_arrival radd 0%Z arr' /\
    reduce_by_index (fun rows => fold_left (fun acc r => match r with Some v => radd acc v | None => acc end) rows 0%Z) 3 arr
    = reduce_by_index (fun rows => fold_left (fun acc r => match r with Some v => radd acc v | None => acc end) rows 0%Z) 3 arr'.
Proof. exact reduce_by_arrival_rounding_refuted. Qed.
Print Assumptions C05_reduce_by_arrival_rounding_refuted.

(* ---------------- the job list: PatchLinkage.iter_patch_id_pairs as the algorithm it is ---------------- *)
(* the while loop over the emptied dictionary ends for every dictionary of sets that contain their own key ... *)
Theorem C05_job_iterator_terminates : forall auto (st : rr_state),
  (forall e, In e st -> In (fst e) (snd e)) -> exists ys, iter_pairs auto st = Some ys.
Proof. exact rr_defined. Qed.
Print Assumptions C05_job_iterator_terminates.
(* ... and the only other outcome is the KeyError of links.remove(i) *)
Theorem C05_job_iterator_keyerror : forall auto (st : rr_state),
  iter_pairs auto st = None <-> exists e, In e st /\ ~ In (fst e) (snd e).
Proof. exact rr_keyerror. Qed.
Print Assumptions C05_job_iterator_keyerror.
(* whatever order set.pop() hands the elements out in, the jobs are the documented ones (C01's id_pairs) ... *)
Theorem C05_job_iterator_refines_spec : forall auto lk ids ys,
  (forall i, NoDup (lk i)) -> iter_pairs auto (dict_of lk ids) = Some ys -> Permutation ys (id_pairs auto lk ids).
Proof. exact rr_refines_id_pairs. Qed.
Print Assumptions C05_job_iterator_refines_spec.
(* ... no job is listed twice (the premise of the keyed-write theorems above) ... *)
Theorem C05_job_iterator_no_job_twice : forall auto lk ids ys,
  NoDup ids -> (forall i, NoDup (lk i)) -> iter_pairs auto (dict_of lk ids) = Some ys -> NoDup ys.
Proof. exact rr_no_job_twice. Qed.
Print Assumptions C05_job_iterator_no_job_twice.
(* ... two runs whose sets pop in different orders list the same jobs up to order ... *)
Theorem C05_job_iterator_pop_order_free : forall auto st st2 ys ys2,
  Forall2 same_sets st st2 -> (forall e, In e st -> NoDup (snd e)) ->
  iter_pairs auto st = Some ys -> iter_pairs auto st2 = Some ys2 -> Permutation ys ys2.
Proof. exact rr_pop_order_free. Qed.
Print Assumptions C05_job_iterator_pop_order_free.
(* ... and a cross-correlation has exactly num_links jobs (the total the progress indicator is given) *)
Theorem C05_job_iterator_cross_count : forall st ys, iter_pairs false st = Some ys -> length ys = num_links st.
Proof. exact rr_cross_job_count. Qed.
Print Assumptions C05_job_iterator_cross_count.
Example C05_job_iterator_concrete :
  iter_pairs true [(0, [2; 0; 1]); (1, [1; 0]); (2, [0; 2])] = Some [(0, 0); (1, 1); (2, 2); (0, 2); (0, 1)] /\
  iter_pairs false [(0, [2; 0; 1]); (1, [1; 0]); (2, [0; 2])] = Some [(0, 0); (1, 1); (2, 2); (0, 2); (1, 0); (2, 0); (0, 1)] /\
  iter_pairs true [(0, [1]); (1, [1; 0])] = None.
Proof. vm_compute. repeat split; reflexivity. Qed.
(* ---------------- relative cache paths and the working directory ---------------- *)
(* workers forked inside every parallel section resolve relative paths against the caller's present directory: every
   history of directory changes and measurements reads the caches of the directory the caller is in ... *)
Theorem C05_fresh_workers_follow_cwd : forall (D : Type) (fsys : @disk D) (ops : list op) (s : st),
  run (step_fresh fsys) s ops = spec fsys (cwd s) ops.
Proof. exact @fresh_workers_follow_cwd. Qed.
Print Assumptions C05_fresh_workers_follow_cwd.
(* ... whatever the worker counts are *)
Theorem C05_fresh_workers_count_free : forall (D : Type) (fsys : @disk D) (ops ops' : list op) (s : st),
  map one_worker ops = map one_worker ops' -> run (step_fresh fsys) s ops = run (step_fresh fsys) s ops'.
Proof. exact @fresh_workers_count_free. Qed.
Print Assumptions C05_fresh_workers_count_free.
(* a pool of workers kept alive between sections is right only while the directory does not change ... *)
Theorem C05_persistent_pool_ok_without_chdir : forall (D : Type) (fsys : @disk D) (ops : list op) (s : st),
  (forall o, In o ops -> match o with Chdir _ => False | _ => True end) ->
  (match pool_cwd s with Some d => d = cwd s | None => True end) ->
  run (step_pool fsys) s ops = spec fsys (cwd s) ops.
Proof. exact @pool_ok_without_chdir. Qed.
Print Assumptions C05_persistent_pool_ok_without_chdir.
(* ... afterwards its workers read another directory's cache of the same name *)
Theorem C05_persistent_pool_after_chdir_refuted :
  exists (fsys : @disk nat) ops s,
    run (step_pool fsys) s ops <> spec fsys (cwd s) ops /\ run (step_fresh fsys) s ops = spec fsys (cwd s) ops.
Proof. exact pool_after_chdir_refuted. Qed.
Print Assumptions C05_persistent_pool_after_chdir_refuted.
(* ---------------- what a worker process knows: fork, spawn, fork server ---------------- *)
(* the configuration reaches the workers pickled by value: every worker count under every start method sees the configured field *)
Theorem C05_by_value_worker_count_free : forall (C : Type) (w w' : nat) (m m' : start) (c : C),
  seen_by_value w m c = seen_by_value w' m' c.
Proof. exact @by_value_worker_count_free. Qed.
Print Assumptions C05_by_value_worker_count_free.
(* a field pickled as a key into a process-local registry is found by forked workers ... *)
Theorem C05_by_key_ok_under_fork : forall (C : Type) (default : C) (w : nat) (parent : registry) (key : nat) (c : C),
  parent key = Some c -> seen_by_key default w Fork parent key c = c.
Proof. exact @by_key_ok_under_fork. Qed.
Print Assumptions C05_by_key_ok_under_fork.
(* ... and is the default in every worker that did not inherit the parent's memory: the result depends on the worker count *)
Theorem C05_by_key_worker_count_refuted :
  exists (parent : @registry nat) key c,
    parent key = Some c /\ seen_by_key 0 1 Spawn parent key c <> seen_by_key 0 2 Spawn parent key c
    /\ seen_by_key 0 1 Fork parent key c = seen_by_key 0 2 Fork parent key c.
Proof. exact by_key_worker_count_refuted. Qed.
Print Assumptions C05_by_key_worker_count_refuted.
Example C05_concrete :
  let r01 := {| id1 := 0; id2 := 1; sw1 := [2%Q]; sw2 := [3%Q]; cnts := [[5%Q]] |} in
  let r00 := {| id1 := 0; id2 := 0; sw1 := [2%Q]; sw2 := [2%Q]; cnts := [[4%Q]] |} in
  consume_cells true 2 [r01; r00] (pair_key 2 0 0) = consume_cells true 2 [r00; r01] (pair_key 2 0 0) /\
  consume_cells true 2 [r01; r00] (pair_key 2 0 0) = Some [[(4 * (1 # 2))%Q]].
Proof. vm_compute. split; reflexivity. Qed.

(* ---------------- a long-lived parent with a HISTORY of measurements against fresh worker processes ---------------- *)
(* Model/MemoHistory.v: objects (configurations, catalogs, linkages) have a value and live at an identity drawn from an
   allocator that may hand the identity of a discarded object out again; a measurement is finish (prep value) args; a
   process may remember prep.  One worker = the parent, which carries what it remembers through the whole history;
   several workers = processes that receive copies and remember nothing. *)
Module MH := MemoHistory.
Module MHP := MemoHistoryP.

(* remembering by VALUE is invisible: after any history - well-formed or not, whatever identities the allocator picks -
   every measurement is the function of the value the statement names ... *)
Theorem C05_value_memo_history_free : forall (V P A R : Type) (prep : V -> P) (finish : P -> A -> R) (veqb : V -> V -> bool),
  (forall a b : V, veqb a b = true -> a = b) ->
  forall es : list (MH.event V A),
  MH.run finish (MH.value_memo prep veqb) nil nil es = MH.spec (MHP.compute prep finish) nil es.
Proof. exact MHP.value_memo_history_free. Qed.
Print Assumptions C05_value_memo_history_free.

(* ... so the parent after the history es answers a new object of value v exactly as a worker without history does *)
Theorem C05_value_memo_worker_count_free : forall (V P A R : Type) (prep : V -> P) (finish : P -> A -> R) (veqb : V -> V -> bool),
  (forall a b : V, veqb a b = true -> a = b) ->
  forall (es : list (MH.event V A)) (i j : nat) (v : V) (a : A),
  MH.after_history finish (MH.value_memo prep veqb) es i v a
  = MH.spec (MHP.compute prep finish) nil es ++ MH.in_fresh_worker finish (MH.value_memo prep veqb) j v a.
Proof. exact MHP.value_memo_worker_count_free. Qed.
Print Assumptions C05_value_memo_worker_count_free.

(* the same for a process that remembers nothing (the code as it is) *)
Theorem C05_no_memo_worker_count_free : forall (V P A R : Type) (prep : V -> P) (finish : P -> A -> R)
  (es : list (MH.event V A)) (i j : nat) (v : V) (a : A),
  MH.after_history finish (MH.no_memo prep) es i v a
  = MH.spec (MHP.compute prep finish) nil es ++ MH.in_fresh_worker finish (MH.no_memo prep) j v a.
Proof. exact MHP.no_memo_worker_count_free. Qed.
Print Assumptions C05_no_memo_worker_count_free.

(* remembering by IDENTITY is invisible when the entry goes away with the object (weak keys, a finalizer, an attribute of
   the object itself), for every history the allocator can produce - reuse of identities included ... *)
Theorem C05_id_memo_invalidated_history_free : forall (V P A R : Type) (prep : V -> P) (finish : P -> A -> R) (es : list (MH.event V A)),
  MH.wf nil es = true ->
  MH.run finish (MH.id_memo_inv prep) nil nil es = MH.spec (MHP.compute prep finish) nil es.
Proof. exact MHP.id_memo_invalidated_history_free. Qed.
Print Assumptions C05_id_memo_invalidated_history_free.

Theorem C05_id_memo_invalidated_worker_count_free : forall (V P A R : Type) (prep : V -> P) (finish : P -> A -> R)
  (es : list (MH.event V A)) (i j : nat) (v : V) (a : A),
  MH.wf nil (es ++ [MH.Alloc i v; MH.Use i a]) = true ->
  MH.after_history finish (MH.id_memo_inv prep) es i v a
  = MH.spec (MHP.compute prep finish) nil es ++ MH.in_fresh_worker finish (MH.id_memo_inv prep) j v a.
Proof. exact MHP.id_memo_invalidated_worker_count_free. Qed.
Print Assumptions C05_id_memo_invalidated_worker_count_free.

(* ... and, when the entries are never invalidated, only as long as the allocator never hands an identity out twice
   (which is what a test that creates one configuration, or a worker that unpickles one copy, sees) ... *)
Theorem C05_id_memo_without_reuse_history_free : forall (V P A R : Type) (prep : V -> P) (finish : P -> A -> R) (es : list (MH.event V A)),
  NoDup (MH.alloc_ids es) -> MH.wf nil es = true ->
  MH.run finish (MH.id_memo prep) nil nil es = MH.spec (MHP.compute prep finish) nil es.
Proof. exact MHP.id_memo_without_reuse_history_free. Qed.
Print Assumptions C05_id_memo_without_reuse_history_free.

(* ... while ONE discarded object whose identity is handed out again refutes it: create a, measure, discard, create b at
   the identity of a, measure - the second measurement is answered with a's derived data ... *)
Theorem C05_id_memo_reuse_refuted : forall (V P A R : Type) (prep : V -> P) (finish : P -> A -> R) (a b : V) (x : A),
  MHP.compute prep finish a x <> MHP.compute prep finish b x ->
  MH.wf nil (MHP.reuse_history a b x) = true /\
  MH.has_dup (MH.alloc_ids (MHP.reuse_history a b x)) = true /\
  MH.run finish (MH.id_memo prep) nil nil (MHP.reuse_history a b x) = [MHP.compute prep finish a x; MHP.compute prep finish a x] /\
  MH.spec (MHP.compute prep finish) nil (MHP.reuse_history a b x) = [MHP.compute prep finish a x; MHP.compute prep finish b x] /\
  MH.run finish (MH.id_memo prep) nil nil (MHP.reuse_history a b x) <> MH.spec (MHP.compute prep finish) nil (MHP.reuse_history a b x).
Proof. exact MHP.id_memo_reuse_refuted. Qed.
Print Assumptions C05_id_memo_reuse_refuted.

(* ... and the parent then differs from every fresh worker: the result depends on the worker count *)
Theorem C05_id_memo_worker_count_refuted : forall (V P A R : Type) (prep : V -> P) (finish : P -> A -> R) (a b : V) (x : A),
  MHP.compute prep finish a x <> MHP.compute prep finish b x ->
  exists (es : list (MH.event V A)) (i : nat),
    MH.wf nil (es ++ [MH.Alloc i b; MH.Use i x]) = true /\
    forall j : nat, MH.after_history finish (MH.id_memo prep) es i b x
                    <> MH.spec (MHP.compute prep finish) nil es ++ MH.in_fresh_worker finish (MH.id_memo prep) j b x.
Proof. exact MHP.id_memo_worker_count_refuted. Qed.
Print Assumptions C05_id_memo_worker_count_refuted.

(* the checker run on the histories the harness logs (identities = addresses reported by the interpreter) accepts only
   histories of this allocator model whose results are a function of (value, arguments) *)
Theorem C05_history_checker_sound : forall (es : list (MH.event nat nat)) (outs : list nat),
  MH.c05_history_case es outs = 0 ->
  MH.wf nil es = true /\ exists f : nat -> nat -> nat, outs = MH.spec f nil es.
Proof. exact MHP.c05_history_case_sound. Qed.
Print Assumptions C05_history_checker_sound.

(* non-vacuity: scales 100 and 500 (prep = the angle at a bin centre, here *3; finish adds the catalog argument).  The
   identity-keyed memo answers the second configuration with the first one's angle; the value-keyed memo, the
   invalidated one and no memo at all give the statement; and the parent under the identity-keyed memo (301) differs
   from a fresh worker (1501) *)
Example C05_memo_history_concrete :
  let prep := fun v : nat => 3 * v in
  let finish := fun (p a : nat) => p + a in
  let es := [MH.Alloc 4 100; MH.Use 4 1; MH.Free 4; MH.Alloc 4 500; MH.Use 4 1] in
  MH.wf nil es = true /\ MH.has_dup (MH.alloc_ids es) = true /\
  MH.spec (MHP.compute prep finish) nil es = [301; 1501] /\
  MH.run finish (MH.no_memo prep) tt nil es = [301; 1501] /\
  MH.run finish (MH.value_memo prep Nat.eqb) nil nil es = [301; 1501] /\
  MH.run finish (MH.id_memo_inv prep) nil nil es = [301; 1501] /\
  MH.run finish (MH.id_memo prep) nil nil es = [301; 301] /\
  MH.after_history finish (MH.id_memo prep) [MH.Alloc 4 100; MH.Use 4 1; MH.Free 4] 4 500 1 = [301; 301] /\
  MH.in_fresh_worker finish (MH.id_memo prep) 9 500 1 = [1501] /\
  MH.c05_history_case [MH.Alloc 4 100; MH.Use 4 1; MH.Free 4; MH.Alloc 4 500; MH.Use 4 1] [301; 1501] = 0 /\
  MH.c05_history_case [MH.Alloc 4 100; MH.Use 4 1; MH.Free 4; MH.Alloc 4 500; MH.Use 4 1; MH.Alloc 5 500; MH.Use 5 1] [301; 301; 1501] = 3.
Proof. vm_compute. repeat split; reflexivity. Qed.
