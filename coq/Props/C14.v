(* C14 — spherical geometry primitives (yaw/coordinates.py) against exact spherical geometry.
   Statements only; definitions in Model/Sphere.v, proofs in Proofs/SphereP.v.
   The float accuracy of the implementation is tied to these real-valued objects pointwise by
   harness/props/c14.py (goals closed by Interval after the elimination lemmas below). *)
From Coq Require Import Reals List.
From Verif Require Import Prelude Sphere SphereP.
Import ListNotations.
Open Scope R_scope.

(* to_3d lands on the unit sphere *)
Theorem C14_to3d_unit : forall ra dec, norm2 (to3d ra dec) = 1.
Proof. exact to3d_unit. Qed.
Print Assumptions C14_to3d_unit.

(* from_3d inverts to_3d away from the poles; at the exact poles RA is returned as 0 *)
Theorem C14_from3d_to3d : forall ra dec,
  0 <= ra < 2 * PI -> - (PI / 2) < dec < PI / 2 -> from3d (to3d ra dec) = (ra, dec).
Proof. exact from3d_to3d. Qed.
Print Assumptions C14_from3d_to3d.

Theorem C14_from3d_to3d_pole : forall ra,
  from3d (to3d ra (PI / 2)) = (0, PI / 2) /\ from3d (to3d ra (- (PI / 2))) = (0, - (PI / 2)).
Proof. exact from3d_to3d_pole. Qed.
Print Assumptions C14_from3d_to3d_pole.

(* right ascension is returned in [0, 2 pi), declination in [-pi/2, pi/2], for every vector *)
Theorem C14_ra_range : forall v, 0 <= from3d_ra v < 2 * PI.
Proof. exact ra_range. Qed.
Print Assumptions C14_ra_range.

Theorem C14_dec_range : forall v, - (PI / 2) <= from3d_dec v <= PI / 2.
Proof. exact dec_range. Qed.
Print Assumptions C14_dec_range.

(* the returned RA is the polar angle of (x, y) — atan2-free characterisation *)
Theorem C14_from3d_ra_cos_sin : forall v,
  let r2 := sqrt (vx v * vx v + vy v * vy v) in
  0 < r2 -> r2 * cos (from3d_ra v) = vx v /\ r2 * sin (from3d_ra v) = vy v.
Proof. exact from3d_ra_cos_sin. Qed.
Print Assumptions C14_from3d_ra_cos_sin.

(* chord <-> angle: mutually inverse and strictly order preserving *)
Theorem C14_angle_of_chord_inv : forall t, 0 <= t <= PI -> angle (chord t) = t.
Proof. exact angle_of_chord_inv. Qed.
Print Assumptions C14_angle_of_chord_inv.

Theorem C14_chord_of_angle_inv : forall d, 0 <= d <= 2 -> chord (angle d) = d.
Proof. exact chord_of_angle_inv. Qed.
Print Assumptions C14_chord_of_angle_inv.

Theorem C14_chord_strict_mono : forall s t, 0 <= s -> s < t -> t <= PI -> chord s < chord t.
Proof. exact chord_strict_mono. Qed.
Print Assumptions C14_chord_strict_mono.

Theorem C14_angle_strict_mono : forall c d, 0 <= c -> c < d -> d <= 2 -> angle c < angle d.
Proof. exact angle_strict_mono. Qed.
Print Assumptions C14_angle_strict_mono.

(* |u - v|^2 = 2 - 2 u.v = (2 sin(theta/2))^2 : the Euclidean chord is the chord of the great-circle angle *)
Theorem C14_chord_is_great_circle : forall u v, norm2 u = 1 -> norm2 v = 1 ->
  norm2 (vsub u v) = 2 - 2 * dot u v /\ 2 - 2 * dot u v = (chord (gc_angle u v))^2 /\
  chord_dist u v = chord (gc_angle u v).
Proof. exact chord_is_great_circle. Qed.
Print Assumptions C14_chord_is_great_circle.

(* the algorithm of AngularCoordinates.distance (chord, then 2 asin(c/2)) is the great-circle angle *)
Theorem C14_separation_is_gc_angle : forall ra1 dec1 ra2 dec2,
  separation ra1 dec1 ra2 dec2 = gc_angle (to3d ra1 dec1) (to3d ra2 dec2).
Proof. exact separation_is_gc_angle. Qed.
Print Assumptions C14_separation_is_gc_angle.

(* the great-circle angle is a metric: triangle inequality (Gram determinant) *)
Theorem C14_sphere_triangle : forall a b c, norm2 a = 1 -> norm2 b = 1 -> norm2 c = 1 ->
  gc_angle a c <= gc_angle a b + gc_angle b c.
Proof. exact sphere_triangle. Qed.
Print Assumptions C14_sphere_triangle.

(* spherical mean: direction of the weighted vector sum; scaling all weights leaves it unchanged *)
Theorem C14_mean_scale_invariant : forall k ws ps, 0 < k -> rsum ws <> 0 ->
  sph_mean (map (Rmult k) ws) ps = sph_mean ws ps.
Proof. exact mean_scale_invariant. Qed.
Print Assumptions C14_mean_scale_invariant.

Theorem C14_mean_is_normalised_sum : forall ws ps, 0 < rsum ws -> 0 < norm2 (wsum ws ps) ->
  sph_mean ws ps = from3d (normalize (wsum ws ps)) /\ norm2 (normalize (wsum ws ps)) = 1.
Proof. exact mean_is_normalised_sum. Qed.
Print Assumptions C14_mean_is_normalised_sum.

Theorem C14_from3d_scale : forall k v, 0 < k -> from3d (vscale k v) = from3d v.
Proof. exact from3d_scale. Qed.
Print Assumptions C14_from3d_scale.

(* elimination of the inverse functions, used by the generated accuracy goals *)
Theorem C14_acos_close : forall d y e, 0 <= e -> 0 <= y - e -> y + e <= PI ->
  cos (y + e) <= d <= cos (y - e) -> Rabs (acos d - y) <= e.
Proof. exact acos_close. Qed.
Print Assumptions C14_acos_close.

Theorem C14_sep_hav_close : forall ra1 dec1 ra2 dec2 y e, 0 <= e -> 0 <= y - e -> y + e <= PI ->
  (sin ((y - e) / 2))² <= hav_expr ra1 dec1 ra2 dec2 <= (sin ((y + e) / 2))² ->
  Rabs (separation ra1 dec1 ra2 dec2 - y) <= e.
Proof. exact sep_hav_close. Qed.
Print Assumptions C14_sep_hav_close.

Theorem C14_sep_hav_far : forall ra1 dec1 ra2 dec2 y e,
  (0 <= y + e <= PI -> (sin ((y + e) / 2))² < hav_expr ra1 dec1 ra2 dec2 ->
     ~ (Rabs (separation ra1 dec1 ra2 dec2 - y) <= e)) /\
  (0 <= y - e <= PI -> hav_expr ra1 dec1 ra2 dec2 < (sin ((y - e) / 2))² ->
     ~ (Rabs (separation ra1 dec1 ra2 dec2 - y) <= e)).
Proof. intros; split; [apply sep_hav_far_hi | apply sep_hav_far_lo]. Qed.
Print Assumptions C14_sep_hav_far.

Theorem C14_angle_close : forall c y e, 0 <= e -> - PI <= y - e -> y + e <= PI ->
  sin ((y - e) / 2) <= c / 2 <= sin ((y + e) / 2) -> Rabs (angle c - y) <= e.
Proof. exact angle_close. Qed.
Print Assumptions C14_angle_close.

Theorem C14_dec_close : forall x y z d e, 0 <= e -> - (PI / 2) <= d - e -> d + e <= PI / 2 ->
  sin (d - e) <= w_expr x y z <= sin (d + e) -> Rabs (from3d_dec (x, y, z) - d) <= e.
Proof. exact dec_close. Qed.
Print Assumptions C14_dec_close.

(* RA compared through sin / cos of the returned angle: chord on the unit circle, wrap-insensitive *)
Theorem C14_ra_close : forall x y z b e, 0 <= e -> 0 < x * x + y * y ->
  ra_defect x y b <= (x * x + y * y) * e² ->
  Rabs (chord (b - from3d_ra (x, y, z))) <= e.
Proof. exact ra_close. Qed.
Print Assumptions C14_ra_close.

Theorem C14_circle_chord_small : forall a b e, 0 <= e <= 2 -> Rabs (chord (b - a)) <= e ->
  exists k : Z, Rabs (b - a - IZR k * (2 * PI)) <= angle e.
Proof. exact circle_chord_small. Qed.
Print Assumptions C14_circle_chord_small.

(* input representations: float16 / float32 / integer input denotes binary64 values (promotion to the
   float64 array the primitives compute on is the identity on values, so all statements above apply to
   every accepted dtype / container / memory layout); the converse fails, so primitives run in the
   precision of a narrower input cannot return the binary64 results *)
Theorem C14_b16_in_b32 : forall x, is_b16 x -> is_b32 x.
Proof. exact b16_in_b32. Qed.
Print Assumptions C14_b16_in_b32.

Theorem C14_b32_in_b64 : forall x, is_b32 x -> is_b64 x.
Proof. exact b32_in_b64. Qed.
Print Assumptions C14_b32_in_b64.

Theorem C14_format_widen : forall p E M p' E' M' x,
  (p <= p')%Z -> (0 <= E <= E')%Z -> (M <= M')%Z -> (0 <= M)%Z ->
  in_format p E M x -> in_format p' E' M' x.
Proof. exact in_format_widen. Qed.
Print Assumptions C14_format_widen.

Theorem C14_int_in_b64 : forall n, (Z.abs n <= 2 ^ 53)%Z -> is_b64 (inject_Z n).
Proof. exact int_in_b64. Qed.
Print Assumptions C14_int_in_b64.

Theorem C14_narrowing_refuted : exists x, is_b64 x /\ ~ is_b32 x.
Proof. exact narrowing_refuted. Qed.
Print Assumptions C14_narrowing_refuted.

Theorem C14_fmtb_sound : forall p E M x, (0 <= p)%Z -> fmtb p E M x = true -> in_format p E M x.
Proof. exact fmtb_sound. Qed.
Print Assumptions C14_fmtb_sound.

Theorem C14_repr_case_sound : forall p E M src held, (0 <= p)%Z ->
  c14_repr_case p E M src held = 0%nat ->
  qlist_eqb held src = true /\ Forall (in_format p E M) src /\ Forall is_b64 held.
Proof. exact c14_repr_case_sound. Qed.
Print Assumptions C14_repr_case_sound.

(* non-vacuity: concrete instances of the rational RA-range checker, of the order checker and of the
   representation checker (float32(0.7) held exactly; held as the float64 0.7: flag 0; 2^24+1 is no float32 and 2049 no float16: flag 1) *)
Example C14_concrete :
  c14_ra_case (6283185307179585 # 1000000000000000) (6283185307179586 # 1000000000000000) = 0%nat /\
  c14_ra_case (6283185307179587 # 1000000000000000) (6283185307179586 # 1000000000000000) = 6%nat /\
  c14_mono_case [0#1; 1#2; 1#1]%Q [0#1; 1#4; 1#4]%Q = 0%nat /\
  c14_mono_case [0#1; 1#2; 1#1]%Q [0#1; 1#2; 1#4]%Q = 2%nat /\
  c14_repr_case 24 149 128 [11744051 # 16777216]%Q [11744051 # 16777216]%Q = 0%nat /\
  c14_repr_case 24 149 128 [11744051 # 16777216]%Q [3152519739159347 # 4503599627370496]%Q = 1%nat /\
  c14_repr_case 24 149 128 [16777217 # 1]%Q [16777217 # 1]%Q = 2%nat /\
  c14_repr_case 11 24 16 [1 # 4096]%Q [1 # 4096]%Q = 0%nat /\
  c14_repr_case 11 24 16 [2049 # 1]%Q [2049 # 1]%Q = 2%nat.
Proof. vm_compute. repeat split; reflexivity. Qed.
