(* C04 — correlation estimators and the n(z) formula are applied as documented.
   Statements only; proofs are in Proofs/EstimatorsP.v (and Proofs/JackknifeP.v). *)
From Verif Require Import Prelude Jackknife JackknifeP Estimators EstimatorsP EstimatorsRP CorrAlgebra CorrAlgebraP PairIndex PairIndexP LegacyCounts LegacyCountsP.
From Coq Require Import Reals.
Open Scope Q_scope.

(* Landy-Szalay as coded, ((dd - dr) + (rr - rd)) / rr, is (DD - DR - RD + RR) / RR *)
Theorem C04_ls_def : forall dd dr rd rr, ls dd dr rd rr == (dd - dr - rd + rr) / rr.
Proof. exact ls_def. Qed.
Print Assumptions C04_ls_def.

(* Davis-Peebles as coded, (dd - mixed) / mixed, is DD/mixed - 1 *)
Theorem C04_dp_def : forall dd mixed, ~ mixed == 0 -> dp dd mixed == dd / mixed - 1.
Proof. exact dp_def. Qed.
Print Assumptions C04_dp_def.

(* CorrFunc.sample: LS iff rr exists, a missing rd replaced by dr; otherwise DP with rd, else dr *)
Theorem C04_estimate_cases : forall dd dr rd rr,
  (forall r d x, rr = Some r -> dr = Some d -> rd = Some x -> estimate dd dr rd rr = ls dd d x r)
  /\ (forall r d, rr = Some r -> dr = Some d -> rd = None -> estimate dd dr rd rr = ls dd d d r)
  /\ (forall x, rr = None -> rd = Some x -> estimate dd dr rd rr = dp dd x)
  /\ (forall d, rr = None -> rd = None -> dr = Some d -> estimate dd dr rd rr = dp dd d).
Proof. exact estimate_cases. Qed.
Print Assumptions C04_estimate_cases.

Theorem C04_uses_ls_iff_rr : forall (rr : option Q), uses_ls rr = true <-> rr <> None.
Proof. exact (@uses_ls_iff_rr Q). Qed.
Print Assumptions C04_uses_ls_iff_rr.

(* each term = total pair count / (W1 * W2), or / (1/2 W^2) for an autocorrelation *)
Theorem C04_norm_term_cross : forall (M : mat) u v,
  total M / total (weights_array false u v) == total M / (qsum u * qsum v).
Proof. exact norm_term_cross. Qed.
Print Assumptions C04_norm_term_cross.

Theorem C04_norm_term_auto : forall (M : mat) w,
  total M / total (weights_array true w w) == total M / ((1 # 2) * (qsum w * qsum w)).
Proof. exact norm_term_auto. Qed.
Print Assumptions C04_norm_term_auto.

(* the value of CorrFunc.sample() = the documented estimator of the documented terms *)
Theorem C04_corr_value_is_doc : forall dd dr rd rr,
  mixed_nonzero (option_map t_value dr) (option_map t_value rd) (option_map t_value rr) ->
  estimate (t_value dd) (option_map t_value dr) (option_map t_value rd) (option_map t_value rr)
  == estimate_doc (t_doc dd) (option_map t_doc dr) (option_map t_doc rd) (option_map t_doc rr).
Proof. exact corr_value_is_doc. Qed.
Print Assumptions C04_corr_value_is_doc.

(* n(z) = w_sp / sqrt(dz^2 w_ss w_pp), in squared form with the sign (sqrt is not rational):
   for the positive root r of the radicand, w_sp / r satisfies the relation ... *)
Theorem C04_nz_def : forall dz wsp wss wpp r,
  0 < r -> r * r == nz_radicand dz wss wpp ->
  let nz := wsp / r in
  nz * nz * nz_radicand dz wss wpp == wsp * wsp /\ qsgn nz = qsgn wsp.
Proof. exact nz_def. Qed.
Print Assumptions C04_nz_def.

(* ... and the relation determines the value *)
Theorem C04_nz_sq_unique : forall D w x y,
  0 < D -> x * x * D == w * w -> y * y * D == w * w -> qsgn x = qsgn y -> x == y.
Proof. exact nz_sq_unique. Qed.
Print Assumptions C04_nz_sq_unique.

Theorem C04_nz_rel_exact : forall dz wsp wss wpp nz,
  nz_rel 0 dz wsp wss wpp nz = true <->
  (qsgn nz = qsgn wsp /\ nz * nz * nz_radicand dz wss wpp == wsp * wsp).
Proof. exact nz_rel_exact. Qed.
Print Assumptions C04_nz_rel_exact.

(* absent autocorrelations = 1 *)
Theorem C04_nz_no_autocorr : forall dz, nz_radicand dz 1 1 == dz * dz.
Proof. exact nz_no_autocorr. Qed.
Print Assumptions C04_nz_no_autocorr.

(* normalisation: the integral over the binning becomes 1 *)
Theorem C04_hist_normalised_integral : forall edges dz (data : list oq),
  ~ hist_norm edges dz data == 0 -> ointegral dz (hist_normalised edges dz data) == 1.
Proof. exact hist_normalised_integral. Qed.
Print Assumptions C04_hist_normalised_integral.

Theorem C04_nz_normalised_integral : forall dz (data : list oq),
  ~ ointegral dz data == 0 -> ointegral dz (nz_normalised dz data) == 1.
Proof. exact nz_normalised_integral. Qed.
Print Assumptions C04_nz_normalised_integral.

Theorem C04_nz_normalised_integral_q : forall dz (data : list Q),
  ~ integral dz data == 0 -> integral dz (nz_normalised_q dz data) == 1.
Proof. exact nz_normalised_integral_q. Qed.
Print Assumptions C04_nz_normalised_integral_q.

(* over the reals (standard real-number axioms): the documented formula w_sp / sqrt(dz^2 w_ss w_pp) is exactly
   the value that the squared form with sign (C04_nz_def, C04_nz_sq_unique) characterises *)
Theorem C04_nz_sqrt_form : forall (wsp dz wss wpp : R), (0 < dz * dz * wss * wpp)%R ->
  let y := nzR wsp dz wss wpp in
  (y * y * (dz * dz * wss * wpp) = wsp * wsp /\ (0 <= wsp -> 0 <= y) /\ (wsp <= 0 -> y <= 0))%R.
Proof. exact nz_sqrt_form. Qed.
Print Assumptions C04_nz_sqrt_form.

Theorem C04_nz_sqrt_unique : forall (wsp dz wss wpp y : R), (0 < dz * dz * wss * wpp)%R ->
  (y * y * (dz * dz * wss * wpp) = wsp * wsp)%R -> ((0 <= wsp)%R -> (0 <= y)%R) -> ((wsp <= 0)%R -> (y <= 0)%R) ->
  y = nzR wsp dz wss wpp.
Proof. exact nz_sqrt_unique. Qed.
Print Assumptions C04_nz_sqrt_unique.

(* histories: CorrFunc.sample() is a function of what the constructor and the set_patch_pair calls
   stored; the read-only public calls (get_array, sample_patch_sum, bins/patches indexing, to_dict,
   to_file, ==, is_compatible, +, *, sample, from_corrfuncs, ...) made in between can be erased *)
Theorem C04_history_observers_erased : forall h s, run_calls h s = run_calls (filter is_set h) s.
Proof. exact run_calls_erase_observers. Qed.
Print Assumptions C04_history_observers_erased.

Theorem C04_sample_after_history : forall N h s,
  cfs_data (run_calls h s) = cfs_data (run_calls (filter is_set h) s)
  /\ cfs_samples N (run_calls h s) = cfs_samples N (run_calls (filter is_set h) s).
Proof. exact sample_after_history. Qed.
Print Assumptions C04_sample_after_history.

Theorem C04_sample_after_observers : forall N h s, observers_only h = true ->
  cfs_data (run_calls h s) = cfs_data s /\ cfs_samples N (run_calls h s) = cfs_samples N s.
Proof. exact sample_after_observers. Qed.
Print Assumptions C04_sample_after_observers.

(* set_patch_pair(i, j, v) stores v[b] at [b, i, j] and leaves every other entry alone *)
Theorem C04_set_patch_pair_same : forall i j x (M : mat),
  (i < length M)%nat -> (j < length (nth i M []))%nat -> entry (mat_set i j x M) i j = x.
Proof. exact mat_set_same. Qed.
Print Assumptions C04_set_patch_pair_same.

Theorem C04_set_patch_pair_other : forall i j x (M : mat) i' j',
  (i', j') <> (i, j) -> entry (mat_set i j x M) i' j' = entry M i' j'.
Proof. exact mat_set_other. Qed.
Print Assumptions C04_set_patch_pair_other.

(* the quantifier over histories says more than the statements about fresh containers: a
   get_array that normalises the stored counts in place is indistinguishable on the empty history
   and gives a different sample() after one read-only call *)
Theorem C04_inplace_observer_refuted : exists s h, observers_only h = true
  /\ res_values (cfs_data (run_calls h s)) = res_values (cfs_data s)
  /\ res_values (cfs_data (run_calls_inplace h s)) <> res_values (cfs_data s).
Proof. exact inplace_history_refuted. Qed.
Print Assumptions C04_inplace_observer_refuted.

(* magnitudes: the choice of estimator depends only on which pair counts are present.  With rr
   present the estimate is Landy-Szalay for every value of rr, however small (no side condition) ... *)
Theorem C04_ls_for_any_rr : forall dd d rd r,
  estimate dd (Some d) rd (Some r) == (dd - d - opt_or rd d + r) / r.
Proof. exact estimate_ls_any_rr. Qed.
Print Assumptions C04_ls_for_any_rr.

(* ... and a common factor of all normalised terms (pair fractions of 1e-12 as well as of 1e+9)
   changes neither estimator *)
Theorem C04_estimate_scale_invariant : forall c dd dr rd rr, ~ c == 0 -> den_nonzero dr rd rr ->
  estimate (c * dd) (oscaleq c dr) (oscaleq c rd) (oscaleq c rr) == estimate dd dr rd rr.
Proof. exact estimate_scale. Qed.
Print Assumptions C04_estimate_scale_invariant.

(* an implementation that treats an rr with |rr| <= eps as absent (np.allclose(rr, 0): eps = 1e-8)
   is indistinguishable from the code on all inputs whose rr exceeds eps, and for every eps > 0 it
   is not the documented estimator on some pair counts with rr present and non-zero: the
   quantifier over all pair counts includes every magnitude *)
Theorem C04_threshold_fallback_agrees_above : forall eps dd dr rd r, eps < Qabs r ->
  estimate_thr eps dd dr rd (Some r) = estimate dd dr rd (Some r).
Proof. exact thr_fallback_agrees_above. Qed.
Print Assumptions C04_threshold_fallback_agrees_above.

Theorem C04_threshold_fallback_refuted : forall eps, 0 < eps ->
  exists dd d x r, ~ r == 0 /\ Qabs r <= eps
    /\ estimate_doc dd (Some d) (Some x) (Some r) == 2
    /\ estimate_thr eps dd (Some d) (Some x) (Some r) == 3.
Proof. exact thr_fallback_refuted. Qed.
Print Assumptions C04_threshold_fallback_refuted.

(* non-vacuity *)
Example C04_concrete_estimators :
  Qred (estimate 6 (Some 2) None (Some 4)) = 3 # 2        (* LS with rd := dr : (6-2-2+4)/4 *)
  /\ Qred (estimate 6 (Some 2) (Some 3) (Some 4)) = 5 # 4  (* LS : (6-2-3+4)/4 *)
  /\ Qred (estimate 6 (Some 2) (Some 3) None) = 1          (* DP with rd : 6/3 - 1 *)
  /\ Qred (estimate 6 (Some 2) None None) = 2              (* DP with dr : 6/2 - 1 *)
  /\ est_defined (A := Q) None None (Some 4) = false       (* rr alone: the code raises *)
  /\ est_defined (A := Q) None (Some 3) (Some 4) = false.
Proof. vm_compute. repeat split; reflexivity. Qed.

Example C04_concrete_nz :
  (* dz = 1/2, w_ss = 4, w_pp = 1: radicand 1, root 1; nz = w_sp *)
  nz_rel 0 (1 # 2) (-3) 4 1 (-3) = true /\ nz_rel 0 (1 # 2) (-3) 4 1 3 = false.
Proof. vm_compute. split; reflexivity. Qed.

Example C04_concrete_normalised :
  let edges := [0; 1 # 2; 2] in let dz := [1 # 2; 3 # 2] in
  map (option_map Qred) (hist_normalised edges dz [Some 1; Some 3]) = [Some (1 # 2); Some (1 # 2)]
  /\ Qred (ointegral dz (hist_normalised edges dz [Some 1; Some 3])) = 1
  /\ map (option_map Qred) (nz_normalised dz [Some 2; None]) = [Some 2; None].
Proof. vm_compute. repeat split; reflexivity. Qed.

Example C04_concrete_history :
  let p c := {| pc_auto := false; pc_counts := [[[c; 1]; [2; 3]]]; pc_w1 := [[1; 2]]; pc_w2 := [[2; 2]] |} in
  let s := {| cf_dd := p 6; cf_dr := Some (p 2); cf_rd := None; cf_rr := None |} in
  let h := [H_obs 0 K_dd; H_set K_dd 0 1 [5]; H_obs 16 K_dd; H_obs 6 K_dr] in
  (* (6+5+2+3)/12 over (2+1+2+3)/12, minus 1 *)
  res_values (cfs_data (run_calls h s)) = [1]
  /\ res_values (cfs_data (run_calls [H_set K_dd 0 1 [5]] s)) = [1]
  /\ res_values (cfs_data s) = [1 # 2]
  (* the status code: sample() = 1 and unchanged stored arrays are accepted, a stale value or
     normalised stored counts are not *)
  /\ c04_hist_case 2 s h (Some (run_calls h s)) (Some ([Some 1], [[Some 0]; [Some 2]])) = 0%nat
  /\ c04_hist_case 2 s h (Some (run_calls h s)) (Some ([Some (1 # 2)], [[Some 0]; [Some 2]])) = 3%nat
  /\ c04_hist_case 2 s h (Some (run_calls_inplace h s)) (Some ([Some 1], [[Some 0]; [Some 2]])) = 8%nat.
Proof. vm_compute. repeat split; reflexivity. Qed.

Example C04_concrete_magnitudes :
  (* two patches of total weight 2^20 each in both samples: every normalised term is c / 2^41,
     rr = 2^-41 (4.5e-13); (4-2-1+1)/1 = 2 is accepted, DD/RD-1 = 3 is reported as "ignores rr",
     another wrong value without that diagnosis; with rr absent 3 is right *)
  let p c := {| pc_auto := false; pc_counts := [[[c; 0]; [0; c]]];
                pc_w1 := [[1048576; 1048576]]; pc_w2 := [[1048576; 1048576]] |} in
  map (fun x => Qred (fst x)) (pc_data (p 1)) = [1 # 2199023255552]
  /\ c04_corr_case_x 2 (p 4) (Some (p 2)) (Some (p 1)) (Some (p 1)) (Some ([Some 2], [[Some 2]; [Some 2]])) = 0%nat
  /\ c04_corr_case_x 2 (p 4) (Some (p 2)) (Some (p 1)) (Some (p 1)) (Some ([Some 3], [[Some 3]; [Some 3]])) = 23%nat
  /\ c04_corr_case_x 2 (p 4) (Some (p 2)) (Some (p 1)) (Some (p 1)) (Some ([Some 5], [[Some 2]; [Some 2]])) = 3%nat
  /\ c04_corr_case_x 2 (p 4) (Some (p 2)) (Some (p 1)) None (Some ([Some 3], [[Some 3]; [Some 3]])) = 0%nat
  /\ Qred (estimate_thr (1 # 100000000) 4 (Some 2) (Some 1) (Some 1)) = 2
  /\ Qred (estimate_thr (1 # 100000000) (4 # 2199023255552) (Some (2 # 2199023255552)) (Some (1 # 2199023255552))
                        (Some (1 # 2199023255552))) = 3.
Proof. vm_compute. repeat split; reflexivity. Qed.

(* measurements: "the two samples' total weights" are those of the catalogs that were paired.  The
   per-patch weights of a bin (closed-side rule for a side read with the binning, every object for a
   side read without) add up to the weight of the whole catalog in the bin, however the records are
   grouped in patches ... *)
Theorem C04_sample_total_any_patches : forall right binned lo hi (patches : list (list cobj)),
  qsum (map (cell_weight right binned lo hi) patches) == cell_weight right binned lo hi (concat patches).
Proof. exact side_total_partition. Qed.
Print Assumptions C04_sample_total_any_patches.

(* ... so the denominator of a term of a measured cross-correlation is W1 * W2 of the two catalogs, *)
Theorem C04_measured_denominator_cross : forall right (s1 s2 : side) lo hi,
  norm_denominator false (bin_weights right s1 lo hi) (bin_weights right s2 lo hi)
  == side_total right s1 lo hi * side_total right s2 lo hi.
Proof. exact meas_denominator_cross. Qed.
Print Assumptions C04_measured_denominator_cross.

(* of a measured autocorrelation half the squared total of the catalog, *)
Theorem C04_measured_denominator_auto : forall right (s : side) lo hi,
  norm_denominator true (bin_weights right s lo hi) (bin_weights right s lo hi)
  == (1 # 2) * (side_total right s lo hi * side_total right s lo hi).
Proof. exact meas_denominator_auto. Qed.
Print Assumptions C04_measured_denominator_auto.

(* where the total is that of the records inside the bin for a binned sample and of all records, in
   every bin, for a sample without binning (the unknown side of a cross-correlation) *)
Theorem C04_total_of_binned_side : forall right ps lo hi,
  side_total right {| sd_binned := true; sd_patches := ps |} lo hi
  = weight_of (filter (fun o => in_bin right lo hi (fst o)) (concat ps)).
Proof. exact side_total_binned. Qed.
Print Assumptions C04_total_of_binned_side.

Theorem C04_total_of_unbinned_side : forall right ps lo hi,
  side_total right {| sd_binned := false; sd_patches := ps |} lo hi = weight_of (concat ps).
Proof. exact side_total_unbinned. Qed.
Print Assumptions C04_total_of_unbinned_side.

Theorem C04_measured_doc_denominators : forall right edges m,
  map2 (norm_denominator (mc_auto m)) (pc_w1 (meas_pc right edges m)) (pc_w2 (meas_pc right edges m))
  = map (fun lh => norm_denominator (mc_auto m) (bin_weights right (mc_s1 m) (fst lh) (snd lh))
                                    (bin_weights right (mc_s2 m) (fst lh) (snd lh))) (bin_bounds edges).
Proof. exact meas_doc_denominators. Qed.
Print Assumptions C04_measured_doc_denominators.

(* a term fixes the weight product it was normalised with: wherever pairs were counted, a weight
   missing from a total is a different term *)
Theorem C04_term_determines_denominator : forall c d d',
  ~ c == 0 -> ~ d == 0 -> ~ d' == 0 -> c / d == c / d' -> d == d'.
Proof. exact term_determines_denominator. Qed.
Print Assumptions C04_term_determines_denominator.

(* the quantifier over all catalogs says more than dense catalogs do: an implementation that records
   the weight of a (bin, patch) cell only when the partner's cell holds objects is indistinguishable
   on every pair of catalogs without empty cells, and is not the documented estimator for a sparse
   reference sample *)
Theorem C04_skip_empty_agrees_populated : forall right edges m,
  length (sd_patches (mc_s1 m)) = length (sd_patches (mc_s2 m)) ->
  all_cells_populated right edges (mc_s1 m) -> all_cells_populated right edges (mc_s2 m) ->
  meas_pc_skip right edges m = meas_pc right edges m.
Proof. exact skip_agrees_populated. Qed.
Print Assumptions C04_skip_empty_agrees_populated.

Theorem C04_skip_empty_refuted : exists right edges dd rd,
  res_values (corr_data_doc (meas_pc right edges dd) None (Some (meas_pc right edges rd)) None) = [1 # 8; -(1 # 2)]
  /\ res_values (corr_data (meas_pc right edges dd) None (Some (meas_pc right edges rd)) None) = [1 # 8; -(1 # 2)]
  /\ res_values (corr_data (meas_pc_skip right edges dd) None (Some (meas_pc_skip right edges rd)) None) = [1 # 2; -(1 # 3)].
Proof. exact skip_refuted. Qed.
Print Assumptions C04_skip_empty_refuted.

Example C04_concrete_measurement :
  (* the catalogs of C04_skip_empty_refuted, bins (0, 1], (1, 2]: weights per bin and patch, totals *)
  side_weights true [0; 1; 2] ex_ref = [[1; 1; 0]; [0; 1; 1]]
  /\ side_weights true [0; 1; 2] ex_unk = [[1; 2; 1]; [1; 2; 1]]
  /\ Qred (side_total true ex_ref 1 2) = 2 /\ Qred (side_total true ex_unk 1 2) = 4
  (* a record on the closed edge belongs to the bin it closes *)
  /\ in_bin true 0 1 1 = true /\ in_bin true 1 2 1 = false /\ in_bin false 0 1 1 = false /\ in_bin false 1 2 1 = true
  (* status codes: DD/RD - 1 = [1/8; -1/2] is accepted whatever the CorrFunc stores; the value normalised
     with stored weights that lack patch 0 / patch 2 of the unknown sample is reported with the diagnosis *)
  /\ (let ok := Some ([Some (1 # 8); Some (-(1 # 2))],
                      [[Some (1 # 3); Some (-(1 # 2))]; [Some 0; Some (-(1 # 2))]; [Some 0; Some (-(1 # 2))]]) in
      let bad := Some ([Some (1 # 2); Some (-(1 # 3))],
                       [[Some 1; Some (-(1 # 2))]; [Some 1; Some 0]; [Some 0; Some (-(1 # 4))]]) in
      let st f := f true [0; 1; 2] in
      c04_meas_case true [0; 1; 2] 3 ex_dd None (Some ex_rd) None
                    (st meas_pc ex_dd) None (Some (st meas_pc ex_rd)) None ok = 0%nat
      /\ c04_meas_case true [0; 1; 2] 3 ex_dd None (Some ex_rd) None
                       (st meas_pc_skip ex_dd) None (Some (st meas_pc_skip ex_rd)) None ok = 0%nat
      /\ c04_meas_case true [0; 1; 2] 3 ex_dd None (Some ex_rd) None
                       (st meas_pc_skip ex_dd) None (Some (st meas_pc_skip ex_rd)) None bad = 39%nat
      /\ c04_meas_case true [0; 1; 2] 3 ex_dd None (Some ex_rd) None
                       (st meas_pc ex_dd) None (Some (st meas_pc ex_rd)) None bad = 7%nat)
  (* n(z) with dz = 1 and no autocorrelations is w_sp; a value from other weights is not accepted *)
  /\ c04_meas_nz_case true [0; 1; 2] [1; 1] 0 (ex_dd, None, Some ex_rd, None) None None
                      [Some (1 # 8); Some (-(1 # 2))] [] = 0%nat
  /\ c04_meas_nz_case true [0; 1; 2] [1; 1] 0 (ex_dd, None, Some ex_rd, None) None None
                      [Some (1 # 2); Some (-(1 # 3))] [] = 1%nat.
Proof. vm_compute. repeat split; reflexivity. Qed.

(* weights that are not positive: a total weight is the sum of the weight column, whatever it holds.
   Objects masked with weight 0 weigh nothing in every cell (masking = removing from the total), *)
Theorem C04_masked_objects_weigh_nothing : forall right binned lo hi l,
  cell_weight right binned lo hi (weighted l) == cell_weight right binned lo hi l.
Proof. exact masked_objects_weigh_nothing. Qed.
Print Assumptions C04_masked_objects_weigh_nothing.

(* a patch whose weights cancel in a bin leaves the total of the other patches, *)
Theorem C04_cancelling_cell_leaves_total : forall right binned lo hi (l : list cobj) (others : list (list cobj)),
  cell_weight right binned lo hi l == 0 ->
  cell_weight right binned lo hi (concat (l :: others)) == cell_weight right binned lo hi (concat others).
Proof. exact cancelling_cell_leaves_total. Qed.
Print Assumptions C04_cancelling_cell_leaves_total.

(* and the quantifier over all catalogs says more than positive weights do: an implementation that takes
   "the sum of weights or else the number of objects" as the total weight of a cell is indistinguishable
   on every catalog without a populated weightless cell - every catalog of positive weights is one - *)
Theorem C04_or_count_agrees_weighted : forall right edges m,
  no_weightless_cell right edges (mc_s1 m) -> no_weightless_cell right edges (mc_s2 m) ->
  meas_pc_or right edges m = meas_pc right edges m.
Proof. exact orcount_agrees_weighted. Qed.
Print Assumptions C04_or_count_agrees_weighted.

Theorem C04_positive_weights_no_weightless_cell : forall right edges s,
  (forall l o, In l (sd_patches s) -> In o l -> 0 < snd o) -> no_weightless_cell right edges s.
Proof. exact positive_weights_no_weightless_cell. Qed.
Print Assumptions C04_positive_weights_no_weightless_cell.

(* and is not the documented estimator once objects are masked with weight 0 or weights cancel *)
Theorem C04_or_count_refuted : exists right edges dd rd,
  side_weights right edges (mc_s1 dd) = [[2; 0; 1]; [1; 2; 0]]
  /\ map (map Qred) (side_weights_or right edges (mc_s1 dd)) = [[2; 2; 1]; [1; 2; 3]]
  /\ res_values (corr_data_doc (meas_pc right edges dd) None (Some (meas_pc right edges rd)) None) = [-(1 # 4); 1 # 6]
  /\ res_values (corr_data (meas_pc right edges dd) None (Some (meas_pc right edges rd)) None) = [-(1 # 4); 1 # 6]
  /\ res_values (corr_data (meas_pc_or right edges dd) None (Some (meas_pc_or right edges rd)) None) = [-(11 # 20); -(5 # 12)].
Proof. exact orcount_refuted. Qed.
Print Assumptions C04_or_count_refuted.

Example C04_concrete_weights :
  (* the catalogs of C04_or_count_refuted: DD/RD - 1 = [-1/4; 1/6] is accepted whatever the CorrFunc stores; the
     value normalised with stored weights that count the weightless cells by their objects is reported with the
     diagnosis; a reference sample whose second bin weighs nothing in total leaves that bin undefined (anything is
     accepted there) while the first bin is still compared *)
  let ok := Some ([Some (-(1 # 4)); Some (1 # 6)], [[Some (-(1 # 3)); Some (1 # 2)]; [Some 0; Some (1 # 2)]; [Some (-(1 # 3)); Some (-(1 # 6))]]) in
  let bad := Some ([Some (-(11 # 20)); Some (-(5 # 12))], [[Some (-(7 # 9)); Some (-(2 # 5))]; [Some 0; Some (-(5 # 8))]; [Some (-(2 # 3)); Some (-(1 # 6))]]) in
  let st f := f true [0; 1; 2] in
  let dead := {| sd_binned := true; sd_patches := [[(1 # 2, 2); (3 # 2, 1)]; [(1 # 2, 1); (3 # 2, 0)]; [(1 # 2, 1); (3 # 2, -(1))]] |} in
  let dd_dead := {| mc_auto := false; mc_counts := mc_counts exw_dd; mc_s1 := dead; mc_s2 := ex_unk |} in
  c04_meas_case true [0; 1; 2] 3 exw_dd None (Some ex_rd) None (st meas_pc exw_dd) None (Some (st meas_pc ex_rd)) None ok = 0%nat
  /\ c04_meas_case true [0; 1; 2] 3 exw_dd None (Some ex_rd) None (st meas_pc_or exw_dd) None (Some (st meas_pc_or ex_rd)) None ok = 0%nat
  /\ c04_meas_case true [0; 1; 2] 3 exw_dd None (Some ex_rd) None (st meas_pc_or exw_dd) None (Some (st meas_pc_or ex_rd)) None bad = 39%nat
  /\ map (fun r => snd (fst r)) (corr_data_doc (st meas_pc dd_dead) None (Some (st meas_pc ex_rd)) None) = [true; false]
  /\ c04_meas_case true [0; 1; 2] 3 dd_dead None (Some ex_rd) None (st meas_pc dd_dead) None (Some (st meas_pc ex_rd)) None
       (Some ([Some (-(7 # 16)); Some 5], [[Some (-(2 # 3)); Some (-(4))]; [Some 0; None]; [Some (-(5 # 9)); Some (3 # 2)]])) = 0%nat
  /\ c04_meas_case true [0; 1; 2] 3 dd_dead None (Some ex_rd) None (st meas_pc dd_dead) None (Some (st meas_pc ex_rd)) None
       (Some ([Some (-(1 # 4)); None], [[Some (-(2 # 3)); Some (-(4))]; [Some 0; None]; [Some (-(5 # 9)); Some (3 # 2)]])) = 3%nat.
Proof. vm_compute. repeat split; reflexivity. Qed.

(* container algebra: the estimator is applied to correlation functions that are the RESULT of +, sum(),
   * scalar, .bins[...] / .patches[...], file round trips, copies and pickles (Model/CorrAlgebra.v).  A
   correlation function holds its pair counts in roles (dd, dr, rd, rr; each present or missing).  Every
   operation on one container keeps the roles, *)
Theorem C04_algebra_unary_keeps_roles : forall (f : pc -> pc) (t : terms pc), roles (tmap f t) = roles t.
Proof. exact (@tmap_roles pc pc). Qed.
Print Assumptions C04_algebra_unary_keeps_roles.

(* a sum that succeeds holds the roles of both operands, and operands that hold different roles are refused
   (never silently completed or truncated), *)
Theorem C04_algebra_sum_keeps_roles : forall (t u v : terms pc),
  tzip pc_add t u = Some v -> roles v = roles t /\ roles v = roles u.
Proof. exact (@tzip_roles pc pc pc pc_add). Qed.
Print Assumptions C04_algebra_sum_keeps_roles.

Theorem C04_algebra_sum_refuses_mismatch : forall (t u : terms pc), roles t <> roles u -> tzip pc_add t u = None.
Proof. exact (@tzip_mismatch pc pc pc pc_add). Qed.
Print Assumptions C04_algebra_sum_refuses_mismatch.

(* so the value of ANY expression holds exactly the roles that every one of its leaves holds: dd stays dd,
   rr stays rr, missing stays missing *)
Theorem C04_algebra_expression_keeps_roles : forall e t,
  eval e = Some t -> Forall (fun l => roles l = roles t) (leaves e).
Proof. exact eval_roles. Qed.
Print Assumptions C04_algebra_expression_keeps_roles.

(* the estimator reads its input by role: the estimate of a sum is the estimator applied to the role-wise
   sums - Landy-Szalay of the pooled terms when rr is held, Davis-Peebles otherwise *)
Theorem C04_estimate_of_sum : forall t u v, tadd t u = Some v ->
  t_estimate v = match oadd (t_dd t) (t_dd u) with
                 | Some d => Some (estimate d (oadd (t_dr t) (t_dr u)) (oadd (t_rd t) (t_rd u))
                                            (oadd (t_rr t) (t_rr u)))
                 | None => None
                 end.
Proof. exact estimate_of_sum. Qed.
Print Assumptions C04_estimate_of_sum.

Theorem C04_estimate_of_sum_ls : forall dd dd' d d' rd rd' r r' v,
  tadd (mk_terms (Some dd) (Some d) rd (Some r)) (mk_terms (Some dd') (Some d') rd' (Some r')) = Some v ->
  oeq (t_estimate v)
      (Some (((dd + dd') - (d + d') - opt_or (oadd rd rd') (d + d') + (r + r')) / (r + r'))).
Proof. exact estimate_of_sum_ls. Qed.
Print Assumptions C04_estimate_of_sum_ls.

Theorem C04_estimate_of_sum_dp : forall dd dd' dr dr' rd rd' v,
  tadd (mk_terms (Some dd) dr rd None) (mk_terms (Some dd') dr' rd' None) = Some v ->
  t_estimate v = Some (dp (dd + dd') (opt_or (oadd rd rd') (opt_or (oadd dr dr') 0))).
Proof. exact estimate_of_sum_dp. Qed.
Print Assumptions C04_estimate_of_sum_dp.

(* containers: the documented term (total pair count / product of total weights) is linear in the counts -
   the term of a sum pools the pair counts of the operands over the common weights, *)
Theorem C04_term_of_sum : forall p q r b, pc_add p q = Some r ->
  pc_term r b == (total (nth b (pc_counts p) []) + total (nth b (pc_counts q) []))
                 / norm_denominator (pc_auto p) (nth b (pc_w1 p) []) (nth b (pc_w2 p) []).
Proof. exact pc_term_add. Qed.
Print Assumptions C04_term_of_sum.

Theorem C04_term_of_sum_is_sum_of_terms : forall p q r b,
  pc_add p q = Some r -> pc_w1 q = pc_w1 p -> pc_w2 q = pc_w2 p -> pc_term r b == pc_term p b + pc_term q b.
Proof. exact pc_term_add_terms. Qed.
Print Assumptions C04_term_of_sum_is_sum_of_terms.

Theorem C04_term_of_multiple : forall c p b, pc_term (pc_scale c p) b == c * pc_term p b.
Proof. exact pc_term_scale. Qed.
Print Assumptions C04_term_of_multiple.

Theorem C04_term_of_bin_selection : forall J p j,
  (j < length J)%nat -> pc_term (pc_sel_bins J p) j = pc_term p (nth j J 0%nat).
Proof. exact pc_term_bins. Qed.
Print Assumptions C04_term_of_bin_selection.

(* sample() of cf1 + cf2 is the estimator applied to the role-wise pooled counts, for every combination of
   roles held, *)
Theorem C04_sample_of_sum : forall t u v b, tzip pc_add t u = Some v ->
  oeq (t_estimate (cf_terms v b))
      (match opool (t_dd t) (t_dd u) b with
       | Some d => Some (estimate d (opool (t_dr t) (t_dr u) b) (opool (t_rd t) (t_rd u) b)
                                  (opool (t_rr t) (t_rr u) b))
       | None => None
       end).
Proof. exact sum_cf_estimate. Qed.
Print Assumptions C04_sample_of_sum.

(* and sample() of cf * c is sample() of cf *)
Theorem C04_sample_of_multiple : forall c (t : terms pc) b, ~ c == 0 ->
  den_nonzero (t_dr (cf_terms t b)) (t_rd (cf_terms t b)) (t_rr (cf_terms t b)) ->
  oeq (t_estimate (cf_terms (tmap (pc_scale c) t) b)) (t_estimate (cf_terms t b)).
Proof. exact scaled_cf_same_estimate. Qed.
Print Assumptions C04_sample_of_multiple.

(* the quantifier over all combinations of roles says more than complete correlation functions do: an
   arithmetic that rebuilds its result positionally (the counts that are present, filled into dd, dr, rd, rr
   from the left) changes nothing exactly when no missing role precedes a present one, *)
Theorem C04_positional_rebinding_id_iff_prefix : forall (t : terms pc),
  rebind t = t <-> prefix_closed (roles t) = true.
Proof. exact (@rebind_id_iff_prefix pc). Qed.
Print Assumptions C04_positional_rebinding_id_iff_prefix.

(* is indistinguishable on every expression over dd+dr, dd+dr+rd and complete correlation functions, *)
Theorem C04_positional_rebinding_agrees_prefix : forall e,
  Forall (fun l => prefix_closed (roles l) = true) (leaves e) -> eval_pos e = eval e.
Proof. exact eval_pos_agrees_prefix. Qed.
Print Assumptions C04_positional_rebinding_agrees_prefix.

(* and is not the documented estimator for dd+dr+rr (every autocorrelation with RR): rr lands in the rd
   slot, no rr is held any more, Davis-Peebles DD/RR - 1 replaces Landy-Szalay *)
Theorem C04_positional_rebinding_refuted : exists t : terms Q,
  roles t = [true; true; false; true] /\ roles (rebind t) = [true; true; true; false]
  /\ oeq (t_estimate t) (Some (3 # 2)) /\ oeq (t_estimate (rebind t)) (Some (1 # 2)).
Proof. exact rebind_refuted. Qed.
Print Assumptions C04_positional_rebinding_refuted.

Theorem C04_positional_expression_refuted : exists e,
  option_map roles (eval e) = Some [true; true; false; true]
  /\ terms_values (eval e) = [3 # 2]
  /\ option_map roles (eval_pos e) = Some [true; true; true; false]
  /\ terms_values (eval_pos e) = [1 # 2].
Proof. exact eval_pos_refuted. Qed.
Print Assumptions C04_positional_expression_refuted.

Example C04_concrete_algebra :
  let cf := exa_cf in                              (* dd+dr+rr, two patches, one bin *)
  let e := X_scale (1 # 2) (X_add (X_leaf cf) (X_copy 0 (X_leaf cf))) in
  let sel := X_patches [1%nat; 0%nat] (X_bins [0%nat] e) in
  (* pooled and halved terms: dd = 24/4, dr = 8/4, rr = 16/4: (6 - 2 - 2 + 4) / 4; without one patch (11 - 3 - 3 + 7) / 7 *)
  terms_values (eval e) = [3 # 2] /\ terms_values (eval sel) = [3 # 2]
  (* status codes: the Landy-Szalay value with unchanged roles is accepted; Davis-Peebles DD/RR - 1 of a result
     that holds rr in the rd slot is reported (value, samples, stored arrays, roles) *)
  /\ c04_alg_case e (eval e) (Some ([Some (3 # 2)], [[Some (12 # 7)]; [Some (12 # 7)]])) = 0%nat
  /\ c04_alg_case e (eval_pos e) (Some ([Some (1 # 2)], [[Some (4 # 7)]; [Some (4 # 7)]])) = 47%nat
  (* operands that hold different roles: the model refuses, the implementation must raise *)
  /\ c04_alg_refusal_case (X_add (X_leaf cf) (X_leaf (rebind cf))) true = 0%nat
  /\ c04_alg_refusal_case (X_add (X_leaf cf) (X_leaf (rebind cf))) false = 1%nat
  (* n(z) with dz = 1 and no autocorrelations is w_sp *)
  /\ c04_alg_nz_case [1] e None None [Some (3 # 2)] [[Some (12 # 7)]; [Some (12 # 7)]] = 0%nat
  /\ c04_alg_nz_case [1] e None None [Some (1 # 2)] [[Some (12 # 7)]; [Some (4 # 7)]] = 3%nat.
Proof. vm_compute. repeat split; reflexivity. Qed.

(* ------------------------------------------------ many patches (Model/PairIndex.v, Proofs/PairIndexP.v)
   Nothing in the property depends on the number of patches N; an implementation does as soon as a flat pair
   position i * N + j, a patch index or the length of a pair list is held in a fixed-width integer.
   Over the integers the flat position identifies the pair, *)
Theorem C04_flat_index_injective : forall N i j i' j',
  (0 <= j < N)%Z -> (0 <= j' < N)%Z -> flat N i j = flat N i' j' -> i = i' /\ j = j'.
Proof. exact flat_injective. Qed.
Print Assumptions C04_flat_index_injective.

Theorem C04_flat_index_roundtrip : forall N i j, (0 <= j < N)%Z -> unflat N (flat N i j) = (i, j).
Proof. exact unflat_flat. Qed.
Print Assumptions C04_flat_index_roundtrip.

(* a signed integer of `bits` bits holds every flat position exactly when N^2 <= 2^(bits-1) ... *)
Theorem C04_flat_index_fits_below : forall bits N i j,
  (0 < bits)%Z -> (N * N <= 2 ^ (bits - 1))%Z -> in_range N i -> in_range N j ->
  flat_w bits N i j = flat N i j.
Proof. exact flat_fits_below. Qed.
Print Assumptions C04_flat_index_fits_below.

(* ... and wraps for some pair of every larger N *)
Theorem C04_flat_index_wraps_from : forall bits N,
  (0 < bits)%Z -> (0 < N)%Z -> (2 ^ (bits - 1) < N * N)%Z ->
  exists i j, in_range N i /\ in_range N j /\ flat_w bits N i j <> flat N i j.
Proof. exact flat_wraps_from. Qed.
Print Assumptions C04_flat_index_wraps_from.

(* the catalogs' patch id type, int16: exact up to 181 patches, wrong from 182 on *)
Theorem C04_flat16_fits_181 : forall N i j,
  (0 <= N <= 181)%Z -> in_range N i -> in_range N j -> flat_w 16 N i j = flat N i j.
Proof. exact flat16_fits_181. Qed.
Print Assumptions C04_flat16_fits_181.

Theorem C04_flat16_wraps_from_182 : forall N,
  (182 <= N)%Z -> exists i j, in_range N i /\ in_range N j /\ flat_w 16 N i j <> flat N i j.
Proof. exact flat16_wraps_from_182. Qed.
Print Assumptions C04_flat16_wraps_from_182.

Theorem C04_flat8_fits_11_wraps_12 :
  (forall N i j, (0 <= N <= 11)%Z -> in_range N i -> in_range N j -> flat_w 8 N i j = flat N i j)
  /\ (forall N, (12 <= N)%Z -> exists i j, in_range N i /\ in_range N j /\ flat_w 8 N i j <> flat N i j).
Proof. exact flat8_fits_11_wraps_12. Qed.
Print Assumptions C04_flat8_fits_11_wraps_12.

Theorem C04_flat32_fits_46340_wraps_46341 :
  (forall N i j, (0 <= N <= 46340)%Z -> in_range N i -> in_range N j -> flat_w 32 N i j = flat N i j)
  /\ (forall N, (46341 <= N)%Z -> exists i j, in_range N i /\ in_range N j /\ flat_w 32 N i j <> flat N i j).
Proof. exact flat32_fits_46340_wraps_46341. Qed.
Print Assumptions C04_flat32_fits_46340_wraps_46341.

(* the wrapped position is read from the end of the array (numpy) and is ANOTHER valid pair: counts move silently *)
Theorem C04_flat16_lands_on_other_pair :
  exists N i j i' j', in_range N i /\ in_range N j /\ in_range N i' /\ in_range N j'
    /\ (i, j) <> (i', j') /\ lands 16 N i j = (i', j') /\ lands 64 N i j = (i, j).
Proof. exact flat16_lands_on_other_pair. Qed.
Print Assumptions C04_flat16_lands_on_other_pair.

(* ... but not for every N: with exactly 256 patches a 16-bit flat index is invisible *)
Theorem C04_flat16_invisible_at_256 : forall i j, in_range 256 i -> in_range 256 j -> lands 16 256 i j = (i, j).
Proof. exact flat16_invisible_at_256. Qed.
Print Assumptions C04_flat16_invisible_at_256.

(* the sparse pair list of a file (to_hdf) read back pair by pair (from_hdf) restores every count of every bin,
   for any number of patches *)
Theorem C04_sparse_roundtrip : forall B N (C : list mat) b i j,
  (b < B)%nat -> (i < N)%nat -> (j < N)%nat ->
  nth j (nth i (nth b (from_sparse B N (to_sparse N C)) []) []) 0 == nth j (nth i (nth b C []) []) 0.
Proof. exact sparse_roundtrip_dense. Qed.
Print Assumptions C04_sparse_roundtrip.

(* restored through a 16-bit flat index it does not (182 patches, one count at (180, 8)) *)
Theorem C04_sparse_roundtrip_wrapped_refuted :
  let l := to_sparse 182 wrap_witness in
  l = [(180%nat, 8%nat, [1])]
  /\ restored (map (lands_nat 16 182) l) 180 8 0 = 0 /\ restored (map (lands_nat 16 182) l) 1 174 0 = 1
  /\ restored (map (lands_nat 64 182) l) 180 8 0 = 1 /\ restored (map (lands_nat 64 182) l) 1 174 0 = 0.
Proof. exact sparse_roundtrip_wrapped_refuted. Qed.
Print Assumptions C04_sparse_roundtrip_wrapped_refuted.

(* the estimator terms evaluated in one pass over a pair list (what the check of CorrFuncs with 100 .. 2000 patches
   runs): sample k is the total of the pairs that do not involve patch k, *)
Theorem C04_sparse_sample_is_recount : forall N b l k,
  in_box N l -> (k < N)%nat -> nth k (sp_samples N b l) 0 == sp_loo b l k.
Proof. exact sparse_sample_is_recount. Qed.
Print Assumptions C04_sparse_sample_is_recount.

(* value and samples are those of the dense model (sample_patch_sum of Jackknife.v) on the matrix the list stands for, *)
Theorem C04_sparse_sums_are_dense : forall N b l,
  in_box N l ->
  sp_total b l == total (dense N b l)
  /\ forall k, (k < N)%nat -> nth k (sp_samples N b l) 0 == sample (dense N b l) k.
Proof. exact sparse_sums_are_dense. Qed.
Print Assumptions C04_sparse_sums_are_dense.

(* and the closed-form normalisations are the sums over the weight-product matrices of the dense model *)
Theorem C04_big_normalisation_is_dense : forall auto u v,
  (auto = true -> u = v) ->
  big_den auto u v == total (weights_array auto u v)
  /\ forall k, (k < length u)%nat -> (k < length v)%nat ->
       nth k (big_den_loo auto u v) 0 == sample (weights_array auto u v) k.
Proof. exact big_den_is_dense. Qed.
Print Assumptions C04_big_normalisation_is_dense.

Example C04_concrete_many_patches :
  (* three patches, one bin, dd + dr: DD = 10 / 16, DR = 4 / 16, Davis-Peebles 10 / 4 - 1; without patch 0, 1, 2 *)
  let impl := Some ([Some (3 # 2)], [[Some (19 # 2)]; [Some 2]; [Some (1 # 9)]]) in
  c04_big_case 3 exa_big (Some exa_big_dr) None None impl = 0%nat
  /\ c04_corr_case 3 (bpc_dense 3 exa_big) (Some (bpc_dense 3 exa_big_dr)) None None impl = 0%nat
  (* the counts of pair (2, 1) restored at (0, 1): the same total, other samples *)
  /\ c04_big_case 3 exa_big (Some exa_big_dr) None None
       (Some ([Some (3 # 2)], [[Some (7 # 2)]; [Some 2]; [Some 1]])) = 4%nat
  /\ c04_big_case 3 exa_big (Some exa_big_dr) None None None = 1%nat
  (* the thresholds *)
  /\ flat_w 16 181 180 180 = 32760%Z /\ flat_w 16 182 180 8 = (-32768)%Z /\ lands 16 182 180 8 = (1, 174)%Z
  /\ flat_w 8 12 10 8 = (-128)%Z /\ lands 8 12 10 8 = (1, 4)%Z.
Proof. vm_compute. repeat split; reflexivity. Qed.

(* ---------------------------------------------------------------- legacy files (yaw < 3.0 layout) *)
(* A legacy pair-count member (keys, data, totals1, totals2 with shape (patches, bins)) decoded into the
   current container: sum_weights1 holds totals1 and sum_weights2 holds totals2, entry by entry *)
Theorem C04_legacy_decode_keeps_roles : forall B l b i, (b < B)%nat ->
  nth i (nth b (pc_w1 (decode B l)) []) 0 = nth b (nth i (lg_totals1 l) []) 0
  /\ nth i (nth b (pc_w2 (decode B l)) []) 0 = nth b (nth i (lg_totals2 l) []) 0.
Proof. exact decode_keeps_roles. Qed.
Print Assumptions C04_legacy_decode_keeps_roles.

Theorem C04_legacy_decode_keeps_auto_and_shape : forall B l,
  pc_auto (decode B l) = lg_auto l /\ length (pc_w1 (decode B l)) = B /\ length (pc_w2 (decode B l)) = B
  /\ pc_bins (decode B l) = B.
Proof. exact decode_keeps_auto_and_shape. Qed.
Print Assumptions C04_legacy_decode_keeps_auto_and_shape.

(* the normalisation of a decoded cross-correlation term is the product of BOTH samples' totals ... *)
Theorem C04_legacy_cross_denominator : forall B l b, (b < B)%nat -> lg_auto l = false ->
  norm_denominator (pc_auto (decode B l)) (nth b (pc_w1 (decode B l)) []) (nth b (pc_w2 (decode B l)) [])
  == legacy_total1 l b * legacy_total2 l b.
Proof. exact decode_cross_denominator. Qed.
Print Assumptions C04_legacy_cross_denominator.

(* ... and the documented term is the bin's total pair count over that product *)
Theorem C04_legacy_cross_term : forall B l b, (b < B)%nat -> lg_auto l = false ->
  fst (nth b (pc_data_doc (decode B l)) dq0)
  == total (nth b (pc_counts (decode B l)) []) / (legacy_total1 l b * legacy_total2 l b).
Proof. exact decode_cross_term. Qed.
Print Assumptions C04_legacy_cross_term.

Theorem C04_legacy_auto_denominator : forall B l b, (b < B)%nat -> lg_auto l = true -> lg_totals2 l = lg_totals1 l ->
  norm_denominator (pc_auto (decode B l)) (nth b (pc_w1 (decode B l)) []) (nth b (pc_w2 (decode B l)) [])
  == (1 # 2) * (legacy_total1 l b * legacy_total1 l b).
Proof. exact decode_auto_denominator. Qed.
Print Assumptions C04_legacy_auto_denominator.

(* a decoder that fills both roles from totals1: identical whenever the two samples have equal totals
   (dd and rr of an autocorrelation), divides by the square of the first total otherwise, refuted by a
   cross-correlation member whose samples weigh 2 and 8 *)
Theorem C04_legacy_first_twice_agrees_equal_totals : forall B l,
  lg_totals2 l = lg_totals1 l -> decode_first_twice B l = decode B l.
Proof. exact decode_first_twice_agrees_equal_totals. Qed.
Print Assumptions C04_legacy_first_twice_agrees_equal_totals.

Theorem C04_legacy_first_twice_denominator : forall B l b, (b < B)%nat -> lg_auto l = false ->
  norm_denominator (pc_auto (decode_first_twice B l)) (nth b (pc_w1 (decode_first_twice B l)) [])
                   (nth b (pc_w2 (decode_first_twice B l)) [])
  == legacy_total1 l b * legacy_total1 l b.
Proof. exact decode_first_twice_denominator. Qed.
Print Assumptions C04_legacy_first_twice_denominator.

Theorem C04_legacy_first_twice_refuted : exists B l,
  legacy_wf B l = true /\ lg_auto l = false
  /\ fst (nth 0 (pc_data_doc (decode B l)) dq0) == legacy_term l 0
  /\ ~ fst (nth 0 (pc_data_doc (decode_first_twice B l)) dq0) == legacy_term l 0
  /\ pc_eqb (decode_first_twice B l) (decode B l) = false.
Proof. exact decode_first_twice_refuted. Qed.
Print Assumptions C04_legacy_first_twice_refuted.

(* the two roles exchanged: no term of a cross-correlation notices (value and every leave-one-out
   denominator), the stored fields and the data-random term of an autocorrelation do *)
Theorem C04_legacy_swapped_same_cross_denominator : forall u v,
  norm_denominator false u v == norm_denominator false v u
  /\ forall k, norm_denominator false (remove_nth k u) (remove_nth k v)
               == norm_denominator false (remove_nth k v) (remove_nth k u).
Proof. exact swapped_same_cross_denominator. Qed.
Print Assumptions C04_legacy_swapped_same_cross_denominator.

Theorem C04_legacy_swapped_refuted :
  (exists B l, legacy_wf B l = true /\ lg_auto l = false
     /\ qlist_eqb (map fst (pc_data_doc (decode_swapped B l))) (map fst (pc_data_doc (decode B l))) = true
     /\ pc_eqb (decode_swapped B l) (decode B l) = false)
  /\ (exists B l, legacy_wf B l = true /\ lg_auto l = true
     /\ qlist_eqb (map fst (pc_data_doc (decode_swapped B l))) (map fst (pc_data_doc (decode B l))) = false).
Proof. exact decode_swapped_refuted. Qed.
Print Assumptions C04_legacy_swapped_refuted.

(* a (patches, bins) table taken as it is: silent when patches = bins *)
Theorem C04_legacy_untransposed_square_refuted : exists B l,
  legacy_wf B l = true /\ lg_npatch l = B
  /\ length (pc_w1 (decode_untransposed B l)) = B
  /\ rectb (lg_npatch l) (pc_w1 (decode_untransposed B l)) = true
  /\ pc_eqb (decode_untransposed B l) (decode B l) = false.
Proof. exact decode_untransposed_square_refuted. Qed.
Print Assumptions C04_legacy_untransposed_square_refuted.

(* status 0 of the legacy checker: restored containers = decoded ones, sample() as c04_corr_case_x demands *)
Theorem C04_legacy_case_sound : forall B N c a impl,
  c04_legacy_case B N c (Some (Some a)) impl = 0%nat ->
  cfs_eqb (decode_cf B c) a = true
  /\ c04_corr_case_x N (cf_dd (decode_cf B c)) (cf_dr (decode_cf B c)) (cf_rd (decode_cf B c))
                     (cf_rr (decode_cf B c)) impl = 0%nat
  /\ lcf_wf B c = true.
Proof. exact legacy_case_sound. Qed.
Print Assumptions C04_legacy_case_sound.

Example C04_concrete_legacy :
  let c := {| l_dd := lg_example; l_dr := Some lg_example; l_rd := None; l_rr := None |} in
  let s := decode_cf 2 c in
  let exact_impl := Some (map (fun r => Some (fst (fst r))) (cfs_data s),
                          map (map (fun r => Some (fst (fst r)))) (cfs_samples 2 s)) in
  (* 6 pairs / (2 * 8) in bin 0 *)
  fst (nth 0 (pc_data_doc (decode 2 lg_example)) dq0) == 3 # 8
  /\ fst (nth 0 (pc_data_doc (decode_first_twice 2 lg_example)) dq0) == 3 # 2
  /\ c04_legacy_case 2 2 c (Some (Some s)) exact_impl = 0%nat
  /\ c04_legacy_case 2 2 c (Some (Some (decode_cf_with decode_first_twice 2 c))) exact_impl = 8%nat
  /\ c04_legacy_case 2 2 c (Some (Some (decode_cf_with decode_swapped 2 c))) exact_impl = 8%nat.
Proof. vm_compute. repeat split; reflexivity. Qed.
