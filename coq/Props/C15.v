(* C15 — configurations mean what their arguments say; modify equals create.
   Statements only; proofs are in Proofs/ConfigP.v.  Everything is over Q.  The cosmology enters
   through four oracle functions that are universally quantified here (Section Context in
   Model/Config.v): Dc cos z (comoving distance), Dci cos d (the redshift the root finder returns
   for a distance), Lg z (ln(1+z)), Ex x (e^x - 1).  Every property of the oracles that a
   statement needs is a premise written out in the statement.
   [create true], [modify true], [config_eq true] ... are the repaired model = the code of /repo
   after its fix commits (listed in Model/Config.v); [... false] is the model of the code of the
   pinned commit 462b5d4 (the _refuted and _current statements). *)
From Verif Require Import Prelude Config ConfigP.
Open Scope Q_scope.

(* ---- edges_len ---- *)
Theorem C15_edges_len : forall Dc Dci Lg Ex fx p c a b,
  create Dc Dci Lg Ex fx p = Ok c -> p_zmin p = Some a -> p_zmax p = Some b ->
  length (b_edges (c_binning c)) = S (default 30%nat (p_num_bins p)).
Proof. exact edges_len. Qed.
Print Assumptions C15_edges_len.

(* ---- edges_strict: whatever create returns has >= 2 strictly increasing edges ---- *)
Theorem C15_edges_strict : forall Dc Dci Lg Ex fx p c,
  create Dc Dci Lg Ex fx p = Ok c -> valid_edges (b_edges (c_binning c)) = true.
Proof. exact created_edges_strict. Qed.
Print Assumptions C15_edges_strict.

(* the factories themselves: the linear grid is strictly increasing, exactly *)
Theorem C15_linear_edges_strict : forall a b n,
  a < b -> (1 <= n)%nat -> strict_incb (linear_edges a b n) = true.
Proof. exact linear_edges_strict. Qed.
Print Assumptions C15_linear_edges_strict.

Theorem C15_linear_edges_progression : forall a b n i,
  (1 <= n)%nat -> (i <= n)%nat -> nth i (linear_edges a b n) 0 == a + qn i * ((b - a) / qn n).
Proof. exact linear_edges_nth. Qed.
Print Assumptions C15_linear_edges_progression.

(* comoving / logspace: strictly increasing when the distance function and its inverse are *)
Theorem C15_mapped_edges_strict : forall D Dinv a b n,
  strictly_increasing D -> strictly_increasing Dinv -> a < b -> (1 <= n)%nat ->
  strict_incb (mapped_edges D Dinv a b n) = true.
Proof. exact mapped_edges_strict. Qed.
Print Assumptions C15_mapped_edges_strict.

(* the repaired factory (end points assigned after the mapping): strictly increasing when the
   distance function and its inverse are and the mapped interior points lie inside (zmin, zmax) *)
Theorem C15_snapped_edges_strict : forall D Dinv a b n,
  strictly_increasing D -> strictly_increasing Dinv -> a < b -> (1 <= n)%nat ->
  interior_inside D Dinv a b n -> strict_incb (snapped_edges D Dinv a b n) = true.
Proof. exact snapped_edges_strict. Qed.
Print Assumptions C15_snapped_edges_strict.

(* valid arguments are not refused *)
Theorem C15_create_binning_accepts : forall Dc Dci Lg Ex cos a b n m cl,
  a < b -> (1 <= n)%nat -> cl <> ClUnknown ->
  match m with
  | MLinear => True
  | MComoving => strictly_increasing (Dc cos) /\ strictly_increasing (Dci cos) /\
                 interior_inside (Dc cos) (Dci cos) a b n
  | MLogspace => strictly_increasing Lg /\ strictly_increasing Ex /\ interior_inside Lg Ex a b n
  | _ => False
  end ->
  exists ed, gen_edges Dc Dci Lg Ex true cos m a b n = Some ed /\
             create_binning Dc Dci Lg Ex true cos (Some a) (Some b) (Some n) (Some m) None (Some cl)
             = Ok (mkBinning ed m cl).
Proof. exact create_binning_accepts. Qed.
Print Assumptions C15_create_binning_accepts.

(* ---- edges_span: exactly [zmin, zmax], every method, no premise on the oracles ---- *)
Theorem C15_edges_span : forall Dc Dci Lg Ex p c a b,
  create Dc Dci Lg Ex true p = Ok c -> p_zmin p = Some a -> p_zmax p = Some b ->
  hd 0 (b_edges (c_binning c)) = a /\ last (b_edges (c_binning c)) 0 = b.
Proof. exact edges_span. Qed.
Print Assumptions C15_edges_span.

Theorem C15_edges_span_linear : forall Dc Dci Lg Ex fx p c a b,
  create Dc Dci Lg Ex fx p = Ok c -> p_zmin p = Some a -> p_zmax p = Some b ->
  default MLinear (p_method p) = MLinear ->
  hd 0 (b_edges (c_binning c)) = a /\ last (b_edges (c_binning c)) 0 = b.
Proof. exact edges_span_linear. Qed.
Print Assumptions C15_edges_span_linear.

(* the code of the pinned commit maps the end points back like every other point; its edges
   span [zmin, zmax] only under
     edges_span_endpoint_hypothesis D Dinv a b  :=  Dinv (D a) == a /\ Dinv (D b) == b.
   The real z_at_value and exp(log(1+z))-1 violate it: finding F19. *)
Theorem C15_edges_span_current_comoving : forall Dc Dci Lg Ex p c a b,
  create Dc Dci Lg Ex false p = Ok c -> p_zmin p = Some a -> p_zmax p = Some b ->
  p_method p = Some MComoving ->
  edges_span_endpoint_hypothesis (Dc (c_cosmo c)) (Dci (c_cosmo c)) a b ->
  hd 0 (b_edges (c_binning c)) == a /\ last (b_edges (c_binning c)) 0 == b.
Proof. exact edges_span_current_comoving. Qed.
Print Assumptions C15_edges_span_current_comoving.

Theorem C15_edges_span_current_logspace : forall Dc Dci Lg Ex p c a b,
  create Dc Dci Lg Ex false p = Ok c -> p_zmin p = Some a -> p_zmax p = Some b ->
  p_method p = Some MLogspace ->
  edges_span_endpoint_hypothesis Lg Ex a b ->
  hd 0 (b_edges (c_binning c)) == a /\ last (b_edges (c_binning c)) 0 == b.
Proof. exact edges_span_current_logspace. Qed.
Print Assumptions C15_edges_span_current_logspace.

Theorem C15_edges_span_without_endpoint_hypothesis_refuted :
  exists D Dinv a b n,
    strictly_increasing D /\ strictly_increasing Dinv /\ a < b /\ (1 <= n)%nat /\
    ~ hd 0 (mapped_edges D Dinv a b n) == a.
Proof. exact edges_span_without_endpoint_hypothesis_refuted. Qed.
Print Assumptions C15_edges_span_without_endpoint_hypothesis_refuted.

(* ---- angle_def: r times the unit's factor over the unit's distance measure ---- *)
Theorem C15_angle_def : forall u pi180 DA DC r,
  ~ DA == 0 -> ~ DC == 0 -> angle u pi180 DA DC r == r * unit_factor u pi180 / unit_dist u DA DC.
Proof. exact angle_def. Qed.
Print Assumptions C15_angle_def.

Theorem C15_angle_units : forall pi180 DA DC r,
  ~ DA == 0 -> ~ DC == 0 ->
  angle Urad pi180 DA DC r == r /\
  angle Udeg pi180 DA DC r == r * pi180 /\
  angle Uarcmin pi180 DA DC r * 60 == r * pi180 /\
  angle Uarcsec pi180 DA DC r * 3600 == r * pi180 /\
  angle UMpc pi180 DA DC r * DA == r /\
  angle Ukpc pi180 DA DC r * DA * 1000 == r /\
  angle UMpc_h pi180 DA DC r * DC == r /\
  angle Ukpc_h pi180 DA DC r * DC * 1000 == r.
Proof. exact angle_units. Qed.
Print Assumptions C15_angle_units.

(* ---- invalid_rejected.  params_invalid p: unknown cosmology / unit / closed / method, some
   rmin >= rmax or lengths differ, neither edges nor zmin and zmax, custom edges not strictly
   increasing or fewer than two, zmin >= zmax, num_bins = 0 ---- *)
Theorem C15_invalid_rejected : forall Dc Dci Lg Ex p,
  params_invalid p = true -> create Dc Dci Lg Ex true p = Rejected.
Proof. exact invalid_rejected. Qed.
Print Assumptions C15_invalid_rejected.

(* pinned commit: zmin >= zmax is only seen through the mapped end points *)
Theorem C15_invalid_rejected_current : forall Dc Dci Lg Ex p,
  (forall cos, monotone (Dc cos)) -> (forall cos, monotone (Dci cos)) -> monotone Lg -> monotone Ex ->
  (forall id, p_cosmo p <> CosCustom id) ->
  params_invalid p = true -> create Dc Dci Lg Ex false p = Rejected.
Proof. exact invalid_rejected_current. Qed.
Print Assumptions C15_invalid_rejected_current.

(* ---- modify_is_create_merge: for every configuration and every set of modifications ---- *)
Theorem C15_modify_is_create_merge : forall Dc Dci Lg Ex c m,
  modify Dc Dci Lg Ex true c m = (p <- overlay c m ;; create Dc Dci Lg Ex true p).
Proof. exact modify_is_create_merge. Qed.
Print Assumptions C15_modify_is_create_merge.

(* ---- modify_pure.  Trivial in a functional model (modify is a function and returns a new
   value); stated on a store of objects: every address allocated before the call holds the
   same object after it ---- *)
Theorem C15_modify_pure : forall Dc Dci Lg Ex fx st r m i,
  (i < length st)%nat -> nth_error (fst (modify_st Dc Dci Lg Ex fx st r m)) i = nth_error st i.
Proof. exact modify_pure. Qed.
Print Assumptions C15_modify_pure.

(* ---- eq_refl_params ---- *)
Theorem C15_eq_refl_params : forall Dc Dci Lg Ex p c1 c2,
  create Dc Dci Lg Ex true p = Ok c1 -> create Dc Dci Lg Ex true p = Ok c2 -> config_eq true c1 c2 = Ok true.
Proof. exact eq_refl_params. Qed.
Print Assumptions C15_eq_refl_params.

Theorem C15_eq_decides : forall a b, config_eq true a b = Ok (config_eqb a b).
Proof. exact config_eq_decides. Qed.
Print Assumptions C15_eq_decides.

(* ---- from_dict (to_dict c) = c, custom edges and every generating method ---- *)
Theorem C15_roundtrip_id : forall Dc Dci Lg Ex p c,
  create Dc Dci Lg Ex true p = Ok c -> cosmo_named (c_cosmo c) = true ->
  roundtrip Dc Dci Lg Ex true c = Ok c.
Proof. exact roundtrip_id. Qed.
Print Assumptions C15_roundtrip_id.

(* ---- the code as it is: refuted by witnesses ---- *)
(* F15: an unrelated modification regenerates comoving edges with the default cosmology *)
Theorem C15_modify_current_drops_cosmology_refuted :
  exists t p m c c1 c2,
    create_t t false p = Ok c /\ modify_t t false c m = Ok c1 /\ modify_spec_t t c m = Ok c2 /\
    m_cosmo m = None /\ m_zmin m = None /\ m_zmax m = None /\ m_num_bins m = None /\
    m_method m = None /\ m_edges m = None /\
    c_cosmo c1 = c_cosmo c /\
    b_edges (c_binning c) = [1; 5 # 2; 3] /\
    b_edges (c_binning c2) = [1; 5 # 2; 3] /\
    b_edges (c_binning c1) = [1; 2; 3].
Proof. exact modify_current_drops_cosmology_refuted. Qed.
Print Assumptions C15_modify_current_drops_cosmology_refuted.

Theorem C15_modify_current_cosmology_name_refuted :
  exists t p m c c2,
    create_t t false p = Ok c /\ modify_t t false c m = Crashed AttrErr /\ modify_spec_t t c m = Ok c2 /\
    c_cosmo c2 = 1%nat /\ b_edges (c_binning c2) = [1; 5 # 2; 3].
Proof. exact modify_current_cosmology_name_refuted. Qed.
Print Assumptions C15_modify_current_cosmology_name_refuted.

(* F20 *)
Theorem C15_modify_current_closed_custom_edges_refuted :
  exists t p m c c2,
    create_t t false p = Ok c /\ modify_t t false c m = Crashed KeyErr /\ modify_spec_t t c m = Ok c2 /\
    b_edges (c_binning c2) = b_edges (c_binning c) /\ b_closed (c_binning c2) = ClLeft.
Proof. exact modify_current_closed_custom_edges_refuted. Qed.
Print Assumptions C15_modify_current_closed_custom_edges_refuted.

(* F14 *)
Theorem C15_eq_current_refuted :
  exists t p c, create_t t false p = Ok c /\ config_eq false c c = Crashed AttrErr.
Proof. exact eq_current_refuted. Qed.
Print Assumptions C15_eq_current_refuted.

Theorem C15_roundtrip_current_custom_edges_refuted :
  exists t p c, create_t t false p = Ok c /\ roundtrip_t t false c = Rejected /\ roundtrip_t t true c = Ok c.
Proof. exact roundtrip_current_custom_edges_refuted. Qed.
Print Assumptions C15_roundtrip_current_custom_edges_refuted.

Theorem C15_create_current_custom_cosmology_refuted :
  exists t p c, params_invalid p = false /\ create_t t false p = Crashed TypeErr /\ create_t t true p = Ok c.
Proof. exact create_current_custom_cosmology_refuted. Qed.
Print Assumptions C15_create_current_custom_cosmology_refuted.

(* ---- interpreter modes: the validations are raise statements, so the refusals the property demands and
   the clause "strictly increasing" hold with python -O / PYTHONOPTIMIZE as well (dbg = the value of
   __debug__); the model of the default interpreter is the model of the optimised one ---- *)
Theorem C15_create_mode_independent : forall Dc Dci Lg Ex dbg p,
  create_g Dc Dci Lg Ex all_raise dbg p = create Dc Dci Lg Ex true p.
Proof. exact create_g_all_raise. Qed.
Print Assumptions C15_create_mode_independent.

Theorem C15_validation_mode_independent : forall dbg,
  (forall e m cl, mk_binning_g all_raise dbg e m cl = mk_binning e m cl) /\
  (forall rmin rmax u rw res, create_scales_g all_raise dbg rmin rmax u rw res = create_scales rmin rmax u rw res).
Proof. intros dbg. split; intros; [apply mk_binning_g_all_raise | apply create_scales_g_all_raise]. Qed.
Print Assumptions C15_validation_mode_independent.

Theorem C15_invalid_rejected_any_mode : forall Dc Dci Lg Ex dbg p,
  params_invalid p = true -> create_g Dc Dci Lg Ex all_raise dbg p = Rejected.
Proof. exact invalid_rejected_any_mode. Qed.
Print Assumptions C15_invalid_rejected_any_mode.

Theorem C15_edges_strict_any_mode : forall Dc Dci Lg Ex dbg p c,
  create_g Dc Dci Lg Ex all_raise dbg p = Ok c -> valid_edges (b_edges (c_binning c)) = true.
Proof. exact created_edges_strict_any_mode. Qed.
Print Assumptions C15_edges_strict_any_mode.

(* a validation by assert / behind `if __debug__` cannot be told from a raise in the default interpreter ... *)
Theorem C15_assert_invisible_in_default_mode : forall Dc Dci Lg Ex g p,
  create_g Dc Dci Lg Ex g true p = create Dc Dci Lg Ex true p.
Proof. exact create_g_debug. Qed.
Print Assumptions C15_assert_invisible_in_default_mode.

(* ... and is lost with -O: non-increasing custom edges, zmin >= zmax, a single edge, rmin >= rmax are accepted *)
Theorem C15_assert_edges_inc_refuted :
  exists p c, params_invalid p = true /\
    create_g no_oracle no_oracle (fun x => x) (fun x => x) (mkGuards GRaise GAssert GRaise) false p = Ok c /\
    valid_edges (b_edges (c_binning c)) = false.
Proof. exact assert_edges_inc_refuted. Qed.
Print Assumptions C15_assert_edges_inc_refuted.

Theorem C15_assert_limits_refuted :
  exists p c, params_invalid p = true /\ p_zmin p = Some (3 # 4) /\ p_zmax p = Some (1 # 4) /\
    create_g no_oracle no_oracle (fun x => x) (fun x => x) (mkGuards GRaise GAssert GRaise) false p = Ok c /\
    valid_edges (b_edges (c_binning c)) = false.
Proof. exact assert_limits_refuted. Qed.
Print Assumptions C15_assert_limits_refuted.

Theorem C15_assert_edges_len_refuted :
  exists p c, params_invalid p = true /\
    create_g no_oracle no_oracle (fun x => x) (fun x => x) (mkGuards GAssert GRaise GRaise) false p = Ok c /\
    length (b_edges (c_binning c)) = 1%nat.
Proof. exact assert_edges_len_refuted. Qed.
Print Assumptions C15_assert_edges_len_refuted.

Theorem C15_assert_scales_refuted :
  exists p c, params_invalid p = true /\
    create_g no_oracle no_oracle (fun x => x) (fun x => x) (mkGuards GRaise GRaise GAssert) false p = Ok c /\
    scales_valid (s_rmin (c_scales c)) (s_rmax (c_scales c)) = false.
Proof. exact assert_scales_refuted. Qed.
Print Assumptions C15_assert_scales_refuted.

(* ---- python types of the values: the grid computed exactly is the grid of the parameters; computed in the
   precision of a narrower type of the limits (F26, repaired in 18c893e) it is another one although it still
   spans [zmin, zmax] ---- *)
Theorem C15_linear_edges_prec_exact : forall a b n, linear_edges_prec (fun x => x) a b n = linear_edges a b n.
Proof. exact linear_edges_prec_exact. Qed.
Print Assumptions C15_linear_edges_prec_exact.

Theorem C15_linear_edges_prec_refuted :
  exists rnd a b n, rnd a == a /\ rnd b == b /\ (1 <= n)%nat /\
    hd 0 (linear_edges_prec rnd a b n) = a /\ last (linear_edges_prec rnd a b n) 0 = b /\
    qlist_eqb (linear_edges_prec rnd a b n) (linear_edges a b n) = false.
Proof. exact linear_edges_prec_refuted. Qed.
Print Assumptions C15_linear_edges_prec_refuted.

(* non-vacuity: 4 linear bins on [1/4, 5/4], closed left, two scales in arcmin; then modify to
   2 bins and another unit: the result is create of the merged arguments, the angle of
   30 arcmin is 1/2 * pi180 *)
Example C15_concrete :
  let t := mkTables [] [] [] [] in
  let p := mkParams [1; 30] [2; 60] (Some Uarcmin) (Some (-1)) (Some 10%Z)
                    (Some (1 # 4)) (Some (5 # 4)) (Some 4%nat) None None (Some ClLeft) (CosName 0) None in
  let m := mkMods None None (Some Udeg) None None None None (Some 2%nat) None None None None None in
  match create_t t true p with
  | Ok c =>
      match modify_t t true c m with
      | Ok c' =>
          map Qred (b_edges (c_binning c)) = [1 # 4; 1 # 2; 3 # 4; 1; 5 # 4] /\
          map Qred (b_edges (c_binning c')) = [1 # 4; 3 # 4; 5 # 4] /\
          s_unit (c_scales c') = Udeg /\ b_closed (c_binning c') = ClLeft /\
          config_eq true c c' = Ok false /\ config_eq true c' c' = Ok true /\
          Qred (angle Uarcmin (1 # 57) 1 1 30) = 1 # 114
      | _ => False
      end
  | _ => False
  end.
Proof. vm_compute. repeat split. Qed.

(* ---------------- the list of scale ranges (Model/ScaleLists.v) ---------------- *)
From Verif Require ScaleLists ScaleListsP.
(* the configuration keeps the ranges as given: the i-th stored range is the i-th listed one, repeats included ... *)
Theorem C15_scale_list_kept : forall (l : list ScaleLists.range) (i : nat) (d : ScaleLists.range),
  nth i (ScaleLists.keep l) d = nth i l d /\ length (ScaleLists.keep l) = length l.
Proof. exact ScaleListsP.keep_spec. Qed.
Print Assumptions C15_scale_list_kept.
(* ... a sorted list without repeats (np.unique) is another list unless the ranges were given ascending and once *)
Theorem C15_scale_list_unique_sorted_refuted :
  (exists l i d, length (ScaleLists.unique_sorted l) = length l /\ nth i (ScaleLists.unique_sorted l) d <> nth i l d) /\
  (exists l, (length (ScaleLists.unique_sorted l) < length l)%nat).
Proof. exact ScaleListsP.unique_sorted_refuted. Qed.
Print Assumptions C15_scale_list_unique_sorted_refuted.
