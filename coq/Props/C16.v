(* C16 — random catalogs: exact size, footprint, joint attributes, reproducible by seed.
   Statements only; proofs are in Proofs/RandomsP.v (nat / Q, closed) and
   Proofs/RandomsRP.v (real numbers, the four standard axioms). *)
From Coq Require Import Reals.
From Verif Require Import Prelude Chunks Randoms RandomsP RandomsR RandomsRP.
Open Scope nat_scope.

(* exact size: the generator calls of one pass sum to n, each call 1..cs records *)
Theorem C16_random_sizes_sum : forall n cs, 1 <= cs ->
  nsum (random_sizes n cs) = n /\ Forall (fun k => 1 <= k <= cs) (random_sizes n cs).
Proof. exact random_sizes_sum. Qed.
Print Assumptions C16_random_sizes_sum.

Theorem C16_only_last_truncated : forall n cs pre k post, 1 <= cs ->
  random_sizes n cs = pre ++ k :: post -> post <> [] -> k = cs.
Proof. exact random_sizes_only_last_truncated. Qed.
Print Assumptions C16_only_last_truncated.

Theorem C16_pass_total :
  forall (seed sample : Type) (stream : seed -> nat -> sample) width n cs (st : @state seed),
  1 <= cs ->
  let out := outputs_of_last (run stream width [Pass n cs] st) in
  nsum (map ch_size out) = n /\ Forall (fun c => 1 <= ch_size c <= cs) out /\
  Forall (fun c => length (ch_vecs c) = width /\ Forall (fun v => length v = ch_size c) (ch_vecs c)) out.
Proof. exact @pass_total. Qed.
Print Assumptions C16_pass_total.

(* reproducible by seed: the outputs of a pass equal those of a fresh generator with the
   same seed after EVERY earlier history (probes, direct calls, reseeds, partial or complete
   passes, any number, any order), for every PRNG stream *)
Theorem C16_reseed_history_free :
  forall (seed sample : Type) (stream : seed -> nat -> sample) width (h : list (op seed)) n cs (s : seed),
  keeps_seed h ->
  outputs_of_last (run stream width (h ++ [Pass n cs]) (fresh s)) =
  outputs_of_last (run stream width [Pass n cs] (fresh s)).
Proof. exact @reseed_history_free. Qed.
Print Assumptions C16_reseed_history_free.

(* ... and when the history also changes the seed, only the seed in force matters *)
Theorem C16_reseed_history_free_gen :
  forall (seed sample : Type) (stream : seed -> nat -> sample) width (h : list (op seed)) n cs (st : @state seed),
  outputs_of_last (run stream width (h ++ [Pass n cs]) st) =
  outputs_of_last (run stream width [Pass n cs] (fresh (seed_after h (st_seed st)))).
Proof. exact @reseed_history_free_gen. Qed.
Print Assumptions C16_reseed_history_free_gen.

Theorem C16_probe_history_free :
  forall (seed sample : Type) (stream : seed -> nat -> sample) width (h : list (op seed)) k (st : @state seed),
  outputs_of_last (run stream width (h ++ [Probe k]) st) =
  outputs_of_last (run stream width [Probe k] (fresh (seed_after h (st_seed st)))).
Proof. exact @probe_history_free_gen. Qed.
Print Assumptions C16_probe_history_free.

(* the visible call sizes are those of the model trace; the last pass of from_random is random_sizes *)
Theorem C16_run_calls :
  forall (seed sample : Type) (stream : seed -> nat -> sample) width (ops : list (op seed)) (st : @state seed),
  map ch_size (concat (snd (run stream width ops st))) = calls (trace ops).
Proof. exact @run_calls. Qed.
Print Assumptions C16_run_calls.

Theorem C16_from_random_last_pass : forall (seed : Type) n cs probe,
  after_last_reseed (trace (@from_random_ops seed n cs probe)) [] = random_sizes n cs.
Proof. exact from_random_last_pass. Qed.
Print Assumptions C16_from_random_last_pass.

(* without the reseed at the start of a pass the statement is false *)
Theorem C16_noreseed_refuted :
  exists (h : list (op nat)) n cs s,
    outputs_of_last (run_noreseed (fun sd p => sd + p) 2 (h ++ [Pass n cs]) (fresh s)) <>
    outputs_of_last (run_noreseed (fun sd p => sd + p) 2 [Pass n cs] (fresh s)).
Proof. exact noreseed_refuted. Qed.
Print Assumptions C16_noreseed_refuted.

(* joint attributes: output pair i is (weights[j], redshifts[j]) for one and the same j *)
Theorem C16_joint_draw : forall weights redshifts idx i, i < length idx ->
  exists j, j = nth i idx 0 /\
    nth i (draw_attributes weights redshifts idx) (0%Q, 0%Q) = (nth j weights 0%Q, nth j redshifts 0%Q).
Proof. exact joint_draw. Qed.
Print Assumptions C16_joint_draw.

Theorem C16_joint_draw_rows : forall weights redshifts idx,
  length weights = length redshifts ->
  Forall (fun j => j < length weights) idx ->
  forall wz, In wz (draw_attributes weights redshifts idx) -> In wz (combine weights redshifts).
Proof. exact joint_draw_rows. Qed.
Print Assumptions C16_joint_draw_rows.

Theorem C16_indep_draw_refuted :
  exists weights redshifts idx1 idx2 wz,
    length weights = length redshifts /\
    Forall (fun j => j < length weights) idx1 /\ Forall (fun j => j < length weights) idx2 /\
    In wz (draw_attributes_indep weights redshifts idx1 idx2) /\
    ~ In wz (combine weights redshifts).
Proof. exact indep_draw_refuted. Qed.
Print Assumptions C16_indep_draw_refuted.

Theorem C16_joint_ok_sound : forall weights redshifts pairs,
  joint_ok weights redshifts pairs = true ->
  forall wz, In wz pairs ->
  exists j, j < length weights /\ j < length redshifts /\
            (fst wz == nth j weights 0)%Q /\ (snd wz == nth j redshifts 0)%Q.
Proof. exact joint_ok_sound. Qed.
Print Assumptions C16_joint_ok_sound.

(* attribute tables with ARBITRARY content (NaN, +-inf, duplicates, one row; any value type A:
   rationals, float64 values [fval], bit patterns [Z]): one index vector selects both columns *)
Theorem C16_joint_draw_any : forall (A : Type) (d : A) (ws zs : list A) idx i, i < length idx ->
  nth i (draw_attributes_g d ws zs idx) (d, d) = (nth (nth i idx 0) ws d, nth (nth i idx 0) zs d).
Proof. exact @joint_draw_g. Qed.
Print Assumptions C16_joint_draw_any.

Theorem C16_joint_draw_rows_any : forall (A : Type) (d : A) (ws zs : list A) idx,
  length ws = length zs ->
  Forall (fun j => j < length ws) idx ->
  forall wz, In wz (draw_attributes_g d ws zs idx) -> In wz (combine ws zs).
Proof. exact @joint_draw_rows_g. Qed.
Print Assumptions C16_joint_draw_rows_any.

(* the samples may be prepared before drawing in any way that keeps whole rows (pass-through,
   row selection, permutation, repetition): every drawn pair is a row of the SUPPLIED samples *)
Theorem C16_prepared_draw_rows : forall (A : Type) (d : A) (ws zs ws' zs' : list A) idx,
  length ws' = length zs' ->
  incl (combine ws' zs') (combine ws zs) ->
  Forall (fun j => j < length ws') idx ->
  forall wz, In wz (draw_attributes_g d ws' zs' idx) -> In wz (combine ws zs).
Proof. exact @prepared_draw_rows. Qed.
Print Assumptions C16_prepared_draw_rows.

Theorem C16_joint_filter_draw_rows : forall (A : Type) (d : A) (keep : A -> bool) (ws zs : list A) idx,
  let t := prepare_joint keep ws zs in
  Forall (fun j => j < length (fst t)) idx ->
  forall wz, In wz (draw_attributes_g d (fst t) (snd t) idx) -> In wz (combine ws zs).
Proof. exact @joint_filter_draw_rows. Qed.
Print Assumptions C16_joint_filter_draw_rows.

(* ... but not when the two columns are compacted separately (non-finite entries dropped per
   column): the lengths can still agree while a drawn pair is no row of the samples *)
Theorem C16_indep_filter_refuted :
  exists (ws zs : list fval) idx wz,
    length ws = length zs /\
    let t := prepare_indep fval_finite ws zs in
    length (fst t) = length (snd t) /\
    Forall (fun j => j < length (fst t)) idx /\
    In wz (draw_attributes_g FNaN (fst t) (snd t) idx) /\
    ~ In wz (combine ws zs) /\
    joint_ok_g (FFin 0) fval_eqb ws zs [wz] = false.
Proof. exact indep_filter_refuted. Qed.
Print Assumptions C16_indep_filter_refuted.

(* which rows are drawn does not depend on the table: the draw over any table is the index
   twin's output looked up in that table *)
Theorem C16_draw_via_twin : forall (A : Type) (d : A) (ws zs : list A) m idx,
  Forall (fun j => j < m) idx ->
  draw_attributes_g d ws zs idx = map (fun j => (nth j ws d, nth j zs d)) (map fst (twin_attributes m idx)).
Proof. exact @draw_via_twin. Qed.
Print Assumptions C16_draw_via_twin.

(* the row checker on float64 values (NaN = NaN, so rows holding NaN count) is sound and complete *)
Theorem C16_joint_ok_values_sound : forall ws zs pairs,
  joint_ok_g (FFin 0) fval_eqb ws zs pairs = true ->
  forall wz, In wz pairs ->
  exists j, j < length ws /\ j < length zs /\
            fval_same (fst wz) (nth j ws (FFin 0)) /\ fval_same (snd wz) (nth j zs (FFin 0)).
Proof.
  exact (joint_ok_g_sound (FFin 0) fval_eqb fval_same (fun a b => proj1 (fval_eqb_same a b))).
Qed.
Print Assumptions C16_joint_ok_values_sound.

Theorem C16_joint_ok_values_complete : forall ws zs idx,
  length ws = length zs -> Forall (fun j => j < length ws) idx ->
  joint_ok_g (FFin 0) fval_eqb ws zs (draw_attributes_g (FFin 0) ws zs idx) = true.
Proof. exact (joint_ok_g_complete (FFin 0) fval_eqb fval_eqb_refl). Qed.
Print Assumptions C16_joint_ok_values_complete.

Theorem C16_attr_case_zero :
  forall k nout m ra0 ra1 dec0 dec1 ras decs ws zs wbits zbits twin coords_same pairs pbits repro,
  c16_attr_case k nout m ra0 ra1 dec0 dec1 ras decs ws zs wbits zbits twin coords_same pairs pbits repro = 0 ->
  nout = k /\ length pairs = k /\
  (forall wz, In wz pairs ->
     exists j, j < length ws /\ j < length zs /\
               fval_same (fst wz) (nth j ws (FFin 0)) /\ fval_same (snd wz) (nth j zs (FFin 0))) /\
  repro = true.
Proof. exact c16_attr_case_zero. Qed.
Print Assumptions C16_attr_case_zero.

(* several generator objects alive at once (any number, constructed at any time, with any attribute
   sets and seeds, used in any interleaving): what object i produces, and the state it ends in, are
   those of the same object used alone on its own operations *)
Theorem C16_generators_independent :
  forall (seed sample : Type) (stream : seed -> nat -> sample) (sched : list (wop seed)) (w : list (gen seed)) i g,
  nth_error w i = Some g ->
  let r := run stream (g_width g) (project i sched) (g_state g) in
  @outputs_of sample i (snd (wrun stream sched w)) = snd r /\
  nth_error (fst (wrun stream sched w)) i = Some (mkGen (g_hasw g) (g_hasz g) (fst r)).
Proof. exact @world_independent. Qed.
Print Assumptions C16_generators_independent.

(* ... also for an object constructed in the middle, after any earlier use of the others *)
Theorem C16_new_generator_independent :
  forall (seed sample : Type) (stream : seed -> nat -> sample) (pre rest : list (wop seed)) (w : list (gen seed)) hw hz s,
  let w1 := fst (wrun stream pre w) in
  @outputs_of sample (length w1) (snd (wrun stream (WNew hw hz s :: rest) w1)) =
  snd (run stream (cfg_width hw hz) (project (length w1) rest) (fresh s)).
Proof. exact @world_new_independent. Qed.
Print Assumptions C16_new_generator_independent.

Theorem C16_schedule_app :
  forall (seed sample : Type) (stream : seed -> nat -> sample) (a b : list (wop seed)) (w : list (gen seed)),
  @wrun seed sample stream (a ++ b) w =
  let '(w1, o1) := wrun stream a w in let '(w2, o2) := wrun stream b w1 in (w2, o1 ++ o2).
Proof. exact @wrun_app. Qed.
Print Assumptions C16_schedule_app.

(* every chunk of object i has the index vector (weights / redshifts attached) iff object i itself
   was given weights or redshifts *)
Theorem C16_generator_keeps_attributes :
  forall (seed sample : Type) (stream : seed -> nat -> sample) (sched : list (wop seed)) (w : list (gen seed)) i g,
  nth_error w i = Some g ->
  Forall (Forall (fun c : @chunk sample => length (ch_vecs c) = cfg_width (g_hasw g) (g_hasz g)))
         (outputs_of i (snd (wrun stream sched w))).
Proof. exact @world_chunk_width. Qed.
Print Assumptions C16_generator_keeps_attributes.

(* with one set of attribute flags shared by all objects the statement is false *)
Theorem C16_shared_flags_refuted :
  exists (rest : list (wop nat)) hw hz s,
    outputs_of 0 (snd (wrun_shared (fun sd p => sd + p) (WNew hw hz s :: rest) (false, false) [])) <>
    snd (run (fun sd p => sd + p) (cfg_width hw hz) (project 0 rest) (fresh s)).
Proof. exact shared_flags_refuted. Qed.
Print Assumptions C16_shared_flags_refuted.

Theorem C16_multi_gen_zero :
  forall hw hz obs evs evs_solo ra0 ra1 dec0 dec1 ras decs weights redshifts pairs,
  c16_multi_gen hw hz obs evs evs_solo ra0 ra1 dec0 dec1 ras decs weights redshifts pairs = 0 ->
  Forall (fun o => mo_n o = op_total (mo_ops o) /\ mo_same o = true /\
                   (op_total (mo_ops o) <> 0 -> mo_w o = hw /\ mo_z o = hz)) obs /\
  (forall wz, In wz pairs ->
     exists j, j < length weights /\ j < length redshifts /\
               (fst wz == nth j weights 0)%Q /\ (snd wz == nth j redshifts 0)%Q).
Proof. exact c16_multi_gen_zero. Qed.
Print Assumptions C16_multi_gen_zero.

(* ---------- the ambient state of the process: observers ---------- *)
(* Log levels and handlers, progress indicators, warnings filters, environment variables decide whether
   OBSERVERS run inside a pass (code that shows something: a message, a preview, a progress line).
   With the observers switched off a pass is the pass of the generator ... *)
Theorem C16_pass_observers_off :
  forall (seed sample : Type) (stream : seed -> nat -> sample) width (h : hooks) n cs (st : @state seed),
  pass_obs stream width false h n cs st = step stream width (Pass n cs) st.
Proof. exact @pass_obs_off. Qed.
Print Assumptions C16_pass_observers_off.

(* ... and so it is with any number of observers that look at a copy of the generator or restore what they
   touched, at the start of the pass and between its chunks: the records are a function of the seed in
   force only, whatever the ambient state switches on *)
Theorem C16_pass_ambient_free :
  forall (seed sample : Type) (stream : seed -> nat -> sample) width (h : hooks) n cs (st : @state seed),
  forallb transparent (h_start h) = true -> forallb transparent (h_each h) = true ->
  pass_obs stream width true h n cs st = pass_obs stream width false h n cs st.
Proof. exact @pass_obs_ambient_free. Qed.
Print Assumptions C16_pass_ambient_free.

(* ANY observers at the start of a pass (previews on the live generator, probes) are harmless when the
   generator is re-seeded after them *)
Theorem C16_observers_then_reseed_harmless :
  forall (seed sample : Type) (stream : seed -> nat -> sample) width (os each : list obs) n cs (st : @state seed),
  pass_obs stream width true (mkHooks (os ++ [ORewind]) each) n cs st =
  pass_obs stream width true (mkHooks [] each) n cs st.
Proof. exact @start_rewind_harmless. Qed.
Print Assumptions C16_observers_then_reseed_harmless.

(* a pass is independent of an observer (an arbitrary function on the generator state, run between the
   re-seed and the first chunk) IF AND ONLY IF the observer hands back the state of the re-seed *)
Theorem C16_observer_free_iff :
  forall (seed sample : Type) (stream : seed -> nat -> sample) width,
  1 <= width -> stream_injective stream ->
  forall f : @state seed -> @state seed,
  (forall n cs st, pass_with stream width f n cs st = snd (step stream width (Pass n cs) st)) <->
  (forall s, f (fresh s) = fresh s).
Proof. exact @observer_free_iff. Qed.
Print Assumptions C16_observer_free_iff.

(* for the observers of the model: iff the observer does not advance the stream *)
Theorem C16_start_observer_free_iff :
  forall (seed sample : Type) (stream : seed -> nat -> sample) width (s0 : seed),
  1 <= width -> stream_injective stream ->
  forall o,
  (forall n cs (st : @state seed),
     snd (pass_obs stream width true (mkHooks [o] []) n cs st) = snd (pass_obs stream width false (mkHooks [o] []) n cs st)) <->
  advance o = 0.
Proof. exact @start_observer_free_iff. Qed.
Print Assumptions C16_start_observer_free_iff.

(* the sizes of the chunks never show an observer: "exactly n records" holds with every hook *)
Theorem C16_pass_obs_sizes :
  forall (seed sample : Type) (stream : seed -> nat -> sample) width on (h : hooks) n cs (st : @state seed),
  map ch_size (snd (pass_obs stream width on h n cs st)) = random_sizes n cs.
Proof. exact @pass_obs_sizes. Qed.
Print Assumptions C16_pass_obs_sizes.

(* the tie of the harness is sound: when the calls after the last reseed of the event log of a pass are the
   sizes of the pass, the observers left the state of the re-seed behind *)
Theorem C16_ambient_tie_sound :
  forall (seed sample : Type) (stream : seed -> nat -> sample) width (os : list obs) n cs,
  after_last_reseed (pass_obs_events os n cs) [] = random_sizes n cs ->
  forall st : @state seed, pass_obs stream width true (mkHooks os []) n cs st = step stream width (Pass n cs) st.
Proof. exact @tie_sound. Qed.
Print Assumptions C16_ambient_tie_sound.

(* an observer that draws its preview through get_probe (re-seeds, leaves the stream advanced) changes the
   records while every size stays what it was; so does a live preview; between the chunks even a re-seed does *)
Theorem C16_advancing_observer_refuted :
  exists k n cs s,
    let h := mkHooks [OProbe k] [] in
    let stream := fun sd p : nat => sd + p in
    snd (pass_obs stream 2 true h n cs (fresh s)) <> snd (pass_obs stream 2 false h n cs (fresh s)) /\
    map ch_size (snd (pass_obs stream 2 true h n cs (fresh s))) =
    map ch_size (snd (pass_obs stream 2 false h n cs (fresh s))).
Proof. exact advancing_observer_refuted. Qed.
Print Assumptions C16_advancing_observer_refuted.

Theorem C16_preview_observer_refuted :
  exists k n cs s,
    let h := mkHooks [OPreview k] [] in
    let stream := fun sd p : nat => sd + p in
    snd (pass_obs stream 2 true h n cs (fresh s)) <> snd (pass_obs stream 2 false h n cs (fresh s)).
Proof. exact preview_observer_refuted. Qed.
Print Assumptions C16_preview_observer_refuted.

Theorem C16_rewinding_each_observer_refuted :
  exists n cs s,
    let h := mkHooks [] [ORewind] in
    let stream := fun sd p : nat => sd + p in
    snd (pass_obs stream 2 true h n cs (fresh s)) <> snd (pass_obs stream 2 false h n cs (fresh s)).
Proof. exact rewinding_each_observer_refuted. Qed.
Print Assumptions C16_rewinding_each_observer_refuted.

Theorem C16_ambient_case_zero :
  forall r evs nout ra0 ra1 dec0 dec1 ras decs weights redshifts pairs ref_ras ref_decs ref_pairs bits_same same_neutral,
  c16_ambient_case r evs nout ra0 ra1 dec0 dec1 ras decs weights redshifts pairs
                   ref_ras ref_decs ref_pairs bits_same same_neutral = 0 ->
  after_last_reseed evs [] = aroute_sizes r /\
  nout = aroute_total r /\ length ras = aroute_total r /\
  Forall2 Qeq ras ref_ras /\ Forall2 Qeq decs ref_decs /\
  bits_same = true /\ same_neutral = true /\
  (forall wz, In wz pairs ->
     exists j, j < length weights /\ j < length redshifts /\
               (fst wz == nth j weights 0)%Q /\ (snd wz == nth j redshifts 0)%Q).
Proof. exact c16_ambient_case_zero. Qed.
Print Assumptions C16_ambient_case_zero.

(* footprint (real numbers) *)
Open Scope R_scope.
Theorem C16_window_ra : forall ra0 ra1 u, ra0 <= ra1 -> 0 <= u <= 1 -> ra0 <= ra_of ra0 ra1 u <= ra1.
Proof. exact window_ra. Qed.
Print Assumptions C16_window_ra.

Theorem C16_window : forall d0 d1 y,
  - (PI / 2) <= d0 -> d0 <= d1 -> d1 <= PI / 2 ->
  sin d0 <= y <= sin d1 -> d0 <= asin y <= d1.
Proof. exact window_asin. Qed.
Print Assumptions C16_window.

Theorem C16_window_dec : forall d0 d1 v,
  - (PI / 2) <= d0 -> d0 <= d1 -> d1 <= PI / 2 -> 0 <= v <= 1 ->
  d0 <= dec_of d0 d1 v <= d1.
Proof. exact window_dec. Qed.
Print Assumptions C16_window_dec.

(* uniform in area *)
Theorem C16_equal_area_sin_asin : forall y, -1 <= y <= 1 -> sin (asin y) = y.
Proof. exact equal_area_sin_asin. Qed.
Print Assumptions C16_equal_area_sin_asin.

Theorem C16_equal_area : forall y (H : -1 < y < 1),
  cos (asin y) * derive_pt asin y (derivable_pt_asin y H) = 1.
Proof. exact equal_area. Qed.
Print Assumptions C16_equal_area.

Theorem C16_equal_area_fraction : forall ra0 ra1 d0 d1 a v,
  ra0 < ra1 ->
  - (PI / 2) <= d0 -> d0 <= d1 -> d1 <= PI / 2 -> d0 <= a <= d1 -> 0 <= v <= 1 ->
  (dec_of d0 d1 v <= a <-> v * window_area ra0 ra1 d0 d1 <= window_area ra0 ra1 d0 a).
Proof. exact equal_area_fraction. Qed.
Print Assumptions C16_equal_area_fraction.

Theorem C16_flat_dec_refuted :
  exists d0 d1 a v,
    - (PI / 2) <= d0 /\ d0 <= d1 /\ d1 <= PI / 2 /\ d0 <= a <= d1 /\ 0 <= v <= 1 /\
    ~ (dec_flat d0 d1 v <= a <-> v * (sin d1 - sin d0) <= sin a - sin d0).
Proof. exact flat_dec_refuted. Qed.
Print Assumptions C16_flat_dec_refuted.
Close Scope R_scope.

(* non-vacuity: a generator over the stream (seed + position), 3 vectors per call; after a
   probe, a direct call and a partial pass, a pass of 7 records in chunks of 3 produces the
   sizes 3,3,1 and the same chunks as a fresh generator; the first chunk is positions
   0..2 (x), 3..5 (y), 6..8 (index) of the stream of seed 100 *)
Example C16_concrete :
  let stream := fun sd p : nat => sd + p in
  let h := [Probe 4; Draw 2; Reseed; Draw 3; Draw 3] in
  let out := outputs_of_last (run stream 3 (h ++ [Pass 7 3]) (fresh 100)) in
  map ch_size out = [3; 3; 1] /\
  out = outputs_of_last (run stream 3 [Pass 7 3] (fresh 100)) /\
  nth 0 (map ch_vecs out) [] = [[100; 101; 102]; [103; 104; 105]; [106; 107; 108]] /\
  draw_attributes [1%Q; 2%Q; 3%Q] [(1#8)%Q; (2#8)%Q; (3#8)%Q] [2; 0; 2]
    = [(3%Q, (3#8)%Q); (1%Q, (1#8)%Q); (3%Q, (3#8)%Q)].
Proof. vm_compute. repeat split; reflexivity. Qed.

(* non-vacuity of the arbitrary-content part: a table with a NaN weight on row 0 and a NaN redshift
   on row 2; drawn jointly, the rows holding NaN come out as rows and pass the value checker;
   with one mask for both columns only row 1 is left; with one mask per column the lengths still
   agree (2 = 2) and index 0 gives (2, 1/8), which is no row and fails the checker *)
Example C16_concrete_nonfinite :
  let ws := [FNaN; FFin 2; FFin 3] in
  let zs := [FFin (1#8); FFin (2#8); FNaN] in
  draw_attributes_g (FFin 0) ws zs [0; 2; 1] = [(FNaN, FFin (1#8)); (FFin 3, FNaN); (FFin 2, FFin (2#8))] /\
  joint_ok_g (FFin 0) fval_eqb ws zs (draw_attributes_g (FFin 0) ws zs [0; 2; 1; 0]) = true /\
  prepare_joint fval_finite ws zs = ([FFin 2], [FFin (2#8)]) /\
  prepare_indep fval_finite ws zs = ([FFin 2; FFin 3], [FFin (1#8); FFin (2#8)]) /\
  draw_attributes_g (FFin 0) [FFin 2; FFin 3] [FFin (1#8); FFin (2#8)] [0] = [(FFin 2, FFin (1#8))] /\
  joint_ok_g (FFin 0) fval_eqb ws zs [(FFin 2, FFin (1#8))] = false /\
  twin_attributes 3 [0; 2; 1] = [(0, 0); (2, 2); (1, 1)].
Proof. vm_compute. repeat split; reflexivity. Qed.

(* non-vacuity of the several-objects part: three objects (both attributes / none / weights only), the
   third constructed after the first was used; each produces what it produces alone (object 2 has the
   seed of object 0 and starts at position 0 of that stream); with shared flags object 0 differs *)
Example C16_concrete_multi :
  let stream := fun sd p : nat => sd + p in
  let sched := [WNew true true 100; WNew false false 7; WOp 0 (Draw 2); WNew true false 100;
                WOp 1 (Probe 1); WOp 2 (Draw 2); WOp 0 Reseed; WOp 0 (Pass 3 2); WOp 1 (Draw 1)] in
  let r := wrun stream sched [] in
  project 0 sched = [Draw 2; Reseed; Pass 3 2] /\
  outputs_of 0 (snd r) = snd (run stream 3 [Draw 2; Reseed; Pass 3 2] (fresh 100)) /\
  outputs_of 1 (snd r) = [[mkChunk 1 [[7]; [8]]]; [mkChunk 1 [[9]; [10]]]] /\
  outputs_of 2 (snd r) = [[mkChunk 2 [[100; 101]; [102; 103]; [104; 105]]]] /\
  outputs_of 0 (snd (wrun_shared stream sched (false, false) [])) <> outputs_of 0 (snd r).
Proof. vm_compute. repeat split; try reflexivity. discriminate. Qed.

(* non-vacuity of the observer part: stream (seed + position), 2 vectors per call, a pass of 5 records in chunks
   of 2 from seed 7.  A silent observer and one that peeks at a copy, at the start and between the chunks:
   the pass of the generator.  A preview through get_probe(3) at the start: the first chunk starts at
   position 6 of the stream instead of 0 - other records, same sizes - and the event log shows the calls
   3,2,2,1 after the last reseed instead of 2,2,1; followed by a re-seed it is harmless again *)
Example C16_concrete_observers :
  let stream := fun sd p : nat => sd + p in
  let off := pass_obs stream 2 false (mkHooks [] []) 5 2 (fresh 7) in
  snd off = [mkChunk 2 [[7; 8]; [9; 10]]; mkChunk 2 [[11; 12]; [13; 14]]; mkChunk 1 [[15]; [16]]] /\
  pass_obs stream 2 true (mkHooks [OSilent; OPeek 3] [OPeek 1; OSilent]) 5 2 (fresh 7) = off /\
  snd (pass_obs stream 2 true (mkHooks [OProbe 3] []) 5 2 (fresh 7))
    = [mkChunk 2 [[13; 14]; [15; 16]]; mkChunk 2 [[17; 18]; [19; 20]]; mkChunk 1 [[21]; [22]]] /\
  after_last_reseed (pass_obs_events [OProbe 3] 5 2) [] = [3; 2; 2; 1] /\
  after_last_reseed (pass_obs_events [OProbe 3; ORewind] 5 2) [] = random_sizes 5 2 /\
  pass_obs stream 2 true (mkHooks [OProbe 3; ORewind] []) 5 2 (fresh 7) = off /\
  c16_ambient_case (APass 5 2) [EReseed; EReseed; ECall 2; ECall 2; ECall 1] 5 0%Q 1%Q 0%Q 1%Q
                   [0%Q; 1%Q; 0%Q; 1%Q; 0%Q] [1%Q; 1%Q; 0%Q; 0%Q; 1%Q] [] [] []
                   [0%Q; 1%Q; 0%Q; 1%Q; 0%Q] [1%Q; 1%Q; 0%Q; 0%Q; 1%Q] [] true true = 0 /\
  c16_ambient_case (APass 5 2) [EReseed; EReseed; EReseed; ECall 3; ECall 2; ECall 2; ECall 1] 5 0%Q 1%Q 0%Q 1%Q
                   [1%Q; 1%Q; 0%Q; 1%Q; 0%Q] [1%Q; 1%Q; 0%Q; 0%Q; 1%Q] [] [] []
                   [0%Q; 1%Q; 0%Q; 1%Q; 0%Q] [1%Q; 1%Q; 0%Q; 0%Q; 1%Q] [] false false = 49.
Proof. vm_compute. repeat split; reflexivity. Qed.

(* ---------------- single decisions whose variants were seeded (Model/SmallVariants.v) ---------------- *)
From Verif Require SmallVariants SmallVariantsP.
(* an explicit seed is taken whatever its value is; `seed or own` ignores the seed 0 *)
Theorem C16_reseed_takes_every_seed : forall own s : nat, SmallVariants.reseed own (Some s) = s.
Proof. exact SmallVariantsP.reseed_takes_every_seed. Qed.
Print Assumptions C16_reseed_takes_every_seed.
Theorem C16_reseed_or_refuted : exists own : nat, SmallVariants.reseed_or own (Some 0%nat) <> SmallVariants.reseed own (Some 0%nat).
Proof. exact SmallVariantsP.reseed_or_refuted. Qed.
Print Assumptions C16_reseed_or_refuted.
