(* C12 — patch metadata describe the patch, and patch i belongs to centre i. *)
From Coq Require Import Permutation.
From Verif Require Import Prelude Metadata MetadataP.
Open Scope Q_scope.

Theorem C12_meta_counts : forall dists ws,
  num_records (compute dists ws) = length dists /\
  sum_weights (compute dists ws) == match ws with None => inject_Z (Z.of_nat (length dists)) | Some w => qsum w end.
Proof. exact meta_counts. Qed.
Print Assumptions C12_meta_counts.

Theorem C12_radius_covers : forall dists ws d, In d dists -> d <= radius (compute dists ws).
Proof. exact radius_covers. Qed.
Print Assumptions C12_radius_covers.

Theorem C12_radius_attained : forall dists ws, dists <> [] -> In (radius (compute dists ws)) dists.
Proof. exact radius_attained. Qed.
Print Assumptions C12_radius_attained.

Theorem C12_centres_in_order : forall (C : Type) (ids : list nat) (centres : list C) prs (d : C),
  pair_centres_fix ids centres = Some prs ->
  map fst prs = seq 0 (length centres) /\
  forall i, (i < length centres)%nat -> nth i (map snd prs) d = nth i centres d.
Proof. exact @centres_in_order. Qed.
Print Assumptions C12_centres_in_order.

Theorem C12_zip_misaligned_refuted :
  exists (ids : list nat) (centres : list nat),
    pair_centres_cur ids centres = [(0%nat, 0%nat); (2%nat, 1%nat)] /\ pair_centres_fix ids centres = None.
Proof. exact zip_misaligned_refuted. Qed.
Print Assumptions C12_zip_misaligned_refuted.

Theorem C12_guard_refuses : forall ids1 ids2 dists radii rtol,
  guard ids1 ids2 dists radii rtol = true ->
  ids1 = ids2 /\ forall dr, In dr (combine dists radii) -> fst dr <= rtol * snd dr.
Proof. exact guard_refuses. Qed.
Print Assumptions C12_guard_refuses.

Theorem C12_guard_refuses_beyond_radius : forall ids1 ids2 dists radii rtol d r,
  0 <= rtol -> rtol <= 1 -> 0 <= r -> In (d, r) (combine dists radii) -> r < d ->
  guard ids1 ids2 dists radii rtol = false.
Proof. exact guard_refuses_beyond_radius. Qed.
Print Assumptions C12_guard_refuses_beyond_radius.

Theorem C12_option_precedence :
  (forall name num, determine true name num = Some Apply) /\
  (forall num, determine false true num = Some Divide) /\
  determine false false true = Some Create /\
  determine false false false = None.
Proof. exact determine_precedence. Qed.
Print Assumptions C12_option_precedence.

Theorem C12_nearest_is_minimal : forall row j, (j < length row)%nat -> nth (argmin row) row 0 <= nth j row 0.
Proof. exact argmin_min. Qed.
Print Assumptions C12_nearest_is_minimal.

Theorem C12_strictly_nearest_is_assigned : forall row k,
  (k < length row)%nat -> (forall j, (j < length row)%nat -> j <> k -> nth k row 0 < nth j row 0) -> argmin row = k.
Proof. exact argmin_unique. Qed.
Print Assumptions C12_strictly_nearest_is_assigned.

Theorem C12_given_centres_partition : forall (R : Type) (f : R -> nat) (chunks : list (chunk R)) p,
  patch_data (Some f) chunks p = Some (filter (fun r => (f r =? p)%nat) (concat (map recs chunks))).
Proof. exact @apply_partition. Qed.
Print Assumptions C12_given_centres_partition.

Theorem C12_given_centres_ignore_column : forall (R : Type) (f : R -> nat) (chunks chunks' : list (chunk R)) p,
  map recs chunks = map recs chunks' -> patch_data (Some f) chunks p = patch_data (Some f) chunks' p.
Proof. exact @apply_ignores_column. Qed.
Print Assumptions C12_given_centres_ignore_column.

Theorem C12_given_centres_any_chunking : forall (R : Type) (f : R -> nat) (chunks chunks' : list (chunk R)) p,
  concat (map recs chunks) = concat (map recs chunks') -> patch_data (Some f) chunks p = patch_data (Some f) chunks' p.
Proof. exact @apply_any_chunking. Qed.
Print Assumptions C12_given_centres_any_chunking.

Theorem C12_given_centres_any_arrival_order : forall (R : Type) (f : R -> nat) (chunks arrived : list (chunk R)) p l r,
  Permutation arrived chunks -> patch_data (Some f) arrived p = Some l ->
  (In r l <-> In r (concat (map recs chunks)) /\ f r = p).
Proof. exact @apply_belongs_any_order. Qed.
Print Assumptions C12_given_centres_any_arrival_order.

Theorem C12_centres_reproduce_partition : forall (chunks arrived : list (chunk (list Q))) p l row,
  Permutation arrived chunks -> (forall ch r, In ch chunks -> In r (recs ch) -> r <> []) ->
  patch_data (Some argmin) arrived p = Some l -> In row l -> own_centre_nearest row p = true.
Proof. exact apply_reproduces_partition. Qed.
Print Assumptions C12_centres_reproduce_partition.

Theorem C12_column_first_refuted :
  exists (ch : chunk (list Q)) (row : list Q),
    patch_data_colfirst (Some argmin) [ch] 0 = Some [row] /\ own_centre_nearest row 0 = false /\
    patch_data (Some argmin) [ch] 0 = Some [] /\ patch_data (Some argmin) [ch] 1 = Some [row].
Proof. exact column_first_refuted. Qed.
Print Assumptions C12_column_first_refuted.

Example C12_concrete :
  radius (compute [1#2; 3#4; 1#4] None) = 3#4 /\ guard [0;1]%nat [0;1]%nat [1#10; 3#4] [1; 1] (1#2) = false /\
  patch_data (Some argmin) [ {| recs := [[1#4; 3#4]; [3#4; 1#4]]; col := Some [1; 0]%nat |};
                             {| recs := [[1#8; 1#2]]; col := Some [1]%nat |} ] 0 = Some [[1#4; 3#4]; [1#8; 1#2]] /\
  c12_split_case true true false [[1#4; 3#4]; [3#4; 1#4]] (Some [1; 0]%nat) [1; 0]%nat = 3%nat.
Proof. vm_compute. repeat split; reflexivity. Qed.
