(* C12 — patch metadata describe the patch, and patch i belongs to centre i. *)
From Verif Require Import Prelude Metadata MetadataP.
Open Scope Q_scope.

Theorem C12_meta_counts : forall dists ws,
  num_records (compute dists ws) = length dists /\
  sum_weights (compute dists ws) == match ws with None => inject_Z (Z.of_nat (length dists)) | Some w => qsum w end.
Proof. exact meta_counts. Qed.
Print Assumptions C12_meta_counts.

Theorem C12_radius_covers : forall dists ws d, In d dists -> d <= radius (compute dists ws).
Proof. exact radius_covers. Qed.
Print Assumptions C12_radius_covers.

Theorem C12_radius_attained : forall dists ws, dists <> [] -> In (radius (compute dists ws)) dists.
Proof. exact radius_attained. Qed.
Print Assumptions C12_radius_attained.

Theorem C12_centres_in_order : forall (C : Type) (ids : list nat) (centres : list C) prs (d : C),
  pair_centres_fix ids centres = Some prs ->
  map fst prs = seq 0 (length centres) /\
  forall i, (i < length centres)%nat -> nth i (map snd prs) d = nth i centres d.
Proof. exact @centres_in_order. Qed.
Print Assumptions C12_centres_in_order.

Theorem C12_zip_misaligned_refuted :
  exists (ids : list nat) (centres : list nat),
    pair_centres_cur ids centres = [(0%nat, 0%nat); (2%nat, 1%nat)] /\ pair_centres_fix ids centres = None.
Proof. exact zip_misaligned_refuted. Qed.
Print Assumptions C12_zip_misaligned_refuted.

Theorem C12_guard_refuses : forall ids1 ids2 dists radii rtol,
  guard ids1 ids2 dists radii rtol = true ->
  ids1 = ids2 /\ forall dr, In dr (combine dists radii) -> fst dr <= rtol * snd dr.
Proof. exact guard_refuses. Qed.
Print Assumptions C12_guard_refuses.

Theorem C12_guard_refuses_beyond_radius : forall ids1 ids2 dists radii rtol d r,
  0 <= rtol -> rtol <= 1 -> 0 <= r -> In (d, r) (combine dists radii) -> r < d ->
  guard ids1 ids2 dists radii rtol = false.
Proof. exact guard_refuses_beyond_radius. Qed.
Print Assumptions C12_guard_refuses_beyond_radius.

Example C12_concrete :
  radius (compute [1#2; 3#4; 1#4] None) = 3#4 /\ guard [0;1]%nat [0;1]%nat [1#10; 3#4] [1; 1] (1#2) = false.
Proof. vm_compute. split; reflexivity. Qed.
