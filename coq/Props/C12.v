(* C12 — patch metadata describe the patch, and patch i belongs to centre i. *)
From Coq Require Import Permutation.
From Verif Require Import Prelude Metadata MetadataP Alias AliasP.
Open Scope Q_scope.

Theorem C12_meta_counts : forall dists ws,
  num_records (compute dists ws) = length dists /\
  sum_weights (compute dists ws) == match ws with None => inject_Z (Z.of_nat (length dists)) | Some w => qsum w end.
Proof. exact meta_counts. Qed.
Print Assumptions C12_meta_counts.

Theorem C12_radius_covers : forall dists ws d, In d dists -> d <= radius (compute dists ws).
Proof. exact radius_covers. Qed.
Print Assumptions C12_radius_covers.

Theorem C12_radius_attained : forall dists ws, dists <> [] -> In (radius (compute dists ws)) dists.
Proof. exact radius_attained. Qed.
Print Assumptions C12_radius_attained.

Theorem C12_centres_in_order : forall (C : Type) (ids : list nat) (centres : list C) prs (d : C),
  pair_centres_fix ids centres = Some prs ->
  map fst prs = seq 0 (length centres) /\
  forall i, (i < length centres)%nat -> nth i (map snd prs) d = nth i centres d.
Proof. exact @centres_in_order. Qed.
Print Assumptions C12_centres_in_order.

Theorem C12_zip_misaligned_refuted :
  exists (ids : list nat) (centres : list nat),
    pair_centres_cur ids centres = [(0%nat, 0%nat); (2%nat, 1%nat)] /\ pair_centres_fix ids centres = None.
Proof. exact zip_misaligned_refuted. Qed.
Print Assumptions C12_zip_misaligned_refuted.

Theorem C12_guard_refuses : forall ids1 ids2 dists radii rtol,
  guard ids1 ids2 dists radii rtol = true ->
  ids1 = ids2 /\ forall dr, In dr (combine dists radii) -> fst dr <= rtol * snd dr.
Proof. exact guard_refuses. Qed.
Print Assumptions C12_guard_refuses.

Theorem C12_guard_refuses_beyond_radius : forall ids1 ids2 dists radii rtol d r,
  0 <= rtol -> rtol <= 1 -> 0 <= r -> In (d, r) (combine dists radii) -> r < d ->
  guard ids1 ids2 dists radii rtol = false.
Proof. exact guard_refuses_beyond_radius. Qed.
Print Assumptions C12_guard_refuses_beyond_radius.

(* ---- measurements with any number of catalogs (autocorrelate: 2, crosscorrelate: 3 or 4) ---- *)
Theorem C12_guard_many_refuses : forall key cats dt rtol,
  cats <> [] -> guard_many_by key cats dt rtol = true ->
  (forall j, (j < length cats)%nat -> g_ids (gnth cats j) = g_ids (gnth cats 0)) /\
  exists ref, (ref < length cats)%nat /\
    (forall j, (j < length cats)%nat -> lex_ltb (key (gnth cats ref)) (key (gnth cats j)) = false) /\
    (forall j, (j < ref)%nat -> lex_ltb (key (gnth cats j)) (key (gnth cats ref)) = true) /\
    forall j, (j < length cats)%nat -> j <> ref ->
      forall dr, In dr (combine (tab dt ref j) (g_radii (gnth cats ref))) -> fst dr <= rtol * snd dr.
Proof. exact guard_many_refuses. Qed.
Print Assumptions C12_guard_many_refuses.

Theorem C12_guard_many_within_radius : forall key cats dt rtol,
  cats <> [] -> 0 <= rtol -> rtol <= 1 ->
  (forall c r, In c cats -> In r (g_radii c) -> 0 <= r) ->
  guard_many_by key cats dt rtol = true ->
  exists ref, (ref < length cats)%nat /\
    (forall j, (j < length cats)%nat -> lex_ltb (key (gnth cats ref)) (key (gnth cats j)) = false) /\
    forall j, (j < length cats)%nat -> j <> ref ->
      forall dr, In dr (combine (tab dt ref j) (g_radii (gnth cats ref))) -> fst dr <= snd dr.
Proof. exact guard_many_within_radius. Qed.
Print Assumptions C12_guard_many_within_radius.

Theorem C12_guard_many_two : forall key a b dt rtol,
  guard_many_by key [a; b] dt rtol =
  if lex_ltb (key a) (key b) then guard (g_ids b) (g_ids a) (tab dt 1 0) (g_radii b) rtol
  else guard (g_ids b) (g_ids a) (tab dt 0 1) (g_radii a) rtol.
Proof. exact guard_many_two. Qed.
Print Assumptions C12_guard_many_two.

Theorem C12_checking_order_is_a_permutation : forall (A : Type) (key : A -> list nat) l,
  Permutation (sort_desc key l) l.
Proof. exact @sort_desc_perm. Qed.
Print Assumptions C12_checking_order_is_a_permutation.

Theorem C12_guard_checking_order_irrelevant : forall rtol radii others others',
  Permutation others others' -> check_fixed rtol radii others = check_fixed rtol radii others'.
Proof. exact check_fixed_perm. Qed.
Print Assumptions C12_guard_checking_order_irrelevant.

Theorem C12_guard_many_pairwise : forall rtol radii others,
  check_fixed rtol radii others = true <-> forall d, In d others -> within rtol d radii = true.
Proof. exact check_fixed_pairwise. Qed.
Print Assumptions C12_guard_many_pairwise.

Theorem C12_guard_many_some_reference : forall cats dt rtol,
  cats <> [] -> guard_many cats dt rtol = true -> guard_some_ref cats dt rtol = true.
Proof. exact guard_many_some_ref. Qed.
Print Assumptions C12_guard_many_some_reference.

Theorem C12_inflated_radii_accept_more : forall rtol, 0 <= rtol -> forall others radii,
  check_fixed rtol radii (map fst others) = true -> check_running rtol radii others = true.
Proof. exact check_fixed_implies_running. Qed.
Print Assumptions C12_inflated_radii_accept_more.

Theorem C12_inflated_radii_refuted :
  exists radii others d r,
    In (d, r) (combine (fst (nth 1 others ([], []))) radii) /\ d == 3 * r /\
    check_fixed (1 # 2) radii (map fst others) = false /\
    check_running (1 # 2) radii others = true /\
    check_running (1 # 2) radii (rev others) = false.
Proof. exact check_running_refuted. Qed.
Print Assumptions C12_inflated_radii_refuted.

Theorem C12_option_precedence :
  (forall name num, determine true name num = Some Apply) /\
  (forall num, determine false true num = Some Divide) /\
  determine false false true = Some Create /\
  determine false false false = None.
Proof. exact determine_precedence. Qed.
Print Assumptions C12_option_precedence.

Theorem C12_nearest_is_minimal : forall row j, (j < length row)%nat -> nth (argmin row) row 0 <= nth j row 0.
Proof. exact argmin_min. Qed.
Print Assumptions C12_nearest_is_minimal.

Theorem C12_strictly_nearest_is_assigned : forall row k,
  (k < length row)%nat -> (forall j, (j < length row)%nat -> j <> k -> nth k row 0 < nth j row 0) -> argmin row = k.
Proof. exact argmin_unique. Qed.
Print Assumptions C12_strictly_nearest_is_assigned.

Theorem C12_given_centres_partition : forall (R : Type) (f : R -> nat) (chunks : list (chunk R)) p,
  patch_data (Some f) chunks p = Some (filter (fun r => (f r =? p)%nat) (concat (map recs chunks))).
Proof. exact @apply_partition. Qed.
Print Assumptions C12_given_centres_partition.

Theorem C12_given_centres_ignore_column : forall (R : Type) (f : R -> nat) (chunks chunks' : list (chunk R)) p,
  map recs chunks = map recs chunks' -> patch_data (Some f) chunks p = patch_data (Some f) chunks' p.
Proof. exact @apply_ignores_column. Qed.
Print Assumptions C12_given_centres_ignore_column.

Theorem C12_given_centres_any_chunking : forall (R : Type) (f : R -> nat) (chunks chunks' : list (chunk R)) p,
  concat (map recs chunks) = concat (map recs chunks') -> patch_data (Some f) chunks p = patch_data (Some f) chunks' p.
Proof. exact @apply_any_chunking. Qed.
Print Assumptions C12_given_centres_any_chunking.

Theorem C12_given_centres_any_arrival_order : forall (R : Type) (f : R -> nat) (chunks arrived : list (chunk R)) p l r,
  Permutation arrived chunks -> patch_data (Some f) arrived p = Some l ->
  (In r l <-> In r (concat (map recs chunks)) /\ f r = p).
Proof. exact @apply_belongs_any_order. Qed.
Print Assumptions C12_given_centres_any_arrival_order.

Theorem C12_centres_reproduce_partition : forall (chunks arrived : list (chunk (list Q))) p l row,
  Permutation arrived chunks -> (forall ch r, In ch chunks -> In r (recs ch) -> r <> []) ->
  patch_data (Some argmin) arrived p = Some l -> In row l -> own_centre_nearest row p = true.
Proof. exact apply_reproduces_partition. Qed.
Print Assumptions C12_centres_reproduce_partition.

Theorem C12_column_first_refuted :
  exists (ch : chunk (list Q)) (row : list Q),
    patch_data_colfirst (Some argmin) [ch] 0 = Some [row] /\ own_centre_nearest row 0 = false /\
    patch_data (Some argmin) [ch] 0 = Some [] /\ patch_data (Some argmin) [ch] 1 = Some [row].
Proof. exact column_first_refuted. Qed.
Print Assumptions C12_column_first_refuted.

(* ---- every creation route (from_dataframe, from_file, from_random) x centres given or made ---- *)
Theorem C12_route_reports_centres_in_use : forall (C : Type) (given : option (list C)) name num made means cs,
  centres_in_use given name num made = Some cs -> route_centres given name num made means = cs.
Proof. exact @route_reports_centres_in_use. Qed.
Print Assumptions C12_route_reports_centres_in_use.

Theorem C12_route_centres_in_use : forall (C : Type) (given : option (list C)) name num made,
  (forall cs, given = Some cs -> centres_in_use given name num made = Some cs) /\
  (given = None -> name = false -> num = true -> centres_in_use given name num made = Some made) /\
  (given = None -> name = true -> centres_in_use given name num made = None).
Proof. exact @route_in_use_cases. Qed.
Print Assumptions C12_route_centres_in_use.

Theorem C12_route_reproduces_partition :
  forall (C R : Type) (dist : R -> C -> Q) given name num made means cs (chunks arrived : list (chunk R)) p l r,
  centres_in_use given name num made = Some cs -> cs <> [] -> Permutation arrived chunks ->
  route_data dist given name num made arrived p = Some l -> In r l ->
  own_centre_nearest (row_to dist (route_centres given name num made means) r) p = true.
Proof. exact @route_reproduces_partition. Qed.
Print Assumptions C12_route_reproduces_partition.

Theorem C12_made_centres_any_oracle :
  forall (C R : Type) (dist : R -> C -> Q) made means (chunks arrived : list (chunk R)) p l r,
  made <> [] -> Permutation arrived chunks ->
  route_data dist None false true made arrived p = Some l -> In r l ->
  own_centre_nearest (row_to dist (route_centres None false true made means) r) p = true.
Proof. exact @route_create_any_oracle. Qed.
Print Assumptions C12_made_centres_any_oracle.

Theorem C12_rebuilt_from_reported_centres_same_patches :
  forall (C R : Type) (dist : R -> C -> Q) given name num made means cs (chunks chunks' : list (chunk R)) name' num' made' p,
  centres_in_use given name num made = Some cs ->
  concat (map recs chunks') = concat (map recs chunks) ->
  route_data dist (Some (route_centres given name num made means)) name' num' made' chunks' p =
  route_data dist given name num made chunks p.
Proof. exact @route_rebuild_same_partition. Qed.
Print Assumptions C12_rebuilt_from_reported_centres_same_patches.

Theorem C12_loader_handed_argument_refuted :
  exists (made means : list Q) (chunks : list (chunk Q)) (r : Q),
    let dist := fun x c : Q => (x - c) * (x - c) in
    route_data dist None false true made chunks 1 = Some [r; 20] /\
    own_centre_nearest (row_to dist (route_centres None false true made means) r) 1 = true /\
    own_centre_nearest (row_to dist (route_centres_arg None means) r) 1 = false /\
    route_data dist (Some (route_centres_arg None means)) false false [] chunks 1 = Some [20].
Proof. exact route_arg_refuted. Qed.
Print Assumptions C12_loader_handed_argument_refuted.

Example C12_concrete :
  radius (compute [1#2; 3#4; 1#4] None) = 3#4 /\ guard [0;1]%nat [0;1]%nat [1#10; 3#4] [1; 1] (1#2) = false /\
  patch_data (Some argmin) [ {| recs := [[1#4; 3#4]; [3#4; 1#4]]; col := Some [1; 0]%nat |};
                             {| recs := [[1#8; 1#2]]; col := Some [1]%nat |} ] 0 = Some [[1#4; 3#4]; [1#8; 1#2]] /\
  c12_split_case true true false [[1#4; 3#4]; [3#4; 1#4]] (Some [1; 0]%nat) [1; 0]%nat = 3%nat /\
  (* from_random(patch_num=2): records 0, 4 | 6, 20 split by the made centres 0, 10; rows to the reported centres *)
  (let dist := fun x c : Q => (x - c) * (x - c) in
   c12_route_case (map (row_to dist (route_centres None false true [0; 10] [2; 13])) [0; 4; 6; 20]) [0; 0; 1; 1]%nat [0; 0; 1; 1]%nat = 0%nat /\
   c12_route_case (map (row_to dist (route_centres_arg None [2; 13])) [0; 4; 6; 20]) [0; 0; 1; 1]%nat [0; 0; 0; 1]%nat = 11%nat) /\
  (* crosscorrelate(reference, unknown, ref_rand): compact reference randoms (most records), wide
     unknown sample, reference sample three patch radii off *)
  let cats := [ {| g_ids := [0; 1]%nat; g_nrec := [100; 100]%nat; g_radii := [2#5; 2#5] |};
                {| g_ids := [0; 1]%nat; g_nrec := [500; 500]%nat; g_radii := [3; 3] |};
                {| g_ids := [0; 1]%nat; g_nrec := [2000; 2000]%nat; g_radii := [2#5; 2#5] |} ] in
  let dt := [ [ []; [6#5; 6#5]; [6#5; 6#5] ]; [ [6#5; 6#5]; []; [0; 0] ]; [ [6#5; 6#5]; [0; 0]; [] ] ] in
  check_order g_nrec cats = [2; 1; 0]%nat /\ guard_many cats dt (1#2) = false /\
  c12_guardn_case cats dt true = 7%nat /\ c12_guardn_case cats dt false = 0%nat.
Proof. vm_compute. repeat split; reflexivity. Qed.

(* ---------------- what the accessors hand out belongs to the caller ---------------- *)
(* the accessors read the records into memory of the caller's own: working in place on it leaves the stored records,
   and hence the truth of the stored metadata, as they were ... *)
Theorem C12_caller_update_keeps_metadata : forall (V : Type) (f : list V -> list V) (meta : list V -> nat) (m : nat -> nat)
  (s : @store V) (p : nat),
  describes meta m s -> describes meta m (fst (caller_update f s (get_copy s p))).
Proof. exact @copy_update_keeps_metadata. Qed.
Print Assumptions C12_caller_update_keeps_metadata.
(* ... a write-through view of the cache file does not *)
Theorem C12_write_through_view_refuted :
  exists (f : list nat -> list nat) (meta : list nat -> nat) (m : nat -> nat) (s : @store nat) p,
    describes meta m s /\ ~ describes meta m (fst (caller_update f s (get_view s p))).
Proof. exact view_update_breaks_metadata_refuted. Qed.
Print Assumptions C12_write_through_view_refuted.

(* ---------------- degenerate patches (stored radius 0) in the guard ---------------- *)
(* a zero radius makes every displacement large: refused whatever rtol is *)
Theorem C12_zero_radius_displaced_refused : forall d r rtol, r == 0 -> 0 < d -> patch_refused d r rtol = true.
Proof. exact patch_refused_zero_radius. Qed.
Print Assumptions C12_zero_radius_displaced_refused.

Theorem C12_zero_radius_coinciding_accepted : forall d r rtol, d == 0 -> r == 0 -> patch_refused d r rtol = false.
Proof. exact patch_accepted_coinciding. Qed.
Print Assumptions C12_zero_radius_coinciding_accepted.

(* distance > rtol * radius is what the float expression distance / radius > rtol decides (x/0 = inf, 0/0 = nan) *)
Theorem C12_division_free_form_is_the_float_test : forall d r rtol,
  0 <= d -> 0 <= r -> patch_refused_ieee d r rtol = patch_refused d r rtol.
Proof. exact patch_refused_ieee_eq. Qed.
Print Assumptions C12_division_free_form_is_the_float_test.

Theorem C12_guard_refuses_zero_radius : forall ids1 ids2 dists radii rtol d r,
  In (d, r) (combine dists radii) -> r == 0 -> 0 < d -> guard ids1 ids2 dists radii rtol = false.
Proof. exact guard_refuses_zero_radius. Qed.
Print Assumptions C12_guard_refuses_zero_radius.

Theorem C12_guard_many_zero_radius : forall cats dt rtol,
  guard_many cats dt rtol = true -> guard_zero_ok cats dt = true.
Proof. exact guard_many_zero_ok. Qed.
Print Assumptions C12_guard_many_zero_radius.

Theorem C12_guardd_case_sound : forall cats dt,
  guard_many cats dt (1#2) = true -> c12_guardd_case cats dt true = c12_guardn_case cats dt true.
Proof. exact guardd_case_sound. Qed.
Print Assumptions C12_guardd_case_sound.

(* the quotient that is 0 when the divisor is 0: the same on proper patches, exempts every zero-radius patch, and
   lets through centres farther apart than the radius *)
Theorem C12_zero_defined_quotient_same_on_proper_patches : forall d r rtol,
  0 < r -> patch_refused_div0 d r rtol = patch_refused d r rtol.
Proof. exact patch_refused_div0_proper. Qed.
Print Assumptions C12_zero_defined_quotient_same_on_proper_patches.

Theorem C12_zero_defined_quotient_exempts_zero_radius : forall d r rtol,
  r == 0 -> 0 <= rtol -> patch_refused_div0 d r rtol = false.
Proof. exact patch_refused_div0_zero_radius. Qed.
Print Assumptions C12_zero_defined_quotient_exempts_zero_radius.

Theorem C12_zero_defined_quotient_is_Qdiv : forall d r, qdiv0 d r == d / r.
Proof. exact qdiv0_is_Qdiv. Qed.
Print Assumptions C12_zero_defined_quotient_is_Qdiv.

Theorem C12_zero_defined_quotient_refuted :
  exists (dists radii : list Q) (d r : Q),
    In (d, r) (combine dists radii) /\ 0 <= r /\ r < d /\
    within_div0 (1#2) dists radii = true /\ within (1#2) dists radii = false /\ within 1 dists radii = false.
Proof. exact quotient_zero_refuted. Qed.
Print Assumptions C12_zero_defined_quotient_refuted.

Example C12_degenerate_concrete :
  patch_refused (1#1000000) 0 (1#2) = true /\ patch_refused 0 0 (1#2) = false /\
  patch_refused_ieee (1#1000000) 0 (1#2) = true /\ patch_refused_ieee 0 0 (1#2) = false /\
  patch_refused_div0 (7#10) 0 (1#2) = false /\ patch_refused_div0 (7#10) 1 (1#2) = true /\
  (* autocorrelate(data, random): the data catalog (most records) has a single-object patch 1 with radius 0;
     patch 1 of the partner lies 7/10 away, patch 0 is aligned *)
  let cats := [ {| g_ids := [0; 1]%nat; g_nrec := [60; 1]%nat; g_radii := [1#50; 0] |};
                {| g_ids := [0; 1]%nat; g_nrec := [30; 30]%nat; g_radii := [1#50; 1#50] |} ] in
  let dt := [ [ []; [1#1000; 7#10] ]; [ [1#1000; 7#10]; [] ] ] in
  let aligned := [ [ []; [1#1000; 0] ]; [ [1#1000; 0]; [] ] ] in
  check_order g_nrec cats = [0; 1]%nat /\ guard_many cats dt (1#2) = false /\ guard_zero_ok cats dt = false /\
  c12_guardd_case cats dt true = 23%nat /\ c12_guardd_case cats dt false = 0%nat /\
  guard_many cats aligned (1#2) = true /\ c12_guardd_case cats aligned true = 0%nat /\
  c12_guardd_case cats aligned false = 1%nat.
Proof. vm_compute. repeat split; reflexivity. Qed.

(* ---------------- a stored zero is a value (Model/SmallVariants2.v) ---------------- *)
From Verif Require SmallVariants2 SmallVariants2P.
Theorem C12_restored_sum_is_the_stored_one : forall stored count : nat, SmallVariants2.restore_sum stored count = stored.
Proof. exact SmallVariants2P.restore_sum_any. Qed.
Print Assumptions C12_restored_sum_is_the_stored_one.
Theorem C12_restored_sum_or_count_refuted : exists count : nat, SmallVariants2.restore_sum_or 0%nat count <> SmallVariants2.restore_sum 0%nat count.
Proof. exact SmallVariants2P.restore_sum_or_refuted. Qed.
Print Assumptions C12_restored_sum_or_count_refuted.
