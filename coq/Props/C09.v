(* C09 — catalog creation is fail-stop: exact catalog or an exception, never a hang.
   Statements only; proofs are in Proofs/FailStopP.v, the model in Model/FailStop.v.
   v_fix is the repaired algorithm (abort token in a finally, writer exit code checked, rmtree only
   of a directory holding patch_ids.bin, id-set check in load_patches, no finalize after an error);
   v_cur is the algorithm as it stands, about which only the `_refuted` statements hold. *)
From Verif Require Import Prelude FailStop FailStopP.
Open Scope nat_scope.

(* never blocks: no reachable state is stuck — any fault, any number of chunks, any pre-existing
   state of the target, any interleaving of the main process and the writer process *)
Theorem C09_no_hang : forall sc s, reach v_fix sc s -> ~ stuck v_fix sc s.
Proof. exact no_hang. Qed.
Print Assumptions C09_no_hang.

(* ... and within bounded time: every execution (of either algorithm) has at most 2*chunks+20 steps *)
Theorem C09_bounded_run : forall v sc k s, steps v sc k (init sc) s -> k <= 2 * length (input sc) + 20.
Proof. exact bounded_run. Qed.
Print Assumptions C09_bounded_run.

(* never returns a catalog of other data *)
Theorem C09_no_foreign_data : forall sc s d, reach v_fix sc s -> mp s = MRet d -> d = (input sc, true).
Proof. exact no_foreign_data. Qed.
Print Assumptions C09_no_foreign_data.

(* identically in sequential and parallel mode *)
Theorem C09_seq_par_same_class : forall sc s, reach v_fix sc s -> final s = true ->
  class_of (outcome_of s) = class_of (fst (seq_run v_fix sc)).
Proof. exact seq_par_same_class. Qed.
Print Assumptions C09_seq_par_same_class.

(* it returns the exact input when nothing obliges it to raise, and raises in every listed case *)
Theorem C09_returns_iff_allowed : forall sc s, reach v_fix sc s -> final s = true ->
  (outcome_of s = Return (input sc, true) /\ must_raise sc = false) \/
  (outcome_of s = Raise /\ must_raise sc = true).
Proof. exact returns_iff_allowed. Qed.
Print Assumptions C09_returns_iff_allowed.

Theorem C09_empty_centre_raises : forall sc s, reach v_fix sc s -> final s = true ->
  empty_centre sc = true -> mp s = MExc.
Proof. exact empty_centre_raises. Qed.
Print Assumptions C09_empty_centre_raises.

(* the pre-existing path is modified (at any moment of any execution) only if it was absent, or a
   catalog cache with overwrite requested *)
Theorem C09_overwrite_only_catalog : forall sc s, reach v_fix sc s -> dk s <> pre sc ->
  pre sc = TAbsent \/ (exists o r, pre sc = TDir o r true) /\ overwrite sc = true.
Proof. exact overwrite_only_catalog. Qed.
Print Assumptions C09_overwrite_only_catalog.

Theorem C09_overwrite_only_catalog_seq : forall sc, snd (seq_run v_fix sc) <> pre sc ->
  pre sc = TAbsent \/ (exists o r, pre sc = TDir o r true) /\ overwrite sc = true.
Proof. exact overwrite_only_catalog_seq. Qed.
Print Assumptions C09_overwrite_only_catalog_seq.

(* a failed creation leaves nothing that opens as a catalog (except the untouched pre-existing one) *)
Theorem C09_failed_creation_not_openable : forall sc s, reach v_fix sc s -> mp s = MExc ->
  openable (dk s) = true -> dk s = pre sc.
Proof. exact failed_creation_not_openable. Qed.
Print Assumptions C09_failed_creation_not_openable.

Theorem C09_failed_creation_not_openable_seq : forall sc, fst (seq_run v_fix sc) = Raise ->
  openable (snd (seq_run v_fix sc)) = true -> snd (seq_run v_fix sc) = pre sc.
Proof. exact failed_creation_not_openable_seq. Qed.
Print Assumptions C09_failed_creation_not_openable_seq.

(* the predicate the harness evaluates on the implementation's observed outcome holds of the
   repaired algorithm, in both modes *)
Theorem C09_fix_meets_spec : forall sc s, reach v_fix sc s -> final s = true ->
  spec_ok sc (model_obs sc (outcome_of s)) (target_eqb (dk s) (pre sc)) (openable (dk s)) = true.
Proof. exact fix_meets_spec. Qed.
Print Assumptions C09_fix_meets_spec.

Theorem C09_fix_meets_spec_seq : forall sc,
  spec_ok sc (model_obs sc (fst (seq_run v_fix sc))) (target_eqb (snd (seq_run v_fix sc)) (pre sc))
          (openable (snd (seq_run v_fix sc))) = true.
Proof. exact fix_meets_spec_seq. Qed.
Print Assumptions C09_fix_meets_spec_seq.

(* the catalog marker is atomic: at every moment of every execution (any fault at any chunk position,
   reader / worker / writer, any interleaving; in particular while and after a pre-existing valid
   catalog is being overwritten) a path that opens as a catalog is the untouched pre-existing one or
   holds the complete input: the old marker never outlives the old data, the new one is written last *)
Theorem C09_openable_only_old_or_complete : forall sc s, reach v_fix sc s -> openable (dk s) = true ->
  dk s = pre sc \/ dk s = TDir false (input sc) true.
Proof. exact openable_any_moment. Qed.
Print Assumptions C09_openable_only_old_or_complete.

Theorem C09_openable_only_old_or_complete_seq : forall sc, openable (snd (seq_run v_fix sc)) = true ->
  snd (seq_run v_fix sc) = pre sc \/ snd (seq_run v_fix sc) = TDir false (input sc) true.
Proof. exact openable_seq. Qed.
Print Assumptions C09_openable_only_old_or_complete_seq.

(* the clause the harness evaluates on what Catalog(path) holds after the call (cl_open_exact) holds of
   the repaired algorithm, in both modes *)
Theorem C09_fix_meets_open_spec : forall sc s, reach v_fix sc s -> final s = true ->
  cl_open_exact (model_obs sc (outcome_of s)) (held_of sc (dk s)) = true.
Proof. exact fix_meets_open_spec. Qed.
Print Assumptions C09_fix_meets_open_spec.

Theorem C09_fix_meets_open_spec_seq : forall sc,
  cl_open_exact (model_obs sc (fst (seq_run v_fix sc))) (held_of sc (snd (seq_run v_fix sc))) = true.
Proof. exact fix_meets_open_spec_seq. Qed.
Print Assumptions C09_fix_meets_open_spec_seq.

(* --- the algorithm as it stands --- *)
(* F9b: an exception in the main loop skips the sentinel; join and get wait for each other *)
Theorem C09_hang_refuted : exists sc s, reach v_cur sc s /\ stuck v_cur sc s.
Proof. exact hang_refuted. Qed.
Print Assumptions C09_hang_refuted.

Theorem C09_seq_par_same_class_refuted : exists sc s, reach v_cur sc s /\ stuck v_cur sc s /\
  fst (seq_run v_cur sc) = Raise.
Proof. exact seq_par_same_class_refuted. Qed.
Print Assumptions C09_seq_par_same_class_refuted.

(* F9a: the writer's FileExistsError is lost, the pre-existing catalog is returned *)
Theorem C09_foreign_data_refuted : exists sc s d, reach v_cur sc s /\ mp s = MRet d /\
  d <> (input sc, true) /\ must_raise sc = true.
Proof. exact foreign_data_refuted. Qed.
Print Assumptions C09_foreign_data_refuted.

(* F7: overwrite removes a directory that is not a catalog *)
Theorem C09_rmtree_any_directory_refuted : exists sc s o, reach v_cur sc s /\
  pre sc = TDir true [] false /\ dk s <> pre sc /\ mp s = MRet o /\ snd (seq_run v_cur sc) <> pre sc.
Proof. exact rmtree_any_directory_refuted. Qed.
Print Assumptions C09_rmtree_any_directory_refuted.

(* F8: a centre without any object is not an error *)
Theorem C09_empty_centre_refuted : exists sc s, empty_centre sc = true /\ reach v_cur sc s /\
  mp s = MRet (input sc, false) /\ fst (seq_run v_cur sc) = Return (input sc, false).
Proof. exact empty_centre_refuted. Qed.
Print Assumptions C09_empty_centre_refuted.

(* sequential mode finalizes after an error: the failed creation opens as a partial catalog *)
Theorem C09_failed_creation_not_openable_refuted : exists sc,
  fst (seq_run v_cur sc) = Raise /\ openable (snd (seq_run v_cur sc)) = true /\ snd (seq_run v_cur sc) <> pre sc.
Proof. exact failed_creation_not_openable_refuted. Qed.
Print Assumptions C09_failed_creation_not_openable_refuted.

(* non-vacuity: five chunks, an injected worker fault at the middle chunk, overwrite of an existing
   catalog.  Repaired: raises under all three schedules, the partial directory does not open.
   Current: hangs in parallel mode; sequentially it raises and leaves an openable partial catalog. *)
Example C09_concrete :
  let sc := mk_scen 5 (mk_fault InWorker 2 Injected) (TDir false [7; 8] true) true false false in
  par_all v_fix sc = Some (Raise, TDir false [1; 2] false) /\
  seq_run v_fix sc = (Raise, TDir false [1; 2] false) /\
  par_all v_cur sc = Some (Hang, TDir false [1; 2] false) /\
  seq_run v_cur sc = (Raise, TDir false [1; 2] true) /\
  par_all v_fix (mk_scen 5 None (TDir false [7; 8] true) true false false)
    = Some (Return ([1; 2; 3; 4; 5], true), TDir false [1; 2; 3; 4; 5] true).
Proof. vm_compute. repeat split; reflexivity. Qed.

(* non-vacuity of the marker clause: a NaN in the last of four chunks while a valid catalog of three
   patches is overwritten.  Repaired: raises in both modes, the path does not open (checker code 64 = only "does not
   follow the current algorithm").  An observation "raised, the path opens and holds part of the new
   data" (what an overwrite that keeps the old patch_ids.bin leaves behind) violates cl_not_openable and
   cl_open_exact (flags 1, 5, 9); in parallel mode it follows neither model (flags 0, 6, 7, 8), sequentially
   it is what the current algorithm's finalize-after-error leaves too (flag 7 only). *)
Example C09_concrete_overwrite :
  let sc := mk_scen 4 (mk_fault InReader 3 NonFinite) (old_catalog 3) true false false in
  par_all v_fix sc = Some (Raise, TDir false [1; 2; 3] false) /\
  seq_run v_fix sc = (Raise, TDir false [1; 2; 3] false) /\
  held_of sc (TDir false [1; 2; 3] true) = HOther /\
  c09_case_held true sc ORaise false false HClosed = 64 /\
  c09_case_held false sc ORaise false false HClosed = 64 /\
  c09_case_held false sc ORaise false true HOther = 2 + 32 + 128 + 512 /\
  c09_case_held true sc ORaise false true HOther = 1 + 2 + 32 + 64 + 128 + 256 + 512.
Proof. vm_compute. repeat split; reflexivity. Qed.

(* ---------- call options (progress display, units, chunk size, probe size) are not part of the scenario ---------- *)
(* the progress display hands on every chunk, in order, and stops the way its source stops *)
Theorem C09_progress_display_transparent : forall s, fst (indicator s) = s.
Proof. exact indicator_transparent. Qed.
Print Assumptions C09_progress_display_transparent.

Theorem C09_progress_display_lines : forall xs e,
  snd (indicator (xs, e)) = seq 1 (length xs) ++ match e with SEnd => [length xs] | SErr => [] end.
Proof. exact indicator_display. Qed.
Print Assumptions C09_progress_display_lines.

(* with the display on, the pipeline (either algorithm, sequential run, every reachable state and every scheduled
   run of the parallel mode) is the pipeline of the same scenario: all theorems above apply unchanged *)
Theorem C09_options_do_not_matter : forall v sc,
  seq_run v (with_progress sc) = seq_run v sc /\
  (forall s, reach v (with_progress sc) s <-> reach v sc s) /\
  (forall pol, run v (with_progress sc) pol = run v sc pol).
Proof. exact options_do_not_matter. Qed.
Print Assumptions C09_options_do_not_matter.

(* any wrapper of the chunk iterator that lets the reader's error through leaves the scenario as it is *)
Theorem C09_error_preserving_wrapper_harmless : forall w sc,
  (forall s, snd (w s) = snd s) -> through w sc = sc.
Proof. exact error_preserving_wrapper_harmless. Qed.
Print Assumptions C09_error_preserving_wrapper_harmless.

(* a display that ends the stream when its source raised: for EVERY scenario whose only defect is a reader fault
   at chunk c the call has to raise, yet the repaired pipeline returns a catalog of the first c chunks, in
   sequential mode and in every interleaving of the parallel mode, and the statement is violated *)
Theorem C09_swallowing_display_returns_truncated : forall sc c,
  reader_fault_at sc = Some c -> early sc = false -> empty_centre sc = false -> initok sc = true ->
  must_raise sc = true /\
  fst (seq_run v_fix (with_swallowing_progress sc)) = Return (firstn c (input sc), true) /\
  (forall s, reach v_fix (with_swallowing_progress sc) s -> final s = true ->
             outcome_of s = Return (firstn c (input sc), true)) /\
  (forall d untouched opens, spec_ok sc (model_obs sc (Return d)) untouched opens = false).
Proof. exact swallowing_display_returns_truncated. Qed.
Print Assumptions C09_swallowing_display_returns_truncated.

Theorem C09_swallowing_display_refuted : exists sc,
  (forall s, reach v_fix sc s -> final s = true -> outcome_of s = Raise) /\
  fst (seq_run v_fix sc) = Raise /\
  (forall s, reach v_fix (with_swallowing_progress sc) s -> final s = true ->
             exists d, outcome_of s = Return (d, true) /\ d <> input sc) /\
  (exists d, fst (seq_run v_fix (with_swallowing_progress sc)) = Return (d, true) /\ d <> input sc).
Proof. exact swallowing_display_refuted. Qed.
Print Assumptions C09_swallowing_display_refuted.

(* non-vacuity: a NaN in the middle one of three chunks.  With the display as it is the scenario is unchanged and
   the call raises in both modes; behind the swallowing display both modes return the first chunk only and leave
   it on disk; that observation (returned other data, path modified, opens, holds other data) fails the statement
   (flags 1, 3, 9) and follows neither model of the scenario (flags 0, 6, 7, 8): checker code 971. *)
Example C09_concrete_options :
  let sc := mk_scen 3 (mk_fault InReader 1 NonFinite) TAbsent false false false in
  with_progress sc = sc /\
  indicator (reader_stream sc) = (([1], SErr), [1]) /\
  indicator ([1; 2; 3], SEnd) = (([1; 2; 3], SEnd), [1; 2; 3; 3]) /\
  indicator_return_in_finally 3 (reader_stream sc) = (([1], SEnd), [1]) /\
  par_all v_fix sc = Some (Raise, TDir false [1] false) /\
  seq_run v_fix (with_swallowing_progress sc) = (Return ([1], true), TDir false [1] true) /\
  par_all v_fix (with_swallowing_progress sc) = Some (Return ([1], true), TDir false [1] true) /\
  c09_case_held false sc (ORet ROther true) false true HOther = 1 + 2 + 8 + 64 + 128 + 256 + 512 /\
  c09_case_held true sc (ORet ROther true) false true HOther = 1 + 2 + 8 + 64 + 128 + 256 + 512 /\
  c09_case_held true sc ORaise false false HClosed = 64.
Proof. vm_compute. repeat split; reflexivity. Qed.

(* ---------- the pre-existing state of the cache path, concretely (listing, regular file, symbolic link) ---------- *)
(* "is a catalog cache" = a real directory whose listing holds patch_ids.bin; nothing else enters *)
Theorem C09_cache_is_marker : forall es, guard_marker es = true <-> In EMarker es.
Proof. exact guard_marker_exact. Qed.
Print Assumptions C09_cache_is_marker.

(* behind ANY guard that accepts only listings holding the marker, every existing path that is not a catalog cache
   - a directory with whatever entries under whatever names, none at all, a regular file, a link to anything - is
   left as it is at every moment of every execution, sequentially too, and the call raises; overwrite or not,
   whatever fault strikes in addition *)
Theorem C09_non_cache_path_kept : forall g sc p, sound_guard g -> is_cache p = false -> p <> FAbsent ->
  let sc' := on_path g sc p in
  (forall s, reach v_fix sc' s -> dk s = pre sc') /\ snd (seq_run v_fix sc') = pre sc' /\
  fst (seq_run v_fix sc') = Raise /\ (forall s, reach v_fix sc' s -> final s = true -> outcome_of s = Raise).
Proof. exact non_cache_path_kept. Qed.
Print Assumptions C09_non_cache_path_kept.

(* without overwrite every existing path stays, behind any guard whatsoever *)
Theorem C09_no_overwrite_path_kept : forall g sc p, overwrite sc = false -> p <> FAbsent ->
  let sc' := on_path g sc p in
  (forall s, reach v_fix sc' s -> dk s = pre sc') /\ snd (seq_run v_fix sc') = pre sc' /\
  fst (seq_run v_fix sc') = Raise /\ (forall s, reach v_fix sc' s -> final s = true -> outcome_of s = Raise).
Proof. exact no_overwrite_path_kept. Qed.
Print Assumptions C09_no_overwrite_path_kept.

(* a symbolic link is never removed and nothing is created through it *)
Theorem C09_link_path_kept : forall g sc q,
  let sc' := on_path g sc (FLink q) in
  (forall s, reach v_fix sc' s -> dk s = pre sc') /\ snd (seq_run v_fix sc') = pre sc' /\
  fst (seq_run v_fix sc') = Raise /\ (forall s, reach v_fix sc' s -> final s = true -> outcome_of s = Raise).
Proof. exact link_path_kept. Qed.
Print Assumptions C09_link_path_kept.

(* the checker on concrete paths is the checker on abstract states wherever the path has one reading *)
Theorem C09_path_checker_plain : forall par sc p ob u o h around, plain_path p = true ->
  c09_case_path par sc p ob u o h around =
  c09_case_held par (on_path guard_marker sc p) ob u o h
  + 2048 * code [around; implb u (Bool.eqb o (openable (pre (on_path guard_marker sc p))))].
Proof. exact path_checker_plain. Qed.
Print Assumptions C09_path_checker_plain.

(* a guard that goes by the names of the entries (the marker, OR nothing but entries called patch_...): for every
   listing without the marker whose entries are all called patch_... (the empty one included) a fault-free creation
   with overwrite has to raise and keep the directory; behind that guard it is deleted and the new catalog returned,
   in both modes, and no returned observation satisfies the statement *)
Theorem C09_name_guard_deletes : forall sc es,
  has_marker es = false -> forallb patch_named es = true ->
  overwrite sc = true -> early sc = false -> flt sc = None -> empty_centre sc = false ->
  let judged_sc := on_path guard_marker sc (FDir es) in
  let run_sc := on_path guard_names sc (FDir es) in
  must_raise judged_sc = true /\ must_stay judged_sc = true /\
  seq_run v_fix run_sc = (Return (input sc, true), TDir false (input sc) true) /\
  (forall s, reach v_fix run_sc s -> final s = true -> outcome_of s = Return (input sc, true)) /\
  (forall s, reach v_fix run_sc s -> final s = true -> dk s = TDir false (input sc) true) /\
  TDir false (input sc) true <> pre judged_sc /\
  (forall k c untouched opens, spec_ok judged_sc (ORet k c) untouched opens = false).
Proof. exact name_guard_deletes. Qed.
Print Assumptions C09_name_guard_deletes.

Theorem C09_name_guard_refuted : ~ sound_guard guard_names /\ exists sc es,
  is_cache (FDir es) = false /\ guard_names es = true /\
  must_stay (on_path guard_marker sc (FDir es)) = true /\
  seq_run v_fix (on_path guard_names sc (FDir es)) = (Return (input sc, true), TDir false (input sc) true) /\
  par_all v_fix (on_path guard_names sc (FDir es)) = Some (Return (input sc, true), TDir false (input sc) true).
Proof. exact name_guard_refuted. Qed.
Print Assumptions C09_name_guard_refuted.

(* non-vacuity: three chunks, overwrite requested.  An empty directory / a directory of user files called patch_...
   that is deleted and replaced by the new catalog fails the statement (flags 1, 3, 4; only the unguarded algorithm
   does that: flag 7): 154.  Refusing it is fine.  A marker alone is a cache (may be overwritten) that does not
   open while it is kept.  A link to a valid catalog may be refused (what the code does) or followed; a link to a
   directory without the marker must not be followed into a deletion.  Foreign files next to a valid catalog do
   not protect it; a modification outside the cache path is flag 11. *)
Example C09_concrete_paths :
  let sc := mk_scen 3 None TAbsent true false false in
  let scn := mk_scen 3 None TAbsent false false false in
  let cat := FDir (catalog_entries 2 []) in
  c09_case_path false sc (FDir []) (ORet RSame true) false true HNew true = 2 + 8 + 16 + 128 /\
  c09_case_path true sc (FDir [EPatchNamed; EPatchNamed]) (ORet RSame true) false true HNew true = 2 + 8 + 16 + 128 /\
  c09_case_path false sc (FDir []) ORaise true false HClosed true = 64 /\
  c09_case_path false sc (FDir [EMarker]) (ORet RSame true) false true HNew true = 0 /\
  c09_case_path false scn (FDir [EMarker]) ORaise true false HClosed true = 0 /\
  c09_case_path false sc (FLink cat) ORaise true true HPre true = 0 /\
  c09_case_path false sc (FLink cat) (ORet RSame true) false true HNew true = 0 /\
  c09_case_path false sc (FLink (FDir [])) (ORet RSame true) false true HNew true = 2 + 8 + 16 + 128 /\
  c09_case_path false sc (FDir (catalog_entries 2 [EOther; EPatchNamed])) (ORet RSame true) false true HNew true = 0 /\
  c09_case_path false sc (FDir (catalog_entries 2 [EOther; EPatchNamed])) (ORet RSame true) false true HNew false = 2048 /\
  c09_case_path false scn (FDir (catalog_entries 2 [EOther; EPatchNamed])) ORaise true true HPre true = 0.
Proof. vm_compute. repeat split; reflexivity. Qed.

(* ---------- columns of independent length (the datasets of an HDF5 file) ---------- *)
(* the comparison of the column lengths before anything starts is complete: whatever the lengths (which column is
   the odd one, longer or shorter, by how much), the chunk size, the path, the mode and the algorithm behind it -
   columns of unequal length raise, no execution blocks, and the path is what it was at every moment *)
Theorem C09_unequal_columns_raise_up_front : forall lens cs p ow ea ec, all_eq lens = false ->
  let sc := cols_scen (SrcUpFront lens cs) p ow ea ec in
  cols_unequal (SrcUpFront lens cs) = true /\ must_raise sc = true /\
  (forall v, seq_run v sc = (Raise, p)) /\
  (forall v s, reach v sc s -> dk s = p) /\
  (forall v s, reach v sc s -> final s = true -> outcome_of s = Raise) /\
  (forall v s, reach v sc s -> ~ stuck v sc s).
Proof. exact upfront_check_complete. Qed.
Print Assumptions C09_unequal_columns_raise_up_front.

(* a reader that leaves the comparison to DataChunk.create (which sees the slices of one chunk) lets through
   EXACTLY the columns that are each as long as the right ascension, or longer while the record count is an exact
   multiple of the chunk size (the whole input in one chunk included) ... *)
Theorem C09_chunk_check_misses_iff : forall n others cs, 0 < cs ->
  first_bad (slices_of (n :: others) cs) = None <->
  Forall (fun L => L = n \/ (n < L /\ n mod cs = 0)) others.
Proof. exact chunk_check_misses_iff. Qed.
Print Assumptions C09_chunk_check_misses_iff.

(* ... runs on them the scenario of the table cut down to the length of the right ascension ... *)
Theorem C09_chunk_check_only_truncates : forall n others cs p ow ea ec, 0 < cs -> slips_through n cs others ->
  cols_scen (chunk_check_only (n :: others) cs) p ow ea ec =
  cols_scen (SrcUpFront (n :: map (fun _ => n) others) cs) p ow ea ec.
Proof. exact chunk_check_only_truncates. Qed.
Print Assumptions C09_chunk_check_only_truncates.

(* ... and catches every other pair of unequal columns (a shorter one; a longer one when the last chunk is partial) *)
Theorem C09_chunk_check_catches : forall n others cs p ow ea ec, 0 < cs -> ~ slips_through n cs others ->
  must_raise (cols_scen (chunk_check_only (n :: others) cs) p ow ea ec) = true.
Proof. exact chunk_check_catches. Qed.
Print Assumptions C09_chunk_check_catches.

(* so the per-chunk comparison alone does not meet the statement: for all such columns of unequal length the
   call has to raise, yet the repaired pipeline behind that reader returns a catalog, sequentially and in every
   interleaving of the parallel mode, and no returned observation satisfies the statement *)
Theorem C09_chunk_check_alone_returns : forall n others cs, 0 < cs -> 0 < n -> slips_through n cs others ->
  all_eq (n :: others) = false ->
  let judged_sc := cols_scen (SrcUpFront (n :: others) cs) TAbsent false false false in
  let run_sc := cols_scen (chunk_check_only (n :: others) cs) TAbsent false false false in
  must_raise judged_sc = true /\
  fst (seq_run v_fix run_sc) = Return (input run_sc, true) /\
  (forall s, reach v_fix run_sc s -> final s = true -> outcome_of s = Return (input run_sc, true)) /\
  (forall k c untouched opens, spec_ok judged_sc (ORet k c) untouched opens = false).
Proof. exact chunk_check_alone_returns. Qed.
Print Assumptions C09_chunk_check_alone_returns.

Theorem C09_chunk_check_alone_refuted : exists lens cs,
  cols_unequal (SrcUpFront lens cs) = true /\
  cols_unequal (chunk_check_only lens cs) = false /\
  must_raise (cols_scen (SrcUpFront lens cs) TAbsent false false false) = true /\
  seq_run v_fix (cols_scen (chunk_check_only lens cs) TAbsent false false false) = (Return ([1; 2], true), TDir false [1; 2] true) /\
  par_all v_fix (cols_scen (chunk_check_only lens cs) TAbsent false false false) = Some (Return ([1; 2], true), TDir false [1; 2] true).
Proof. exact chunk_check_alone_refuted. Qed.
Print Assumptions C09_chunk_check_alone_refuted.

(* non-vacuity: 12 records in chunks of 4, the second of four datasets has 17 entries.  Every chunk shows slices of
   equal length; with 14 records in chunks of 5 the last chunk gives it away, a dataset of 7 entries the second one;
   7 records in one chunk of 7 hide an eighth entry, a chunk size of 10 does not.  A catalog returned for the 12 / 17
   file fails the statement (flags 1, 3) and follows no model of the scenario (flags 0, 6, 7, 8): 459, on a fresh path
   and over a valid catalog alike; raising with everything untouched is fine.  The slices of a frame whose middle
   chunk is one row short in one column: the pipeline raises there, the first chunk stays on disk and nothing opens
   (the observation follows `fix` only: 64); with a first pass over the reader nothing is touched at all. *)
Example C09_concrete_columns :
  let hdf := SrcUpFront [12; 17; 12; 12] 4 in
  slices_of [12; 17; 12; 12] 4 = [[4; 4; 4; 4]; [4; 4; 4; 4]; [4; 4; 4; 4]] /\
  first_bad (slices_of [14; 17; 14] 5) = Some 2 /\
  slices_of [12; 7; 12] 4 = [[4; 4; 4]; [4; 3; 4]; [4; 0; 4]] /\
  first_bad (slices_of [7; 8] 7) = None /\ first_bad (slices_of [7; 8] 10) = Some 0 /\
  c09_case_cols false hdf false false false FAbsent (ORet RSame true) false true HNew true = 1 + 2 + 8 + 64 + 128 + 256 /\
  c09_case_cols true hdf true false false (FDir (catalog_entries 2 [])) (ORet RSame true) false true HNew true = 1 + 2 + 8 + 64 + 128 + 256 /\
  c09_case_cols false hdf false false false FAbsent ORaise true false HClosed true = 0 /\
  c09_case_cols true hdf true false false (FDir (catalog_entries 2 [])) ORaise true true HPre true = 0 /\
  c09_case_cols false (chunk_check_only [12; 17; 12; 12] 4) false false false FAbsent (ORet RSame true) false true HNew true = 0 /\
  c09_case_cols false (SrcUpFront [12; 12; 12] 4) false false false FAbsent (ORet RSame true) false true HNew true = 0 /\
  c09_case_cols false (SrcPerChunk [[5; 5; 5]; [5; 4; 5]; [4; 4; 4]] false) false false false FAbsent ORaise false false HClosed true = 64 /\
  c09_case_cols false (SrcPerChunk [[5; 5; 5]; [5; 4; 5]; [4; 4; 4]] true) false false false FAbsent ORaise true false HClosed true = 0.
Proof. vm_compute. repeat split; reflexivity. Qed.

(* ---------------- single decisions whose variants were seeded (Model/SmallVariants.v) ---------------- *)
From Verif Require SmallVariants SmallVariantsP.
(* a missing value is refused in every representation once the column is cast before it is checked; a check on the raw
   column does not look into arrays of python objects *)
Theorem C09_missing_refused_after_cast : forall c : SmallVariants.column,
  SmallVariants.has_missing c = true -> SmallVariants.refuses_after_cast c = true.
Proof. exact SmallVariantsP.after_cast_refuses_every_missing. Qed.
Print Assumptions C09_missing_refused_after_cast.
Theorem C09_raw_finite_check_refuted : exists c : SmallVariants.column,
  SmallVariants.has_missing c = true /\ SmallVariants.refuses_raw c = false.
Proof. exact SmallVariantsP.raw_check_refuted. Qed.
Print Assumptions C09_raw_finite_check_refuted.
