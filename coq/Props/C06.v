(* C06 — MPI runs terminate and the root rank gets the single-process result.
   Statements only; proofs are in Proofs/DispatchP.v and Proofs/MpiWriteP.v. *)
From Verif Require Import Prelude Dispatch DispatchP.
From Coq Require Import Permutation.
Open Scope nat_scope.

(* ---- task dispatch: _mpi_root_task / _mpi_worker_task / _mpi_iter_unordered ----
   for every task list, every number of workers n, every rank set `allowed`, both send modes
   (md = Eager | Sync) and every schedule (= every path of the relation [step]) *)

(* the executable step used to replay real communication logs is exactly the relation *)
Theorem C06_step_with_sound :
  forall (T R : Type) (f : T -> R) allowed md c (s s' : st T R),
  step_with f allowed md c s = Some s' -> step f allowed md s s'.
Proof. exact @step_with_sound. Qed.
Print Assumptions C06_step_with_sound.

Theorem C06_step_with_complete :
  forall (T R : Type) (f : T -> R) allowed md (s s' : st T R),
  step f allowed md s s' -> exists c, step_with f allowed md c s = Some s'.
Proof. exact @step_with_complete. Qed.
Print Assumptions C06_step_with_complete.

(* termination: every step decreases the measure; an execution from ANY state s has at most
   [mu s] steps *)
Theorem C06_dispatch_terminates :
  forall (T R : Type) (f : T -> R) allowed md k (s s' : st T R),
  steps f allowed md k s s' -> k + mu s' <= mu s.
Proof. exact @dispatch_terminates. Qed.
Print Assumptions C06_dispatch_terminates.

(* no deadlock, eager and synchronous sends *)
Theorem C06_dispatch_progress :
  forall (T R : Type) (f : T -> R) allowed md tasks n (s : st T R),
  reach f allowed md (init tasks n) s -> pc s <> RDone -> exists s', step f allowed md s s'.
Proof. exact @dispatch_progress. Qed.
Print Assumptions C06_dispatch_progress.

(* hence every partial run can be completed: all ranks pass the final barrier *)
Theorem C06_dispatch_reaches_done :
  forall (T R : Type) (f : T -> R) allowed md tasks n (s : st T R),
  reach f allowed md (init tasks n) s -> exists s', reach f allowed md s s' /\ pc s' = RDone.
Proof. exact @dispatch_reaches_done. Qed.
Print Assumptions C06_dispatch_reaches_done.

(* exactly once + root result, provided some worker rank is in `ranks` *)
Theorem C06_dispatch_exactly_once :
  forall (T R : Type) (f : T -> R) allowed md tasks n (s : st T R),
  reach f allowed md (init tasks n) s -> pc s = RDone ->
  has_allowed_below allowed (length (ws s)) ->
  Permutation tasks (ran s) /\ Permutation (map f tasks) (got s).
Proof. exact @dispatch_exactly_once. Qed.
Print Assumptions C06_dispatch_exactly_once.

(* max_workers = 1: ranks = {0}, no worker index is allowed; then in EVERY reachable state
   nothing was executed or yielded and all tasks are still pending ... *)
Theorem C06_dispatch_no_worker_general :
  forall (T R : Type) (f : T -> R) allowed md tasks n (s : st T R),
  (forall k, allowed k = false) -> reach f allowed md (init tasks n) s ->
  got s = [] /\ ran s = [] /\ pend s = tasks.
Proof. exact @dispatch_no_worker_general. Qed.
Print Assumptions C06_dispatch_no_worker_general.

(* ... so the property is false of the faithful model of the current code (finding F13a):
   a complete run, all ranks returned, root result empty *)
Theorem C06_dispatch_no_worker_refuted :
  forall md, exists s : st nat nat,
    reach c06_f (c06_allowed [0]) md (init [10; 20; 30] 2) s /\ pc s = RDone /\
    got s = [] /\ ran s = [] /\ pend s = [10; 20; 30] /\
    ~ Permutation (map c06_f [10; 20; 30]) (got s).
Proof. exact dispatch_no_worker_refuted. Qed.
Print Assumptions C06_dispatch_no_worker_refuted.

(* non-vacuity: a concrete synchronous run on 2 workers and 3 tasks in which worker 1 answers
   first; the checker used by the harness accepts it (code 0) *)
Example C06_concrete :
  c06_dispatch_case true 2 [0; 1; 2] [0; 1; 2]
    [CInitTask 0; CWTask 0; CInitTask 1; CWTask 1; CInitDone; CRecvMore 1; CWTask 1;
     CRecvLast 0; CWEoq 0; CRecvLast 1; CWEoq 1; CExit; CBar]
    [4; 1; 7] [0; 1; 2] = 0.
Proof. vm_compute. reflexivity. Qed.
