(* C06 — MPI runs terminate and the root rank gets the single-process result.
   Statements only; proofs are in Proofs/DispatchP.v and Proofs/MpiWriteP.v.

   The positive theorems are about the REPAIRED algorithms (root fallback in
   _mpi_iter_unordered, commit cd002ec: [fb = true]; patch dictionaries sent with ssend,
   commit aeec5f0: [dm = Sync]); the [_refuted] theorems document the pinned algorithms
   ([fb = false]; [dm = sm = Eager]) and the findings F13a / F13b. *)
From Verif Require Import Prelude Dispatch DispatchP MpiWrite MpiWriteP RankMemo RankMemoP DispatchRetry DispatchRetryP.
From Coq Require Import Permutation.
Open Scope nat_scope.

(* ---- task dispatch: _mpi_root_task / _mpi_worker_task / _mpi_iter_unordered ----
   for every task list, every number of workers n, every rank set `allowed`, with and without
   root fallback (fb), both send modes (md = Eager | Sync) and every schedule (= every path of
   the relation [step]) *)

(* the executable step used to replay real communication logs is exactly the relation *)
Theorem C06_step_with_sound :
  forall (T R : Type) (f : T -> R) allowed fb md c (s s' : st T R),
  step_with f allowed fb md c s = Some s' -> step f allowed fb md s s'.
Proof. exact @step_with_sound. Qed.
Print Assumptions C06_step_with_sound.

Theorem C06_step_with_complete :
  forall (T R : Type) (f : T -> R) allowed fb md (s s' : st T R),
  step f allowed fb md s s' -> exists c, step_with f allowed fb md c s = Some s'.
Proof. exact @step_with_complete. Qed.
Print Assumptions C06_step_with_complete.

(* termination: every step decreases the measure; an execution from ANY state s has at most
   [mu s] steps *)
Theorem C06_dispatch_terminates :
  forall (T R : Type) (f : T -> R) allowed fb md k (s s' : st T R),
  steps f allowed fb md k s s' -> k + mu s' <= mu s.
Proof. exact @dispatch_terminates. Qed.
Print Assumptions C06_dispatch_terminates.

(* no deadlock, eager and synchronous sends *)
Theorem C06_dispatch_progress :
  forall (T R : Type) (f : T -> R) allowed fb md tasks n (s : st T R),
  reach f allowed fb md (init tasks n) s -> pc s <> RDone -> exists s', step f allowed fb md s s'.
Proof. exact @dispatch_progress. Qed.
Print Assumptions C06_dispatch_progress.

(* hence every partial run can be completed: all ranks pass the final barrier *)
Theorem C06_dispatch_reaches_done :
  forall (T R : Type) (f : T -> R) allowed fb md tasks n (s : st T R),
  reach f allowed fb md (init tasks n) s -> exists s', reach f allowed fb md s s' /\ pc s' = RDone.
Proof. exact @dispatch_reaches_done. Qed.
Print Assumptions C06_dispatch_reaches_done.

(* TOTAL statement for the repaired algorithm (root fallback): for EVERY rank set, also the
   empty one (max_workers = 1), a finished run executed every task exactly once and the root
   yielded exactly map f tasks *)
Theorem C06_dispatch_exactly_once_total :
  forall (T R : Type) (f : T -> R) allowed md tasks n (s : st T R),
  reach f allowed true md (init tasks n) s -> pc s = RDone ->
  Permutation tasks (ran s) /\ Permutation (map f tasks) (got s).
Proof. exact @dispatch_exactly_once_total_repaired. Qed.
Print Assumptions C06_dispatch_exactly_once_total.

(* both algorithms: exactly once + root result, provided some worker rank is in `ranks` *)
Theorem C06_dispatch_exactly_once :
  forall (T R : Type) (f : T -> R) allowed fb md tasks n (s : st T R),
  reach f allowed fb md (init tasks n) s -> pc s = RDone ->
  has_allowed_below allowed (length (ws s)) ->
  Permutation tasks (ran s) /\ Permutation (map f tasks) (got s).
Proof. exact @dispatch_exactly_once. Qed.
Print Assumptions C06_dispatch_exactly_once.

(* the pinned algorithm (no fallback) with max_workers = 1: ranks = {0}, no worker index is
   allowed; then in EVERY reachable state nothing was executed or yielded and all tasks are
   still pending ... *)
Theorem C06_dispatch_no_worker_general_cur :
  forall (T R : Type) (f : T -> R) allowed md tasks n (s : st T R),
  (forall k, allowed k = false) -> reach f allowed false md (init tasks n) s ->
  got s = [] /\ ran s = [] /\ pend s = tasks.
Proof. exact @dispatch_no_worker_general_cur. Qed.
Print Assumptions C06_dispatch_no_worker_general_cur.

(* ... so the property was false of the faithful model of the pinned code (finding F13a,
   repaired by cd002ec): a complete run, all ranks returned, root result empty *)
Theorem C06_dispatch_no_worker_refuted :
  forall md, exists s : st nat nat,
    reach c06_f (c06_allowed [0]) false md (init [10; 20; 30] 2) s /\ pc s = RDone /\
    got s = [] /\ ran s = [] /\ pend s = [10; 20; 30] /\
    ~ Permutation (map c06_f [10; 20; 30]) (got s).
Proof. exact dispatch_no_worker_refuted. Qed.
Print Assumptions C06_dispatch_no_worker_refuted.

(* ---- MPI write pipeline: reader / k workers / writer (write_patches, MPI branch) ----
   for every chunk list (any split of every chunk), every number k of further processing
   ranks and every schedule; dm = send mode of the patch dictionaries, sm = of the sentinel *)

(* the repaired pipeline: dictionaries sent with ssend, the sentinel eagerly or synchronously,
   ANY number of sending ranks: when the writer stops it has stored every record and no
   dictionary is left unreceived *)
Theorem C06_write_ssend_no_loss :
  forall (A : Type) sm (cs : list (chunk A)) k (s : wst A),
  wreach Sync sm (winit cs k) s -> stopped s = true ->
  Permutation (all_recs cs) (stored s) /\ unreceived s = [].
Proof. exact @write_ssend_no_loss. Qed.
Print Assumptions C06_write_ssend_no_loss.

Theorem C06_write_sync_no_loss :
  forall (A : Type) (cs : list (chunk A)) k (s : wst A),
  wreach Sync Sync (winit cs k) s -> stopped s = true ->
  Permutation (all_recs cs) (stored s) /\ unreceived s = [].
Proof. exact @write_sync_no_loss. Qed.
Print Assumptions C06_write_sync_no_loss.

(* eager dictionary sends, the reader is the only sending rank (max_workers = 2): per-sender
   FIFO suffices *)
Theorem C06_write_eager_single_sender_no_loss :
  forall (A : Type) sm (cs : list (chunk A)) (s : wst A),
  wreach Eager sm (winit cs 0) s -> stopped s = true ->
  Permutation (all_recs cs) (stored s) /\ unreceived s = [].
Proof. exact @write_eager_single_sender_no_loss. Qed.
Print Assumptions C06_write_eager_single_sender_no_loss.

(* in every mode, whatever is not stored when the writer stops is an unreceived dictionary *)
Theorem C06_write_stopped_rest :
  forall (A : Type) dm sm (cs : list (chunk A)) k (s : wst A),
  wreach dm sm (winit cs k) s -> stopped s = true ->
  Permutation (all_recs cs) (stored s ++ unreceived s).
Proof. exact @stopped_rest. Qed.
Print Assumptions C06_write_stopped_rest.

(* the pinned pipeline (plain sends, buffered), two sending ranks: a complete run (all ranks
   passed the final barrier) in which the writer matched the reader's sentinel while the other
   rank's dictionary was still queued: record 2 is lost (finding F13b, repaired by aeec5f0) —
   the worker barrier orders calls, not deliveries *)
Theorem C06_write_eager_overtake_refuted :
  exists s : wst nat,
    wreach Eager Eager (winit f13b_chunks 1) s /\ rp s = WDone /\ stopped s = true /\
    wch s = [[Dict [2]]] /\ stored s = [1] /\
    ~ Permutation (all_recs f13b_chunks) (stored s).
Proof. exact write_eager_overtake_refuted. Qed.
Print Assumptions C06_write_eager_overtake_refuted.

(* non-vacuity: the repaired algorithm on world size 3 with max_workers = 1 and three tasks,
   synchronous sends — both workers get the sentinel, the root runs the tasks itself; the
   checker used by the harness accepts the run (code 0) *)
Example C06_concrete :
  c06_dispatch_case true true 2 [0] [10; 20; 30]
    [CInitEoq 0; CWEoq 0; CInitEoq 1; CWEoq 1; CInitDone; CFallback; CFallback; CFallback; CExit; CBar]
    [31; 61; 91] [10; 20; 30] = 0.
Proof. vm_compute. reflexivity. Qed.

(* ---- task dispatch with jobs that may FAIL (repo commit 32238ed) ----
   [fails t] = the job raises on task t; the worker ships the exception ([Err t]), the root
   remembers the first one, stops yielding and handing out tasks, answers every later result
   with the sentinel, and after the closing broadcast of the error flag every rank raises it.
   For every task list, number of workers n, rank set `allowed`, predicate `fails`, send mode
   md and schedule (= every path of [estep]).  [wcatch = true]: the worker of 32238ed,
   [wcatch = false]: the pinned worker (the exception escapes). *)

(* the extended executable step used to replay communication logs is exactly the relation *)
Theorem C06_estep_with_sound :
  forall (T R : Type) (f : T -> R) fails allowed wcatch md c (s s' : est T R),
  estep_with f fails allowed wcatch md c s = Some s' -> estep f fails allowed wcatch md s s'.
Proof. exact @estep_with_sound. Qed.
Print Assumptions C06_estep_with_sound.

Theorem C06_estep_with_complete :
  forall (T R : Type) (f : T -> R) fails allowed wcatch md (s s' : est T R),
  estep f fails allowed wcatch md s s' -> exists c, estep_with f fails allowed wcatch md c s = Some s'.
Proof. exact @estep_with_complete. Qed.
Print Assumptions C06_estep_with_complete.

(* the error-free protocol is the special case fails = (fun _ => false): on embedded states
   and choices the extended step IS the step of the model above (root fallback on) *)
Theorem C06_estep_with_embed :
  forall (T R : Type) (f : T -> R) allowed wcatch md c (s : st T R),
  estep_with f (fun _ => false) allowed wcatch md (lift c) (embed s)
  = option_map embed (step_with f allowed true md c s).
Proof. exact @estep_with_embed. Qed.
Print Assumptions C06_estep_with_embed.

(* (a) termination: every step decreases the measure, from ANY state, both workers *)
Theorem C06_edispatch_terminates :
  forall (T R : Type) (f : T -> R) fails allowed md wcatch k (s s' : est T R),
  esteps f fails allowed wcatch md k s s' -> k + emu s' <= emu s.
Proof. exact @edispatch_terminates. Qed.
Print Assumptions C06_edispatch_terminates.

(* (a) no deadlock, whatever fails: every reachable state before the end can step ... *)
Theorem C06_edispatch_progress :
  forall (T R : Type) (f : T -> R) fails allowed md tasks n (s : est T R),
  ereach f fails allowed true md (einit tasks n) s -> epc s <> RDone ->
  exists s', estep f fails allowed true md s s'.
Proof. exact @edispatch_progress. Qed.
Print Assumptions C06_edispatch_progress.

(* ... hence every partial run can be completed: all ranks leave the closing broadcast *)
Theorem C06_edispatch_reaches_done :
  forall (T R : Type) (f : T -> R) fails allowed md tasks n (s : est T R),
  ereach f fails allowed true md (einit tasks n) s ->
  exists s', ereach f fails allowed true md s s' /\ epc s' = RDone.
Proof. exact @edispatch_reaches_done. Qed.
Print Assumptions C06_edispatch_reaches_done.

(* once the root has received an error: no yield, no task handed out, the error is kept *)
Theorem C06_error_freezes_root :
  forall (T R : Type) (f : T -> R) fails allowed md wcatch (s s' : est T R) e,
  estep f fails allowed wcatch md s s' -> eerr s = Some e ->
  eerr s' = Some e /\ epend s' = epend s /\ egot s' = egot s.
Proof. exact @eerr_frozen. Qed.
Print Assumptions C06_error_freezes_root.

(* (b) at the end every worker has received exactly one sentinel, holds no message, is out of
   its loop *)
Theorem C06_edispatch_workers_end :
  forall (T R : Type) (f : T -> R) fails allowed md tasks n (s : est T R),
  ereach f fails allowed true md (einit tasks n) s -> epc s = RDone ->
  length (ews s) = n /\ Forall (fun w => w = mkEW [] [] true 1) (ews s).
Proof. exact @edispatch_workers_end. Qed.
Print Assumptions C06_edispatch_workers_end.

(* (c) every task is executed at most once; the tasks handed out - all but the suffix still
   pending when the first error arrived - exactly once *)
Theorem C06_edispatch_at_most_once :
  forall (T R : Type) (f : T -> R) fails allowed md tasks n (s : est T R),
  ereach f fails allowed true md (einit tasks n) s -> epc s = RDone ->
  exists h, tasks = h ++ epend s /\ Permutation h (eran s).
Proof. exact @edispatch_at_most_once. Qed.
Print Assumptions C06_edispatch_at_most_once.

(* (d) the run ends with the error flag set iff some executed task fails; the flag is the
   error of an executed failing task; after the broadcast EVERY rank (root and n workers) holds
   the root's flag: all raise it or none does *)
Theorem C06_edispatch_error_iff :
  forall (T R : Type) (f : T -> R) fails allowed md tasks n (s : est T R),
  ereach f fails allowed true md (einit tasks n) s -> epc s = RDone ->
  (eerr s <> None <-> exists t, In t (eran s) /\ fails t = true)
  /\ (forall t, eerr s = Some t -> fails t = true /\ In t (eran s))
  /\ eout s = repeat (eerr s) (S n).
Proof. exact @edispatch_error_iff. Qed.
Print Assumptions C06_edispatch_error_iff.

(* what the root yielded before the end are results of distinct executed tasks *)
Theorem C06_edispatch_yielded_sound :
  forall (T R : Type) (f : T -> R) fails allowed md tasks n (s : est T R),
  ereach f fails allowed true md (einit tasks n) s -> epc s = RDone ->
  exists d, Permutation (map (job f fails) (eran s)) (map (@Ok T R) (egot s) ++ d).
Proof. exact @edispatch_yielded_sound. Qed.
Print Assumptions C06_edispatch_yielded_sound.

(* (e) a run that ends without the error flag - in particular every run in which no task fails -
   executed every task exactly once and the root yielded map f tasks: the error-free theorem *)
Theorem C06_edispatch_no_error_result :
  forall (T R : Type) (f : T -> R) fails allowed md tasks n (s : est T R),
  ereach f fails allowed true md (einit tasks n) s -> epc s = RDone -> eerr s = None ->
  Permutation tasks (eran s) /\ Permutation (map f tasks) (egot s).
Proof. exact @edispatch_no_error_result. Qed.
Print Assumptions C06_edispatch_no_error_result.

Theorem C06_edispatch_no_failing_task :
  forall (T R : Type) (f : T -> R) fails allowed md tasks n (s : est T R),
  ereach f fails allowed true md (einit tasks n) s -> epc s = RDone ->
  (forall t, In t tasks -> fails t = false) ->
  eerr s = None /\ eout s = repeat None (S n) /\ Permutation tasks (eran s) /\ Permutation (map f tasks) (egot s).
Proof. exact @edispatch_no_failing_task. Qed.
Print Assumptions C06_edispatch_no_failing_task.

(* root fallback (no worker rank in `ranks`, max_workers = 1): the run is the single-process
   run - tasks in order, the first failing task raises, the rest is not run - then the
   broadcast gives every rank that error *)
Theorem C06_edispatch_root_fallback :
  forall (T R : Type) (f : T -> R) fails allowed md tasks n (s : est T R),
  (forall k, allowed k = false) -> ereach f fails allowed true md (einit tasks n) s -> epc s = RDone ->
  (eran s, egot s, eerr s, epend s) = seqrun f fails [] [] tasks /\ eout s = repeat (eerr s) (S n).
Proof. exact @edispatch_root_fallback. Qed.
Print Assumptions C06_edispatch_root_fallback.

(* (f) the pinned worker (exception escapes, nothing is sent): a reachable state in which the
   root waits for a result that never comes and no rank can move - in both send modes
   (finding F23 group C, repaired by 32238ed) *)
Theorem C06_old_worker_job_error_stuck :
  forall md, exists s : est nat nat,
    ereach c06_f (c06_fails [11]) (c06_allowed [0; 1; 2]) false md (einit [10; 11; 12; 13] 2) s /\
    estuck c06_f (c06_fails [11]) (c06_allowed [0; 1; 2]) false md s /\
    epc s = RLoop 1 /\ eran s = [10; 11; 12; 13] /\ egot s = [31; 37; 40] /\ eerr s = None /\
    Forall (fun w => einb w = [] /\ eoutb w = []) (ews s).
Proof. exact old_worker_job_error_stuck. Qed.
Print Assumptions C06_old_worker_job_error_stuck.

(* non-vacuity: world size 3 (2 workers), tasks 10 11 12 13, the job fails on 11.  The root
   yields 31, receives the error of 11 from worker 2, drains worker 1 (its result for 12 is
   dropped), task 13 is never handed out, all three ranks raise the error of task 11; the
   checker used by the harness accepts the run (code 0) in both send modes and rejects an
   observation in which only the root raised (flag0 + flag1 = 3) *)
Example C06_job_error_concrete :
  c06_edispatch_case false 2 [0; 1; 2] [10; 11; 12; 13] [11]
    [EInitTask 0; EWTask 0; EInitTask 1; EWTask 1; EInitDone; ERecvMore 0; EWTask 0; ERecvErr 1; EWEoq 1;
     ERecvDrain 0; EWEoq 0; EExit; EBar]
    true [31] [10; 11; 12] [Some 11; Some 11; Some 11] = 0 /\
  c06_edispatch_case true 2 [0; 1; 2] [10; 11; 12; 13] [11]
    [EInitTask 0; EWTask 0; EInitTask 1; EWTask 1; EInitDone; ERecvMore 0; EWTask 0; ERecvErr 1; EWEoq 1;
     ERecvDrain 0; EWEoq 0; EExit; EBar]
    true [31] [10; 11; 12] [Some 11; Some 11; Some 11] = 0 /\
  c06_edispatch_case false 2 [0; 1; 2] [10; 11; 12; 13] [11]
    [EInitTask 0; EWTask 0; EInitTask 1; EWTask 1; EInitDone; ERecvMore 0; EWTask 0; ERecvErr 1; EWEoq 1;
     ERecvDrain 0; EWEoq 0; EExit; EBar]
    true [31] [10; 11; 12] [Some 11; None; None] = 3.
Proof. vm_compute. repeat split; reflexivity. Qed.

(* ---- the CONSUMER of the root's iterator (progress=True: utils.logging.Indicator) ----
   _mpi_root_task is a generator, suspended at `yield result` between receiving a result and
   answering the worker.  The theorems above are about a consumer that exhausts the iterator (every
   caller in the library does, with and without progress bar).  [qstep ... k]: the consumer stops
   asking after its k-th item (a wrapper that breaks once it has seen the expected number of
   items, islice, zip behind a shorter iterable): for every task list, number of workers, rank set,
   send mode, schedule and every k. *)

(* the executable step used to replay the logs of such runs is sound *)
Theorem C06_qstep_with_sound :
  forall (T R : Type) (f : T -> R) allowed fb md k c (s s' : qst T R),
  qstep_with f allowed fb md k c s = Some s' -> qstep f allowed fb md k s s'.
Proof. exact @qstep_with_sound. Qed.
Print Assumptions C06_qstep_with_sound.

(* every such run is finite *)
Theorem C06_consumer_terminates :
  forall (T R : Type) (f : T -> R) allowed fb md k n (s s' : qst T R),
  qsteps f allowed fb md k n s s' -> n + mu (qs s') <= mu (qs s).
Proof. exact @qdispatch_terminates. Qed.
Print Assumptions C06_consumer_terminates.

(* a consumer that asks for more items than there are tasks never stops; its runs are exactly the
   runs of the protocol (so all theorems above apply to it) *)
Theorem C06_consumer_exhausts_is_protocol :
  forall (T R : Type) (f : T -> R) allowed fb md k (tasks : list T) n,
  length tasks < k ->
  (forall s : qst T R, qreach f allowed fb md k (qinit tasks n) s ->
                       qstop s = None /\ reach f allowed fb md (init tasks n) (qs s)) /\
  (forall b : st T R, reach f allowed fb md (init tasks n) b -> qreach f allowed fb md k (qinit tasks n) (mkQ b None)).
Proof. exact @consumer_exhausts_is_protocol. Qed.
Print Assumptions C06_consumer_exhausts_is_protocol.

(* once the consumer has stopped: the root sits in its loop and never enters the closing
   collective, and the worker whose result was the k-th item waits in recv(source=0) with nothing
   in flight to it - it never gets its end-of-queue sentinel *)
Theorem C06_consumer_stop_blocks :
  forall (T R : Type) (f : T -> R) allowed fb md k (tasks : list T) n (s : qst T R) who,
  1 <= k -> qreach f allowed fb md k (qinit tasks n) s -> qstop s = Some who ->
  (exists a, pc (qs s) = RLoop a) /\ length (got (qs s)) = k /\ k <= length tasks /\
  (forall i, who = Some i ->
     exists w, nth_error (ws (qs s)) i = Some w /\ inb w = [] /\ outb w = [] /\ fin w = false).
Proof. exact @consumer_stop_blocks. Qed.
Print Assumptions C06_consumer_stop_blocks.

Theorem C06_consumer_stopped_root_frozen :
  forall (T R : Type) (f : T -> R) allowed fb md k (s s' : qst T R) who,
  qstep f allowed fb md k s s' -> qstop s = Some who ->
  qstop s' = Some who /\ pc (qs s') = pc (qs s) /\ pend (qs s') = pend (qs s) /\ got (qs s') = got (qs s).
Proof. exact @qstopped_frozen. Qed.
Print Assumptions C06_consumer_stopped_root_frozen.

(* ... every stopped state runs into one in which nothing can move (deadlock) ... *)
Theorem C06_consumer_stop_gets_stuck :
  forall (T R : Type) (f : T -> R) allowed fb md k (s : qst T R) who,
  qstop s = Some who ->
  exists s', qreach f allowed fb md k s s' /\ qstop s' = Some who /\ qquiet s' = true /\ qstuck f allowed fb md k s'.
Proof. exact @consumer_stop_gets_stuck. Qed.
Print Assumptions C06_consumer_stop_gets_stuck.

(* ... and a consumer that stops after k <= |tasks| items - even after the LAST one, when it has
   everything it expects - makes termination impossible: NO run ends with all ranks returned
   (repaired algorithm, every rank set, also max_workers = 1) *)
Theorem C06_consumer_stop_never_done :
  forall (T R : Type) (f : T -> R) allowed md k (tasks : list T) n (s : qst T R),
  1 <= k <= length tasks -> qreach f allowed true md k (qinit tasks n) s -> pc (qs s) <> RDone.
Proof. exact @consumer_stop_never_done_repaired. Qed.
Print Assumptions C06_consumer_stop_never_done.

(* refutation of "a consumer may stop once it has all items": world size 3, tasks 10 20 30, stop
   after 3 items.  The root's values are complete and correct, worker 2 has left its loop, worker 1
   (it delivered the third item) is never answered, the root never enters the closing collective,
   nothing can move - in both send modes *)
Theorem C06_consumer_stop_after_last_item_refuted :
  forall md, exists s : qst nat nat,
    qreach c06_f (c06_allowed [0; 1; 2]) true md 3 (qinit [10; 20; 30] 2) s /\
    qstuck c06_f (c06_allowed [0; 1; 2]) true md 3 s /\
    qstop s = Some (Some 0) /\ pc (qs s) = RLoop 1 /\ pend (qs s) = [] /\
    got (qs s) = [31; 61; 91] /\ got (qs s) = map c06_f [10; 20; 30] /\ ran (qs s) = [10; 20; 30] /\
    ws (qs s) = [mkW [] [] false; mkW [] [] true].
Proof. exact consumer_stop_after_last_item_refuted. Qed.
Print Assumptions C06_consumer_stop_after_last_item_refuted.

(* non-vacuity: the checker used by the harness accepts that run with the observation "only the
   root came back" (code 0), rejects "every rank came back" (flag0), and accepts the run of a
   consumer that asks for a fourth item - it is the complete protocol run, every rank returns *)
Example C06_consumer_concrete :
  c06_qdispatch_case false 2 [0; 1; 2] [10; 20; 30] 3
    [QRun (CInitTask 0); QRun (CWTask 0); QRun (CInitTask 1); QRun (CWTask 1); QRun CInitDone;
     QRun (CRecvMore 0); QRun (CWTask 0); QRun (CRecvLast 1); QRun (CWEoq 1); QStopRecv 0]
    [31; 61; 91] [10; 20; 30] [true; false; false] = 0 /\
  c06_qdispatch_case true 2 [0; 1; 2] [10; 20; 30] 3
    [QRun (CInitTask 0); QRun (CWTask 0); QRun (CInitTask 1); QRun (CWTask 1); QRun CInitDone;
     QRun (CRecvMore 0); QRun (CWTask 0); QRun (CRecvLast 1); QRun (CWEoq 1); QStopRecv 0]
    [31; 61; 91] [10; 20; 30] [true; true; true] = 1 /\
  c06_qdispatch_case false 2 [0; 1; 2] [10; 20; 30] 4
    [QRun (CInitTask 0); QRun (CWTask 0); QRun (CInitTask 1); QRun (CWTask 1); QRun CInitDone;
     QRun (CRecvMore 0); QRun (CWTask 0); QRun (CRecvLast 1); QRun (CWEoq 1); QRun (CRecvLast 0);
     QRun (CWEoq 0); QRun CExit; QRun CBar]
    [31; 61; 91] [10; 20; 30] [true; true; true] = 0.
Proof. vm_compute. repeat split; reflexivity. Qed.

(* ---- error paths: documented refusals under MPI (finding F23) ----
   a world of synchronising collectives; a rank = the list of calls it enters until it returns
   or raises (Model/MpiWrite.v, end) *)

(* the executable step is exactly the relation *)
Theorem C06_collective_step_executable :
  forall w w1 : list (list nat), cstep w w1 <-> cstep_fun w = Some w1.
Proof. exact cstep_fun_spec. Qed.
Print Assumptions C06_collective_step_executable.

(* every rank returns iff all ranks enter the same sequence of collective calls - for every
   number of ranks and every call sequence *)
Theorem C06_collectives_terminate_iff_aligned :
  forall w : list (list nat), cterminates w <-> aligned w = true.
Proof. exact cterminates_iff_aligned. Qed.
Print Assumptions C06_collectives_terminate_iff_aligned.

(* ... and otherwise the world reaches a state in which some rank has not returned and no
   collective can complete any more *)
Theorem C06_misaligned_world_gets_stuck :
  forall w : list (list nat), aligned w = false -> exists w', creach w w' /\ cstuck w'.
Proof. exact not_aligned_reaches_stuck. Qed.
Print Assumptions C06_misaligned_world_gets_stuck.

(* a refusal decided by every rank at the same point of the protocol: all ranks return, for
   every world size, every prefix and every continuation of the caller *)
Theorem C06_refusal_all_ranks_terminates :
  forall n (pre next : list nat), cterminates (world_of n (refuse_all pre next)).
Proof. exact refusal_all_ranks_terminates. Qed.
Print Assumptions C06_refusal_all_ranks_terminates.

(* a refusal that only some ranks detect (root-only check behind `if on_worker(): return`,
   the writer rank opening the cache, the root reading the data, a job raising on a worker)
   while the others still have a collective ahead: never terminates on all ranks, whatever the
   caller does afterwards *)
Theorem C06_refusal_some_ranks_blocks :
  forall n (who : nat -> bool) (pre body next : list nat) r1 r2,
  r1 < n -> r2 < n -> who r1 = true -> who r2 = false -> body <> [] ->
  ~ cterminates (world_of n (refuse_some who pre body next)).
Proof. exact refusal_some_ranks_blocks. Qed.
Print Assumptions C06_refusal_some_ranks_blocks.

Theorem C06_refusal_some_ranks_stuck :
  forall n (who : nat -> bool) (pre body next : list nat) r1 r2,
  r1 < n -> r2 < n -> who r1 = true -> who r2 = false -> body <> [] ->
  exists w', creach (world_of n (refuse_some who pre body next)) w' /\ cstuck w'.
Proof. exact refusal_some_ranks_stuck. Qed.
Print Assumptions C06_refusal_some_ranks_stuck.

(* non-vacuity: three ranks, a probe larger than the random sample.  Checked on every rank
   before `if on_worker(): return None`: all ranks raise and meet in the caller's barrier (8);
   checked behind it: only the root raises and enters the barrier, ranks 1 and 2 wait in
   bcast(patch_centers, root=0) (17) - the checker used by the harness accepts the first run
   (code 0) and reports "some rank did not return" (flag1) for the second *)
Example C06_refusal_concrete :
  aligned (world_of 3 (refuse_all [] [8])) = true /\
  aligned (world_of 3 (refuse_some (fun r => r =? 0) [] [17; 33; 17; 40] [8])) = false /\
  c06_refusal_case [world_of 3 (refuse_all [] [8; 17; 17])] true true true = 0 /\
  c06_refusal_case [[[8]; [17]; [17]]] false true true = 2.
Proof. vm_compute. repeat split; reflexivity. Qed.

(* ---- node layouts: the ranks of the world report different processor names ----
   [hosts]: the processor name of every world rank; [nproc hosts mw]: the number of processing
   ranks the write pipeline uses (the first min(mw, size) ranks on the reader's node, minus the
   writer), None = the request is refused on every rank; [scatter np]: a chunk cut into np pieces
   (numpy.array_split), one per processing rank; [scatter_var nsplit np]: cut into nsplit pieces,
   one handed to each of the np processing ranks *)

(* for every assignment of processor names, every worker limit, every list of chunks, every
   schedule: when the writer stops it has stored exactly the input records *)
Theorem C06_layout_no_loss :
  forall (A : Type) hosts mw np sm (data : list (list A)) (s : wst A),
  nproc hosts mw = Some np ->
  wreach Sync sm (winit (map (scatter np) data) (np - 1)) s -> stopped s = true ->
  Permutation (concat data) (stored s) /\ unreceived s = [].
Proof. exact layout_no_loss. Qed.
Print Assumptions C06_layout_no_loss.

(* the scatter step of the protocol is enabled: one piece per further processing rank *)
Theorem C06_layout_scatter_enabled :
  forall (A : Type) np (l : list A), 0 < np -> length (snd (scatter np l)) = np - 1.
Proof. exact @scatter_length. Qed.
Print Assumptions C06_layout_scatter_enabled.

(* writer + processing ranks = the allowed ranks on the reader's node; a request is refused
   exactly when fewer than two workers are allowed or the reader has no allowed rank on its node *)
Theorem C06_layout_participants :
  forall hosts mw np, nproc hosts mw = Some np -> length (active_ranks hosts mw) = S np /\ 0 < np.
Proof. intros hosts mw np H. split; [exact (nproc_length _ _ H)|exact (nproc_pos _ _ H)]. Qed.
Print Assumptions C06_layout_participants.

Theorem C06_layout_refused_iff :
  forall hosts mw,
  nproc hosts mw = None <-> eff_workers (length hosts) mw < 2 \/ length (active_ranks hosts mw) < 2.
Proof. exact nproc_none_iff. Qed.
Print Assumptions C06_layout_refused_iff.

(* on ONE node the number of processing ranks is the worker limit minus the writer, and cutting a
   chunk by that number is the scatter: worlds of one node cannot tell the two apart, whatever
   their size, worker limit and schedule *)
Theorem C06_layout_single_node :
  forall h0 t mw, Forall (eq h0) t ->
  nproc (h0 :: t) mw = if eff_workers (S (length t)) mw <? 2 then None
                       else Some (eff_workers (S (length t)) mw - 1).
Proof. exact nproc_single_node. Qed.
Print Assumptions C06_layout_single_node.

Theorem C06_layout_variant_single_node_agrees :
  forall (A : Type) h0 t mw np (l : list A),
  Forall (eq h0) t -> nproc (h0 :: t) mw = Some np ->
  scatter_var (eff_workers (S (length t)) mw - 1) np l = scatter np l.
Proof. exact variant_single_node_agrees. Qed.
Print Assumptions C06_layout_variant_single_node_agrees.

(* two nodes with two ranks each, no worker limit: one processing rank.  Cutting by the worker
   limit loses two of three records on EVERY schedule, the writer stops, nothing is left unreceived *)
Theorem C06_layout_variant_multi_node_refuted :
  nproc [0; 0; 1; 1] None = Some 1 /\
  forall sm (s : wst nat),
    wreach Sync sm (winit (map (scatter_var (eff_workers 4 None - 1) 1) [[1; 2; 3]]) (1 - 1)) s ->
    stopped s = true -> stored s <> [] /\ ~ Permutation (concat [[1; 2; 3]]) (stored s).
Proof. exact variant_multi_node_refuted. Qed.
Print Assumptions C06_layout_variant_multi_node_refuted.

(* non-vacuity: 4 ranks named 0,1,0,0 without a limit - ranks 0,2,3 are on the reader's node, 2
   writes, 0 and 3 process chunks of 16, 16, 9 records (code 0); the same world when only the
   first of three pieces of every chunk reaches a processing rank: the model disagrees on how a
   chunk is cut only if the pieces are unbalanced, the lost records are reported (flags 1, 2);
   a reader alone on its node: refused (code 0) *)
Example C06_layout_concrete :
  active_ranks [0; 1; 0; 0] None = [0; 2; 3] /\ nproc [0; 1; 0; 0] (Some 2) = Some 1 /\
  array_split [1; 2; 3; 4; 5] 3 = [[1; 2]; [3; 4]; [5]] /\
  c06_layout_case [0; 1; 0; 0] None false 2 [0; 2; 3] [0; 3] [[8; 8]; [8; 8]; [5; 4]] 41 41 = 0 /\
  c06_layout_case [0; 0; 1; 1] None false 1 [0; 1] [0] [[6]; [6]; [3]] 41 15 = 6 /\
  c06_layout_case [0; 1; 1] None true 0 [] [] [] 41 0 = 0 /\
  c06_layout_case [0; 1; 1] None false 1 [0; 1] [0] [[41]] 41 41 = 1.
Proof. vm_compute. repeat split; reflexivity. Qed.

(* ------------------------------------------------------------------------------------------
   Ranks are separate PROCESSES living across several library calls (Model/RankMemo.v).
   The cache directories are shared, process state is private.  A history = (re)builds of tree
   files (by any rank), overwrites (trees gone) and reads by ranks; the content of a file is a
   version number (data in the cache + binning).  SPEC: every read returns the version the file
   holds now.  harness/props/c06_procworld.py runs such histories with one OS process per rank.
   ------------------------------------------------------------------------------------------ *)

(* the library as it is - no memo across calls: every rank of every world reads the current trees *)
Theorem C06_world_nomemo_reads_current :
  forall evs, mreads PNone minit evs = spec_reads none_yet evs.
Proof. exact nomemo_reads_current. Qed.
Print Assumptions C06_world_nomemo_reads_current.

(* a per-process memo is compatible with the property when every entry is validated against the
   on-disk generation stamp of the file it was read from *)
Theorem C06_world_validated_memo_reads_current :
  forall evs, mreads PValidated minit evs = spec_reads none_yet evs.
Proof. exact validated_reads_current. Qed.
Print Assumptions C06_world_validated_memo_reads_current.

(* hence the reads of the world are those of the single process that runs the same history -
   whatever the single process does with ITS memo (p) *)
Theorem C06_world_equals_single_process :
  forall evs p, mreads PNone minit evs = mreads p minit (single evs) /\
                mreads PValidated minit evs = mreads p minit (single evs).
Proof. intros evs p. split; [exact (world_equals_single_process_nomemo evs p)|exact (world_equals_single_process_validated evs p)]. Qed.
Print Assumptions C06_world_equals_single_process.

(* a private memo that is not validated is invisible while ONE process does everything (so no
   single-process test and no world whose ranks share their module state can see it) ... *)
Theorem C06_world_private_memo_single_process_ok :
  forall r evs, Forall (on_rank r) evs -> mreads PPrivate minit evs = spec_reads none_yet evs.
Proof. exact private_single_process_current. Qed.
Print Assumptions C06_world_private_memo_single_process_ok.

(* ... and wrong after a rebuild on ANOTHER rank, for all ranks, files and versions: only the
   rank that rebuilds can drop its own entry *)
Theorem C06_world_private_memo_stale_after_foreign_rebuild :
  forall r r' f v v', r <> r' ->
  mreads PPrivate minit [MBuild r' f v; MRead r f; MBuild r' f v'; MRead r f] = [Some v; Some v] /\
  spec_reads none_yet [MBuild r' f v; MRead r f; MBuild r' f v'; MRead r f] = [Some v; Some v'].
Proof. exact private_stale_after_foreign_rebuild. Qed.
Print Assumptions C06_world_private_memo_stale_after_foreign_rebuild.

Theorem C06_world_private_memo_refuted :
  exists evs, mreads PPrivate minit evs <> mreads PPrivate minit (single evs).
Proof. exact world_private_memo_refuted. Qed.
Print Assumptions C06_world_private_memo_refuted.

(* the checker of the per-rank reads: code 0 = the observed reads are the current versions *)
Theorem C06_world_memo_case_sound :
  forall n evs obs, c06_memo_case n evs obs = 0 -> obs = map enc (spec_reads none_yet evs).
Proof. exact memo_case_sound. Qed.
Print Assumptions C06_world_memo_case_sound.

(* non-vacuity: 3 ranks; rank 1 builds file 5 (version 1), ranks 0 and 2 read it, the cache is
   overwritten (no trees: 0), rank 2 rebuilds (version 2) and everybody reads: code 0.  The same
   history where rank 0 still gets version 1 after the rebuild: flag 2.  The private memo model
   produces exactly that stale read, the validated one does not. *)
Example C06_world_concrete :
  let h := [MBuild 1 5 1; MRead 0 5; MRead 2 5; MDrop 5; MRead 0 5; MBuild 2 5 2; MRead 0 5; MRead 1 5; MRead 2 5] in
  c06_memo_case 3 h [1; 1; 0; 2; 2; 2] = 0 /\
  c06_memo_case 3 h [1; 1; 0; 1; 2; 2] = 2 /\
  c06_memo_case 2 h [1; 1; 0; 2; 2; 2] = 1 /\
  map enc (mreads PPrivate minit h) = [1; 1; 0; 1; 2; 2] /\
  map enc (mreads PValidated minit h) = [1; 1; 0; 2; 2; 2].
Proof. vm_compute. repeat split; reflexivity. Qed.

(* ------------------------------------------------------------------------------------------
   How OFTEN a job is executed; jobs that fail TRANSIENTLY (Model/DispatchRetry.v).
   The theorems above take the failure of a job as a property of the task ([fails t]) and count the
   task MESSAGES.  Here the outcome of every single execution is chosen by the environment (the flag of
   [XExec i failed] / [XFallback failed]): a job may fail on its first execution only, always, on one rank
   only, with whatever exception.  [xlog] = the execution log, one entry (task, rank, failed?) per call of
   the job function, read as a multiset.  A run = a list of choices ([xrun]); [POnce] = the worker of
   utils/parallel.py (one execution per task received, result or error is sent), [PRetry] = a worker
   that runs a job again after an error it considers transient.  For every task list, number of workers,
   rank set, schedule and outcome of every execution.
   ------------------------------------------------------------------------------------------ *)

(* every run is finite, and a run that is not over can always go on (both workers) *)
Theorem C06_exec_terminates :
  forall (T R : Type) (f : T -> R) pol transient allowed n cs (s s' : xst T R),
  xrun f pol transient allowed n cs s = Some s' -> length cs + xmu s' <= xmu s.
Proof. exact @xrun_bounded. Qed.
Print Assumptions C06_exec_terminates.

Theorem C06_exec_progress :
  forall (T R : Type) (f : T -> R) pol transient allowed n (s : xst T R),
  xdone s = false -> exists c s', xstep_with f pol transient allowed n c s = Some s'.
Proof. exact @xprogress. Qed.
Print Assumptions C06_exec_progress.

(* EVERY terminating run, failing or not: the tasks handed out - all but the suffix still pending when
   the first error arrived - are in the execution log exactly once, the others not at all *)
Theorem C06_exec_exactly_once :
  forall (T R : Type) (f : T -> R) transient allowed n tasks cs (s : xst T R),
  xrun f POnce transient allowed n cs (xinit tasks) = Some s -> xdone s = true ->
  exists h, tasks = h ++ xpend s /\ Permutation h (map (@etask T) (xlog s)).
Proof. exact @xonce_executed_exactly_once. Qed.
Print Assumptions C06_exec_exactly_once.

(* the log as a multiset: no task id occurs twice in the log of a terminating run; in a run that ends
   without the error flag every task id occurs exactly once *)
Theorem C06_exec_count :
  forall (T R : Type) (f : T -> R) transient allowed n (eq_dec : forall x y : T, {x = y} + {x <> y}) tasks cs (s : xst T R),
  NoDup tasks -> xrun f POnce transient allowed n cs (xinit tasks) = Some s -> xdone s = true ->
  forall t, count_occ eq_dec (map (@etask T) (xlog s)) t <= 1
            /\ (xerr s = None -> In t tasks -> count_occ eq_dec (map (@etask T) (xlog s)) t = 1).
Proof. exact @xonce_count_occ. Qed.
Print Assumptions C06_exec_count.

(* the ranks raise iff SOME execution failed - first execution, only execution, on whatever rank - and
   then the error of a failed execution; every rank gets the root's flag *)
Theorem C06_exec_error_iff :
  forall (T R : Type) (f : T -> R) transient allowed n tasks cs (s : xst T R),
  xrun f POnce transient allowed n cs (xinit tasks) = Some s -> xdone s = true ->
  (xerr s <> None <-> exists e, In e (xlog s) /\ efail e = true)
  /\ (forall t, xerr s = Some t -> exists w, In (t, w, true) (xlog s))
  /\ xout s = repeat (xerr s) (S n).
Proof. exact @xonce_error_iff. Qed.
Print Assumptions C06_exec_error_iff.

(* without the error flag: every task executed once, no execution failed, the root yielded map f tasks *)
Theorem C06_exec_no_error_result :
  forall (T R : Type) (f : T -> R) transient allowed n tasks cs (s : xst T R),
  xrun f POnce transient allowed n cs (xinit tasks) = Some s -> xdone s = true -> xerr s = None ->
  Permutation tasks (map (@etask T) (xlog s)) /\ Permutation (map f tasks) (xgot s)
  /\ Forall (fun e => efail e = false) (xlog s).
Proof. exact @xonce_no_error_result. Qed.
Print Assumptions C06_exec_no_error_result.

(* where failing is a property of the task (in particular "fails on its first execution", since there
   is no second one): the ranks raise iff the single-process run raises *)
Theorem C06_exec_agrees_with_single_process :
  forall (T R : Type) (f : T -> R) transient allowed n tasks cs (s : xst T R),
  xrun f POnce transient allowed n cs (xinit tasks) = Some s -> xdone s = true ->
  forall bad : T -> bool, (forall e, In e (xlog s) -> efail e = bad (etask e)) ->
  (xerr s <> None <-> xseq bad tasks <> None).
Proof. exact @xonce_agrees_with_single_process. Qed.
Print Assumptions C06_exec_agrees_with_single_process.

(* a worker that re-runs jobs is the worker above as long as no error it considers transient occurs -
   no run without such a failure can tell them apart ... *)
Theorem C06_retry_invisible_without_transient_errors :
  forall (T R : Type) (f : T -> R) tr allowed n c (s : xst T R),
  xstep_with f PRetry (fun _ => false) allowed n c s = xstep_with f POnce tr allowed n c s.
Proof. exact xretry_invisible_without_transient_errors. Qed.
Print Assumptions C06_retry_invisible_without_transient_errors.

(* ... but whenever a task's first execution fails transiently and the second succeeds, the task is in
   the log twice and what the root receives is a result: the error is gone *)
Theorem C06_retry_executes_twice :
  forall (T R : Type) (f : T -> R) tr allowed n i t r (s : xst T R),
  xdone s = false -> xtake i (xfl s) = Some (XHas t, r) -> tr t = true ->
  exists s', xrun f PRetry tr allowed n [XExec i true; XExec i false] s = Some s'
             /\ xlog s' = xlog s ++ [(t, S i, true); (t, S i, false)]
             /\ xfl s' = (i, XOut (Ok (f t))) :: r /\ xerr s' = xerr s.
Proof. exact xretry_executes_twice. Qed.
Print Assumptions C06_retry_executes_twice.

(* refutation: 3 ranks, tasks 10 11 12, the FIRST execution of 11 fails.  The single-process run raises.
   With the retrying worker all ranks return, nobody raises, the root has all three results, task 11 is
   in the execution log twice; the same events are no run of the worker above (event 4, the second
   execution on worker 2, is not enabled) *)
Theorem C06_retry_refuted :
  exists s : xst nat nat,
    xrun c06_f PRetry (fun _ => true) (c06_allowed [0; 1; 2]) 2 xretry_run (xinit [10; 11; 12]) = Some s /\
    xdone s = true /\ xerr s = None /\ xout s = [None; None; None] /\
    xgot s = [31; 34; 37] /\ xgot s = map c06_f [10; 11; 12] /\
    xlog s = [(10, 1, false); (11, 2, true); (11, 2, false); (12, 1, false)] /\
    count_occ Nat.eq_dec (map (@etask nat) (xlog s)) 11 = 2 /\
    xseq (c06_fails [11]) [10; 11; 12] = Some 11 /\
    ~ Permutation [10; 11; 12] (map (@etask nat) (xlog s)).
Proof. exact xretry_refuted. Qed.
Print Assumptions C06_retry_refuted.

Theorem C06_retry_run_not_once :
  xrun c06_f POnce (fun _ => true) (c06_allowed [0; 1; 2]) 2 xretry_run (xinit [10; 11; 12]) = None
  /\ xfirst_disabled c06_f POnce (fun _ => true) (c06_allowed [0; 1; 2]) 2 xretry_run (xinit [10; 11; 12]) = 4.
Proof. exact xretry_run_not_once. Qed.
Print Assumptions C06_retry_run_not_once.

(* the checker of the execution records: code 0 = no task executed twice, the ranks end alike, they raise
   iff an execution failed (the error of a failed execution, with the exception class the job raised for
   that task), without an error every task was executed, and - where it is defined - the outcome is the
   single-process one *)
Theorem C06_exec_case_sound :
  forall nw ranks tasks cs ex got log out cls bad0,
  c06_xdispatch_case nw ranks tasks cs ex got log out cls bad0 = 0 ->
  nsubm (map (fun e => fst (fst e)) log) tasks = true
  /\ (length out =? S nw) && forallb (onn_eqb (match out with o :: _ => o | [] => None end)) out = true
  /\ match (match out with o :: _ => o | [] => None end) with
     | None => forallb (fun e => negb (snd e)) log = true
               /\ nlist_eqb (nsort (map (fun e => fst (fst e)) log)) (nsort tasks) = true
     | Some (t, c) => existsb (fun e => (fst (fst e) =? t) && snd e) log = true /\ nlookup t cls = Some c
     end
  /\ match bad0 with
     | None => True
     | Some l => is_some (match out with o :: _ => o | [] => None end) = is_some (xseq (c06_fails l) tasks)
     end.
Proof. exact xdispatch_case_sound. Qed.
Print Assumptions C06_exec_case_sound.

(* non-vacuity: world size 3, tasks 10 11 12.  The first execution of 11 fails on rank 2 (exception class 7):
   root yields 31, hands 12 to rank 1, receives the error, drops the result for 12, all ranks raise the
   error of 11 with class 7, as the single-process run does: code 0.  The observation of the retrying
   worker - 11 executed twice, everybody returns, all results there: event 4 not enabled (flag0, 256 * 5),
   error masked (flag2), executed twice (flag3, flag5), not the single-process outcome (flag6).  The
   first observation with another exception class on the ranks: flag7.  max_workers = 1, the root's own
   second execution fails: code 0 *)
Example C06_exec_concrete :
  c06_xdispatch_case 2 [0; 1; 2] [10; 11; 12]
    [XHand 0; XHand 1; XExec 0 false; XExec 1 true; XReport 0; XHand 0; XReport 1; XExec 0 false; XReport 0; XFinish]
    true [31] [(10, 1, false); (11, 2, true); (12, 1, false)] [Some (11, 7); Some (11, 7); Some (11, 7)] [(11, 7)] (Some [11]) = 0 /\
  c06_xdispatch_case 2 [0; 1; 2] [10; 11; 12] xretry_run
    true [31; 34; 37] [(10, 1, false); (11, 2, true); (11, 2, false); (12, 1, false)] [None; None; None] [(11, 7)] (Some [11])
    = 1 + 4 + 8 + 32 + 64 + 256 * 5 /\
  c06_xdispatch_case 2 [0; 1; 2] [10; 11; 12]
    [XHand 0; XHand 1; XExec 0 false; XExec 1 true; XReport 0; XHand 0; XReport 1; XExec 0 false; XReport 0; XFinish]
    true [31] [(10, 1, false); (11, 2, true); (12, 1, false)] [Some (11, 3); Some (11, 3); Some (11, 3)] [(11, 7)] None = 128 /\
  c06_xdispatch_case 2 [0] [10; 11] [XFallback false; XFallback true; XFinish]
    false [0] [(10, 0, false); (11, 0, true)] [Some (11, 2); Some (11, 2); Some (11, 2)] [(11, 2)] (Some [11]) = 0.
Proof. vm_compute. repeat split; reflexivity. Qed.

(* ---------------- files written by jobs (Model/RankWrites.v) ---------------- *)
From Verif Require RankWrites RankWritesP.
(* whatever rank runs which job, every job's file is written, as in the single-process run ... *)
Theorem C06_job_files_written_on_any_rank : forall (assign : nat -> nat) (tasks : list nat),
  RankWrites.written RankWrites.unguarded assign tasks = tasks.
Proof. exact RankWritesP.unguarded_writes_all. Qed.
Print Assumptions C06_job_files_written_on_any_rank.
(* ... a writer guarded by "on the root rank only" writes none of the files of jobs that run on worker ranks *)
Theorem C06_root_only_writer_refuted : forall (assign : nat -> nat) (tasks : list nat),
  (forall k, In k tasks -> assign k <> 0%nat) -> RankWrites.written RankWrites.root_only assign tasks = nil.
Proof. exact RankWritesP.root_only_writes_nothing_on_workers. Qed.
Print Assumptions C06_root_only_writer_refuted.
