(* C03 — jackknife sample k is the statistic with patch k left out.
   Statements only; proofs are in Proofs/JackknifeP.v and Proofs/EstimatorsP.v. *)
From Verif Require Import Prelude Jackknife JackknifeP Estimators EstimatorsP.
Open Scope Q_scope.

(* total - row - column + diagonal = the total with patch k removed from both catalogs:
   any matrix, any number of patches *)
Theorem C03_sample_is_loo : forall (M : mat) k,
  (k < length M)%nat -> Forall (fun r => (k < length r)%nat) M -> sample M k == loo M k.
Proof. exact sample_is_loo. Qed.
Print Assumptions C03_sample_is_loo.

(* all bins and all samples of sample_patch_sum, in patch order *)
Theorem C03_sps_samples_is_loo : forall N (A : list mat),
  Forall (square N) A -> qmat_eq (sps_samples N A) (loo_samples N A).
Proof. exact sps_samples_is_loo. Qed.
Print Assumptions C03_sps_samples_is_loo.

(* PatchedSumWeights, cross-correlation: (sum_{i<>k} u_i) (sum_{j<>k} v_j) *)
Theorem C03_weights_loo_cross : forall u v k,
  (k < length u)%nat -> (k < length v)%nat ->
  sample (weights_array false u v) k == qsum (remove_nth k u) * qsum (remove_nth k v).
Proof. exact weights_loo_cross. Qed.
Print Assumptions C03_weights_loo_cross.

(* PatchedSumWeights, autocorrelation (upper triangle, halved diagonal):
   sum_{i<j; i,j<>k} w_i w_j + 1/2 sum_{i<>k} w_i^2, which is 1/2 (sum_{i<>k} w_i)^2 *)
Theorem C03_weights_loo_auto : forall w k,
  (k < length w)%nat ->
  sample (weights_array true w w) k == upper_half_sum (remove_nth k w) (remove_nth k w)
  /\ upper_half_sum (remove_nth k w) (remove_nth k w)
     == (1 # 2) * (qsum (remove_nth k w) * qsum (remove_nth k w)).
Proof. exact weights_loo_auto. Qed.
Print Assumptions C03_weights_loo_auto.

(* NormalisedCounts: sample k = the normalised count recomputed without patch k *)
Theorem C03_normalised_sample_is_recount : forall N auto (M : mat) u v k,
  square N M -> length u = N -> length v = N -> (k < N)%nat ->
  sample M k / sample (weights_array auto u v) k
  == nc_stat auto (del k M) (remove_nth k u) (remove_nth k v).
Proof. exact normalised_sample_is_recount. Qed.
Print Assumptions C03_normalised_sample_is_recount.

Theorem C03_nc_samples_is_recount : forall N auto (C : list mat) (U V : list (list Q)),
  Forall (square N) C -> Forall (fun u => length u = N) U -> Forall (fun v => length v = N) V ->
  qmat_eq (nc_samples N auto C U V) (nc_recount N auto C U V).
Proof. exact nc_samples_is_recount. Qed.
Print Assumptions C03_nc_samples_is_recount.

(* CorrFunc.sample: the estimator of sample k = the documented estimator of the data without
   patch k, for every combination of available pair counts *)
Theorem C03_corr_sample_is_recount : forall N k dd dr rd rr,
  (k < N)%nat -> t_wf N dd -> owf N dr -> owf N rd -> owf N rr ->
  mixed_nonzero (option_map (t_sample k) dr) (option_map (t_sample k) rd) (option_map (t_sample k) rr) ->
  estimate (t_sample k dd) (option_map (t_sample k) dr) (option_map (t_sample k) rd) (option_map (t_sample k) rr)
  == estimate_doc (t_recount k dd) (option_map (t_recount k) dr) (option_map (t_recount k) rd)
                  (option_map (t_recount k) rr).
Proof. exact corr_sample_is_recount. Qed.
Print Assumptions C03_corr_sample_is_recount.

(* covariance: the code computes (N-1)/N sum_k (x_k - mean)(x_k - mean)^T ... *)
Theorem C03_cov_code_is_spec : forall X i j, cov_code X i j == cov_spec X i j.
Proof. exact cov_code_is_spec. Qed.
Print Assumptions C03_cov_code_is_spec.

(* (the checker evaluates the same rational with reduced fractions) *)
Theorem C03_cov_eval_is_code : forall X i j, cov_eval X i j == cov_code X i j.
Proof. exact cov_eval_is_code. Qed.
Print Assumptions C03_cov_eval_is_code.

(* ... which is symmetric ... *)
Theorem C03_cov_symmetric : forall X i j, cov_code X i j == cov_code X j i.
Proof. exact cov_symmetric. Qed.
Print Assumptions C03_cov_symmetric.

(* ... and positive semi-definite: v^T C v = (N-1)/N sum_k (v . (x_k - mean))^2 >= 0 *)
Theorem C03_cov_psd : forall X v,
  let B := ncols X in
  quad B v (cov_spec X)
  == (qn (length X - 1) / qn (length X)) * qsum (map (fun r => dotv B v (dev X r) * dotv B v (dev X r)) X)
  /\ 0 <= quad B v (cov_spec X).
Proof. exact cov_psd. Qed.
Print Assumptions C03_cov_psd.

(* the error is the (unique) non-negative root of the non-negative diagonal *)
Theorem C03_err_sq_is_diag : forall X i,
  0 <= cov_code X i i /\
  forall e e', 0 <= e -> 0 <= e' -> e * e == cov_code X i i -> e' * e' == cov_code X i i -> e == e'.
Proof. exact err_sq_is_diag. Qed.
Print Assumptions C03_err_sq_is_diag.

(* samples with undefined entries (0/0 when the only populated patch of a bin is left out, the
   root of a negative number): entry (i,j) of the covariance is a function of bins i and j of the
   N samples only ... *)
Theorem C03_cov_code_columns : forall (X Y : list (list Q)) i j,
  col X i = col Y i -> col X j = col Y j -> cov_code X i j == cov_code Y i j.
Proof. exact cov_code_columns. Qed.
Print Assumptions C03_cov_code_columns.

Theorem C03_cov_opt_columns : forall (X Y : list (list oq)) i j,
  ocol X i = ocol Y i -> ocol X j = ocol Y j ->
  match cov_opt X i j, cov_opt Y i j with
  | Some c, Some c' => c == c'
  | None, None => True
  | _, _ => False
  end.
Proof. exact cov_opt_columns. Qed.
Print Assumptions C03_cov_opt_columns.

(* ... for bins defined in all samples it is the delete-one covariance over ALL N samples ... *)
Theorem C03_cov_opt_defined : forall (X : list (list oq)) i j,
  col_defined X i = true -> col_defined X j = true ->
  exists c, cov_opt X i j = Some c /\ c == cov_spec (fill X) i j.
Proof. exact cov_opt_defined. Qed.
Print Assumptions C03_cov_opt_defined.

(* ... it has no value when one of the two bins has an undefined sample ... *)
Theorem C03_cov_opt_undefined : forall (X : list (list oq)) i j,
  col_defined X i = false \/ col_defined X j = false -> cov_opt X i j = None.
Proof. exact cov_opt_undefined. Qed.
Print Assumptions C03_cov_opt_undefined.

(* ... estimating from the complete samples only is NOT this matrix, not even on the bins that
   are defined in every sample ... *)
Theorem C03_cov_drop_refuted :
  exists (X : list (list oq)) i j, col_defined X i = true /\ col_defined X j = true /\
    ~ cov_drop X i j == cov_code (fill X) i j.
Proof. exact cov_drop_refuted. Qed.
Print Assumptions C03_cov_drop_refuted.

(* ... and the block of the defined bins is positive semi-definite (the checker's probe vectors
   are supported on it) *)
Theorem C03_cov_opt_psd : forall (X : list (list oq)) v,
  (forall i, col_defined X i = false -> nth i v 0 == 0) ->
  quad (ncols (fill X)) v (cov_opt0 X) == quad (ncols (fill X)) v (cov_spec (fill X))
  /\ 0 <= quad (ncols (fill X)) v (cov_opt0 X).
Proof. exact cov_opt_psd. Qed.
Print Assumptions C03_cov_opt_psd.

Theorem C03_mask_probe_support : forall (X : list (list oq)) v i,
  col_defined X i = false -> nth i (mask_probe X v) 0 == 0.
Proof. exact mask_probe_support. Qed.
Print Assumptions C03_mask_probe_support.

(* redshift histograms: the index array of the CURRENT resample_jackknife leaves out patch
   N-1-k in row k (all N, all histograms) ... *)
Theorem C03_hist_resample_cur_order : forall B obs k,
  (k < length obs)%nat ->
  qlist_eq (nth k (hist_samples_cur B obs) []) (vsum B (remove_nth (length obs - 1 - k) obs)).
Proof. exact hist_resample_cur_order. Qed.
Print Assumptions C03_hist_resample_cur_order.

(* ... so "sample k = histogram without patch k" is false of it (finding F10b) ... *)
Theorem C03_hist_resample_is_loo_refuted :
  exists B obs k, (k < length obs)%nat /\
    ~ qlist_eq (nth k (hist_samples_cur B obs) []) (nth k (hist_loo B obs) []).
Proof. exact hist_resample_is_loo_refuted. Qed.
Print Assumptions C03_hist_resample_is_loo_refuted.

(* ... and true of the repaired index array (delete entry k of the k-th repetition) *)
Theorem C03_hist_resample_fix_is_loo : forall B obs, hist_samples_fix B obs = hist_loo B obs.
Proof. exact hist_resample_fix_is_loo. Qed.
Print Assumptions C03_hist_resample_fix_is_loo.

Theorem C03_hist_loo_is_data_minus_row : forall B obs k b,
  (k < length obs)%nat -> (b < B)%nat ->
  nth b (vsum B (remove_nth k obs)) 0 == nth b (hist_data B obs) 0 - nth b (nth k obs []) 0.
Proof. exact hist_loo_is_data_minus_row. Qed.
Print Assumptions C03_hist_loo_is_data_minus_row.

(* magnitudes: the unit of the pair counts is arbitrary (object weights of 2^-30, CorrFunc * c, scale
   weights).  The recount without patch k is homogeneous: counts times c give samples times c, for
   the specification and for total - row - column + diagonal, any matrix, any k ... *)
Theorem C03_loo_homogeneous : forall c (M : mat) k,
  loo (mscale c M) k == c * loo M k /\ sample (mscale c M) k == c * sample M k.
Proof. intros c M k. split; [apply loo_scale | apply sample_scale]. Qed.
Print Assumptions C03_loo_homogeneous.

(* ... weights times a (first catalog) and b (second catalog) give normalisations times a*b (k^2 for
   one factor on both catalogs, k for a factor on one), as documented and as computed ... *)
Theorem C03_normalisation_homogeneous : forall auto a b u v,
  norm_denominator auto (vscale a u) (vscale b v) == a * b * norm_denominator auto u v.
Proof. exact norm_denominator_scale. Qed.
Print Assumptions C03_normalisation_homogeneous.

Theorem C03_weights_sample_homogeneous : forall auto a b u v k,
  (k < length u)%nat -> (k < length v)%nat ->
  sample (weights_array auto (vscale a u) (vscale b v)) k == a * b * sample (weights_array auto u v) k.
Proof. exact weights_sample_scale. Qed.
Print Assumptions C03_weights_sample_homogeneous.

(* ... the normalised statistic and its jackknife samples depend on c / (a*b) only ... *)
Theorem C03_statistic_scaling : forall auto c a b (M : mat) u v,
  ~ a * b == 0 ->
  nc_stat auto (mscale c M) (vscale a u) (vscale b v) == (c / (a * b)) * nc_stat auto M u v.
Proof. exact nc_stat_scale. Qed.
Print Assumptions C03_statistic_scaling.

Theorem C03_nc_sample_scaling : forall auto c a b (M : mat) u v k,
  (k < length u)%nat -> (k < length v)%nat -> ~ a * b == 0 ->
  nc_sample auto (mscale c M) (vscale a u) (vscale b v) k == (c / (a * b)) * nc_sample auto M u v k.
Proof. exact nc_sample_scale. Qed.
Print Assumptions C03_nc_sample_scaling.

(* ... in particular they do not change when the object weights of the two catalogs are multiplied
   by constants (pair counts are sums of products of weights) ... *)
Theorem C03_nc_sample_weight_invariant : forall auto a b (M : mat) u v k,
  (k < length u)%nat -> (k < length v)%nat -> ~ a * b == 0 ->
  nc_sample auto (mscale (a * b) M) (vscale a u) (vscale b v) k == nc_sample auto M u v k.
Proof. exact nc_sample_weight_invariant. Qed.
Print Assumptions C03_nc_sample_weight_invariant.

(* ... histogram samples scale with the weights, covariances with the square of the samples ... *)
Theorem C03_hist_loo_homogeneous : forall c B obs k b,
  nth b (vsum B (remove_nth k (mscale c obs))) 0 == c * nth b (vsum B (remove_nth k obs)) 0.
Proof. exact hist_loo_scale. Qed.
Print Assumptions C03_hist_loo_homogeneous.

Theorem C03_cov_homogeneous : forall c X i j, cov_code (mscale c X) i j == c * c * cov_code X i j.
Proof. exact cov_code_scale. Qed.
Print Assumptions C03_cov_homogeneous.

(* ... so there is no size below which a leave-one-out sum is "empty": a variant that replaces sums
   within eps of zero by zero agrees with the recount while the sums are larger than eps (counts and
   weights of order one do not see it) ... *)
Theorem C03_threshold_invisible_above : forall eps (M : mat) k,
  eps < Qabs (sample M k) -> sample_thr eps M k == sample M k.
Proof. exact sample_thr_above. Qed.
Print Assumptions C03_threshold_invisible_above.

(* ... but for EVERY positive eps it is not the sum without patch k ... *)
Theorem C03_threshold_refuted : forall eps, 0 < eps ->
  exists (M : mat) k, square 2 M /\ (k < 2)%nat /\ ~ sample_thr eps M k == loo M k.
Proof. exact sample_thr_not_loo. Qed.
Print Assumptions C03_threshold_refuted.

(* ... it is not homogeneous, and the normalised samples change with the unit of the weights *)
Theorem C03_threshold_not_homogeneous :
  exists eps (M : mat) k c, 0 < eps /\ 0 < c /\ ~ sample_thr eps (mscale c M) k == c * sample_thr eps M k.
Proof. exact sample_thr_not_homogeneous. Qed.
Print Assumptions C03_threshold_not_homogeneous.

Theorem C03_threshold_weight_unit_refuted :
  exists eps auto (M : mat) u v k a, 0 < eps /\ 0 < a /\
    ~ nc_sample_thr eps auto (mscale (a * a) M) (vscale a u) (vscale a v) k == nc_sample_thr eps auto M u v k.
Proof. exact nc_sample_thr_weight_refuted. Qed.
Print Assumptions C03_threshold_weight_unit_refuted.

(* ---- derived containers: selections of patches (any order), of bins, before sampling *)
(* leaving out the k-th patch of container.patches[I] = the original data restricted to I without
   its k-th entry, for every index list (unsorted, reversed, stepped, with repetitions) *)
Theorem C03_selection_loo : forall I (M : mat) k,
  del k (msel I M) = msel (remove_nth k I) M /\ loo (msel I M) k = total (msel (remove_nth k I) M).
Proof. intros I M k. split; [apply del_msel | apply loo_msel]. Qed.
Print Assumptions C03_selection_loo.

Theorem C03_selection_sample : forall I (M : mat) k,
  (k < length I)%nat -> sample (msel I M) k == total (msel (remove_nth k I) M).
Proof. exact sample_msel. Qed.
Print Assumptions C03_selection_sample.

(* NormalisedCounts.patches[I].sample_patch_sum(): counts and both sums of weights follow the same
   index list, sample k is the normalised count without the k-th SELECTED patch *)
Theorem C03_selection_nc_sample_is_recount : forall auto I (M : mat) u v k,
  (k < length I)%nat ->
  nc_sample_sel auto I M u v k == nc_stat_sel auto (remove_nth k I) M u v.
Proof. exact nc_sample_sel_is_recount. Qed.
Print Assumptions C03_selection_nc_sample_is_recount.

(* repeated application: x.patches[I].patches[J] holds what x.patches[I[J]] holds *)
Theorem C03_selection_twice : forall I J (a : arrs),
  Forall (fun j => (j < length I)%nat) J ->
  derive [D_patches I; D_patches J] a = derive [D_patches (isel I J)] a.
Proof. exact derive_patches_twice. Qed.
Print Assumptions C03_selection_twice.

(* pair counts selected by ascending patch ids, sums of weights by the caller's list: same totals,
   samples that are not the statistic without the k-th selected patch *)
Theorem C03_selection_mixed_order_refuted :
  exists auto I (M : mat) u v k, (k < length I)%nat /\
    total (msel (sort_nat I) M) == total (msel I M) /\
    ~ nc_sample_sel_mixed auto I M u v k == nc_stat_sel auto (remove_nth k I) M u v.
Proof. exact nc_sample_sel_mixed_refuted. Qed.
Print Assumptions C03_selection_mixed_order_refuted.

(* non-vacuity: concrete 3-patch instances *)
Example C03_concrete_counts :
  let M := [[1; 2; 3]; [4; 5; 6]; [7; 8; 10]] in
  map (sample M) [0; 1; 2]%nat = [29; 21; 12] /\ map (loo M) [0; 1; 2]%nat = [29; 21; 12].
Proof. vm_compute. split; reflexivity. Qed.

Example C03_concrete_weights :
  map (fun k => Qred (sample (weights_array true [1; 2; 4] [1; 2; 4]) k)) [0; 1; 2]%nat = [18; 25 # 2; 9 # 2]
  /\ map (fun k => Qred (sample (weights_array false [1; 2; 4] [3; 5; 7]) k)) [0; 1; 2]%nat = [72; 50; 24].
Proof. vm_compute. split; reflexivity. Qed.

Example C03_concrete_hist :
  let obs := [[1; 0]; [0; 2]; [4; 4]] in
  hist_samples_cur 2 obs = [[1; 2]; [5; 4]; [4; 6]]       (* rows leave out patch 2, 1, 0 *)
  /\ hist_samples_fix 2 obs = [[4; 6]; [5; 4]; [1; 2]]    (* rows leave out patch 0, 1, 2 *)
  /\ idx_jackknife_cur 3 = [[0; 1]; [2; 0]; [1; 2]]%nat
  /\ idx_jackknife_fix 3 = [[1; 2]; [0; 2]; [0; 1]]%nat.
Proof. vm_compute. repeat split; reflexivity. Qed.

Example C03_concrete_cov :
  let X := [[1; 2]; [3; 5]; [5; 5]] in
  map (map Qred) (cov_matrix X) = [[16 # 3; 4]; [4; 4]].
Proof. vm_compute. reflexivity. Qed.

Example C03_concrete_cov_undefined :
  let X := [[Some 1; Some 2; Some 3]; [Some 2; None; Some 5]; [Some 4; Some 1; Some 1]; [Some 0; Some 0; Some 7]] in
  (* bin 1 is undefined in sample 1: row and column 1 have no value, the rest is the covariance of all 4 samples *)
  map (fun i => map (fun j => option_map Qred (cov_opt X i j)) [0; 1; 2]%nat) [0; 1; 2]%nat
  = [[Some (105 # 16); None; Some (-33 # 4)]; [None; None; None]; [Some (-33 # 4); None; Some 15]]
  (* the estimate from the 3 complete samples is another number *)
  /\ Qred (cov_drop X 0 0) = 52 # 9
  (* the checker rejects that matrix: bit 0 (numbers where the model has none) and bit 1 (defined block) *)
  /\ Nat.land (c03_covopt_case X [[Some (52 # 9); Some (2 # 3); Some (-68 # 9)]; [Some (2 # 3); Some (4 # 3); Some (-8 # 3)];
                                  [Some (-68 # 9); Some (-8 # 3); Some (112 # 9)]] [Some 2; Some 1; Some 3] []) 3 = 3%nat
  (* and accepts the entry-wise one (2 patches, exact roots) *)
  /\ c03_covopt_case [[Some 0; None; Some 1]; [Some 2; Some 1; Some 5]]
                     [[Some 1; None; Some 2]; [None; None; None]; [Some 2; None; Some 4]] [Some 1; None; Some 2]
                     [[1; 1; 1]; [1; -1; -2]] = 0%nat.
Proof. vm_compute. repeat split; reflexivity. Qed.


Example C03_concrete_magnitudes :
  let M := [[3; 1; 0]; [2; 5; 1]; [0; 4; 2]] in
  let u := [2; 3; 1] in let v := [1; 1; 4] in
  let a := 1 # 1048576 in                                   (* object weights of 2^-20: counts of 2^-40 *)
  let eps := 1 # 100000000 in
  map (fun k => Qred (nc_sample false M u v k)) [0; 1; 2]%nat = [3 # 5; 1 # 3; 11 # 10]
  /\ map (fun k => Qred (nc_sample false (mscale (a * a) M) (vscale a u) (vscale a v) k)) [0; 1; 2]%nat = [3 # 5; 1 # 3; 11 # 10]
  /\ map (fun k => Qred (nc_sample_thr eps false (mscale (a * a) M) (vscale a u) (vscale a v) k)) [0; 1; 2]%nat = [0; 0; 0]
  (* the checker accepts the samples of the recount at this magnitude and rejects the thresholded ones (bits 0 and 1) *)
  /\ c03_nc_case 3 false [mscale (a * a) M] [vscale a u] [vscale a v] [Some (18 # 36)]
                 [[Some (3 # 5)]; [Some (1 # 3)]; [Some (11 # 10)]] = 0%nat
  /\ c03_nc_case 3 false [mscale (a * a) M] [vscale a u] [vscale a v] [Some (18 # 36)]
                 [[Some 0]; [Some 0]; [Some 0]] = 3%nat
  /\ c03_rerun_case tol48 [Some (1 # 3); Some 5; Some 2] [Some (1 # 3); None; Some 2] = 0%nat
  /\ c03_rerun_case tol48 [Some 0; Some 5; Some 2] [Some (1 # 3); None; Some 2] = 1%nat
  /\ c03_rerun_case tol48 [Some (1 # 3); None; Some 2] [Some (1 # 3); Some 1; Some 2] = 1%nat.
Proof. vm_compute. repeat split; reflexivity. Qed.

Example C03_concrete_derived :
  let M := [[3; 1; 0]; [2; 5; 1]; [0; 4; 2]] in
  let u := [2; 3; 1] in let v := [1; 1; 4] in
  let I := [2; 0]%nat in                                    (* .patches[[2, 0]] *)
  msel I M = [[2; 0]; [0; 3]] /\ vsel I u = [1; 2] /\ vsel I v = [4; 1]
  /\ map (fun k => Qred (nc_sample_sel false I M u v k)) [0; 1]%nat = [3 # 2; 1 # 2]
  /\ map (fun I' => Qred (nc_stat_sel false I' M u v)) [[0]; [2]]%nat = [3 # 2; 1 # 2]
  /\ map (fun k => Qred (nc_sample_sel_mixed false I M u v k)) [0; 1]%nat = [1; 3 # 4]
  (* the checker accepts the samples in the caller's order, marks those in ascending patch order
     (bit 6) and rejects those of the mixed selection (bits 0 and 1) *)
  /\ c03_dnc_case [D_patches I] false [M] [u] [v] [Some (1 # 3)] [[Some (3 # 2)]; [Some (1 # 2)]] = 0%nat
  /\ c03_dnc_case [D_patches I] false [M] [u] [v] [Some (1 # 3)] [[Some (1 # 2)]; [Some (3 # 2)]] = 67%nat
  /\ c03_dnc_case [D_patches I] false [M] [u] [v] [Some (1 # 3)] [[Some 1]; [Some (3 # 4)]] = 3%nat
  (* .bins[[1]] of two bins, + a container, * 2, then .patches[::-1] *)
  /\ c03_dsps_case [D_bins [1%nat]; D_add [[[1; 1]; [1; 1]]]; D_mul 2; D_patches [1; 0]%nat]
                   [[[9; 9]; [9; 9]]; [[1; 2]; [3; 4]]] [28] [[4]; [10]] = 0%nat.
Proof. vm_compute. repeat split; reflexivity. Qed.

(* ---------------- integer counts in floating-point cells (Model/Mantissa.v) ---------------- *)
From Verif Require Mantissa MantissaP.
(* counts, and the delete-one totals formed from them, are exact in float64 cells as long as the total stays below 2^53 ... *)
Theorem C03_loo_exact_in_float64 : forall total involved : Z,
  (0 <= involved <= total)%Z -> (total < 2 ^ 53)%Z ->
  Mantissa.keep_bits 53 (Mantissa.loo (Mantissa.keep_bits 53 total) (Mantissa.keep_bits 53 involved)) = (total - involved)%Z.
Proof. exact MantissaP.loo_exact_in_float64. Qed.
Print Assumptions C03_loo_exact_in_float64.
(* ... a 24-bit significand (float32 cells) loses the count 2^24 + 1 and a delete-one total with it *)
Theorem C03_float32_cells_refuted :
  exists total involved : Z, (0 <= involved <= total)%Z /\ (total < 2 ^ 53)%Z /\
    Mantissa.loo (Mantissa.keep_bits 24 total) (Mantissa.keep_bits 24 involved) <> (total - involved)%Z.
Proof. exact MantissaP.float32_loo_refuted. Qed.
Print Assumptions C03_float32_cells_refuted.
