(* C07 — measurements are independent of what was cached before.
   Statements only; proofs are in Proofs/TreeCacheP.v. *)
From Verif Require Import Prelude TreeCache TreeCacheP.
Open Scope Q_scope.

(* the invariant: whenever a binning file exists, the trees file holds the trees built for it *)
Theorem C07_build_preserves_inv : forall b force s,
  valid_ob b = true -> (forall b', bfile s = Some b' -> tfile s = built_for b') ->
  forall b', bfile (build b force s) = Some b' -> tfile (build b force s) = built_for b'.
Proof. exact build_preserves_inv. Qed.
Print Assumptions C07_build_preserves_inv.

Theorem C07_run_preserves_inv : forall h s, Inv s -> Inv (run h s).
Proof. exact run_preserves_inv. Qed.
Print Assumptions C07_run_preserves_inv.

(* after ANY finite history (other edges, bin counts, closed sides, unbinned use, forced or
   unforced builds, requests that raise, measurements with other scales, reopenings) the
   unforced build of a measurement leaves the trees of the requested binning *)
Theorem C07_history_independent : forall h b s0,
  valid_ob b = true -> Inv s0 -> trees_used (run (h ++ [Build b false]) s0) = built_for b.
Proof. exact history_independent. Qed.
Print Assumptions C07_history_independent.

(* = the trees of a freshly created cache *)
Theorem C07_history_independent_fresh : forall h b s0,
  valid_ob b = true -> Inv s0 ->
  trees_used (run (h ++ [Build b false]) s0) = trees_used (run [Build b false] s_fresh).
Proof. exact history_independent_fresh. Qed.
Print Assumptions C07_history_independent_fresh.

Theorem C07_measurement_history_independent : forall h c r s0,
  valid_edges (c_edges c) = true -> Inv s0 ->
  trees_used (run (h ++ [Measure c r]) s0) = built_for (role_binning c r) /\
  trees_used (run (h ++ [Measure c r]) s0) = trees_used (run [Measure c r] s_fresh).
Proof. exact measurement_history_independent. Qed.
Print Assumptions C07_measurement_history_independent.

(* the same for every reuse decision that only accepts a stored binning with the same trees *)
Theorem C07_history_independent_any_sound_decision : forall eq,
  (forall stored req, eq stored req = true -> built_for stored = built_for req) ->
  forall h b s0, valid_ob b = true -> Inv s0 ->
  trees_used (run_with eq (h ++ [Build b false]) s0) = built_for b.
Proof. exact history_independent_with. Qed.
Print Assumptions C07_history_independent_any_sound_decision.

(* the implemented decision (edges AND closed side; None = unbinned) is such a decision *)
Theorem C07_binning_equal_sound : forall stored req,
  binning_equal stored req = true -> built_for stored = built_for req.
Proof. exact binning_equal_sound. Qed.
Print Assumptions C07_binning_equal_sound.

(* the binning file (1 byte + float64 edges; no edges = unbinned) reads back what was written *)
Theorem C07_binning_codec_roundtrip : forall b, valid_ob b = true -> decode (encode b) = b.
Proof. exact binning_codec_roundtrip. Qed.
Print Assumptions C07_binning_codec_roundtrip.

(* the abstract content of the trees file determines the observable trees (records per bin) *)
Theorem C07_tree_counts_canon : forall b zs, tree_counts (option_map canon b) zs = tree_counts b zs.
Proof. exact tree_counts_canon. Qed.
Print Assumptions C07_tree_counts_canon.

(* forcing a build never changes which trees are used afterwards *)
Theorem C07_force_irrelevant : forall b s,
  Inv s -> trees_used (build b true s) = trees_used (build b false s).
Proof. exact force_irrelevant. Qed.
Print Assumptions C07_force_irrelevant.

(* not vacuous: a decision that forgets the closed side (or compares only the number of edges)
   lets a one-step history change the trees a measurement uses *)
Theorem C07_binning_equal_ignoring_closed_unsound :
  exists h b, valid_ob b = true /\ Inv s_fresh /\
    trees_used (run_with binning_equal_ignoring_closed (h ++ [Build b false]) s_fresh) <> built_for b /\
    exists zs, option_map (fun t => tree_counts t zs)
                 (trees_used (run_with binning_equal_ignoring_closed (h ++ [Build b false]) s_fresh))
               <> Some (tree_counts b zs).
Proof. exact binning_equal_ignoring_closed_unsound. Qed.
Print Assumptions C07_binning_equal_ignoring_closed_unsound.

Theorem C07_binning_equal_len_only_unsound :
  exists h b, valid_ob b = true /\ Inv s_fresh /\
    trees_used (run_with binning_equal_len_only (h ++ [Build b false]) s_fresh) <> built_for b /\
    exists zs, option_map (fun t => tree_counts t zs)
                 (trees_used (run_with binning_equal_len_only (h ++ [Build b false]) s_fresh))
               <> Some (tree_counts b zs).
Proof. exact binning_equal_len_only_unsound. Qed.
Print Assumptions C07_binning_equal_len_only_unsound.

(* non-vacuity: a concrete history (left-closed 2 bins, forced unbinned, a request that raises,
   reopen, a measurement with the same edges but right-closed in the unknown and then the
   reference role) followed by the build for (1/4, 1/2, 1] right-closed: the trees are those of
   the request, the file reads back the request, and the record at z = 1/4 is in no bin *)
Example C07_concrete :
  let e := [1 # 4; 1 # 2; 1] in
  let c := {| c_edges := e; c_closed := false; c_scales := [(1 # 10, 3)] |} in
  let h := [Build (Some (e, true)) false; Build None true; Build (Some ([1 # 2], true)) false; Reopen;
            Measure c Unknown; Build (Some (e, true)) false; Measure c Reference] in
  let s := run (h ++ [Build (Some (e, false)) false]) s_fresh in
  trees_used s = built_for (Some (e, false)) /\ bfile s = Some (Some (e, false)) /\
  option_map (fun t => tree_counts t [1 # 4; 1 # 2; 1 # 2; 1]) (trees_used s) = Some (true, [2; 1]%nat) /\
  tree_counts (Some (e, true)) [1 # 4; 1 # 2; 1 # 2; 1] = (true, [1; 2]%nat).
Proof. vm_compute. repeat split; reflexivity. Qed.

(* ---------- catalogs: one state per patch; single-patch builds (BinnedTrees.build on one
   patch) may leave the patches of a catalog with trees for different binnings ---------- *)

(* every patch of a catalog sees its own projection of a catalog-level history *)
Theorem C07_crun_nth : forall h cs p,
  nth_error (crun h cs) p = option_map (run (map (proj p) h)) (nth_error cs p).
Proof. exact crun_nth. Qed.
Print Assumptions C07_crun_nth.

Theorem C07_crun_length : forall h cs, length (crun h cs) = length cs.
Proof. exact crun_length. Qed.
Print Assumptions C07_crun_length.

Theorem C07_crun_preserves_inv : forall h cs, Forall Inv cs -> Forall Inv (crun h cs).
Proof. exact crun_preserves_inv. Qed.
Print Assumptions C07_crun_preserves_inv.

(* after ANY catalog-level history (catalog-wide operations and builds of single patches, any
   patch) the catalog-wide unforced build of a measurement leaves in EVERY patch the trees of the
   requested binning *)
Theorem C07_catalog_history_independent : forall h b cs,
  valid_ob b = true -> Forall Inv cs ->
  Forall (fun s => trees_used s = built_for b) (crun (h ++ [All (Build b false)]) cs).
Proof. exact catalog_history_independent. Qed.
Print Assumptions C07_catalog_history_independent.

Theorem C07_catalog_measurement_history_independent : forall h c r cs,
  valid_edges (c_edges c) = true -> Forall Inv cs ->
  Forall (fun s => trees_used s = built_for (role_binning c r)) (crun (h ++ [All (Measure c r)]) cs).
Proof. exact catalog_measurement_history_independent. Qed.
Print Assumptions C07_catalog_measurement_history_independent.

(* = patch by patch the trees of a freshly created catalog cache *)
Theorem C07_catalog_history_independent_fresh : forall h b cs,
  valid_ob b = true -> Forall Inv cs ->
  map trees_used (crun (h ++ [All (Build b false)]) cs) =
  map trees_used (crun [All (Build b false)] (c_fresh (length cs))).
Proof. exact catalog_history_independent_fresh. Qed.
Print Assumptions C07_catalog_history_independent_fresh.

Theorem C07_catalog_history_independent_any_sound_decision : forall eq,
  (forall stored req, eq stored req = true -> built_for stored = built_for req) ->
  forall h b cs, valid_ob b = true -> Forall Inv cs ->
  Forall (fun s => trees_used s = built_for b) (crun_with eq (h ++ [All (Build b false)]) cs).
Proof. exact catalog_history_independent_with. Qed.
Print Assumptions C07_catalog_history_independent_any_sound_decision.

(* not vacuous: a catalog-wide build that returns early when the FIRST patch already matches
   leaves another patch with stale trees after a single-patch build *)
Theorem C07_first_patch_shortcut_unsound :
  exists h b cs, valid_ob b = true /\ Forall Inv cs /\
    exists s, In s (fold_left cstep_first_patch_shortcut (h ++ [All (Build b false)]) cs) /\
      trees_used s <> built_for b /\
      exists zs, option_map (fun t => tree_counts t zs) (trees_used s) <> Some (tree_counts b zs).
Proof. exact first_patch_shortcut_unsound. Qed.
Print Assumptions C07_first_patch_shortcut_unsound.

(* non-vacuity at catalog level: 3 patches hold (1/4,1/2,1]; patch 0 and then patch 2 alone are
   rebuilt for other binnings (same bin count); the measurement for [1/4,5/8,1) leaves its trees
   in all three patches *)
Example C07_catalog_concrete :
  let a := Some ([1 # 4; 1 # 2; 1], false) in
  let b := Some ([1 # 4; 5 # 8; 1], true) in
  let c := {| c_edges := [1 # 4; 5 # 8; 1]; c_closed := true; c_scales := [(1 # 10, 3)] |} in
  let h := [All (Build a false); One 0 b false; One 2 None true; One 7 b false] in
  map trees_used (crun h (c_fresh 3)) = [built_for b; built_for a; built_for None] /\
  map trees_used (crun (h ++ [All (Measure c Reference)]) (c_fresh 3)) = repeat (built_for b) 3 /\
  map bfile (crun (h ++ [All (Measure c Reference)]) (c_fresh 3)) = repeat (Some b) 3.
Proof. vm_compute. repeat split; reflexivity. Qed.
