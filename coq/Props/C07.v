(* C07 — measurements are independent of what was cached before.
   Statements only; proofs are in Proofs/TreeCacheP.v. *)
From Verif Require Import Prelude TreeCache TreeCacheP.
Open Scope Q_scope.

(* the invariant: whenever a binning file exists, the trees file holds the trees built for it *)
Theorem C07_build_preserves_inv : forall b force s,
  valid_ob b = true -> (forall b', bfile s = Some b' -> tfile s = built_for b') ->
  forall b', bfile (build b force s) = Some b' -> tfile (build b force s) = built_for b'.
Proof. exact build_preserves_inv. Qed.
Print Assumptions C07_build_preserves_inv.

Theorem C07_run_preserves_inv : forall h s, Inv s -> Inv (run h s).
Proof. exact run_preserves_inv. Qed.
Print Assumptions C07_run_preserves_inv.

(* after ANY finite history (other edges, bin counts, closed sides, unbinned use, forced or
   unforced builds, requests that raise, measurements with other scales, reopenings) the
   unforced build of a measurement leaves the trees of the requested binning *)
Theorem C07_history_independent : forall h b s0,
  valid_ob b = true -> Inv s0 -> trees_used (run (h ++ [Build b false]) s0) = built_for b.
Proof. exact history_independent. Qed.
Print Assumptions C07_history_independent.

(* = the trees of a freshly created cache *)
Theorem C07_history_independent_fresh : forall h b s0,
  valid_ob b = true -> Inv s0 ->
  trees_used (run (h ++ [Build b false]) s0) = trees_used (run [Build b false] s_fresh).
Proof. exact history_independent_fresh. Qed.
Print Assumptions C07_history_independent_fresh.

Theorem C07_measurement_history_independent : forall h c r s0,
  valid_edges (c_edges c) = true -> Inv s0 ->
  trees_used (run (h ++ [Measure c r]) s0) = built_for (role_binning c r) /\
  trees_used (run (h ++ [Measure c r]) s0) = trees_used (run [Measure c r] s_fresh).
Proof. exact measurement_history_independent. Qed.
Print Assumptions C07_measurement_history_independent.

(* the same for every reuse decision that only accepts a stored binning with the same trees *)
Theorem C07_history_independent_any_sound_decision : forall eq,
  (forall stored req, eq stored req = true -> built_for stored = built_for req) ->
  forall h b s0, valid_ob b = true -> Inv s0 ->
  trees_used (run_with eq (h ++ [Build b false]) s0) = built_for b.
Proof. exact history_independent_with. Qed.
Print Assumptions C07_history_independent_any_sound_decision.

(* the implemented decision (edges AND closed side; None = unbinned) is such a decision *)
Theorem C07_binning_equal_sound : forall stored req,
  binning_equal stored req = true -> built_for stored = built_for req.
Proof. exact binning_equal_sound. Qed.
Print Assumptions C07_binning_equal_sound.

(* the binning file (1 byte + float64 edges; no edges = unbinned) reads back what was written *)
Theorem C07_binning_codec_roundtrip : forall b, valid_ob b = true -> decode (encode b) = b.
Proof. exact binning_codec_roundtrip. Qed.
Print Assumptions C07_binning_codec_roundtrip.

(* the abstract content of the trees file determines the observable trees (records per bin) *)
Theorem C07_tree_counts_canon : forall b zs, tree_counts (option_map canon b) zs = tree_counts b zs.
Proof. exact tree_counts_canon. Qed.
Print Assumptions C07_tree_counts_canon.

(* forcing a build never changes which trees are used afterwards *)
Theorem C07_force_irrelevant : forall b s,
  Inv s -> trees_used (build b true s) = trees_used (build b false s).
Proof. exact force_irrelevant. Qed.
Print Assumptions C07_force_irrelevant.

(* not vacuous: a decision that forgets the closed side (or compares only the number of edges)
   lets a one-step history change the trees a measurement uses *)
Theorem C07_binning_equal_ignoring_closed_unsound :
  exists h b, valid_ob b = true /\ Inv s_fresh /\
    trees_used (run_with binning_equal_ignoring_closed (h ++ [Build b false]) s_fresh) <> built_for b /\
    exists zs, option_map (fun t => tree_counts t zs)
                 (trees_used (run_with binning_equal_ignoring_closed (h ++ [Build b false]) s_fresh))
               <> Some (tree_counts b zs).
Proof. exact binning_equal_ignoring_closed_unsound. Qed.
Print Assumptions C07_binning_equal_ignoring_closed_unsound.

Theorem C07_binning_equal_len_only_unsound :
  exists h b, valid_ob b = true /\ Inv s_fresh /\
    trees_used (run_with binning_equal_len_only (h ++ [Build b false]) s_fresh) <> built_for b /\
    exists zs, option_map (fun t => tree_counts t zs)
                 (trees_used (run_with binning_equal_len_only (h ++ [Build b false]) s_fresh))
               <> Some (tree_counts b zs).
Proof. exact binning_equal_len_only_unsound. Qed.
Print Assumptions C07_binning_equal_len_only_unsound.

(* non-vacuity: a concrete history (left-closed 2 bins, forced unbinned, a request that raises,
   reopen, a measurement with the same edges but right-closed in the unknown and then the
   reference role) followed by the build for (1/4, 1/2, 1] right-closed: the trees are those of
   the request, the file reads back the request, and the record at z = 1/4 is in no bin *)
Example C07_concrete :
  let e := [1 # 4; 1 # 2; 1] in
  let c := {| c_edges := e; c_closed := false; c_scales := [(1 # 10, 3)] |} in
  let h := [Build (Some (e, true)) false; Build None true; Build (Some ([1 # 2], true)) false; Reopen;
            Measure c Unknown; Build (Some (e, true)) false; Measure c Reference] in
  let s := run (h ++ [Build (Some (e, false)) false]) s_fresh in
  trees_used s = built_for (Some (e, false)) /\ bfile s = Some (Some (e, false)) /\
  option_map (fun t => tree_counts t [1 # 4; 1 # 2; 1 # 2; 1]) (trees_used s) = Some (true, [2; 1]%nat) /\
  tree_counts (Some (e, true)) [1 # 4; 1 # 2; 1 # 2; 1] = (true, [1; 2]%nat).
Proof. vm_compute. repeat split; reflexivity. Qed.

(* ---------- catalogs: one state per patch; single-patch builds (BinnedTrees.build on one
   patch) may leave the patches of a catalog with trees for different binnings ---------- *)

(* every patch of a catalog sees its own projection of a catalog-level history *)
Theorem C07_crun_nth : forall h cs p,
  nth_error (crun h cs) p = option_map (run (map (proj p) h)) (nth_error cs p).
Proof. exact crun_nth. Qed.
Print Assumptions C07_crun_nth.

Theorem C07_crun_length : forall h cs, length (crun h cs) = length cs.
Proof. exact crun_length. Qed.
Print Assumptions C07_crun_length.

Theorem C07_crun_preserves_inv : forall h cs, Forall Inv cs -> Forall Inv (crun h cs).
Proof. exact crun_preserves_inv. Qed.
Print Assumptions C07_crun_preserves_inv.

(* after ANY catalog-level history (catalog-wide operations and builds of single patches, any
   patch) the catalog-wide unforced build of a measurement leaves in EVERY patch the trees of the
   requested binning *)
Theorem C07_catalog_history_independent : forall h b cs,
  valid_ob b = true -> Forall Inv cs ->
  Forall (fun s => trees_used s = built_for b) (crun (h ++ [All (Build b false)]) cs).
Proof. exact catalog_history_independent. Qed.
Print Assumptions C07_catalog_history_independent.

Theorem C07_catalog_measurement_history_independent : forall h c r cs,
  valid_edges (c_edges c) = true -> Forall Inv cs ->
  Forall (fun s => trees_used s = built_for (role_binning c r)) (crun (h ++ [All (Measure c r)]) cs).
Proof. exact catalog_measurement_history_independent. Qed.
Print Assumptions C07_catalog_measurement_history_independent.

(* = patch by patch the trees of a freshly created catalog cache *)
Theorem C07_catalog_history_independent_fresh : forall h b cs,
  valid_ob b = true -> Forall Inv cs ->
  map trees_used (crun (h ++ [All (Build b false)]) cs) =
  map trees_used (crun [All (Build b false)] (c_fresh (length cs))).
Proof. exact catalog_history_independent_fresh. Qed.
Print Assumptions C07_catalog_history_independent_fresh.

Theorem C07_catalog_history_independent_any_sound_decision : forall eq,
  (forall stored req, eq stored req = true -> built_for stored = built_for req) ->
  forall h b cs, valid_ob b = true -> Forall Inv cs ->
  Forall (fun s => trees_used s = built_for b) (crun_with eq (h ++ [All (Build b false)]) cs).
Proof. exact catalog_history_independent_with. Qed.
Print Assumptions C07_catalog_history_independent_any_sound_decision.

(* not vacuous: a catalog-wide build that returns early when the FIRST patch already matches
   leaves another patch with stale trees after a single-patch build *)
Theorem C07_first_patch_shortcut_unsound :
  exists h b cs, valid_ob b = true /\ Forall Inv cs /\
    exists s, In s (fold_left cstep_first_patch_shortcut (h ++ [All (Build b false)]) cs) /\
      trees_used s <> built_for b /\
      exists zs, option_map (fun t => tree_counts t zs) (trees_used s) <> Some (tree_counts b zs).
Proof. exact first_patch_shortcut_unsound. Qed.
Print Assumptions C07_first_patch_shortcut_unsound.

(* non-vacuity at catalog level: 3 patches hold (1/4,1/2,1]; patch 0 and then patch 2 alone are
   rebuilt for other binnings (same bin count); the measurement for [1/4,5/8,1) leaves its trees
   in all three patches *)
Example C07_catalog_concrete :
  let a := Some ([1 # 4; 1 # 2; 1], false) in
  let b := Some ([1 # 4; 5 # 8; 1], true) in
  let c := {| c_edges := [1 # 4; 5 # 8; 1]; c_closed := true; c_scales := [(1 # 10, 3)] |} in
  let h := [All (Build a false); One 0 b false; One 2 None true; One 7 b false] in
  map trees_used (crun h (c_fresh 3)) = [built_for b; built_for a; built_for None] /\
  map trees_used (crun (h ++ [All (Measure c Reference)]) (c_fresh 3)) = repeat (built_for b) 3 /\
  map bfile (crun (h ++ [All (Measure c Reference)]) (c_fresh 3)) = repeat (Some b) 3.
Proof. vm_compute. repeat split; reflexivity. Qed.

(* ---------- processes: steps of a history are executed by the measuring process itself, by
   the workers of a multiprocessing pool, or by a child process; a process may keep unpickled
   trees in memory (the code keeps nothing: policy NoMemo) ---------- *)

(* the cache directory evolves as in the unlabelled history, whoever executes the steps and
   whatever the processes remember *)
Theorem C07_files_independent_of_executor : forall pol h ps,
  disk (fst (prun pol h ps)) = run (map erase h) (disk ps).
Proof. exact prun_disk. Qed.
Print Assumptions C07_files_independent_of_executor.

(* after ANY labelled history (sequential steps, pooled steps, steps in child processes, peeks, in
   any mixture) a measurement executed by anyone works with the trees of the requested binning *)
Theorem C07_process_independent : forall h x c r ps,
  valid_edges (c_edges c) = true -> Inv (disk ps) ->
  pused NoMemo (h ++ [Do x (Measure c r)]) ps = built_for (role_binning c r).
Proof. exact process_independent. Qed.
Print Assumptions C07_process_independent.

(* = the trees of the same measurement on a freshly created cache, executed sequentially *)
Theorem C07_process_independent_fresh : forall h x c r ps,
  valid_edges (c_edges c) = true -> Inv (disk ps) ->
  pused NoMemo (h ++ [Do x (Measure c r)]) ps = pused NoMemo [Do Self (Measure c r)] p_fresh.
Proof. exact process_independent_fresh. Qed.
Print Assumptions C07_process_independent_fresh.

(* BinnedTrees(patch).trees in the measuring process returns the content of the trees file *)
Theorem C07_peek_returns_trees_file : forall h ps,
  pused NoMemo (h ++ [Peek]) ps =
  match bfile (run (map erase h) (disk ps)) with
  | None => None
  | Some _ => tfile (run (map erase h) (disk ps))
  end.
Proof. exact peek_nomemo. Qed.
Print Assumptions C07_peek_returns_trees_file.

(* not vacuous: a process that keeps the unpickled trees and forgets them only when IT rebuilds is
   refuted by a history that mixes executors (sequential, child process, sequential) ... *)
Theorem C07_memo_own_invalidate_refuted :
  exists h x c r, valid_edges (c_edges c) = true /\ PInv p_fresh /\
    pused MemoOwnInvalidate (h ++ [Do x (Measure c r)]) p_fresh <> built_for (role_binning c r) /\
    exists zs, option_map (fun t => tree_counts t zs) (pused MemoOwnInvalidate (h ++ [Do x (Measure c r)]) p_fresh)
               <> Some (tree_counts (role_binning c r) zs).
Proof. exact memo_own_invalidate_refuted. Qed.
Print Assumptions C07_memo_own_invalidate_refuted.

(* ... by a pooled measurement right after a sequential one (the counting workers inherit the
   measuring process' memory) ... *)
Theorem C07_memo_own_invalidate_refuted_in_pool :
  exists h c r, valid_edges (c_edges c) = true /\ PInv p_fresh /\
    pused MemoOwnInvalidate (h ++ [Do Pool (Measure c r)]) p_fresh <> built_for (role_binning c r) /\
    exists zs, option_map (fun t => tree_counts t zs) (pused MemoOwnInvalidate (h ++ [Do Pool (Measure c r)]) p_fresh)
               <> Some (tree_counts (role_binning c r) zs).
Proof. exact memo_own_invalidate_refuted_in_pool. Qed.
Print Assumptions C07_memo_own_invalidate_refuted_in_pool.

(* ... and by a peek after a rebuild in a child process *)
Theorem C07_memo_own_invalidate_stale_peek :
  exists h zs, option_map (fun t => tree_counts t zs) (pused MemoOwnInvalidate (h ++ [Peek]) p_fresh)
               <> option_map (fun t => tree_counts t zs) (pused NoMemo (h ++ [Peek]) p_fresh).
Proof. exact memo_own_invalidate_stale_peek. Qed.
Print Assumptions C07_memo_own_invalidate_stale_peek.

(* while histories executed by ONE process throughout, or never by the measuring process itself,
   cannot tell that policy from the code's: only mixed histories explore the difference *)
Theorem C07_memo_same_process_sound : forall h c r ps,
  all_self h = true -> valid_edges (c_edges c) = true -> PInv ps ->
  pused MemoOwnInvalidate (h ++ [Do Self (Measure c r)]) ps = built_for (role_binning c r).
Proof. exact memo_same_process_sound. Qed.
Print Assumptions C07_memo_same_process_sound.

Theorem C07_memo_all_forked_sound : forall h x c r ps,
  all_forked h = true -> valid_edges (c_edges c) = true -> Inv (disk ps) -> mem ps = None ->
  pused MemoOwnInvalidate (h ++ [Do x (Measure c r)]) ps = built_for (role_binning c r).
Proof. exact memo_all_forked_sound. Qed.
Print Assumptions C07_memo_all_forked_sound.

(* non-vacuity with processes: (1/4,1/2,1] sequentially, a peek, [1/4,5/8,1) by a pool, the same by
   a child with a forced rebuild, a peek; then [1/4,5/8,1) sequentially: the requested trees are
   used (the record at 1/2 is in the first bin, the one at 1 in none), and the last peek of the
   history returned the trees file as well *)
Example C07_process_concrete :
  let ca := {| c_edges := [1 # 4; 1 # 2; 1]; c_closed := false; c_scales := [(1 # 10, 3)] |} in
  let cb := {| c_edges := [1 # 4; 5 # 8; 1]; c_closed := true; c_scales := [(1 # 10, 3)] |} in
  let h := [Do Self (Measure ca Reference); Peek; Do Pool (Measure cb Reference);
            Do Child (Build (Some (c_edges cb, true)) true); Peek] in
  let zs := [1 # 4; 1 # 2; 1 # 2; 1] in
  pused NoMemo (h ++ [Do Self (Measure cb Reference)]) p_fresh = built_for (Some (c_edges cb, true)) /\
  option_map (fun t => tree_counts t zs) (pused NoMemo (h ++ [Do Self (Measure cb Reference)]) p_fresh)
    = Some (true, [3; 0]%nat) /\
  option_map (fun t => tree_counts t zs) (pused NoMemo h p_fresh) = Some (true, [3; 0]%nat) /\
  option_map (fun t => tree_counts t zs) (pused MemoOwnInvalidate (h ++ [Do Self (Measure cb Reference)]) p_fresh)
    = Some (true, [2; 1]%nat).
Proof. vm_compute. repeat split; reflexivity. Qed.

(* ---------- patch metadata: the Catalog object that created a cache computed number of records,
   sum of weights, centre and radius of every patch from the records and wrote them to meta.yml;
   a reopened catalog reads them back.  Centre + radius decide which patch pairs a measurement
   visits at all (patch linkage: dist(c_i, c_j) <= r_i + r_j + largest counted angle) ---------- *)

(* what the object in use holds after any history: the computed values, or what the writer made of them *)
Theorem C07_meta_after_history : forall (M : Type) (enc : M -> M) h ms,
  mobj (mrun h (m_create enc ms)) = if existsb is_reopen h then map enc ms else ms.
Proof. exact @meta_after_history. Qed.
Print Assumptions C07_meta_after_history.

(* a writer that reproduces the values (the code: float64 repr through YAML): after ANY history,
   reopenings included, the object holds what a freshly created catalog holds *)
Theorem C07_meta_history_independent : forall (M : Type) (enc : M -> M) h ms,
  (forall m, In m ms -> enc m = m) -> mobj (mrun h (m_create enc ms)) = ms.
Proof. exact @meta_history_independent. Qed.
Print Assumptions C07_meta_history_independent.

(* in any space with a distance (symmetric, triangle inequality; counted pairs are at most th apart):
   radii that contain the records never unlink a patch pair that holds a counted pair ... *)
Theorem C07_linked_complete : forall (P : Type) (d : P -> P -> Q) (counted : P -> P -> bool) (th : Q),
  (forall a b, d a b == d b a) -> (forall a b c, d a c <= d a b + d b c) ->
  (forall p q, counted p q = true -> d p q <= th) ->
  forall a b pa pb p q, covers d a pa -> covers d b pb -> In p pa -> In q pb -> counted p q = true ->
  linked d th a b = true.
Proof. exact @linked_complete. Qed.
Print Assumptions C07_linked_complete.

(* ... so visiting the linked patch pairs only counts every pair *)
Theorem C07_count_linked_all : forall (P : Type) (d : P -> P -> Q) (counted : P -> P -> bool) (th : Q),
  (forall a b, d a b == d b a) -> (forall a b c, d a c <= d a b + d b c) ->
  (forall p q, counted p q = true -> d p q <= th) ->
  forall ms c1 c2, covers_all d ms c1 -> covers_all d ms c2 ->
  count_linked d counted th ms c1 c2 = count_all counted ms c1 c2.
Proof. exact @count_linked_all. Qed.
Print Assumptions C07_count_linked_all.

(* the pairs a measurement counts after ANY history are those the creating object counts: (a) for a
   writer that reproduces the values (no condition on the geometry: also with a patch pair exactly
   on the linkage limit) ... *)
Theorem C07_linked_counts_history_independent :
  forall (P : Type) (d : P -> P -> Q) (counted : P -> P -> bool) (th : Q) enc h ms c1 c2,
  (forall m, In m ms -> enc m = m) ->
  count_linked d counted th (mobj (mrun h (m_create enc ms))) c1 c2 = count_linked d counted th ms c1 c2.
Proof. exact @linked_counts_history_independent. Qed.
Print Assumptions C07_linked_counts_history_independent.

(* ... (b) for any writer whose values still contain the records *)
Theorem C07_linked_counts_history_independent_cover :
  forall (P : Type) (d : P -> P -> Q) (counted : P -> P -> bool) (th : Q),
  (forall a b, d a b == d b a) -> (forall a b c, d a c <= d a b + d b c) ->
  (forall p q, counted p q = true -> d p q <= th) ->
  forall enc h ms c1 c2,
  covers_all d ms c1 -> covers_all d ms c2 -> covers_all d (map enc ms) c1 -> covers_all d (map enc ms) c2 ->
  count_linked d counted th (mobj (mrun h (m_create enc ms))) c1 c2 = count_linked d counted th ms c1 c2.
Proof. exact @linked_counts_history_independent_cover. Qed.
Print Assumptions C07_linked_counts_history_independent_cover.

(* e.g. (on the line) a writer that keeps the centre and rounds the radius UP to k decimals *)
Theorem C07_round_up_history_independent : forall k th h ms c1 c2,
  covers_all dline ms c1 -> covers_all dline ms c2 ->
  count_linked dline (close_line th) th (mobj (mrun h (m_create (enc_up k) ms))) c1 c2 =
  count_linked dline (close_line th) th ms c1 c2.
Proof. exact round_up_history_independent. Qed.
Print Assumptions C07_round_up_history_independent.

(* not vacuous: a writer that rounds centre and radius to the nearest 1e-8 is refuted by a history
   with a reopening and a patch pair on the linkage limit (the line with |a - b| is such a space) *)
Theorem C07_round_nearest_refuted :
  exists k th ms c1 c2 h,
    covers_all dline ms c1 /\ covers_all dline ms c2 /\
    count_linked dline (close_line th) th ms c1 c2 = count_all (close_line th) ms c1 c2 /\
    count_linked dline (close_line th) th (mobj (mrun h (m_create (enc_round k) ms))) c1 c2 <>
    count_linked dline (close_line th) th ms c1 c2.
Proof. exact round_nearest_refuted. Qed.
Print Assumptions C07_round_nearest_refuted.

Theorem C07_line_is_a_distance :
  (forall a b, dline a b == dline b a) /\ (forall a b c, dline a c <= dline a b + dline b c) /\
  (forall th p q, close_line th p q = true -> dline p q <= th).
Proof. exact (conj dline_sym (conj dline_tri close_line_close)). Qed.
Print Assumptions C07_line_is_a_distance.

(* non-vacuity: centres 0.1 and 0.125, radii 0.010000004, the facing records 0.004999992 apart =
   the largest counted separation; builds, two reopenings: the identity writer and the one that
   rounds up keep all 4 ordered pairs, rounding to the nearest 1e-8 loses the 2 across the patches *)
Example C07_meta_concrete :
  let ms := [(1 # 10, 10000004 # 1000000000); (1 # 8, 10000004 # 1000000000)] in
  let pts := [[(1 # 10) + (10000004 # 1000000000)]; [(1 # 8) - (10000004 # 1000000000)]] in
  let th := 4999992 # 1000000000 in
  let h := [All (Build None true); All Reopen; One 1 None false; All Reopen] in
  mobj (mrun h (m_create (fun m => m) ms)) = ms /\
  count_linked dline (close_line th) th (mobj (mrun h (m_create (fun m => m) ms))) pts pts = 4%nat /\
  count_linked dline (close_line th) th (mobj (mrun h (m_create (enc_up 100000000) ms))) pts pts = 4%nat /\
  count_linked dline (close_line th) th (mobj (mrun h (m_create (enc_round 100000000) ms))) pts pts = 2%nat.
Proof. vm_compute. repeat split; reflexivity. Qed.

(* ---------- the OPTIONS of a measurement in a long-lived process (Model/EffOptions.v) ---------- *)
(* An option a configuration leaves unset means its default, whatever earlier measurements of the same process used.
   Qualified names: TreeCache has its own `run` / `step`. *)
From Verif Require EffOptions EffOptionsP.

(* any process whose options-in-use are a function of the configuration: history independent *)
Theorem C07_options_function_of_conf_history_independent :
  forall (V St : Type) (stp : St -> EffOptions.conf V -> St * list V) (f : EffOptions.conf V -> list V),
    (forall s c, snd (stp s c) = f c) ->
    forall s0 h c, EffOptions.gused stp s0 h c = f c /\ EffOptions.gused stp s0 h c = EffOptions.gused stp s0 [] c.
Proof. exact EffOptionsP.function_of_conf_history_independent. Qed.
Print Assumptions C07_options_function_of_conf_history_independent.

(* a new record per measurement, or a copy of a shared record of defaults: after ANY history the options in use are
   the configuration's own, unset = default, = those of a process that has done nothing else *)
Theorem C07_effective_options_history_independent : forall (V : Type) p (ds : list V) h c,
  p <> EffOptions.AliasShared ->
  EffOptions.used p ds h c = EffOptions.fill ds c /\ EffOptions.used p ds h c = EffOptions.used_fresh p ds c.
Proof. exact EffOptionsP.effective_options_history_independent. Qed.
Print Assumptions C07_effective_options_history_independent.

Theorem C07_measurement_options_history_independent :
  forall (V R : Type) (count : list V -> R) p (ds : list V) h c,
    p <> EffOptions.AliasShared ->
    count (EffOptions.used p ds h c) = count (EffOptions.used_fresh p ds c).
Proof. exact EffOptionsP.measurement_options_history_independent. Qed.
Print Assumptions C07_measurement_options_history_independent.

Theorem C07_copy_shared_never_written : forall (V : Type) (ds s : list V) h,
  EffOptions.run EffOptions.CopyShared ds s h = s.
Proof. exact EffOptionsP.copy_shared_invariant. Qed.
Print Assumptions C07_copy_shared_never_written.

(* the result key of the tied instance (defaults: no weighting, resolution 50, kpc, Planck15, right) *)
Theorem C07_result_key_history_independent : forall p h c,
  p <> EffOptions.AliasShared ->
  EffOptions.result_key (EffOptions.used p EffOptions.c07_defaults h c) = EffOptions.conf_key c.
Proof. exact EffOptionsP.result_key_history_independent. Qed.
Print Assumptions C07_result_key_history_independent.

(* a shared record updated in place only for the options that are set: every slot keeps the last value any
   measurement set ... *)
Theorem C07_alias_shared_keeps_last_explicit : forall (V : Type) (ds : list V) h c,
  EffOptions.used EffOptions.AliasShared ds h c = EffOptions.fill (fold_left (@EffOptions.fill V) h ds) c.
Proof. exact EffOptionsP.alias_used_fold. Qed.
Print Assumptions C07_alias_shared_keeps_last_explicit.

(* ... refuted by the two-step history (explicit value, then None) ... *)
Theorem C07_alias_shared_refuted :
  exists (ds : list nat) (h : list (EffOptions.conf nat)) (c : EffOptions.conf nat),
    EffOptions.used EffOptions.AliasShared ds h c <> EffOptions.used_fresh EffOptions.AliasShared ds c /\
    EffOptions.used EffOptions.AliasShared ds h c <> EffOptions.fill ds c.
Proof. exact EffOptionsP.alias_shared_refuted. Qed.
Print Assumptions C07_alias_shared_refuted.

Theorem C07_alias_shared_refuted_key :
  exists (h : list (EffOptions.conf EffOptions.oval)) (c : EffOptions.conf EffOptions.oval),
    EffOptions.key_eqb (EffOptions.result_key (EffOptions.used EffOptions.AliasShared EffOptions.c07_defaults h c))
                       (EffOptions.conf_key c) = false /\
    EffOptions.key_eqb (EffOptions.result_key (EffOptions.used EffOptions.NewRecord EffOptions.c07_defaults h c))
                       (EffOptions.conf_key c) = true /\
    EffOptions.key_eqb (EffOptions.result_key (EffOptions.used EffOptions.CopyShared EffOptions.c07_defaults h c))
                       (EffOptions.conf_key c) = true.
Proof. exact EffOptionsP.alias_shared_refuted_key. Qed.
Print Assumptions C07_alias_shared_refuted_key.

(* ... and invisible to histories whose measurements all carry the same options, and to measurements that set every
   option (which is why histories have to vary the options from step to step) *)
Theorem C07_alias_shared_same_options_invisible : forall (V : Type) (ds : list V) h c,
  Forall (eq c) h -> EffOptions.used EffOptions.AliasShared ds h c = EffOptions.fill ds c.
Proof. exact EffOptionsP.alias_same_options_invisible. Qed.
Print Assumptions C07_alias_shared_same_options_invisible.

Theorem C07_alias_shared_all_set_invisible : forall (V : Type) (ds : list V) h c,
  EffOptions.all_set c = true -> (length ds <= length c)%nat ->
  EffOptions.used EffOptions.AliasShared ds h c = EffOptions.fill ds c.
Proof. exact EffOptionsP.alias_all_set_independent. Qed.
Print Assumptions C07_alias_shared_all_set_invisible.

(* non-vacuity: weighting -1 with resolution 12, then weighting -1 with the resolution unset, then no weighting.
   NewRecord / CopyShared use resolution 50 in the second measurement, AliasShared still 12; the exposure function
   marks that step and the third one (AliasShared keeps the weighting, too), but nothing in a history where the stale
   resolution meets no weighting or every measurement sets it; the case checker accepts equal
   lived / fresh classes and flags a differing second measurement (bit 1) and a fresh result that is not a function
   of the effective options (bit 2: resolution None vs explicit 50 must agree) *)
Example C07_options_concrete :
  let w := Some (Some ((-1) # 1)) : option EffOptions.oval in
  let r12 := Some (Some (12 # 1)) : option EffOptions.oval in
  let r50 := Some (Some (50 # 1)) : option EffOptions.oval in
  let h := [[w; r12]; [w; None]; [None; None]] in
  map (fun c => nth 1 c None) [EffOptions.used EffOptions.NewRecord EffOptions.c07_defaults [[w; r12]] [w; None];
                               EffOptions.used EffOptions.CopyShared EffOptions.c07_defaults [[w; r12]] [w; None];
                               EffOptions.used EffOptions.AliasShared EffOptions.c07_defaults [[w; r12]] [w; None]]
    = [Some (50 # 1); Some (50 # 1); Some (12 # 1)] /\
  EffOptions.alias_exposed h = [false; true; true] /\
  EffOptions.alias_exposed [[None; r12]; [None; None]; [w; r12]; [w; r12]] = [false; false; false; false] /\
  EffOptions.c07_ocase h [0; 1; 2]%nat [0; 1; 2]%nat = 0%nat /\
  EffOptions.c07_ocase h [0; 0; 2]%nat [0; 1; 2]%nat = 2%nat /\
  EffOptions.c07_ocase [[w; None]; [w; r50]; [w; r12]] [0; 1; 2]%nat [0; 1; 2]%nat = 4%nat /\
  EffOptions.c07_ocase [[w; None]; [w; r50]; [w; r12]] [0; 0; 2]%nat [0; 0; 2]%nat = 0%nat.
Proof. vm_compute. repeat split; reflexivity. Qed.

(* ---------------- per-process memos of pure functions (Model/KeyedMemo.v) ---------------- *)
From Verif Require KeyedMemo KeyedMemoP.
(* a memo looked up by a key of the argument returns the function's value in every history of calls, from every sound
   starting memo, if the key determines the value ... *)
Theorem C07_memo_correct_for_every_history : forall (X Y : Type) (f : X -> Y) (key : X -> nat),
  KeyedMemo.key_determines_value f key ->
  forall xs m, KeyedMemo.sound f key m -> snd (KeyedMemo.calls f key m xs) = map f xs.
Proof. exact @KeyedMemoP.memo_correct_for_every_history. Qed.
Print Assumptions C07_memo_correct_for_every_history.
(* ... and only then: two arguments with one key and different values make a two-call history whose second answer is the first's *)
Theorem C07_memo_wrong_if_key_does_not_determine : forall (X Y : Type) (f : X -> Y) (key : X -> nat) (x x' : X),
  key x = key x' -> f x <> f x' -> snd (KeyedMemo.calls f key nil (x :: x' :: nil)) <> map f (x :: x' :: nil).
Proof. exact @KeyedMemoP.memo_wrong_if_key_does_not_determine. Qed.
Print Assumptions C07_memo_wrong_if_key_does_not_determine.
Theorem C07_unit_blind_key_refuted :
  exists (f : nat * nat -> nat) (key : nat * nat -> nat) x x',
    key x = key x' /\ snd (KeyedMemo.calls f key nil (x :: x' :: nil)) <> map f (x :: x' :: nil).
Proof. exact KeyedMemoP.unit_blind_key_refuted. Qed.
Print Assumptions C07_unit_blind_key_refuted.
