(* C11 — every persisted product reads back equal to what was written.
   Statements only; proofs are in Proofs/CodecP.v (models in Model/Codec.v). *)
From Verif Require Import Prelude Codec CodecP Overwrite OverwriteP PatchData PatchDataP PatchIds PatchIdsP.
From Coq Require Import Permutation Sorting.Sorted.
Open Scope Q_scope.

(* HDF5 pair counts: to_hdf stores only the patch pairs with a non-zero count in some bin;
   from_hdf (zeros + set_patch_pair) gives back every entry of every bins x N x N array *)
Theorem C11_sparse_counts_roundtrip : forall B N (f : nat -> nat -> nat -> Q) b i j,
  (b < B)%nat -> (i < N)%nat -> (j < N)%nat ->
  sparse_dec 0 (sparse_enc qzero B N f) b i j == f b i j.
Proof. exact sparse_counts_roundtrip. Qed.
Print Assumptions C11_sparse_counts_roundtrip.

(* the same for any element type with a zero test that is sound for the chosen equivalence *)
Theorem C11_sparse_roundtrip_any_type : forall (A : Type) (zero : A) (iszero : A -> bool) (eqv : A -> A -> Prop),
  (forall a, eqv a a) -> (forall a, iszero a = true -> eqv zero a) ->
  forall B N (f : nat -> nat -> nat -> A) b i j, (b < B)%nat -> (i < N)%nat -> (j < N)%nat ->
  eqv (sparse_dec zero (sparse_enc iszero B N f) b i j) (f b i j).
Proof. exact @sparse_roundtrip_gen. Qed.
Print Assumptions C11_sparse_roundtrip_any_type.

Theorem C11_sparse_stored_pairs : forall B N (f : nat -> nat -> nat -> Q) ij,
  In ij (map fst (sparse_enc qzero B N f)) <->
  (fst ij < N)%nat /\ (snd ij < N)%nat /\ exists b, (b < B)%nat /\ qzero (f b (fst ij) (snd ij)) = false.
Proof. exact (@sparse_enc_keys_spec Q qzero). Qed.
Print Assumptions C11_sparse_stored_pairs.

Theorem C11_sparse_counts_all_zero : forall B N (f : nat -> nat -> nat -> Q),
  (forall b i j, f b i j == 0) ->
  sparse_enc qzero B N f = [] /\ forall b i j, sparse_dec 0 (sparse_enc qzero B N f) b i j = 0.
Proof. exact sparse_counts_all_zero. Qed.
Print Assumptions C11_sparse_counts_all_zero.

(* the optional members: all 8 combinations of dr / rd / rr; the 7 a CorrFunc can have read back
   as themselves, the eighth is refused on both sides *)
Theorem C11_corrfunc_members_roundtrip : forall (A : Type) (m : members A),
  members_dec (members_enc m) = if members_valid m then Some m else None.
Proof. exact @corrfunc_members_roundtrip_all. Qed.
Print Assumptions C11_corrfunc_members_roundtrip.

(* the writer as it stands (names zipped with the present members only) misplaces every member
   that follows an absent one; right exactly for the member sets dr / dr+rd / dr+rd+rr *)
Theorem C11_corrfunc_members_current_refuted :
  exists m : members nat,
    members_valid m = true /\
    members_dec (members_enc_current m) = Some {| m_dd := m_dd m; m_dr := m_dr m; m_rd := m_rr m; m_rr := None |} /\
    members_dec (members_enc_current m) <> Some m.
Proof. exact corrfunc_members_current_refuted. Qed.
Print Assumptions C11_corrfunc_members_current_refuted.

Theorem C11_corrfunc_members_current_iff : forall (A : Type) (m : members A),
  members_valid m = true ->
  (members_dec (members_enc_current m) = Some m <->
   (is_some (m_rd m) = true -> is_some (m_dr m) = true) /\ (is_some (m_rr m) = true -> is_some (m_rd m) = true)).
Proof. exact @corrfunc_members_current_iff. Qed.
Print Assumptions C11_corrfunc_members_current_iff.

(* fixed-width text format (integer arithmetic on the decimal f"{x: .{w}f}" = sign, ip, frac):
   the parsed value P and the exactly rounded decimal D *)
Theorem C11_fixed_width_error : forall w neg ip frac,
  (0 <= w)%Z -> (0 <= ip)%Z -> (0 <= frac < 10 ^ w)%Z ->
  let k := fw_k w ip in
  let P := dec_value neg ip (frac / 10 ^ (w - k)) k in
  let D := dec_value neg ip frac w in
  fw_parse w (DFin neg ip frac) = XF P /\ dec_exact w (DFin neg ip frac) = XF D /\
  k = Z.max 0 (w - fw_ndigits ip - 1) /\ (0 <= k <= w)%Z /\
  Qabs P <= Qabs D /\ Qabs (D - P) < 1 # Z.to_pos (10 ^ k).
Proof. exact fixed_width_error. Qed.
Print Assumptions C11_fixed_width_error.

Theorem C11_fixed_width_error_total : forall w neg ip frac (x : Q),
  (0 <= w)%Z -> (0 <= ip)%Z -> (0 <= frac < 10 ^ w)%Z ->
  let k := fw_k w ip in
  let P := dec_value neg ip (frac / 10 ^ (w - k)) k in
  let D := dec_value neg ip frac w in
  Qabs (x - D) <= 1 # (2 * Z.to_pos (10 ^ w)) ->
  Qabs (P - x) < (1 # Z.to_pos (10 ^ k)) + (1 # (2 * Z.to_pos (10 ^ w))).
Proof. exact fixed_width_error_total. Qed.
Print Assumptions C11_fixed_width_error_total.

Theorem C11_int_digits_spec : forall n, (0 <= n)%Z ->
  (1 <= int_digits n)%Z /\ (n = 0%Z -> int_digits n = 1%Z) /\
  ((0 < n)%Z -> (10 ^ (int_digits n - 1) <= n < 10 ^ int_digits n)%Z).
Proof. exact int_digits_spec. Qed.
Print Assumptions C11_int_digits_spec.

Theorem C11_fixed_width_nonfinite : forall w,
  fw_parse w DNaN = XNaN /\ fw_parse w DPInf = XPInf /\ fw_parse w DNInf = XNInf.
Proof. exact fixed_width_nonfinite. Qed.
Print Assumptions C11_fixed_width_nonfinite.

(* .dat / .smp tables, repaired reader (np.loadtxt(..., ndmin=2)): every number of bins >= 1 *)
Theorem C11_ascii_roundtrip : forall (V : Type) (dflt : V) (edges data err : list V) (samples : list (list V)),
  (1 <= num_bins edges)%nat ->
  length data = num_bins edges -> length err = num_bins edges ->
  Forall (fun s => length s = num_bins edges) samples ->
  from_files_fixed dflt (dat_lines dflt edges data err) (smp_lines dflt edges samples)
  = Some (edges, data, samples).
Proof. exact @ascii_roundtrip. Qed.
Print Assumptions C11_ascii_roundtrip.

(* the reader as it stands fails on every single-bin product and equals the repaired one from two bins on *)
Theorem C11_ascii_single_bin_fails : forall (V : Type) (dflt : V) (edges data err : list V) (samples : list (list V)),
  num_bins edges = 1%nat ->
  from_files_current dflt (dat_lines dflt edges data err) (smp_lines dflt edges samples) = None.
Proof. exact @ascii_single_bin_fails. Qed.
Print Assumptions C11_ascii_single_bin_fails.

Theorem C11_ascii_single_bin_refuted :
  exists (edges data err : list nat) (samples : list (list nat)),
    num_bins edges = 1%nat /\ length data = 1%nat /\ length err = 1%nat /\
    Forall (fun s => length s = 1%nat) samples /\
    from_files_current 0%nat (dat_lines 0%nat edges data err) (smp_lines 0%nat edges samples) = None /\
    from_files_fixed 0%nat (dat_lines 0%nat edges data err) (smp_lines 0%nat edges samples)
    = Some (edges, data, samples).
Proof. exact ascii_single_bin_refuted. Qed.
Print Assumptions C11_ascii_single_bin_refuted.

Theorem C11_ascii_current_multi_bin : forall (V : Type) (dflt : V) (edges data err : list V) (samples : list (list V)),
  (2 <= num_bins edges)%nat ->
  from_files_current dflt (dat_lines dflt edges data err) (smp_lines dflt edges samples)
  = from_files_fixed dflt (dat_lines dflt edges data err) (smp_lines dflt edges samples).
Proof. exact @ascii_current_multi_bin. Qed.
Print Assumptions C11_ascii_current_multi_bin.

(* configuration YAML; gen = the edge generator, a function of (cosmology, method, zmin, zmax,
   num_bins) only.  Assumed: gen returns num_bins+1 edges that start at zmin and end at zmax
   on the parameters of the configuration (endpoints_exact_at). *)
Theorem C11_config_roundtrip_at : forall (E C Sc : Type) (gen : C -> bmethod -> E -> E -> nat -> list E) (dflt : E)
  (s : Sc) cosmo m a b n cl wk,
  endpoints_exact_at gen dflt cosmo m a b n ->
  from_dict_fixed gen (to_dict dflt (create gen s cosmo m a b n cl wk)) = Some (create gen s cosmo m a b n cl wk)
  /\ from_dict_current gen (to_dict dflt (create gen s cosmo m a b n cl wk)) = Some (create gen s cosmo m a b n cl wk).
Proof. exact @config_roundtrip_at. Qed.
Print Assumptions C11_config_roundtrip_at.

Theorem C11_config_roundtrip : forall (E C Sc : Type) (gen : C -> bmethod -> E -> E -> nat -> list E) (dflt : E)
  (c : config (E := E) (C := C) (Sc := Sc)),
  wf_config gen dflt c -> from_dict_fixed gen (to_dict dflt c) = Some c.
Proof. exact @config_roundtrip. Qed.
Print Assumptions C11_config_roundtrip.

(* without the hypothesis: the round trip is the identity iff the edges are a fixed point of
   regeneration from (first, last, count - 1) *)
Theorem C11_config_roundtrip_iff : forall (E C Sc : Type) (gen : C -> bmethod -> E -> E -> nat -> list E) (dflt : E)
  (s : Sc) (cosmo : C) m e cl wk,
  let c := {| c_scales := s; c_binning := Auto m e cl; c_cosmo := cosmo; c_workers := wk |} in
  from_dict_fixed gen (to_dict dflt c) = Some c <-> gen cosmo m (hd dflt e) (last e dflt) (length e - 1)%nat = e.
Proof. exact @config_roundtrip_iff. Qed.
Print Assumptions C11_config_roundtrip_iff.

(* custom edges: the repaired from_dict returns them, the current one raises *)
Theorem C11_config_roundtrip_custom : forall (E C Sc : Type) (gen : C -> bmethod -> E -> E -> nat -> list E) (dflt : E)
  (s : Sc) cosmo e cl wk,
  from_dict_fixed gen (to_dict dflt (create_custom s cosmo e cl wk)) = Some (create_custom s cosmo e cl wk)
  /\ from_dict_current gen (to_dict dflt (create_custom s cosmo e cl wk)) = None.
Proof. exact @config_roundtrip_custom. Qed.
Print Assumptions C11_config_roundtrip_custom.

(* the hypothesis holds for exact linspace and cannot be dropped *)
Theorem C11_linear_endpoints_exact : forall cosmo m a b n,
  (1 <= n)%nat -> endpoints_exact_at gen_linear 0 cosmo m a b n.
Proof. exact linear_endpoints_exact. Qed.
Print Assumptions C11_linear_endpoints_exact.

Theorem C11_config_roundtrip_needs_endpoints :
  exists a b n,
    let c := create (Sc := unit) gen_drift tt tt Linear a b n false None in
    from_dict_fixed gen_drift (to_dict 0 c) <> Some c.
Proof. exact config_roundtrip_needs_endpoints. Qed.
Print Assumptions C11_config_roundtrip_needs_endpoints.

(* patch metadata YAML *)
Theorem C11_metadata_roundtrip : forall (F : Type) (m : metadata F), meta_from_dict (meta_to_dict m) = Some m.
Proof. exact @metadata_roundtrip. Qed.
Print Assumptions C11_metadata_roundtrip.

(* non-vacuity: a 2 x 3 x 3 array with a pair that is zero in one bin only, a member set,
   three formatted numbers, a two-bin table and a linear configuration *)
(* ---------------- writing over what the path held before ---------------- *)
(* to_file truncates: what is read back is what was written, whatever older product (or anything else) was there *)
Theorem C11_overwrite_truncating_roundtrip : forall (A : Type) (old : list (kind * A)) (m : members A),
  members_valid m = true -> members_dec (write_trunc old m) = Some m.
Proof. exact @trunc_roundtrip. Qed.
Print Assumptions C11_overwrite_truncating_roundtrip.
(* a writer that opened the file for update would read every group back from the new object if it has that member,
   else from the older file ... *)
Theorem C11_overwrite_update_lookup : forall (A : Type) (old : list (kind * A)) (m : members A) (k : kind),
  lookup_kind k (write_update old m) = match lookup_kind k (members_enc m) with Some a => Some a | None => lookup_kind k old end.
Proof. exact @update_lookup. Qed.
Print Assumptions C11_overwrite_update_lookup.
(* ... which is the object written only if the older file held no member the new object lacks *)
Theorem C11_overwrite_update_stale_member_refuted :
  exists (old : list (kind * nat)) (m : members nat),
    members_valid m = true /\ members_dec (write_update old m) <> Some m /\ members_dec (write_trunc old m) = Some m.
Proof. exact update_stale_member_refuted. Qed.
Print Assumptions C11_overwrite_update_stale_member_refuted.
(* ---------------- patch_N/data.bin as bytes ---------------- *)
(* the header byte of bit flags reads back the flags it was made from *)
Theorem C11_patchdata_header_roundtrip : forall i : info, info_of_byte (info_byte i) = i.
Proof. exact info_roundtrip. Qed.
Print Assumptions C11_patchdata_header_roundtrip.
(* whatever records were written (any 64-bit patterns: NaN payloads, signed zeros, denormals alike) are read back:
   the same flags, the same records, bit for bit, in the same order *)
Theorem C11_patchdata_roundtrip : forall (i : info) (recs : list record),
  forallb (rec_ok i) recs = true -> read_file (file_of i recs) = Some (i, recs).
Proof. exact read_roundtrip. Qed.
Print Assumptions C11_patchdata_roundtrip.
(* a file written in any number of flushes is the file of the concatenated records (the writer only appends) *)
Theorem C11_patchdata_flushes : forall (i : info) (chunks : list (list record)),
  file_of i (concat chunks) = info_byte i :: concat (map body chunks).
Proof. exact file_flushes. Qed.
Print Assumptions C11_patchdata_flushes.
(* a file cut at a record boundary reads back as the records before the cut - silently shorter (what C08 guards
   with patch_ids.bin and meta.yml) ... *)
Theorem C11_patchdata_cut_at_record_boundary : forall (i : info) (r1 r2 : list record),
  forallb (rec_ok i) r1 = true ->
  read_file (firstn (1 + 8 * nfields i * length r1) (file_of i (r1 ++ r2))) = Some (i, r1).
Proof. exact truncated_at_record_boundary. Qed.
Print Assumptions C11_patchdata_cut_at_record_boundary.
(* ... and a cut anywhere else raises *)
Theorem C11_patchdata_cut_inside_record_raises : forall (h : N) (rest : list N),
  (length rest mod (8 * nfields (info_of_byte h)) <> 0)%nat -> read_file (h :: rest) = None.
Proof. exact cut_inside_a_record_raises. Qed.
Print Assumptions C11_patchdata_cut_inside_record_raises.
Example C11_patchdata_concrete :
  let i := {| has_w := true; has_z := false; has_pid := false |} in
  let recs := [[4607182418800017408; 0; 9221120237041090561]; [13830554455654793216; 1; 9223372036854775808]]%N in
  forallb (rec_ok i) recs = true /\ length (file_of i recs) = 49%nat /\ nth 0 (file_of i recs) 0%N = 7%N /\
  read_file (file_of i recs) = Some (i, recs) /\ read_file (firstn 48 (file_of i recs)) = None /\
  read_file (firstn 25 (file_of i recs)) = Some (i, firstn 1 recs).
Proof. vm_compute. repeat split; reflexivity. Qed.
(* ---------------- patch_ids.bin as bytes ---------------- *)
(* the marker reads back the writers' keys (any order of creation), each once, ascending ... *)
Theorem C11_patchids_roundtrip : forall ids : list nat,
  ids <> [] -> forallb id_ok ids = true -> read_ids (ids_file ids) = Some (map Z.of_nat (sort_ids ids)).
Proof. exact ids_roundtrip. Qed.
Print Assumptions C11_patchids_roundtrip.
Theorem C11_patchids_sorted_permutation : forall ids : list nat,
  Permutation ids (sort_ids ids) /\ Sorted (fun x y => is_true (x <=? y)%nat) (sort_ids ids).
Proof. exact ids_sorted_permutation. Qed.
Print Assumptions C11_patchids_sorted_permutation.
(* ... an id beyond int16 would not (the creation refuses such ids before: C09) ... *)
Theorem C11_patchids_above_int16_refuted : exists id : nat, read_ids (ids_file [id]) <> Some [Z.of_nat id].
Proof. exact id_above_int16_refuted. Qed.
Print Assumptions C11_patchids_above_int16_refuted.
(* ... and a marker cut after m bytes reads back as the first m/2 ids (np.fromfile ignores an odd byte); with fewer than
   two bytes it is refused as empty *)
Theorem C11_patchids_cut : forall (ids : list nat) (m : nat),
  forallb id_ok ids = true -> read_pairs (firstn m (ids_file ids)) = firstn (Nat.div2 m) (map Z.of_nat (sort_ids ids)).
Proof. exact ids_file_cut. Qed.
Print Assumptions C11_patchids_cut.
Theorem C11_patchids_cut_short_refused : forall (ids : list nat) (m : nat),
  (m < 2)%nat -> read_ids (firstn m (ids_file ids)) = None.
Proof. exact ids_file_cut_short. Qed.
Print Assumptions C11_patchids_cut_short_refused.
Example C11_patchids_concrete :
  ids_file [300; 2; 11]%nat = [2; 0; 11; 0; 44; 1]%N /\ read_ids [2; 0; 11; 0; 44; 1]%N = Some [2; 11; 300]%Z /\
  read_ids [2; 0; 11; 0; 44]%N = Some [2; 11]%Z /\ read_ids [255; 255]%N = Some [-1]%Z /\ read_ids [7]%N = None.
Proof. vm_compute. repeat split; reflexivity. Qed.
Example C11_concrete :
  let M := [[[0; 1; 0]; [0; 0; 0]; [2; 0; 0]]; [[0; 0; 0]; [0; 0; 0]; [5; 0; 7]]] in
  map fst (sparse_enc qzero 2 3 (get3 M)) = [(0, 1); (2, 0); (2, 2)]%nat /\
  tab3 2 3 (sparse_dec 0 (sparse_enc qzero 2 3 (get3 M))) = M /\
  members_dec (members_enc {| m_dd := 1%nat; m_dr := None; m_rd := Some 3%nat; m_rr := Some 4%nat |})
    = Some {| m_dd := 1%nat; m_dr := None; m_rd := Some 3%nat; m_rr := Some 4%nat |} /\
  fw_write 10 (DFin false 0 1234567890) = TNum false 0 1234567 7 /\
  fw_write 10 (DFin true 12345678 9876543210) = TNum true 12345678 0 0 /\
  fw_parse 10 (DFin true 1234567 1934567890) = XF (- (12345671 # 10)) /\
  (from_files_fixed 0 (dat_lines 0 [1; 2; 3] [5; 6] [7; 8]) (smp_lines 0 [1; 2; 3] [[10; 11]; [12; 13]; [14; 15]])
    = Some ([1; 2; 3], [5; 6], [[10; 11]; [12; 13]; [14; 15]]))%nat /\
  from_dict_fixed gen_linear (to_dict 0 (create (Sc := unit) gen_linear tt tt Linear (1 # 10) (1 # 2) 4 true (Some 2%nat)))
    = Some (create (Sc := unit) gen_linear tt tt Linear (1 # 10) (1 # 2) 4 true (Some 2%nat)).
Proof. vm_compute. repeat split; reflexivity. Qed.

(* ---------------- the list of scale ranges (Model/ScaleLists.v) ---------------- *)
From Verif Require ScaleLists ScaleListsP.
(* the configuration keeps the ranges as given: the i-th stored range is the i-th listed one, repeats included ... *)
Theorem C11_scale_list_kept : forall (l : list ScaleLists.range) (i : nat) (d : ScaleLists.range),
  nth i (ScaleLists.keep l) d = nth i l d /\ length (ScaleLists.keep l) = length l.
Proof. exact ScaleListsP.keep_spec. Qed.
Print Assumptions C11_scale_list_kept.
(* ... a sorted list without repeats (np.unique) is another list unless the ranges were given ascending and once *)
Theorem C11_scale_list_unique_sorted_refuted :
  (exists l i d, length (ScaleLists.unique_sorted l) = length l /\ nth i (ScaleLists.unique_sorted l) d <> nth i l d) /\
  (exists l, (length (ScaleLists.unique_sorted l) < length l)%nat).
Proof. exact ScaleListsP.unique_sorted_refuted. Qed.
Print Assumptions C11_scale_list_unique_sorted_refuted.
