(* C01 — pair counts are exact and complete.  Statements only; proofs in Proofs/PairCountP.v.
   Separations and thresholds are values on one common monotone scale (squared chords of unit
   vectors in the correspondence; the great-circle angle in the pruning theorems, whose two
   hypotheses — symmetry and the triangle inequality — are proved for the unit sphere in
   Props/C14.v, C14_sphere_triangle). *)
From Verif Require Import Prelude PairCount PairCountP PairIgnored PairIgnoredP.
Open Scope Q_scope.

(* 1. the merged-grid counter: cumulative+diff and per-bin+tail both give the (lo,hi] sums, and
      the nearest-edge slice sum over grid indices a..b is the pair sum over (r_a, r_b] *)
Theorem C01_limits_sum_exact : forall cum (r : list Q) ps a b,
  ascending r -> (a <= b)%nat -> (b < length r)%nat ->
  slice_sum (dispatch cum (if cum then cn_cum r ps else cn_bin r ps)) a b
  == w_in (nth a r 0) (nth b r 0) ps.
Proof. exact limits_sum_exact. Qed.
Print Assumptions C01_limits_sum_exact.

(* 2. a scale limit that is an edge of the grid selects exactly that edge *)
Theorem C01_nearest_exact : forall (edges : list Q) k,
  ascending edges -> (k < length edges)%nat -> nearest edges (nth k edges 0) = k.
Proof. exact nearest_exact. Qed.
Print Assumptions C01_nearest_exact.

Theorem C01_tree_count_exact : forall (grid angs : list Q) (ps : pairs) (a b : nat),
  ascending grid -> ascending angs -> length angs = length grid ->
  (a <= b)%nat -> (b < length grid)%nat ->
  tree_count grid angs None [(nth a angs 0, nth b angs 0)] ps
  = [slice_sum (dispatch (length grid <? 8)%nat
        (if (length grid <? 8)%nat then cn_cum grid ps else cn_bin grid ps)) a b] /\
  slice_sum (dispatch (length grid <? 8)%nat
        (if (length grid <? 8)%nat then cn_cum grid ps else cn_bin grid ps)) a b
  == w_in (nth a grid 0) (nth b grid 0) ps.
Proof. exact tree_count_exact. Qed.
Print Assumptions C01_tree_count_exact.

(* 3. pruning: in any space with a symmetric distance obeying the triangle inequality, a
      patch pair whose centres are not closer than r_i + r_j + M holds no pair in (lo,hi] *)
Theorem C01_prune_sound_lt : forall (P : Type) (ang : P -> P -> Q),
  (forall a b, ang a b == ang b a) -> (forall a b c, ang a c <= ang a b + ang b c) ->
  forall ci cj ri rj M lo hi (A B : list (P * Q)),
  (forall a, In a A -> ang (fst a) ci <= ri) -> (forall b, In b B -> ang (fst b) cj <= rj) ->
  ~ (ang ci cj < ri + rj + M) -> hi < M ->
  w_in lo hi (pairs_of ang A B) == 0.
Proof. exact @prune_sound_lt. Qed.
Print Assumptions C01_prune_sound_lt.

Theorem C01_prune_sound_le : forall (P : Type) (ang : P -> P -> Q),
  (forall a b, ang a b == ang b a) -> (forall a b c, ang a c <= ang a b + ang b c) ->
  forall ci cj ri rj M lo hi (A B : list (P * Q)),
  (forall a, In a A -> ang (fst a) ci <= ri) -> (forall b, In b B -> ang (fst b) cj <= rj) ->
  ~ (ang ci cj <= ri + rj + M) -> hi <= M ->
  w_in lo hi (pairs_of ang A B) == 0.
Proof. exact @prune_sound_le. Qed.
Print Assumptions C01_prune_sound_le.

(* the strict test of the code loses a pair at separation exactly M = hi *)
Theorem C01_prune_lt_refuted :
  exists (ang : Q -> Q -> Q) ci cj ri rj M lo hi (A B : list (Q * Q)),
    (forall a b, ang a b == ang b a) /\ (forall a b c, ang a c <= ang a b + ang b c) /\
    (forall a, In a A -> ang (fst a) ci <= ri) /\ (forall b, In b B -> ang (fst b) cj <= rj) /\
    ~ (ang ci cj < ri + rj + M) /\ hi <= M /\ ~ w_in lo hi (pairs_of ang A B) == 0.
Proof. exact prune_lt_refuted. Qed.
Print Assumptions C01_prune_lt_refuted.

(* 4. the pruning angle: maximum over bin centres and scales is always sufficient; the angle at
      max(zmin, limit) is sufficient only where theta does not increase, and fails below the limit *)
Theorem C01_maxangle_fix_sound : forall (thetas : list (list Q)) row x,
  In row thetas -> In x row -> x <= max_angle_fix thetas.
Proof. exact maxangle_fix_sound. Qed.
Print Assumptions C01_maxangle_fix_sound.

Theorem C01_maxangle_cur_sound : forall (theta : Q -> Q) (z0 zmid : Q),
  (forall z z', z <= z' -> theta z' <= theta z) -> z0 <= zmid -> theta zmid <= theta z0.
Proof. exact maxangle_cur_sound. Qed.
Print Assumptions C01_maxangle_cur_sound.

Theorem C01_maxangle_lowz_refuted :
  exists (theta : Q -> Q) (zmin zmax limit : Q),
    (forall z z', 0 < z -> z <= z' -> theta z' <= theta z) /\
    let z0 := qmax zmin limit in let zmid := (zmin + zmax) / 2 in
    theta z0 < theta zmid.
Proof. exact maxangle_lowz_refuted. Qed.
Print Assumptions C01_maxangle_lowz_refuted.

(* 5. every linked patch pair is visited, none twice; an autocorrelation visits every unordered
      pair once *)
Theorem C01_pairs_characterised : forall auto lk ids i j,
  In (i, j) (id_pairs auto lk ids) <->
  In i ids /\ (i = j \/ (In j (lk i) /\ j <> i /\ (auto = true -> (i < j)%nat))).
Proof. exact in_id_pairs. Qed.
Print Assumptions C01_pairs_characterised.

Theorem C01_pairs_once : forall auto lk ids,
  NoDup ids -> (forall i, NoDup (lk i)) -> NoDup (id_pairs auto lk ids).
Proof. exact pairs_once. Qed.
Print Assumptions C01_pairs_once.

Theorem C01_auto_unordered_once : forall lk ids i j,
  (forall a b, In b (lk a) <-> In a (lk b)) -> In i ids -> In j ids -> In j (lk i) -> i <> j ->
  (In (i, j) (id_pairs true lk ids) /\ ~ In (j, i) (id_pairs true lk ids)) \/
  (In (j, i) (id_pairs true lk ids) /\ ~ In (i, j) (id_pairs true lk ids)).
Proof. exact auto_unordered_once. Qed.
Print Assumptions C01_auto_unordered_once.

(* 6. composition: each cell written by count_pairs equals the specification (every object pair
      in (lo,hi]; unordered pairs once for an autocorrelation) *)
Theorem C01_count_cell_exact :
  forall (auto : bool) (cfgs : list bincfg) (C1 C2 : list obj) (binned2 : bool)
         (lk : nat -> list nat) (ids : list nat) (s b i j : nat),
  let cfg := nth b cfgs cfg_default in
  let A := sel C1 i (Some b) in
  let B := sel C2 j (if binned2 then Some b else None) in
  In i ids -> In j ids ->
  nth s (ppp cfg A B) 0 == nth s (ppp_spec cfg A B) 0 ->
  (~ In j (lk i) -> i <> j -> nth s (ppp_spec cfg A B) 0 == 0) ->
  count_cell auto cfgs C1 C2 binned2 (id_pairs auto lk ids) s b i j
  == spec_cell auto cfgs C1 C2 binned2 s b i j.
Proof. exact count_cell_exact. Qed.
Print Assumptions C01_count_cell_exact.

(* 7. separation weighting: for EVERY list of bin weights (the code uses alpha_k / sum alpha at the
      logarithmic centres of the fine bins), both dispatch modes: the slice of the weighted fine-bin
      counts between the grid edges lo and hi is the sum over the pairs in (lo, hi] of
      w * (weight of the fine bin containing the pair) *)
Theorem C01_weighted_dispatch_exact : forall cum prev p1 r1 r2 an ps,
  ascending (prev :: p1 ++ r1 ++ r2) -> r1 <> [] ->
  let grid := prev :: p1 ++ r1 ++ r2 in
  let lo := last p1 prev in let hi := last r1 lo in
  slice_sum (zipmul (dispatch cum (if cum then cn_cum grid ps else cn_bin grid ps)) an)
            (length p1) (length p1 + length r1)
  == qsum (map (fun p => if in_range lo hi (fst p) then snd p * fine_weight grid an (fst p) else 0) ps).
Proof. exact weighted_dispatch_exact. Qed.
Print Assumptions C01_weighted_dispatch_exact.

(* 8. stored patch radii.  The radius stored with a patch is measured around the STORED centre
      (the externally given one when centres are given): it covers every object of the patch,
      it is the least non-negative radius doing so, the extent the linkage derives from several
      catalogs (radius + offset of their centre) covers the objects of each of them, and with these
      radii an unlinked patch pair holds no pair in (lo,hi] - wherever the data sit relative to the
      centres (one-sided, crescent, centre outside the hull of the data).  A radius measured around
      any other point (the mean of the data while the given centre is stored) is refuted. *)
Theorem C01_radius_covers : forall (P : Type) (ang : P -> P -> Q) c (A : list (P * Q)) a,
  In a A -> ang (fst a) c <= radius_of ang c A.
Proof. exact @radius_of_covers. Qed.
Print Assumptions C01_radius_covers.

Theorem C01_radius_least : forall (P : Type) (ang : P -> P -> Q) c (A : list (P * Q)) r,
  0 <= r -> (forall a, In a A -> ang (fst a) c <= r) -> radius_of ang c A <= r.
Proof. exact @radius_of_least. Qed.
Print Assumptions C01_radius_least.

Theorem C01_extent_covers : forall (P : Type) (ang : P -> P -> Q),
  (forall a b, ang a b == ang b a) -> (forall a b c, ang a c <= ang a b + ang b c) ->
  forall c (cats : list (P * list (P * Q))) c' A a,
  In (c', A) cats -> In a A -> ang (fst a) c <= extent_of ang c cats.
Proof. exact @extent_covers. Qed.
Print Assumptions C01_extent_covers.

Theorem C01_prune_sound_stored_radii : forall (P : Type) (ang : P -> P -> Q),
  (forall a b, ang a b == ang b a) -> (forall a b c, ang a c <= ang a b + ang b c) ->
  forall ci cj (catsi catsj : list (P * list (P * Q))) c1 c2 A B M lo hi,
  In (c1, A) catsi -> In (c2, B) catsj ->
  ~ (ang ci cj <= extent_of ang ci catsi + extent_of ang cj catsj + M) -> hi <= M ->
  w_in lo hi (pairs_of ang A B) == 0.
Proof. exact @prune_sound_stored_radii. Qed.
Print Assumptions C01_prune_sound_stored_radii.

(* radii measured around mi, mj instead of the stored centres ci, cj: objects assigned to the
   nearest centre, patch pair unlinked, yet it holds a pair inside (lo, hi] *)
Theorem C01_prune_offcentre_radius_refuted :
  exists (ang : Q -> Q -> Q) ci cj mi mj M lo hi (A B : list (Q * Q)),
    (forall a b, ang a b == ang b a) /\ (forall a b c, ang a c <= ang a b + ang b c) /\
    (forall a, In a A -> ang (fst a) ci <= ang (fst a) cj) /\
    (forall b, In b B -> ang (fst b) cj <= ang (fst b) ci) /\
    ~ (ang ci cj <= radius_of ang mi A + radius_of ang mj B + M) /\ hi <= M /\
    ~ w_in lo hi (pairs_of ang A B) == 0.
Proof. exact prune_offcentre_radius_refuted. Qed.
Print Assumptions C01_prune_offcentre_radius_refuted.

(* on the correspondence scale (squared chords): the model radius covers; a passing coverage case
   of the harness means every object of every patch lies within the stored radius' threshold *)
Theorem C01_radius2_covers : forall c A, covered c (radius2 c A) A = true.
Proof. exact radius2_covers. Qed.
Print Assumptions C01_radius2_covers.

Theorem C01_cover_case_sound : forall C cens tlo thi i o,
  c01_cover_case C cens tlo thi = 0%nat -> (i < length cens)%nat -> In o (sel C i None) ->
  dist2 o (nth i cens obj_origin) <= nth i thi 0.
Proof. exact cover_case_sound. Qed.
Print Assumptions C01_cover_case_sound.

(* 9. columns and values the measurement ignores (Model/PairIgnored.v: objects with one field per
      column - optional weight, optional redshift, further columns -, bin index by np.digitize's rule).
      The unknown sample and its randoms of a cross-correlation are counted unbinned: selection, pair
      list, every cell (model and specification) and the stored weight sums depend on position,
      weight (1 without a weight column) and patch only - not on a redshift column the sample happens
      to carry (present or not; -99 flags, zeros, values outside the binning, huge values), not on the
      edges or the closed side, not on further columns.  An absent weight column is a column of ones.
      A binned sample depends on its redshifts through bin membership only; values outside the binning
      are in no bin.  Dropping objects by ANY test on the redshift column that rejects some value
      (before the binned / unbinned branch of build_trees) is refuted. *)
Theorem C01_unbinned_sel_ignores_columns : forall e r e' r' (C C' : list aobj) p,
  map core C = map core C' ->
  map strip (asel e r C p None) = map strip (asel e' r' C' p None).
Proof. exact unbinned_sel_ignores_columns. Qed.
Print Assumptions C01_unbinned_sel_ignores_columns.

Theorem C01_unbinned_tree_ignores_columns : forall e r e' r' (C C' : list aobj) p (A : list obj),
  map core C = map core C' ->
  mkpairs A (asel e r C p None) = mkpairs A (asel e' r' C' p None) /\
  sumw (asel e r C p None) = sumw (asel e' r' C' p None) /\
  length (asel e r C p None) = length (asel e' r' C' p None).
Proof. exact unbinned_tree_ignores_columns. Qed.
Print Assumptions C01_unbinned_tree_ignores_columns.

Theorem C01_unbinned_counts_ignore_columns : forall e r e' r' (C2 C2' : list aobj)
    (auto : bool) (cfgs : list bincfg) (C1 : list obj) prs (s b i j : nat),
  map core C2 = map core C2' ->
  count_cell auto cfgs C1 (classify e r C2) false prs s b i j
    = count_cell auto cfgs C1 (classify e' r' C2') false prs s b i j /\
  spec_cell auto cfgs C1 (classify e r C2) false s b i j
    = spec_cell auto cfgs C1 (classify e' r' C2') false s b i j /\
  sumw (sel (classify e r C2) j None) = sumw (sel (classify e' r' C2') j None).
Proof. exact unbinned_counts_ignore_columns. Qed.
Print Assumptions C01_unbinned_counts_ignore_columns.

Theorem C01_absent_weights_are_ones : forall C : list aobj, map core (map with_ones C) = map core C.
Proof. exact absent_weights_are_ones. Qed.
Print Assumptions C01_absent_weights_are_ones.

Theorem C01_outside_in_no_bin : forall (rt : bool) (e0 : Q) rest z b,
  (S b < length (e0 :: rest))%nat ->
  (if rt then z <= e0 else z < e0) \/
  (forall x, In x (e0 :: rest) -> if rt then x < z else x <= z) ->
  (bin_of (e0 :: rest) rt (Some z) =? S b)%nat = false.
Proof. exact outside_in_no_bin. Qed.
Print Assumptions C01_outside_in_no_bin.

Theorem C01_binned_counts_membership_only : forall e r (C1 C1' : list aobj)
    (auto : bool) (cfgs : list bincfg) (C2 : list obj) prs (s b i j : nat),
  Forall2 (fun o o' => core o = core o' /\
                       (bin_of e r (ared o) =? S b)%nat = (bin_of e r (ared o') =? S b)%nat) C1 C1' ->
  count_cell auto cfgs (classify e r C1) C2 false prs s b i j
    = count_cell auto cfgs (classify e r C1') C2 false prs s b i j /\
  spec_cell auto cfgs (classify e r C1) C2 false s b i j
    = spec_cell auto cfgs (classify e r C1') C2 false s b i j /\
  sumw (sel (classify e r C1) i (Some b)) = sumw (sel (classify e r C1') i (Some b)).
Proof. exact binned_counts_membership_only. Qed.
Print Assumptions C01_binned_counts_membership_only.

Theorem C01_filter_on_ignored_refuted : forall (keep : option Q -> bool) (z0 : Q) e r,
  keep (Some z0) = false ->
  exists (C : list aobj) (A : list obj) lo hi,
    ~ sumw (selk keep e r C 0 None) == sumw (asel e r C 0 None) /\
    ~ w_in lo hi (mkpairs A (selk keep e r C 0 None)) == w_in lo hi (mkpairs A (asel e r C 0 None)).
Proof. exact filter_on_ignored_refuted. Qed.
Print Assumptions C01_filter_on_ignored_refuted.

Theorem C01_negative_flag_filter_refuted : forall e r,
  exists (C : list aobj) (A : list obj) lo hi,
    ~ sumw (selk keep_nonneg e r C 0 None) == sumw (asel e r C 0 None) /\
    ~ w_in lo hi (mkpairs A (selk keep_nonneg e r C 0 None)) == w_in lo hi (mkpairs A (asel e r C 0 None)).
Proof. exact negative_flag_filter_refuted. Qed.
Print Assumptions C01_negative_flag_filter_refuted.

(* a passing tree case of the harness (AngularTree / build_trees / BinnedTrees / Catalog.build_trees)
   means: counts = pair sum over ALL selected objects, records and weight sums as selected *)
Theorem C01_ign_tree_case_sound : forall edges rt C p bin D q bin' cfg impl nrec nrec' sw sw',
  c01_ign_tree_case edges rt C p bin D q bin' cfg impl nrec nrec' sw sw' = 0%nat ->
  balpha cfg = None ->
  let A := asel edges rt C p bin in let B := asel edges rt D q bin' in
  qlist_eqb (ppp_spec cfg A B) impl = true /\ length A = nrec /\ length B = nrec' /\
  sumw A == sw /\ sumw B == sw'.
Proof. exact ign_tree_case_sound. Qed.
Print Assumptions C01_ign_tree_case_sound.

(* non-vacuity of 9: an unknown patch whose redshift column holds -99, 0 and 10^30 and which has an
   extra column contributes all three objects; the reference keeps the two objects inside (1/10, 1/2]
   and none of -99, 0, 1000; the filtered variant loses the flagged object *)
Example C01_ignored_concrete :
  let e := [1#10; 1#2; 1] in
  let mk := fun x w z p ex => {| ax := x; ay := 0; az := 0; aw := w; ared := z; apatch := p; aextra := ex |} in
  let ref := [mk 0%Z None (Some (3#10)) 0%nat []; mk 1%Z (Some 2) (Some (1#2)) 0%nat [];
              mk 2%Z None (Some (-99)) 0%nat []; mk 3%Z None (Some 0) 0%nat []; mk 4%Z None (Some 1000) 0%nat []] in
  let unk := [mk 2%Z None (Some (-99)) 0%nat [7]; mk 3%Z (Some 1) (Some 0) 0%nat [8]; mk 5%Z None (Some (10^30)) 0%nat []] in
  let bare := [mk 2%Z None None 0%nat []; mk 3%Z None None 0%nat []; mk 5%Z None None 0%nat []] in
  length (asel e true unk 0 None) = 3%nat /\ sumw (asel e true unk 0 None) == 3 /\
  length (asel e true ref 0 (Some 0%nat)) = 2%nat /\ sumw (asel e true ref 0 (Some 0%nat)) == 3 /\
  length (asel e true ref 0 (Some 1%nat)) = 0%nat /\
  w_in 0 9 (mkpairs (asel e true ref 0 (Some 0%nat)) (asel e true unk 0 None)) == 6 /\
  map core unk = map core bare /\
  length (selk keep_nonneg e true unk 0 None) = 2%nat.
Proof. exact ignored_concrete. Qed.

(* non-vacuity: a 9-edge grid (per-bin branch) and a 3-edge grid (cumulative branch) on four
   pairs: the slice over edges 1..2 is the weight in (r_1, r_2] *)
Example C01_concrete :
  let ps := [(1#2, 1); (3#2, 2); (5#2, 4); (7#2, 8)] in
  tree_count [1;2;3] [1;2;3] None [(2, 3)] ps = [4] /\
  tree_count [0;1;2;3;4;5;6;7;8] [0;1;2;3;4;5;6;7;8] None [(1, 3)] ps = [6] /\
  ascending [0;1;2;3;4;5;6;7;8].
Proof. vm_compute. repeat split; reflexivity. Qed.

(* ---------------- integer counts in floating-point cells (Model/Mantissa.v) ---------------- *)
From Verif Require Mantissa MantissaP.
(* counts, and the delete-one totals formed from them, are exact in float64 cells as long as the total stays below 2^53 ... *)
Theorem C01_loo_exact_in_float64 : forall total involved : Z,
  (0 <= involved <= total)%Z -> (total < 2 ^ 53)%Z ->
  Mantissa.keep_bits 53 (Mantissa.loo (Mantissa.keep_bits 53 total) (Mantissa.keep_bits 53 involved)) = (total - involved)%Z.
Proof. exact MantissaP.loo_exact_in_float64. Qed.
Print Assumptions C01_loo_exact_in_float64.
(* ... a 24-bit significand (float32 cells) loses the count 2^24 + 1 and a delete-one total with it *)
Theorem C01_float32_cells_refuted :
  exists total involved : Z, (0 <= involved <= total)%Z /\ (total < 2 ^ 53)%Z /\
    Mantissa.loo (Mantissa.keep_bits 24 total) (Mantissa.keep_bits 24 involved) <> (total - involved)%Z.
Proof. exact MantissaP.float32_loo_refuted. Qed.
Print Assumptions C01_float32_cells_refuted.
