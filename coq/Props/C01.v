(* C01 — pair counts are exact and complete.  Statements only; proofs in Proofs/PairCountP.v.
   Separations and thresholds are values on one common monotone scale (squared chords of unit
   vectors in the correspondence; the great-circle angle in the pruning theorems, whose two
   hypotheses — symmetry and the triangle inequality — are proved for the unit sphere in
   Props/C14.v, C14_sphere_triangle). *)
From Verif Require Import Prelude PairCount PairCountP.
Open Scope Q_scope.

(* 1. the merged-grid counter: cumulative+diff and per-bin+tail both give the (lo,hi] sums, and
      the nearest-edge slice sum over grid indices a..b is the pair sum over (r_a, r_b] *)
Theorem C01_limits_sum_exact : forall cum (r : list Q) ps a b,
  ascending r -> (a <= b)%nat -> (b < length r)%nat ->
  slice_sum (dispatch cum (if cum then cn_cum r ps else cn_bin r ps)) a b
  == w_in (nth a r 0) (nth b r 0) ps.
Proof. exact limits_sum_exact. Qed.
Print Assumptions C01_limits_sum_exact.

(* 2. a scale limit that is an edge of the grid selects exactly that edge *)
Theorem C01_nearest_exact : forall (edges : list Q) k,
  ascending edges -> (k < length edges)%nat -> nearest edges (nth k edges 0) = k.
Proof. exact nearest_exact. Qed.
Print Assumptions C01_nearest_exact.

Theorem C01_tree_count_exact : forall (grid angs : list Q) (ps : pairs) (a b : nat),
  ascending grid -> ascending angs -> length angs = length grid ->
  (a <= b)%nat -> (b < length grid)%nat ->
  tree_count grid angs None [(nth a angs 0, nth b angs 0)] ps
  = [slice_sum (dispatch (length grid <? 8)%nat
        (if (length grid <? 8)%nat then cn_cum grid ps else cn_bin grid ps)) a b] /\
  slice_sum (dispatch (length grid <? 8)%nat
        (if (length grid <? 8)%nat then cn_cum grid ps else cn_bin grid ps)) a b
  == w_in (nth a grid 0) (nth b grid 0) ps.
Proof. exact tree_count_exact. Qed.
Print Assumptions C01_tree_count_exact.

(* 3. pruning: in any space with a symmetric distance obeying the triangle inequality, a
      patch pair whose centres are not closer than r_i + r_j + M holds no pair in (lo,hi] *)
Theorem C01_prune_sound_lt : forall (P : Type) (ang : P -> P -> Q),
  (forall a b, ang a b == ang b a) -> (forall a b c, ang a c <= ang a b + ang b c) ->
  forall ci cj ri rj M lo hi (A B : list (P * Q)),
  (forall a, In a A -> ang (fst a) ci <= ri) -> (forall b, In b B -> ang (fst b) cj <= rj) ->
  ~ (ang ci cj < ri + rj + M) -> hi < M ->
  w_in lo hi (pairs_of ang A B) == 0.
Proof. exact @prune_sound_lt. Qed.
Print Assumptions C01_prune_sound_lt.

Theorem C01_prune_sound_le : forall (P : Type) (ang : P -> P -> Q),
  (forall a b, ang a b == ang b a) -> (forall a b c, ang a c <= ang a b + ang b c) ->
  forall ci cj ri rj M lo hi (A B : list (P * Q)),
  (forall a, In a A -> ang (fst a) ci <= ri) -> (forall b, In b B -> ang (fst b) cj <= rj) ->
  ~ (ang ci cj <= ri + rj + M) -> hi <= M ->
  w_in lo hi (pairs_of ang A B) == 0.
Proof. exact @prune_sound_le. Qed.
Print Assumptions C01_prune_sound_le.

(* the strict test of the code loses a pair at separation exactly M = hi *)
Theorem C01_prune_lt_refuted :
  exists (ang : Q -> Q -> Q) ci cj ri rj M lo hi (A B : list (Q * Q)),
    (forall a b, ang a b == ang b a) /\ (forall a b c, ang a c <= ang a b + ang b c) /\
    (forall a, In a A -> ang (fst a) ci <= ri) /\ (forall b, In b B -> ang (fst b) cj <= rj) /\
    ~ (ang ci cj < ri + rj + M) /\ hi <= M /\ ~ w_in lo hi (pairs_of ang A B) == 0.
Proof. exact prune_lt_refuted. Qed.
Print Assumptions C01_prune_lt_refuted.

(* 4. the pruning angle: maximum over bin centres and scales is always sufficient; the angle at
      max(zmin, limit) is sufficient only where theta does not increase, and fails below the limit *)
Theorem C01_maxangle_fix_sound : forall (thetas : list (list Q)) row x,
  In row thetas -> In x row -> x <= max_angle_fix thetas.
Proof. exact maxangle_fix_sound. Qed.
Print Assumptions C01_maxangle_fix_sound.

Theorem C01_maxangle_cur_sound : forall (theta : Q -> Q) (z0 zmid : Q),
  (forall z z', z <= z' -> theta z' <= theta z) -> z0 <= zmid -> theta zmid <= theta z0.
Proof. exact maxangle_cur_sound. Qed.
Print Assumptions C01_maxangle_cur_sound.

Theorem C01_maxangle_lowz_refuted :
  exists (theta : Q -> Q) (zmin zmax limit : Q),
    (forall z z', 0 < z -> z <= z' -> theta z' <= theta z) /\
    let z0 := qmax zmin limit in let zmid := (zmin + zmax) / 2 in
    theta z0 < theta zmid.
Proof. exact maxangle_lowz_refuted. Qed.
Print Assumptions C01_maxangle_lowz_refuted.

(* 5. every linked patch pair is visited, none twice; an autocorrelation visits every unordered
      pair once *)
Theorem C01_pairs_characterised : forall auto lk ids i j,
  In (i, j) (id_pairs auto lk ids) <->
  In i ids /\ (i = j \/ (In j (lk i) /\ j <> i /\ (auto = true -> (i < j)%nat))).
Proof. exact in_id_pairs. Qed.
Print Assumptions C01_pairs_characterised.

Theorem C01_pairs_once : forall auto lk ids,
  NoDup ids -> (forall i, NoDup (lk i)) -> NoDup (id_pairs auto lk ids).
Proof. exact pairs_once. Qed.
Print Assumptions C01_pairs_once.

Theorem C01_auto_unordered_once : forall lk ids i j,
  (forall a b, In b (lk a) <-> In a (lk b)) -> In i ids -> In j ids -> In j (lk i) -> i <> j ->
  (In (i, j) (id_pairs true lk ids) /\ ~ In (j, i) (id_pairs true lk ids)) \/
  (In (j, i) (id_pairs true lk ids) /\ ~ In (i, j) (id_pairs true lk ids)).
Proof. exact auto_unordered_once. Qed.
Print Assumptions C01_auto_unordered_once.

(* 6. composition: each cell written by count_pairs equals the specification (every object pair
      in (lo,hi]; unordered pairs once for an autocorrelation) *)
Theorem C01_count_cell_exact :
  forall (auto : bool) (cfgs : list bincfg) (C1 C2 : list obj) (binned2 : bool)
         (lk : nat -> list nat) (ids : list nat) (s b i j : nat),
  let cfg := nth b cfgs cfg_default in
  let A := sel C1 i (Some b) in
  let B := sel C2 j (if binned2 then Some b else None) in
  In i ids -> In j ids ->
  nth s (ppp cfg A B) 0 == nth s (ppp_spec cfg A B) 0 ->
  (~ In j (lk i) -> i <> j -> nth s (ppp_spec cfg A B) 0 == 0) ->
  count_cell auto cfgs C1 C2 binned2 (id_pairs auto lk ids) s b i j
  == spec_cell auto cfgs C1 C2 binned2 s b i j.
Proof. exact count_cell_exact. Qed.
Print Assumptions C01_count_cell_exact.

(* 7. separation weighting: for EVERY list of bin weights (the code uses alpha_k / sum alpha at the
      logarithmic centres of the fine bins), both dispatch modes: the slice of the weighted fine-bin
      counts between the grid edges lo and hi is the sum over the pairs in (lo, hi] of
      w * (weight of the fine bin containing the pair) *)
Theorem C01_weighted_dispatch_exact : forall cum prev p1 r1 r2 an ps,
  ascending (prev :: p1 ++ r1 ++ r2) -> r1 <> [] ->
  let grid := prev :: p1 ++ r1 ++ r2 in
  let lo := last p1 prev in let hi := last r1 lo in
  slice_sum (zipmul (dispatch cum (if cum then cn_cum grid ps else cn_bin grid ps)) an)
            (length p1) (length p1 + length r1)
  == qsum (map (fun p => if in_range lo hi (fst p) then snd p * fine_weight grid an (fst p) else 0) ps).
Proof. exact weighted_dispatch_exact. Qed.
Print Assumptions C01_weighted_dispatch_exact.

(* non-vacuity: a 9-edge grid (per-bin branch) and a 3-edge grid (cumulative branch) on four
   pairs: the slice over edges 1..2 is the weight in (r_1, r_2] *)
Example C01_concrete :
  let ps := [(1#2, 1); (3#2, 2); (5#2, 4); (7#2, 8)] in
  tree_count [1;2;3] [1;2;3] None [(2, 3)] ps = [4] /\
  tree_count [0;1;2;3;4;5;6;7;8] [0;1;2;3;4;5;6;7;8] None [(1, 3)] ps = [6] /\
  ascending [0;1;2;3;4;5;6;7;8].
Proof. vm_compute. repeat split; reflexivity. Qed.
