(* C10 — redshift-bin membership follows the closed-side rule everywhere.
   Statements only; proofs are in Proofs/BinningP.v, Proofs/BinningEqP.v and Proofs/BinningLookP.v, models in
   Model/Binning.v, Model/BinningEq.v and Model/BinningLook.v. *)
From Verif Require Import Prelude Binning BinningP BinningEq BinningEqP BinningLook BinningLookP.
Open Scope Q_scope.

(* np.digitize on strictly increasing edges, both values of `right`: b+1 iff member b,
   0 below the binning, nbins+1 (= number of edges) above *)
Theorem C10_digitize_member : forall cr edges z,
  increasing edges -> (2 <= length edges)%nat ->
  (forall b, member cr edges b z <-> digitize cr edges z = S b /\ (S b < length edges)%nat) /\
  (digitize cr edges z = 0%nat <-> below cr edges z) /\
  (digitize cr edges z = length edges <-> above cr edges z) /\
  (digitize cr edges z <= length edges)%nat.
Proof. exact digitize_member. Qed.
Print Assumptions C10_digitize_member.

(* build_trees (keep 0 < i <= nbins, dummy trees): every object is counted in exactly the bin
   of `member`, objects outside the binning nowhere; per-bin count and weight sum *)
Theorem C10_trees_partition : forall hasw cr edges objs,
  increasing edges -> (2 <= length edges)%nat ->
  length (build_trees_fix hasw cr edges objs) = nbins edges /\
  (forall b, (b < nbins edges)%nat ->
     group cr edges objs (S b) = filter (fun o => memberb cr edges b (oz o)) objs /\
     (forall o, In o (group cr edges objs (S b)) <-> In o objs /\ member cr edges b (oz o)) /\
     fst (nth b (build_trees_fix hasw cr edges objs) dummy_tree) = spec_count cr edges objs b /\
     snd (nth b (build_trees_fix hasw cr edges objs) dummy_tree) == spec_weight hasw cr edges objs b) /\
  (forall z b b', member cr edges b z -> member cr edges b' z -> b = b') /\
  (forall z b, below cr edges z \/ above cr edges z -> ~ member cr edges b z).
Proof. exact trees_partition. Qed.
Print Assumptions C10_trees_partition.

Theorem C10_memberb_spec : forall cr edges b z, memberb cr edges b z = true <-> member cr edges b z.
Proof. exact memberb_spec. Qed.
Print Assumptions C10_memberb_spec.

(* the build_trees of the pinned commit: the same trees, but an error (None) exactly when no
   object of the patch lies inside the binning *)
Theorem C10_build_trees_cur_spec : forall hasw cr edges objs,
  increasing edges -> (2 <= length edges)%nat ->
  (build_trees_cur hasw cr edges objs = None <->
     forall o, In o objs -> forall b, ~ member cr edges b (oz o)) /\
  (forall l, build_trees_cur hasw cr edges objs = Some l -> l = build_trees_fix hasw cr edges objs).
Proof. exact build_trees_cur_spec. Qed.
Print Assumptions C10_build_trees_cur_spec.

Theorem C10_empty_patch_refuted :
  exists edges objs, increasing edges /\ (2 <= length edges)%nat /\ objs <> [] /\
    build_trees_cur true true edges objs = None /\
    build_trees_fix true true edges objs = [dummy_tree; dummy_tree].
Proof. exact empty_patch_refuted. Qed.
Print Assumptions C10_empty_patch_refuted.

(* histogram of the pinned commit (outer-edge mask + np.histogram): correct for closed = left *)
Theorem C10_hist_left_member : forall hasw edges objs,
  increasing edges -> (2 <= length edges)%nat ->
  hist_cur hasw false edges objs = spec_wsums hasw false edges objs /\
  (forall b, (b < nbins edges)%nat ->
     nth b (hist_cur hasw false edges objs) 0 == spec_weight hasw false edges objs b) /\
  hist_cur hasw false edges objs = hist_fix hasw false edges objs.
Proof. exact hist_left_member. Qed.
Print Assumptions C10_hist_left_member.

(* ... wrong for closed = right: a redshift on an inner edge goes to the upper bin *)
Theorem C10_hist_right_refuted :
  exists edges z, increasing edges /\ (2 <= length edges)%nat /\
    member true edges 0 z /\ ~ member true edges 1 z /\
    qlist_eqb (hist_cur true true edges [(z, 1)]) [0; 1] = true /\
    qlist_eqb (hist_fix true true edges [(z, 1)]) [1; 0] = true /\
    trees_eqb (build_trees_fix true true edges [(z, 1)]) [(1%nat, 1); (0%nat, 0)] = true.
Proof. exact hist_right_refuted. Qed.
Print Assumptions C10_hist_right_refuted.

Theorem C10_hist_right_inner_edge_upper : forall edges k,
  increasing edges -> (S (S k) < length edges)%nat ->
  let z := edge edges (S k) in
  hist_mask true edges z && np_in_bin edges (S k) z = true /\
  hist_mask true edges z && np_in_bin edges k z = false /\
  memberb true edges (S k) z = false /\ memberb true edges k z = true.
Proof. exact hist_right_inner_edge_upper. Qed.
Print Assumptions C10_hist_right_inner_edge_upper.

(* the repaired, digitize-based histogram: correct for both closed sides, equal to the trees *)
Theorem C10_hist_fix_member : forall hasw cr edges objs,
  increasing edges -> (2 <= length edges)%nat ->
  hist_fix hasw cr edges objs = spec_wsums hasw cr edges objs /\
  (forall b, (b < nbins edges)%nat ->
     nth b (hist_fix hasw cr edges objs) 0 == spec_weight hasw cr edges objs b) /\
  hist_fix hasw cr edges objs = map snd (build_trees_fix hasw cr edges objs).
Proof. exact hist_fix_member. Qed.
Print Assumptions C10_hist_fix_member.

(* bins / patches without objects give zeros *)
Theorem C10_empty_ok : forall hasw cr edges,
  build_trees_fix hasw cr edges [] = repeat dummy_tree (nbins edges) /\
  hist_fix hasw cr edges [] = repeat 0 (nbins edges) /\
  hist_cur hasw cr edges [] = repeat 0 (nbins edges) /\
  (forall objs b, increasing edges -> (2 <= length edges)%nat -> (b < nbins edges)%nat ->
     (forall o, In o objs -> ~ member cr edges b (oz o)) ->
     nth b (build_trees_fix hasw cr edges objs) (1%nat, 1) = dummy_tree /\
     nth b (hist_fix hasw cr edges objs) 1 = 0).
Proof. exact empty_ok. Qed.
Print Assumptions C10_empty_ok.

(* whole catalog: measurement sum_weights[b][p] and the histogram follow the one rule *)
Theorem C10_sum_weights_member : forall hasw cr edges patches b p,
  increasing edges -> (2 <= length edges)%nat -> (b < nbins edges)%nat -> (p < length patches)%nat ->
  nth p (nth b (cat_sum_weights hasw cr edges patches) []) 0 ==
  spec_weight hasw cr edges (nth p patches []) b.
Proof. exact sum_weights_member. Qed.
Print Assumptions C10_sum_weights_member.

Theorem C10_cat_hist_member : forall hasw cr edges patches b,
  increasing edges -> (2 <= length edges)%nat -> (b < nbins edges)%nat ->
  nth b (cat_hist_fix hasw cr edges patches) 0 == nth b (spec_hist hasw cr edges patches) 0 /\
  (cr = false -> nth b (cat_hist_cur hasw cr edges patches) 0 == nth b (spec_hist hasw cr edges patches) 0) /\
  nth b (spec_hist hasw cr edges patches) 0 == qsum (nth b (cat_sum_weights hasw cr edges patches) []).
Proof. exact cat_hist_member. Qed.
Print Assumptions C10_cat_hist_member.

(* non-vacuity: edges 1/4 < 1/2 < 1, redshifts on every edge, one midpoint, below and above;
   closed = right and closed = left give different, fully determined trees, and the current
   histogram differs from the trees only for closed = right *)
Example C10_concrete :
  let edges := [1#4; 1#2; 1] in
  let objs := [(1#4, 1); (1#2, 2); (1, 4); (3#8, 8); (1#8, 16); (3#2, 32)] in
  increasing edges /\
  build_trees_fix true true edges objs = [(2%nat, 10); (1%nat, 4)] /\
  build_trees_fix true false edges objs = [(2%nat, 9); (1%nat, 2)] /\
  hist_cur true false edges objs = [9; 2] /\
  hist_cur true true edges objs = [8; 6] /\
  build_trees_cur true true edges [(1#4, 1); (3#2, 1)] = None.
Proof. vm_compute. repeat split; reflexivity. Qed.

(* ---- worker processes: the binning is pickled on its way to the workers of build_trees,
        HistData.from_catalog and count_pairs, and copied into results ---- *)

(* the binning that arrives equals the binning that was sent: every redshift keeps its bins *)
Theorem C10_transport_sound : forall cr e cr' e',
  binning_eqb (cr, e) (cr', e') = true ->
  forall b z, member cr e b z <-> member cr' e' b z.
Proof. exact transport_sound. Qed.
Print Assumptions C10_transport_sound.

(* and nothing less will do: the membership relation determines closed side and edges *)
Theorem C10_member_determines_binning : forall cr cr' e e',
  increasing e -> increasing e' -> (2 <= length e)%nat -> (2 <= length e')%nat ->
  (forall b z, member cr e b z <-> member cr' e' b z) ->
  cr = cr' /\ length e = length e' /\ forall k, (k < length e)%nat -> edge e k == edge e' k.
Proof. exact member_determines_binning. Qed.
Print Assumptions C10_member_determines_binning.

(* a lost / flipped closed side moves exactly the edge-valued redshifts *)
Theorem C10_closed_flip_on_edges : forall e k,
  increasing e -> (S k < length e)%nat ->
  member true e k (edge e (S k)) /\ ~ member false e k (edge e (S k)) /\
  member false e k (edge e k) /\ ~ member true e k (edge e k) /\
  (forall z, ~ z == edge e k -> ~ z == edge e (S k) -> (member true e k z <-> member false e k z)).
Proof. exact closed_flip_on_edges. Qed.
Print Assumptions C10_closed_flip_on_edges.

(* the checker the harness evaluates on every observed transport *)
Theorem C10_transport_case_sound : forall cr e cr' e',
  c10_transport_case cr e cr' e' = 0%nat ->
  increasing e /\ (2 <= length e)%nat /\ cr = cr' /\
  forall b z, member cr e b z <-> member cr' e' b z.
Proof. exact transport_case_sound. Qed.
Print Assumptions C10_transport_case_sound.

(* non-vacuity: a closed = left binning that arrives as closed = right (same edges) is reported by
   flags 0 and 2, changed edges by flags 1 and 2, and the trees built from the arrived binning
   differ from the trees of the sent one on a redshift that sits on an edge *)
Example C10_transport_concrete :
  let edges := [1#4; 1#2; 1] in
  c10_transport_case false edges false edges = 0%nat /\
  c10_transport_case false edges true edges = 5%nat /\
  c10_transport_case true edges true [1#4; 5#8; 1] = 6%nat /\
  build_trees_fix true false edges [(1#2, 1)] = [(0%nat, 0); (1%nat, 1)] /\
  build_trees_fix true true edges [(1#2, 1)] = [(1%nat, 1); (0%nat, 0)].
Proof. vm_compute. repeat split; reflexivity. Qed.

(* ---- measurements over several linked patches: count_pairs writes, for every patch pair result and
        in the order of arrival, column id1 of sum_weights1 and column id2 of sum_weights2 ---- *)

(* for EVERY sequence of patch pairs (every linkage, every order in which the workers deliver) the
   per-bin sum of weights recorded for a patch is the closed-side rule applied to the objects of
   that patch alone (binned sample), resp. the patch total in every bin (sample without binning):
   it does not depend on the partner patches, in particular not on a partner without objects in
   the bin; bins / patches without objects give 0 (C10_empty_ok), populated ones their sum *)
Theorem C10_count_pairs_member : forall cr edges binned1 hasw1 cat1 binned2 hasw2 cat2 pairs b p,
  increasing edges -> (2 <= length edges)%nat -> (b < nbins edges)%nat ->
  (forall ij, In ij pairs -> (fst ij < length cat1)%nat /\ (snd ij < length cat2)%nat) ->
  let m := count_pairs_sw cr edges binned1 hasw1 cat1 binned2 hasw2 cat2 pairs in
  ((p < length cat1)%nat -> (exists j, In (p, j) pairs) ->
     nth p (nth b (fst m) []) 0 ==
     (if binned1 then spec_weight hasw1 cr edges (nth p cat1 []) b else wsum hasw1 (nth p cat1 []))) /\
  ((p < length cat2)%nat -> (exists i, In (i, p) pairs) ->
     nth p (nth b (snd m) []) 0 ==
     (if binned2 then spec_weight hasw2 cr edges (nth p cat2 []) b else wsum hasw2 (nth p cat2 []))).
Proof. exact count_pairs_member. Qed.
Print Assumptions C10_count_pairs_member.

(* linkage and schedule are invisible in sum_weights *)
Theorem C10_count_pairs_schedule_free : forall cr edges binned1 hasw1 cat1 binned2 hasw2 cat2 pairs pairs' b p,
  increasing edges -> (2 <= length edges)%nat -> (b < nbins edges)%nat ->
  (forall ij, In ij pairs -> (fst ij < length cat1)%nat /\ (snd ij < length cat2)%nat) ->
  (forall ij, In ij pairs' -> (fst ij < length cat1)%nat /\ (snd ij < length cat2)%nat) ->
  (p < length cat1)%nat -> (exists j, In (p, j) pairs) -> (exists j, In (p, j) pairs') ->
  nth p (nth b (fst (count_pairs_sw cr edges binned1 hasw1 cat1 binned2 hasw2 cat2 pairs)) []) 0 ==
  nth p (nth b (fst (count_pairs_sw cr edges binned1 hasw1 cat1 binned2 hasw2 cat2 pairs')) []) 0.
Proof. exact count_pairs_schedule_free. Qed.
Print Assumptions C10_count_pairs_schedule_free.

(* the theorem has content: a pair result that leaves a bin at 0 when one of the two trees is empty
   makes the objects of the populated partner vanish from the measurement *)
Theorem C10_count_pairs_skip_refuted :
  exists edges cat pairs, increasing edges /\ (2 <= length edges)%nat /\
    pairs_ok (length cat) (length cat) pairs = true /\
    fst (count_pairs_sw true edges true true cat true true cat pairs) = [[1; 0]; [0; 2]] /\
    spec_sum_weights true true edges cat = [[1; 0]; [0; 2]] /\
    fst (count_pairs_sw_skip true edges true true cat true true cat pairs) = [[0; 0]; [0; 2]] /\
    snd (count_pairs_sw_skip true edges true true cat true true cat pairs) = [[1; 0]; [0; 0]].
Proof. exact count_pairs_skip_refuted. Qed.
Print Assumptions C10_count_pairs_skip_refuted.

(* the checker the harness evaluates on every observed pair-count container (dd / dr / rd / rr) *)
Theorem C10_count_case_sound : forall cr edges binned1 hasw1 cat1 binned2 hasw2 cat2 pairs obs1 obs2,
  c10_count_case cr edges binned1 hasw1 cat1 binned2 hasw2 cat2 pairs obs1 obs2 = 0%nat ->
  increasing edges /\ (2 <= length edges)%nat /\
  forall b p, (b < nbins edges)%nat ->
    ((p < length cat1)%nat -> nth p (nth b obs1 []) 0 ==
       (if binned1 then spec_weight hasw1 cr edges (nth p cat1 []) b else wsum hasw1 (nth p cat1 []))) /\
    ((p < length cat2)%nat -> nth p (nth b obs2 []) 0 ==
       (if binned2 then spec_weight hasw2 cr edges (nth p cat2 []) b else wsum hasw2 (nth p cat2 []))).
Proof. exact count_case_sound. Qed.
Print Assumptions C10_count_case_sound.

(* non-vacuity: three linked patches, three bins, data and randoms populate different (bin, patch)
   cells (patch 1 of the data only bin 0, patch 2 only bin 2, bin 1 of the randoms only patch 1),
   redshifts on inner and outer edges and outside; all nine patch pairs; closed = right with both
   samples binned, closed = left with the second sample unbinned and unweighted; a populated cell
   reported as 0 is flagged (flags 0, 2 and 5) *)
Example C10_count_pairs_concrete :
  let edges := [1#4; 1#2; 3#4; 1] in
  let data := [[(1#4, 1); (3#8, 2); (1#2, 4); (5#8, 8); (1, 16); (5#4, 32)]; [(3#8, 1); (1#2, 2)]; [(7#8, 4); (1, 8)]] in
  let rand := [[(7#8, 1)]; [(5#8, 2); (7#8, 4)]; [(3#8, 8)]] in
  let pairs := [(0, 0); (1, 1); (2, 2); (0, 1); (1, 2); (0, 2); (1, 0); (2, 1); (2, 0)]%nat in
  count_pairs_sw true edges true true data true true rand pairs =
    ([[6; 3; 0]; [8; 0; 0]; [16; 0; 12]], [[0; 0; 8]; [0; 2; 0]; [1; 4; 0]]) /\
  count_pairs_sw false edges true true data false false rand pairs =
    ([[3; 1; 0]; [12; 2; 0]; [0; 0; 4]], [[1; 2; 1]; [1; 2; 1]; [1; 2; 1]]) /\
  c10_count_case true edges true true data true true rand pairs
    [[6; 3; 0]; [8; 0; 0]; [16; 0; 12]] [[0; 0; 8]; [0; 2; 0]; [1; 4; 0]] = 0%nat /\
  c10_count_case true edges true true data true true rand pairs
    [[6; 0; 0]; [8; 0; 0]; [16; 0; 12]] [[0; 0; 8]; [0; 2; 0]; [1; 4; 0]] = 37%nat.
Proof. vm_compute. repeat split; reflexivity. Qed.

(* ---- histories of the tree cache: the patches of one catalog may hold trees for DIFFERENT binnings
        (BinnedTrees.build on some patches only, Catalog.build_trees / a measurement interrupted
        after some patches) when the measured build is requested ---- *)

(* every history keeps the invariant "a patch's cached trees are the trees of the binning stored with them" *)
Theorem C10_cache_history_valid : forall hasw patches hist c,
  cache_valid hasw patches c -> cache_valid hasw patches (run_history hasw patches hist c).
Proof. exact run_history_valid. Qed.
Print Assumptions C10_cache_history_valid.

(* for EVERY history (per-patch builds on any patches in any order, complete and interrupted
   catalog-wide builds, any binnings, closed sides and force flags) the next Catalog.build_trees leaves
   in EVERY patch trees in which each object sits in exactly the bin of `member` for the requested
   edges and closed side; a patch keeps its cached trees only if the binning stored with THEM is the
   requested one *)
Theorem C10_cache_history_member : forall hasw patches c0 hist force cr edges,
  increasing edges -> (2 <= length edges)%nat -> cache_valid hasw patches c0 ->
  let c := cat_build hasw force (Some (cr, edges)) patches (run_history hasw patches hist c0) in
  length c = length patches /\
  forall p, (p < length patches)%nat ->
    exists k t, nth p c None = Some (k, t) /\ bkey_eqb k (Some (cr, edges)) = true /\
      length t = nbins edges /\
      forall b, (b < nbins edges)%nat ->
        fst (nth b t dummy_tree) = spec_count cr edges (nth p patches []) b /\
        snd (nth b t dummy_tree) == spec_weight hasw cr edges (nth p patches []) b.
Proof. exact cache_history_member. Qed.
Print Assumptions C10_cache_history_member.

(* the sample without binning of a cross-correlation: one tree over all objects of the patch, whatever
   binned trees the patch held before *)
Theorem C10_cache_history_unbinned : forall hasw patches c0 hist force,
  cache_valid hasw patches c0 ->
  let c := cat_build hasw force None patches (run_history hasw patches hist c0) in
  length c = length patches /\
  forall p, (p < length patches)%nat -> nth p c None = Some (None, [make_tree hasw (nth p patches [])]).
Proof. exact cache_history_unbinned. Qed.
Print Assumptions C10_cache_history_unbinned.

(* the per-bin weight sums a measurement reads from that cache *)
Theorem C10_cache_history_sum_weights : forall hasw patches c0 hist force cr edges b p,
  increasing edges -> (2 <= length edges)%nat -> cache_valid hasw patches c0 ->
  (b < nbins edges)%nat -> (p < length patches)%nat ->
  let c := cat_build hasw force (Some (cr, edges)) patches (run_history hasw patches hist c0) in
  nth p (nth b (sum_weights_of (nbins edges) (cache_trees c)) []) 0 ==
  spec_weight hasw cr edges (nth p patches []) b.
Proof. exact cache_history_sum_weights. Qed.
Print Assumptions C10_cache_history_sum_weights.

(* the theorem has content: a catalog-wide build that trusts the binning stored with the FIRST patch
   keeps, after a rebuild that was interrupted behind that patch, the old closed side elsewhere *)
Theorem C10_cache_first_patch_refuted :
  exists patches hist edges,
    increasing edges /\ (2 <= length edges)%nat /\
    let k := Some (false, edges) in
    let pre := run_history true patches hist (cache_init (length patches)) in
    map (option_map fst) pre = [Some k; None; Some (Some (true, edges))] /\
    nth 2 (cat_build_first true false k patches pre) None = Some (Some (true, edges), [(1%nat, 1); (0%nat, 0)]) /\
    nth 2 (cat_build true false k patches pre) None = Some (k, [(0%nat, 0); (1%nat, 1)]) /\
    spec_trees true false edges (nth 2 patches []) = [(0%nat, 0); (1%nat, 1)].
Proof. exact cache_first_patch_refuted. Qed.
Print Assumptions C10_cache_first_patch_refuted.

(* the checker the harness evaluates on every observed cache history *)
Theorem C10_cache_case_sound : forall hasw patches hist force cr edges obs_pre obs_post ih im,
  c10_cache_case hasw patches hist force (Some (cr, edges)) edges obs_pre obs_post ih im = 0%nat ->
  increasing edges /\ (2 <= length edges)%nat /\ length obs_post = length patches /\
  forall p, (p < length patches)%nat ->
    exists k t, nth p obs_post None = Some (k, t) /\ bkey_eqb k (Some (cr, edges)) = true /\
      forall b, (b < nbins edges)%nat ->
        fst (nth b t dummy_tree) = spec_count cr edges (nth p patches []) b /\
        snd (nth b t dummy_tree) == spec_weight hasw cr edges (nth p patches []) b.
Proof. exact cache_case_sound. Qed.
Print Assumptions C10_cache_case_sound.

(* non-vacuity: three patches with a redshift on the inner edge 1/2; trees for closed = right everywhere,
   then BinnedTrees.build with closed = left on patch 0 only; Catalog.build_trees(closed = left) rebuilds
   patches 1 and 2 and the checker accepts the result (0); the cache a first-patch shortcut would leave
   is flagged: flags 0 (model), 1 (spec), 2 (reported binning) and, with the measurement, 4 and 7 *)
Example C10_cache_concrete :
  let e := [1#4; 1#2; 1] in
  let patches := [[(1#2, 1); (3#4, 2)]; [(1#2, 4)]; [(1#2, 8); (3#8, 16)]] in
  let hist := [HCatalog false (Some (true, e)); HPatches [0%nat] false (Some (false, e))] in
  let pre := run_history true patches hist (cache_init 3) in
  let good := cat_build true false (Some (false, e)) patches pre in
  pre = [Some (Some (false, e), [(0%nat, 0); (2%nat, 3)]); Some (Some (true, e), [(1%nat, 4); (0%nat, 0)]);
         Some (Some (true, e), [(2%nat, 24); (0%nat, 0)])] /\
  good = [Some (Some (false, e), [(0%nat, 0); (2%nat, 3)]); Some (Some (false, e), [(0%nat, 0); (1%nat, 4)]);
          Some (Some (false, e), [(1%nat, 16); (1%nat, 8)])] /\
  c10_cache_case true patches hist false (Some (false, e)) e pre good (Some [16; 15]) (Some [[0; 0; 16]; [3; 4; 8]]) = 0%nat /\
  c10_cache_case true patches hist false (Some (false, e)) e pre pre (Some [16; 15]) (Some [[0; 4; 24]; [3; 0; 0]]) = 151%nat.
Proof. vm_compute. repeat split; reflexivity. Qed.

(* ---- extreme but legal sizes of the binning: 1 bin ... 10^5 bins, very narrow bins next to very wide
        ones; the edges are built from (lo, [(step, count)]), the observations are sparse ---- *)

(* segments with positive steps and counts describe a valid binning with the announced number of bins *)
Theorem C10_seg_edges_valid : forall lo segs, segs_ok segs = true ->
  increasing (seg_edges lo segs) /\ (2 <= length (seg_edges lo segs))%nat /\
  nbins (seg_edges lo segs) = segs_count segs.
Proof. exact seg_edges_valid. Qed.
Print Assumptions C10_seg_edges_valid.

(* the bin index computed by skipping whole chunks of edges is np.digitize, for every chunk size *)
Theorem C10_chunked_digitize : forall cr edges objs k, increasing edges ->
  ixz cr (chunks_of k k [] edges) objs = map (fun o => Z.of_nat (digitize cr edges (oz o))) objs.
Proof. exact ixz_eq. Qed.
Print Assumptions C10_chunked_digitize.

(* a sparse observation that lists the model's value in every listed bin and in every bin an object is
   sent to agrees with the model in ALL bins *)
Theorem C10_sparse_sound : forall (A : Type) (eqb : A -> A -> bool) d f ix s b,
  sparse_ok eqb d f ix s = true -> eqb d d = true -> (~ In (b + 1)%Z ix -> f b = d) ->
  eqb (zlookup d b s) (f b) = true.
Proof. exact @sparse_ok_sound. Qed.
Print Assumptions C10_sparse_sound.

(* the checker the harness evaluates on every case of the 'large' family *)
Theorem C10_big_case_sound : forall cr hasw lo segs nbz patches trees hist meas,
  c10_big_case cr hasw lo segs nbz patches trees hist meas = 0%nat ->
  let edges := seg_edges lo segs in
  increasing edges /\ (2 <= length edges)%nat /\ Z.of_nat (nbins edges) = nbz /\ nbins edges = segs_count segs /\
  length trees = length patches /\
  (forall p, (p < length patches)%nat ->
     exists s, nth p trees None = Some (nbz, s) /\
       forall b, (b < nbins edges)%nat ->
         fst (zlookup dummy_tree (Z.of_nat b) s) = spec_count cr edges (nth p patches []) b /\
         snd (zlookup dummy_tree (Z.of_nat b) s) == spec_weight hasw cr edges (nth p patches []) b) /\
  (exists s, hist = Some (nbz, s) /\
     forall b, (b < nbins edges)%nat -> zlookup 0 (Z.of_nat b) s == nth b (spec_hist hasw cr edges patches) 0) /\
  (forall m, meas = Some m -> length m = length patches /\
     forall p, (p < length patches)%nat ->
       exists s, nth p m (0%Z, []) = (nbz, s) /\
         forall b, (b < nbins edges)%nat ->
           zlookup 0 (Z.of_nat b) s == spec_weight hasw cr edges (nth p patches []) b).
Proof. exact big_case_sound. Qed.
Print Assumptions C10_big_case_sound.

(* non-vacuity: 33002 bins: 1000 bins of width 2^-20, one bin of width 8, 32001 bins of width 2^-10; redshifts on
   the first edge, on the two edges of the wide bin, on the edges of bins 32766 / 32767 / 32768 and of the last
   bin, one midpoint, below and above; closed = right and closed = left give different, fully determined sparse
   trees; an observation in which the objects of the bins from index 32767 on are missing from the trees and the
   measurement (but not from the histogram) is flagged: flags 0, 1 (trees) and 4, 5 (measurement) *)
Example C10_big_concrete :
  let segs := [(1 # 1048576, 1000%nat); (8, 1%nat); (1 # 1024, N.to_nat 32001)] in
  let z (k : Z) := (1 # 4) + (1000 # 1048576) + 8 + (k # 1024) in          (* edge 1001 + k *)
  let objs := [(1 # 4, 1); ((1 # 4) + (1000 # 1048576), 2); (z 0%Z, 4); (z 31765%Z, 8); (z 31766%Z, 16); (z 31767%Z, 32);
               (z 32000%Z, 64); (z 32001%Z, 128); ((z 32000%Z) + (1 # 2048), 256); (1 # 8, 512); (z 32002%Z, 1024)] in
  let right := [(999%Z, (1%nat, 2)); (1000%Z, (1%nat, 4)); (32765%Z, (1%nat, 8)); (32766%Z, (1%nat, 16)); (32767%Z, (1%nat, 32));
                (33000%Z, (1%nat, 64)); (33001%Z, (2%nat, 384))] in
  let left := [(0%Z, (1%nat, 1)); (1000%Z, (1%nat, 2)); (1001%Z, (1%nat, 4)); (32766%Z, (1%nat, 8)); (32767%Z, (1%nat, 16));
               (32768%Z, (1%nat, 32)); (33001%Z, (2%nat, 320))] in
  let w (s : list (Z * tree)) := map (fun e => (fst e, snd (snd e))) s in
  let lost := firstn 4 right in
  segs_ok segs = true /\
  c10_big_case true true (1 # 4) segs 33002 [objs] [Some (33002%Z, right)] (Some (33002%Z, w right)) (Some [(33002%Z, w right)]) = 0%nat /\
  c10_big_case false true (1 # 4) segs 33002 [objs] [Some (33002%Z, left)] (Some (33002%Z, w left)) (Some [(33002%Z, w left)]) = 0%nat /\
  c10_big_case true true (1 # 4) segs 33002 [objs] [Some (33002%Z, lost)] (Some (33002%Z, w right)) (Some [(33002%Z, w lost)]) = 51%nat.
Proof. vm_compute. repeat split; reflexivity. Qed.

(* ---- near-equal binnings: edge arrays of the same length and closed side that differ in the last place
        (np.linspace against the same numbers typed by hand, zmin + k * step, text read back, float32 widened),
        redshifts exactly on one of the two variants of an edge; the COMPARISON of binnings that lets
        BinnedTrees.build keep cached trees (Binning.__eq__) ---- *)

(* binnings that compare equal under the exact comparison put every redshift into the same bins ... *)
Theorem C10_equal_binnings_same_members : forall a b, binning_eqb a b = true ->
  forall k z, member (fst a) (snd a) k z <-> member (fst b) (snd b) k z.
Proof. exact eq_exact_sound. Qed.
Print Assumptions C10_equal_binnings_same_members.

(* ... and give the same trees, object for object *)
Theorem C10_equal_binnings_same_trees : forall hasw k' k objs,
  bkey_eqb k' k = true -> trees_for hasw k' objs = trees_for hasw k objs.
Proof. exact trees_for_eqb. Qed.
Print Assumptions C10_equal_binnings_same_trees.

(* the cache decision with the comparison as a parameter is, for the exact comparison, the cache of Model/Binning.v
   (C10_cache_history_member is about that one) *)
Theorem C10_cache_by_exact : forall hasw force k patches c,
  cat_build_by bkey_eqb hasw force k patches c = cat_build hasw force k patches c.
Proof. exact cat_build_by_exact. Qed.
Print Assumptions C10_cache_by_exact.

(* sufficient: a comparison that says `equal` only for exactly equal binnings keeps cached trees only when they are
   the trees of the binning requested now *)
Theorem C10_cache_comparison_sufficient : forall eqk,
  (forall k' k, eqk k' k = true -> bkey_eqb k' k = true) ->
  forall hasw k objs c, entry_valid hasw objs c ->
    exists k', patch_build_by eqk hasw false k objs c = Some (k', trees_for hasw k objs).
Proof. exact cache_cmp_sufficient. Qed.
Print Assumptions C10_cache_comparison_sufficient.

(* necessary: if the cache is correct for every patch, its comparison answers `equal` for two valid binnings only
   when closed side and every edge are exactly equal: there is no tolerance that is safe *)
Theorem C10_cache_comparison_exact_only : forall eqk a b,
  cache_correct eqk -> binning_ok a = true -> binning_ok b = true ->
  eqk (Some a) (Some b) = true -> binning_eqb a b = true.
Proof. exact cache_cmp_exact_only. Qed.
Print Assumptions C10_cache_comparison_exact_only.

(* whatever the tolerance (np.allclose: rtol, atol, one of them positive) there are valid binnings of the same
   length and closed side that compare equal while a redshift on an edge of the first lies in different bins *)
Theorem C10_tolerant_equality_refuted : forall rtol atol,
  0 <= rtol -> 0 <= atol -> 0 < rtol + atol ->
  exists a b z, binning_ok a = true /\ binning_ok b = true /\ length (snd a) = length (snd b) /\ fst a = fst b /\
    binning_close rtol atol a b = true /\
    member (fst a) (snd a) 1 z /\ ~ member (fst b) (snd b) 1 z /\ member (fst b) (snd b) 0 z.
Proof. exact close_refuted. Qed.
Print Assumptions C10_tolerant_equality_refuted.

(* the float64 instance: np.linspace(0.1, 0.4, 4) and [0.1, 0.2, 0.3, 0.4] (one unit in the last place apart at 0.3),
   rtol = 10^-9, the redshift 0.3; a cache with that comparison keeps the trees of the generated edges when the typed
   ones are requested, the exact comparison rebuilds *)
Theorem C10_tolerant_cache_refuted :
  exists patches ka kb,
    let tol := bkey_close (1 # 1000000000) 0 in
    let pre := cat_build true false ka patches (cache_init (length patches)) in
    cache_valid true patches pre /\
    tol ka kb = true /\ bkey_eqb ka kb = false /\
    cat_build_by tol true false kb patches pre = pre /\
    map entry_trees (cat_build_by tol true false kb patches pre) <> map (fun o => Some (spec_trees_for true kb o)) patches /\
    map entry_trees (cat_build true false kb patches pre) = map (fun o => Some (spec_trees_for true kb o)) patches /\
    ~ cache_correct tol.
Proof. exact cache_close_refuted. Qed.
Print Assumptions C10_tolerant_cache_refuted.

(* the checker the harness evaluates on every observed comparison (Binning / BinningConfig / Configuration ==, !=,
   BinnedTrees.binning_equal) *)
Theorem C10_eq_case_sound : forall cr e cr' e' ie ine ic,
  c10_eq_case cr e cr' e' ie ine ic = 0%nat ->
  increasing e /\ increasing e' /\
  ie = binning_eqb (cr, e) (cr', e') /\ ine = negb ie /\
  (forall c, ic = Some c -> c = ie) /\
  (ie = true -> forall k z, member cr e k z <-> member cr' e' k z).
Proof. exact eq_case_sound. Qed.
Print Assumptions C10_eq_case_sound.

(* non-vacuity: the float64 edges above; the exact answers are accepted; the answers of a comparison with
   rtol = 10^-9 are flagged (flags 0, 1, 2 and the membership flag 3); in the cache checker a measured build with the
   typed edges on trees cached for the generated ones must leave the object with redshift 0.3 in bin 2 *)
Example C10_near_equal_concrete :
  let patches := [[(z_03, 2); (1 # 4, 4)]; [(z_03, 8)]] in
  let ka := Some (false, e_linspace) in
  let kb := Some (false, e_typed) in
  let hist := [HCatalog false ka] in
  let pre := run_history true patches hist (cache_init 2) in
  let good := cat_build true false kb patches pre in
  binning_close (1 # 1000000000) 0 (false, e_linspace) (false, e_typed) = true /\
  c10_eq_case false e_linspace false e_typed false true (Some false) = 0%nat /\
  c10_eq_case false e_linspace false e_typed true false (Some true) = 15%nat /\
  c10_eq_case false e_typed false e_typed true false (Some true) = 0%nat /\
  pre = [Some (ka, [(0%nat, 0); (2%nat, 6); (0%nat, 0)]); Some (ka, [(0%nat, 0); (1%nat, 8); (0%nat, 0)])] /\
  good = [Some (kb, [(0%nat, 0); (1%nat, 4); (1%nat, 2)]); Some (kb, [(0%nat, 0); (0%nat, 0); (1%nat, 8)])] /\
  c10_cache_case true patches hist false kb e_typed pre good (Some [0; 4; 10]) (Some [[0; 0]; [4; 0]; [2; 8]]) = 0%nat /\
  c10_cache_case true patches hist false kb e_typed pre pre (Some [0; 4; 10]) (Some [[0; 0]; [6; 8]; [0; 0]]) = 151%nat.
Proof. vm_compute. repeat split; reflexivity. Qed.

(* ---------- calls that only LOOK, made between two measurements with the same configuration object ----------
   (Model/BinningLook.v: a heap of arrays, array 0 = the edges of the configuration, accessors that hand out the stored
   array / a view of it (alias) or a new array, in-place updates x += d versus new arrays x = x + d) *)

(* copying accessors: whatever is done to what they hand out, by the caller or inside a library call, in place or not,
   the configuration keeps the edges it was created with *)
Theorem C10_look_copying_keeps_edges : forall edges ops,
  forallb op_copying ops = true -> edges_after edges ops = edges.
Proof. exact look_copying_keeps_edges. Qed.
Print Assumptions C10_look_copying_keeps_edges.

(* no in-place update (plot written as x = binning.edges + xoffset): aliasing accessors are harmless *)
Theorem C10_look_nowrite_keeps_edges : forall edges ops,
  forallb op_nowrite ops = true -> edges_after edges ops = edges.
Proof. exact look_nowrite_keeps_edges. Qed.
Print Assumptions C10_look_nowrite_keeps_edges.

(* ... and every later measurement with the same configuration object follows the rule for the CREATED edges *)
Theorem C10_look_safe_member : forall hasw cr edges ops objs,
  forallb op_copying ops = true \/ forallb op_nowrite ops = true ->
  increasing edges -> (2 <= length edges)%nat ->
  edges_after edges ops = edges /\
  (forall b, (b < nbins edges)%nat ->
     fst (nth b (build_trees_fix hasw cr (edges_after edges ops) objs) dummy_tree) = spec_count cr edges objs b /\
     snd (nth b (build_trees_fix hasw cr (edges_after edges ops) objs) dummy_tree) == spec_weight hasw cr edges objs b /\
     nth b (hist_fix hasw cr (edges_after edges ops) objs) 0 == spec_weight hasw cr edges objs b) /\
  (forall z b, member cr (edges_after edges ops) b z <-> member cr edges b z).
Proof. exact look_safe_member. Qed.
Print Assumptions C10_look_safe_member.

(* the aliasing variant: the accessor hands out the stored array and the value is updated in place - by
   `x = binning.edges; x += d` as well as inside plot(style=step, xoffset=d) written with `x += xoffset`.  For EVERY
   binning, both closed sides and every positive shift the stored edges move, and there is a redshift that the created
   edges put into the first bin and that the measurement made afterwards puts into no bin *)
Theorem C10_look_aliasing_refuted : forall cr edges d,
  increasing edges -> (2 <= length edges)%nat -> 0 < d ->
  edges_after edges [LGet 0 AEdges true; LWrite 0 (WAdd d)] = map (fun x => x + d) edges /\
  edges_after edges [LPlot 0 true true true d] = map (fun x => x + d) edges /\
  exists z, member cr edges 0 z /\
    forall b, ~ member cr (edges_after edges [LPlot 0 true true true d]) b z.
Proof. exact look_aliasing_refuted. Qed.
Print Assumptions C10_look_aliasing_refuted.

(* the checker the harness evaluates on every history of read-only calls *)
Theorem C10_look_case_sound : forall cr hasw edges ops patches rep_cr rep_edges trees hist meas,
  c10_look_case cr hasw edges ops patches rep_cr rep_edges trees hist meas = 0%nat ->
  increasing edges /\ (2 <= length edges)%nat /\ rep_cr = cr /\ qlist_eqb rep_edges edges = true /\
  list_eqb (opt_eqb trees_eqb) trees (map (fun p => Some (spec_trees hasw cr edges p)) patches) = true /\
  (forall h, hist = Some h -> qlist_eqb h (spec_hist hasw cr edges patches) = true) /\
  (forall m, meas = Some m -> qmat_eqb m (spec_sum_weights hasw cr edges patches) = true).
Proof. exact look_case_sound. Qed.
Print Assumptions C10_look_case_sound.

(* non-vacuity: edges 1/4, 1/2, 1, closed = left, objects on 1/4 and 1/2.  Safe histories leave the trees as the rule says;
   plot(style=step, xoffset=1/16) in place on the aliasing accessor gives edges 5/16, 9/16, 17/16, drops the first object
   and moves the second into the first bin; offsets of repeated calls add up; .right is a view (x *= 2); the checker
   accepts the unchanged configuration with the right trees (0) and flags the moved one: edges (2), trees (4),
   histogram (8), not even the what-if reading explains a change that no call of the history can produce (64) *)
Example C10_look_concrete :
  trees_eqb (spec_trees true false look_ex_edges look_ex_objs) [(1%nat, 1); (1%nat, 2)] = true /\
  trees_eqb (look_ex_trees [LLook; LPlot 0 false true true (1 # 16); LGet 0 ALeft true; LFresh 0 (WMul 2)])
            [(1%nat, 1); (1%nat, 2)] = true /\
  trees_eqb (look_ex_trees [LPlot 0 true false true (1 # 16)]) [(1%nat, 1); (1%nat, 2)] = true /\
  trees_eqb (look_ex_trees [LPlot 0 true true false (1 # 16)]) [(1%nat, 1); (1%nat, 2)] = true /\
  trees_eqb (look_ex_trees [LGet 0 AEdges false; LWrite 0 (WAdd (1 # 16)); LWrite 0 WSort; LWrite 0 (WSet 0 5)])
            [(1%nat, 1); (1%nat, 2)] = true /\
  qlist_eqb (edges_after look_ex_edges [LPlot 0 true true true (1 # 16)]) [5 # 16; 9 # 16; 17 # 16] = true /\
  trees_eqb (look_ex_trees [LPlot 0 true true true (1 # 16)]) [(1%nat, 2); (0%nat, 0)] = true /\
  qlist_eqb (edges_after look_ex_edges [LPlot 0 true true true (1 # 16); LLook; LPlot 0 true true true (1 # 16)])
            [3 # 8; 5 # 8; 9 # 8] = true /\
  qlist_eqb (edges_after look_ex_edges [LGet 0 ARight true; LWrite 0 (WMul 2)]) [1 # 4; 1; 2] = true /\
  trees_eqb (look_ex_trees [LGet 0 ARight true; LWrite 0 (WMul 2)]) [(2%nat, 3); (0%nat, 0)] = true /\
  c10_look_case false true look_ex_edges [LPlot 0 true true true (1 # 16)] [look_ex_objs]
                false look_ex_edges [Some [(1%nat, 1); (1%nat, 2)]] (Some [1; 2]) (Some [[1]; [2]]) = 64%nat /\
  c10_look_case false true look_ex_edges [LPlot 0 true false true (1 # 16)] [look_ex_objs]
                false look_ex_edges [Some [(1%nat, 1); (1%nat, 2)]] (Some [1; 2]) (Some [[1]; [2]]) = 0%nat /\
  c10_look_case false true look_ex_edges [LPlot 0 true true true (1 # 16)] [look_ex_objs]
                false [5 # 16; 9 # 16; 17 # 16] [Some [(1%nat, 2); (0%nat, 0)]] (Some [2; 0]) None = 14%nat /\
  c10_look_case false true look_ex_edges [LLook] [look_ex_objs]
                false [5 # 16; 9 # 16; 17 # 16] [Some [(1%nat, 2); (0%nat, 0)]] (Some [2; 0]) None = 78%nat.
Proof. vm_compute. repeat split; reflexivity. Qed.

(* ---------------- single decisions whose variants were seeded (Model/SmallVariants.v) ---------------- *)
From Verif Require SmallVariants SmallVariantsP.
(* membership counts add up over any split of a patch: no size enters the rule; a second code path with the other side
   above ANY size threshold is refuted by a patch one row larger *)
Theorem C10_count_members_size_free : forall right_closed lo hi zs zs',
  SmallVariants.count_members right_closed lo hi (zs ++ zs') =
  (SmallVariants.count_members right_closed lo hi zs + SmallVariants.count_members right_closed lo hi zs')%nat.
Proof. exact SmallVariantsP.count_members_size_free. Qed.
Print Assumptions C10_count_members_size_free.
Theorem C10_sized_code_path_refuted : forall threshold : nat,
  exists zs, (threshold < length zs)%nat /\
             SmallVariants.count_members_sized threshold true 1 2 zs <> SmallVariants.count_members true 1 2 zs.
Proof. exact SmallVariantsP.count_members_sized_refuted. Qed.
Print Assumptions C10_sized_code_path_refuted.
