(* C18 — input is consumed in bounded chunks, each record once per pass. *)
From Verif Require Import Prelude Chunks ChunksP ChunksBuf ChunksBufP.
From Coq Require Import Permutation.
Open Scope nat_scope.

Theorem C18_requests_cover : forall n cs, 1 <= cs -> concat (map range (slices n cs)) = seq 0 n.
Proof. exact slices_cover. Qed.
Print Assumptions C18_requests_cover.

(* every request is non-empty, at most cs long, and stays inside the source *)
Theorem C18_requests_bounded : forall n cs, 1 <= cs ->
  Forall (fun se => 1 <= slice_len se <= cs /\ snd se <= n) (slices n cs).
Proof. exact slices_bound. Qed.
Print Assumptions C18_requests_bounded.

Theorem C18_requests_consecutive : forall fuel s n cs, consecutive s (slices_from fuel s n cs).
Proof. exact slices_from_consecutive. Qed.
Print Assumptions C18_requests_consecutive.

Theorem C18_number_of_requests : forall n cs, 1 <= cs -> length (slices n cs) = (n + cs - 1) / cs.
Proof. exact slices_length. Qed.
Print Assumptions C18_number_of_requests.

(* the sparse probe is gathered chunk by chunk and selects exactly the requested rows *)
Theorem C18_probe_chunkwise : forall lens off idx,
  Forall (fun len => (0 <= len)%Z) lens ->
  Permutation (probe_run lens off idx)
    (map (fun i => (i + off)%Z) (filter (fun i => ((0 <=? i) && (i <? fold_right Z.add 0 lens))%Z) idx)).
Proof. exact probe_run_spec. Qed.
Print Assumptions C18_probe_chunkwise.

(* ---------------- Parquet: row groups are the unit of access ---------------- *)
(* the chunks delivered are the chunks of the concatenated row groups (every row once, consecutive, at most cs) *)
Theorem C18_parquet_chunks : forall (A : Type) cs (groups : list (list A)),
  parquet_chunks cs groups = chunks cs (concat groups).
Proof. exact @parquet_chunks_eq. Qed.
Print Assumptions C18_parquet_chunks.

(* whatever the row-group layout, the reader never holds more than one chunk plus one row group *)
Theorem C18_parquet_buffer_bound : forall (A : Type) cs m (groups : list (list A)),
  1 <= cs -> Forall (fun g => length g <= m) groups ->
  Forall (fun p => p < cs + m) (parquet_buffer_trace cs groups).
Proof. exact @parquet_buffer_bound. Qed.
Print Assumptions C18_parquet_buffer_bound.

(* row groups are requested in file order, none twice, none skipped *)
Theorem C18_parquet_requests_in_order : forall (A : Type) cs (groups : list (list A)),
  exists k, k <= length groups /\ concat (parquet_request_trace cs groups) = seq 0 k.
Proof. exact @parquet_requests_in_order. Qed.
Print Assumptions C18_parquet_requests_in_order.

(* and only as far as the next chunk needs: no read-ahead *)
Theorem C18_parquet_no_read_ahead : forall (A : Type) cs (file cache : list (list A)),
  let '(c1, f1) := load_groups cs cache file in
  let k := length file - length f1 in
  c1 = cache ++ firstn k file /\ f1 = skipn k file /\
  (k = 0 \/ cache_size (cache ++ firstn (k - 1) file) < cs).
Proof. exact @parquet_no_read_ahead. Qed.
Print Assumptions C18_parquet_no_read_ahead.

(* ---------------- creation on a pool of w workers (multiprocessing write loop) ---------------- *)
(* the slices requested from the source are the same for every number of workers ... *)
Theorem C18_pool_requests_worker_independent : forall w n cs, map fst (pool_steps w n cs) = slices n cs.
Proof. exact pool_requests_worker_independent. Qed.
Print Assumptions C18_pool_requests_worker_independent.

(* ... hence consecutive, covering every record once, at most cs long, for every w *)
Theorem C18_pool_requests_spec : forall w n cs, 1 <= cs ->
  concat (map range (map fst (pool_steps w n cs))) = seq 0 n /\
  Forall (fun se => 1 <= slice_len se <= cs /\ snd se <= n) (map fst (pool_steps w n cs)).
Proof. exact pool_requests_spec. Qed.
Print Assumptions C18_pool_requests_spec.

(* every requested slice is divided among exactly w tasks, nothing more is handed to the pool *)
Theorem C18_pool_tasks_partition : forall w n cs, 1 <= w ->
  Forall (fun st => length (snd st) = w /\ fold_right Nat.add 0 (snd st) = slice_len (fst st))
         (pool_steps w n cs).
Proof. exact pool_tasks_partition. Qed.
Print Assumptions C18_pool_tasks_partition.

(* any effective chunk size above the configured one breaks the bound as soon as the source is longer than a chunk;
   a smaller one keeps the statement (it is then only a difference from the model) *)
Theorem C18_larger_chunk_refuted : forall n cs cs', cs < cs' -> cs < n ->
  exists se, In se (slices n cs') /\ cs < slice_len se.
Proof. exact larger_chunk_refuted. Qed.
Print Assumptions C18_larger_chunk_refuted.

Theorem C18_smaller_chunk_ok : forall n cs cs', 1 <= cs' <= cs ->
  concat (map range (slices n cs')) = seq 0 n /\
  Forall (fun se => 1 <= slice_len se <= cs /\ snd se <= n) (slices n cs').
Proof. exact smaller_chunk_ok. Qed.
Print Assumptions C18_smaller_chunk_ok.

(* in particular a chunk size rounded up to a multiple of the worker count: harmless exactly when w divides cs *)
Theorem C18_pool_rounded_refuted : forall w n cs, 1 <= w -> cs mod w <> 0 -> cs < n ->
  exists st, In st (pool_steps_rounded w n cs) /\ cs < slice_len (fst st).
Proof. exact pool_rounded_refuted. Qed.
Print Assumptions C18_pool_rounded_refuted.

Theorem C18_pool_rounded_same : forall w n cs, 1 <= w -> cs mod w = 0 ->
  pool_steps_rounded w n cs = pool_steps w n cs.
Proof. exact pool_rounded_same. Qed.
Print Assumptions C18_pool_rounded_same.

(* ---------------- reader history: a pass does not depend on what was done with the reader before ---------------- *)
(* the public reader object as a state machine over iter() / k x next() / complete pass (Model/ChunksBuf.v);
   whatever the history h (peeks, aborted passes, previews, nested loops, probes, earlier complete passes),
   the next complete pass requests exactly the model's slices ... *)
Theorem C18_history_pass_requests : forall n cs h,
  off_trace n cs (h ++ [RdPass]) = off_trace n cs h ++ [slices n cs].
Proof. exact history_pass_requests. Qed.
Print Assumptions C18_history_pass_requests.

(* ... hence every record once, in consecutive slices of 1..cs ... *)
Theorem C18_history_pass_covers : forall n cs h, 1 <= cs ->
  let q := last (off_trace n cs (h ++ [RdPass])) [] in
  concat (map range q) = seq 0 n /\ Forall (fun se => 1 <= slice_len se <= cs /\ snd se <= n) q.
Proof. exact history_pass_covers. Qed.
Print Assumptions C18_history_pass_covers.

(* ... and the same holds for every pass inside a history, from any state at all *)
Theorem C18_history_every_pass : forall n cs ops st,
  Forall2 (fun op q => op = RdPass -> q = slices n cs) ops
          (rd_trace 0 (off_next n cs) rewinds_always n st ops).
Proof. exact history_every_pass. Qed.
Print Assumptions C18_history_every_pass.

(* the variant `iter() rewinds only an exhausted reader`: indistinguishable on histories of complete passes
   (fresh readers, get_probe, the Catalog.from_* routes) ... *)
Theorem C18_lazy_rewind_same_on_complete_passes : forall n cs ops, 1 <= cs ->
  Forall (fun op => op = RdPass) ops -> off_trace_lazy n cs ops = off_trace n cs ops.
Proof. exact lazy_same_on_complete_passes. Qed.
Print Assumptions C18_lazy_rewind_same_on_complete_passes.

(* ... but false: after a peek next(iter(reader)) the pass never requests the first record, for every source
   longer than a chunk; more generally from every partially consumed state *)
Theorem C18_lazy_rewind_refuted : forall n cs, 1 <= cs -> cs < n ->
  exists q, off_trace_lazy n cs [RdIter; RdNext 1; RdPass] = [[]; [(0, cs)]; q]
            /\ ~ In 0 (concat (map range q)) /\ q <> slices n cs.
Proof. exact lazy_refuted. Qed.
Print Assumptions C18_lazy_rewind_refuted.

Theorem C18_lazy_rewind_misses_start : forall n cs st, 0 < st -> st < n ->
  ~ In 0 (concat (map range (snd (rd_step 0 (off_next n cs) (off_rewinds_exhausted n) n st RdPass)))).
Proof. exact lazy_pass_misses_start. Qed.
Print Assumptions C18_lazy_rewind_misses_start.

(* Parquet: cursor and row-group cache are part of the state; every pass of every history requests the row groups
   and delivers the chunks of a fresh reader *)
Theorem C18_parquet_history_every_pass : forall (A : Type) cs (groups : list (list A)) ops st,
  let n := length (concat groups) in
  Forall2 (fun op q => op = RdPass ->
             map fst q = parquet_request_trace cs groups /\ map snd q = chunks cs (concat groups)) ops
          (rd_trace (pq_init groups) (pq_next n cs) rewinds_always n st ops).
Proof. exact @pq_history_every_pass. Qed.
Print Assumptions C18_parquet_history_every_pass.

Example C18_history_concrete :
  off_trace 10 4 [RdIter; RdNext 1; RdPass; RdIter; RdNext 2; RdNext 5; RdNext 1; RdPass]
    = [[]; [(0,4)]; [(0,4);(4,8);(8,10)]; []; [(0,4);(4,8)]; [(8,10)]; []; [(0,4);(4,8);(8,10)]]
  /\ off_trace_lazy 10 4 [RdIter; RdNext 1; RdPass] = [[]; [(0,4)]; [(4,8);(8,10)]]
  /\ c18_hist_case 10 4 [RdIter; RdNext 1; RdPass] [[]; [(0,4)]; [(0,4);(4,8);(8,10)]] true true = 0
  /\ c18_hist_case 10 4 [RdIter; RdNext 1; RdPass] [[]; [(0,4)]; [(4,8);(8,10)]] true false = 11
  /\ c18_hist_sizes_case 10 4 [RdNext 1; RdPass] [[4]; [4;4;2]] true = 0
  /\ map (map fst) (pq_trace 4 [[1;2;3];[4;5;6];[7;8;9];[10]] [RdIter; RdNext 1; RdPass])
       = [[]; [[0;1]]; [[0;1];[2];[3]]]
  /\ map (map snd) (pq_trace_lazy 4 [[1;2;3];[4;5;6];[7;8;9];[10]] [RdIter; RdNext 1; RdPass])
       = [[]; [[1;2;3;4]]; [[5;6;7;8];[9;10]]]
  /\ c18_pq_hist_case 4 [3;3;3;1] [RdIter; RdNext 1; RdPass] [[]; [0;1]; [0;1;2;3]]
                      [None; Some [4]; Some [4;4;2]] true = 0
  /\ c18_pq_hist_case 4 [3;3;3;1] [RdIter; RdNext 1; RdPass] [[]; [0;1]; [2;3]]
                      [None; Some [4]; Some [4;2]] false = 15.
Proof. vm_compute. repeat split; reflexivity. Qed.

Example C18_pool_concrete :
  pool_steps 3 10 4 = [((0,4),[2;1;1]); ((4,8),[2;1;1]); ((8,10),[1;1;0])]
  /\ map fst (pool_steps_rounded 3 10 4) = [(0,6); (6,10)]
  /\ c18_pool_case 3 10 4 2 [[(0,4);(4,8);(8,10)]; [(0,4);(4,8);(8,10)]] [[2;1;1];[2;1;1];[1;1;0]] = 0
  /\ c18_pool_case 3 10 4 2 [[(0,4);(4,8);(8,10)]; [(0,6);(6,10)]] [[2;2;2];[2;1;1]] = 11.
Proof. vm_compute. repeat split; reflexivity. Qed.

Example C18_parquet_concrete :
  parquet_load_trace 4 [[1;2;3];[4;5;6];[7;8;9];[10]] = [2; 1; 1]
  /\ parquet_buffer_trace 4 [[1;2;3];[4;5;6];[7;8;9];[10]] = [6; 5; 2]
  /\ c18_parquet_loads_case 30 [30;30;10;10;10;10] [1;1;3;1] = 0.
Proof. vm_compute. repeat split; reflexivity. Qed.

Example C18_concrete : slices 10 4 = [(0,4);(4,8);(8,10)] /\ random_sizes 10 4 = [4;4;2].
Proof. vm_compute. split; reflexivity. Qed.

(* ---------------- the parameter that configures the chunk size: its value, whatever its type ---------------- *)
(* what is handed over as chunk size (nothing, or the integral value of a Python int / numpy integer of any width / bool)
   determines the requests through its VALUE alone; the checkers evaluate the default as max 1 n (capped_cs) *)
Theorem C18_param_requests_by_value : forall dflt n p, n <= dflt ->
  param_slices dflt n p = slices n (capped_cs n p).
Proof. exact param_requests_by_value. Qed.
Print Assumptions C18_param_requests_by_value.

Theorem C18_param_requests_spec : forall dflt n p, 1 <= dflt ->
  concat (map range (param_slices dflt n p)) = seq 0 n /\
  Forall (fun se => 1 <= slice_len se <= configured_cs dflt p /\ snd se <= n) (param_slices dflt n p).
Proof. exact param_requests_spec. Qed.
Print Assumptions C18_param_requests_spec.

(* nothing handed over, or a falsy value (0, False): the library's default; one request, the input being no larger
   than the chunk *)
Theorem C18_default_single_request : forall n, 1 <= n <= default_chunksize ->
  param_slices default_chunksize n None = [(0, n)] /\ param_slices default_chunksize n (Some 0) = [(0, n)].
Proof. exact (param_default_single default_chunksize). Qed.
Print Assumptions C18_default_single_request.

(* keeping the parameter only when it passes a test on its type: refuted for every value below the input length (and
   the default), invisible when the input fits into one chunk *)
Theorem C18_typed_discard_refuted : forall dflt n v, 1 <= v -> v < n -> v < dflt ->
  exists se, In se (slices n (configured_cs_typed false dflt (Some v))) /\ v < slice_len se.
Proof. exact typed_discard_refuted. Qed.
Print Assumptions C18_typed_discard_refuted.

Theorem C18_typed_discard_invisible : forall dflt n v, n <= v -> n <= dflt ->
  slices n (configured_cs_typed false dflt (Some v)) = slices n v.
Proof. exact typed_discard_invisible. Qed.
Print Assumptions C18_typed_discard_invisible.

(* inputs beyond unary numbers (a 16-bit chunk size with more than 65535 records): the model's requests for k n and k cs are
   the k-fold of those for n and cs; the harness compares the logged requests divided by k *)
Theorem C18_requests_scale : forall k n cs, 1 <= k -> 1 <= cs ->
  slices (k * n) (k * cs) = map (scale_slice k) (slices n cs).
Proof. exact slices_scale. Qed.
Print Assumptions C18_requests_scale.

Example C18_param_concrete :
  param_slices 100 10 (Some 4) = [(0,4);(4,8);(8,10)]
  /\ param_slices 100 10 (Some 0) = [(0,10)] /\ param_slices 100 10 None = [(0,10)]
  /\ slices 10 (configured_cs_typed false 100 (Some 4)) = [(0,10)]
  /\ c18_param_case 10 (Some 4) 1 [[(0,4);(4,8);(8,10)]] = 0
  /\ c18_param_case 10 (Some 4) 1 [[(0,10)]] = 3
  /\ c18_param_case 10 None 2 [[(0,10)]; [(0,10)]] = 0
  /\ c18_param_case 10 (Some 1) 1 [[(0,10)]] = 3
  /\ slices (5 * 7) (5 * 3) = map (scale_slice 5) [(0,3);(3,6);(6,7)].
Proof. vm_compute. repeat split; reflexivity. Qed.

(* ---------------- several readers alive at the same time ---------------- *)
(* The state of a world of readers is the list of the readers' states; an operation (construct, iter(), k x next(), complete
   pass, close) names its reader.  Frame: an operation on another reader leaves reader k exactly as it is ... *)
Theorem C18_world_frame : forall (St Rq : Type) (init : nat -> St) (next : nat -> St -> option (St * Rq))
    (rewinds : nat -> St -> bool) (fuel : nat -> nat) w o k,
  fst o <> k -> nth_error (fst (w_step init next rewinds fuel w o)) k = nth_error w k.
Proof. exact @w_step_other. Qed.
Print Assumptions C18_world_frame.

(* ... hence, under ANY interleaving of operations on the readers of the world, what reader k delivers (operation by
   operation) and the state it ends in are those of reader k run alone on the operations addressed to it *)
Theorem C18_world_stream_alone : forall (St Rq : Type) (init : nat -> St) (next : nat -> St -> option (St * Rq))
    (rewinds : nat -> St -> bool) (fuel : nat -> nat) k ops w s,
  nth_error w k = Some s ->
  outs_of k ops (w_trace init next rewinds fuel w ops) = slot_trace init next rewinds fuel k s (proj k ops)
  /\ nth_error (w_state init next rewinds fuel w ops) k = Some (slot_state init next rewinds fuel k s (proj k ops)).
Proof. exact @world_stream_alone. Qed.
Print Assumptions C18_world_stream_alone.

(* the readers of the library (offset readers and the Parquet reader with its row-group cache) in one world: same *)
Theorem C18_world_reader_alone : forall cfgs k ops w s, nth_error w k = Some s ->
  outs_of k ops (uw_trace cfgs w ops) = u_slot_trace (cfg_at cfgs k) s (proj k ops).
Proof. exact world_reader_alone. Qed.
Print Assumptions C18_world_reader_alone.

(* and every complete pass of every reader, wherever it stands in the interleaving, delivers every record of its OWN
   source once, in order, in chunks of at most its own chunk size (a closed reader delivers nothing) *)
Theorem C18_world_every_pass : forall cfgs k, 1 <= u_cs (cfg_at cfgs k) -> forall ops w s, nth_error w k = Some s ->
  Forall2 (fun o q => o = LDo RdPass ->
             q = [] \/ (concat (map snd q) = u_rows (cfg_at cfgs k)
                        /\ Forall (fun ch => length ch <= u_cs (cfg_at cfgs k)) (map snd q)))
          (proj k ops) (outs_of k ops (uw_trace cfgs w ops)).
Proof. exact world_every_pass. Qed.
Print Assumptions C18_world_every_pass.

(* the variant with ONE row-group cache shared by the Parquet readers of a process: not to be told from the code while only
   one reader is used, whatever is done with it (peeks, restarts, partial and complete passes) ... *)
Theorem C18_shared_buffer_same_when_alone : forall (A : Type) (cfg : nat -> nat * list (list A)) k ops w s off file,
  nth_error (snd w) k = Some (s, off, file) -> Forall (fun o => fst o = k) ops ->
  sh_trace cfg w ops
  = rd_trace (pq_init (snd (cfg k))) (pq_next (sh_n cfg k) (fst (cfg k))) rewinds_always (sh_n cfg k)
             (s, off, fst w, file) (map snd ops).
Proof. exact @shared_alone_same_pq. Qed.
Print Assumptions C18_shared_buffer_same_when_alone.

(* ... but false with two readers in lock-step: each of them, asked alone, delivers its file; interleaved, reader 1 receives
   records of file 0 and reader 0 never delivers them *)
Theorem C18_shared_buffer_refuted :
  exists ops : list (nat * rd_op),
    sh_stream 0 (ops_of 0 ops) = concat (snd (sh_example 0)) /\ sh_stream 1 (ops_of 1 ops) = concat (snd (sh_example 1))
    /\ In 4 (sh_stream 1 ops) /\ ~ In 4 (sh_stream 0 ops) /\ length (sh_stream 0 ops) < 10.
Proof. exact shared_buffer_refuted. Qed.
Print Assumptions C18_shared_buffer_refuted.

(* and false when another reader is merely restarted (or constructed) while reader 0 is in the middle of a pass *)
Theorem C18_shared_buffer_restart_refuted :
  exists ops : list (nat * rd_op),
    Forall (fun o => fst o = 0 \/ snd o = RdIter) ops
    /\ sh_stream 0 (ops_of 0 ops) = concat (snd (sh_example 0))
    /\ ~ In 4 (sh_stream 0 ops) /\ ~ In 5 (sh_stream 0 ops).
Proof. exact shared_buffer_restart_refuted. Qed.
Print Assumptions C18_shared_buffer_restart_refuted.

Example C18_world_concrete :
  let cf := [CPq 4 (rows_of_sizes [3;3;3;1]); CPq 4 (rows_of_sizes [3;3;1]); COff true 5 2] in
  let lock := [(0,LOpen); (1,LOpen); (0,LDo (RdNext 1)); (1,LDo (RdNext 1)); (2,LOpen); (0,LDo (RdNext 1)); (1,LDo RdIter);
               (2,LDo (RdNext 1)); (0,LDo (RdNext 2)); (1,LDo RdPass); (2,LClose)] in
  uw_trace cf (repeat None 3) lock
    = [[]; []; [([0;1],[0;1;2;3])]; [([0;1],[0;1;2;3])]; []; [([2],[4;5;6;7])]; []; [([],[0;1])]; [([3],[8;9])];
       [([0;1],[0;1;2;3]); ([2],[4;5;6])]; []]
  /\ outs_of 0 lock (uw_trace cf (repeat None 3) lock) = u_slot_trace (cfg_at cf 0) None (proj 0 lock)
  /\ c18_world_case cf lock (map Some (uw_trace cf (repeat None 3) lock)) = 0
  (* observations as the shared variant produces them (a record of another source = 4999): lock-step, and a second reader
     constructed in the middle of a pass *)
  /\ c18_world_case cf [(0,LOpen); (1,LOpen); (0,LDo (RdNext 1)); (1,LDo (RdNext 1)); (0,LDo (RdNext 1)); (1,LDo (RdNext 1))]
       [Some []; Some []; Some [([0;1],[0;1;2;3])]; Some [([0],[4999;4999;0;1])]; Some [([2],[4999;6;7;8])];
        Some [([1;2],[3;4;5;6])]] = 7
  /\ c18_world_case cf [(0,LOpen); (0,LDo (RdNext 1)); (1,LOpen); (0,LDo (RdNext 2))]
       [Some []; Some [([0;1],[0;1;2;3])]; Some []; Some [([2;3],[6;7;8;9])]] = 7
  /\ c18_solo_case (COff false 7 3) [LOpen; LDo (RdNext 1); LDo RdPass]
       [Some []; Some [([],[0;0;0])]; Some [([],[0;0;0]); ([],[0;0;0]); ([],[0])]] = 0
  /\ sh_trace sh_example (sh_init sh_example 2) [(0,RdNext 1); (1,RdNext 1); (0,RdNext 1)]
       = [[([0;1],[0;1;2;3])]; [([0],[4;5;100;101])]; [([2],[102;6;7;8])]].
Proof. vm_compute. repeat split; reflexivity. Qed.


(* ---------------- loads that fail ---------------- *)
(* A pass in which loads fail is a partial function of the source (f_pass: `fails a` = the a-th load attempted in the pass
   raises; b = 0: the exception propagates, which is the code; b > 0: the same request is made again, from the same state).
   For ANY reader machine: what such a pass delivered is a prefix of what the healthy pass delivers, and a pass that ended
   delivered all of it ... *)
Theorem C18_fault_pass_vs_healthy : forall (St Rq : Type) (next : St -> option (St * Rq)) fails fuel b st a m stm outm,
  rd_nexts next m st = (stm, outm) -> next stm = None ->
  (exists rest, outm = f_out (f_pass next fails fuel b st a) ++ rest)
  /\ (forall o, f_pass next fails fuel b st a = FDone o -> o = outm).
Proof. exact @f_pass_vs_healthy. Qed.
Print Assumptions C18_fault_pass_vs_healthy.

(* ... hence for the readers of the library (data frame / HDF5 / FITS / random generator / Parquet with its row-group cache),
   whichever loads fail and under both policies: a pass that ended delivered every record of the source exactly once, in
   order, in the chunks of the healthy pass (1..cs records each); a pass that raised delivered a prefix of them *)
Theorem C18_fault_pass_exactly_once : forall c fails fuel b, 1 <= u_cs c ->
  let r := f_pass (u_next c) fails fuel b (u_init c) 0 in
  (forall out, r = FDone out ->
     map snd out = chunks (u_cs c) (u_rows c) /\ concat (map snd out) = u_rows c
     /\ Forall (fun ch => 1 <= length ch <= u_cs c) (map snd out))
  /\ (exists rest, chunks (u_cs c) (u_rows c) = map snd (f_out r) ++ rest).
Proof. exact fault_pass_exactly_once. Qed.
Print Assumptions C18_fault_pass_exactly_once.

(* `the same request again` is not vacuous: one failing load and one retry never raise *)
Theorem C18_fault_retry_once_completes : forall c j fuel out,
  f_pass (u_next c) (fun i => i =? j) fuel 1 (u_init c) 0 <> FRaised out.
Proof. exact fault_retry_once_completes. Qed.
Print Assumptions C18_fault_retry_once_completes.

(* the variant `answer a failed load by halving the chunk size and rewinding the position - already advanced by the old chunk
   size - by the NEW one`: whichever chunk fails to load (once), the pass does not raise and never requests the first record
   of that chunk *)
Theorem C18_fault_halve_rewind_refuted : forall n cs j fuel, 2 <= cs -> j * cs < n ->
  let r := f_pass_halve (fun i => i =? j) fuel n cs 0 0 in
  f_raised r = false /\ In (j * cs) (seq 0 n) /\ ~ In (j * cs) (concat (map range (f_out r))).
Proof. exact halve_rewind_refuted. Qed.
Print Assumptions C18_fault_halve_rewind_refuted.

Example C18_fault_concrete :
  let c := COff true 10 4 in
  let once1 := fun i => i =? 1 in
  (* 10 records in chunks of 4, the load of the second chunk fails once: propagate / the same request again / the variant *)
  f_pass (u_next c) once1 20 0 (u_init c) 0 = FRaised [([], [0;1;2;3])]
  /\ f_pass (u_next c) once1 20 1 (u_init c) 0 = FDone [([], [0;1;2;3]); ([], [4;5;6;7]); ([], [8;9])]
  /\ f_pass_halve once1 20 10 4 0 0 = FDone [(0,4); (6,8); (8,10)]
  (* from then on: also the retry fails, the exception propagates *)
  /\ f_pass (u_next c) (fun i => 1 <=? i) 20 1 (u_init c) 0 = FRaised [([], [0;1;2;3])]
  (* Parquet, row groups of 3,3,3,1 and chunks of 4: the third next() (it loads the last row group) fails *)
  /\ f_pass (u_next (CPq 4 (rows_of_sizes [3;3;3;1]))) (fun i => i =? 2) 20 0 (u_init (CPq 4 (rows_of_sizes [3;3;3;1]))) 0
     = FRaised [([0;1], [0;1;2;3]); ([2], [4;5;6;7])]
  (* the checker on observations: the two acceptable outcomes, the variant, a swallowed failure (Parquet, load of row
     group 2 taken for the end of the file: a short chunk, the last records never delivered), a skipped chunk *)
  /\ c18_fault_case c [1] true (Some [[0;1;2;3]]) [((0,4),false); ((4,8),true)] = 0
  /\ c18_fault_case c [1] false (Some [[0;1;2;3]; [4;5;6;7]; [8;9]]) [((0,4),false); ((4,8),true); ((4,8),false); ((8,10),false)] = 0
  /\ c18_fault_case c [1] false (Some [[0;1;2;3]; [6;7]; [8;9]]) [((0,4),false); ((4,8),true); ((6,8),false); ((8,10),false)] = 7
  /\ c18_fault_case (CPq 4 (rows_of_sizes [3;3;3;3;3;3;2])) [1] false
       (Some [[0;1;2;3]; [4;5]; [6;7;8;9]; [10;11;12;13]; [14;15;16;17]])
       [((0,1),false); ((1,2),false); ((2,3),true); ((2,3),false); ((3,4),false); ((4,5),false); ((5,6),false)] = 7
  /\ c18_fault_case c [1] false (Some [[0;1;2;3]; [8;9]]) [((0,4),false); ((4,8),true); ((8,10),false)] = 7
  /\ c18_fault_case c [] false None [((0,4),false); ((4,8),false); ((8,10),false)] = 0
  /\ c18_fault_case (COff false 10 4) [0] false (Some [[0;0]; [0;0;0;0]; [0;0;0;0]]) [((0,4),true); ((0,2),false); ((0,4),false); ((0,4),false)] = 7.
Proof. vm_compute. repeat split; reflexivity. Qed.

(* ---------------- single decisions whose variants were seeded (Model/SmallVariants.v) ---------------- *)
From Verif Require SmallVariants SmallVariantsP.
(* a FITS pass is as long as the extension it reads; the length of extension 1 is right only when the two agree *)
Theorem C18_fits_pass_is_the_table : forall (tables : list (list nat)) (hdu : nat),
  SmallVariants.fits_pass tables hdu = nth hdu tables nil.
Proof. exact SmallVariantsP.fits_pass_is_the_table. Qed.
Print Assumptions C18_fits_pass_is_the_table.
Theorem C18_fits_length_of_extension_one_refuted :
  exists tables hdu, SmallVariants.fits_pass_len1 tables hdu <> nth hdu tables nil /\
                     (length (SmallVariants.fits_pass_len1 tables hdu) < SmallVariants.fits_len tables hdu)%nat.
Proof. exact SmallVariantsP.fits_pass_len1_refuted. Qed.
Print Assumptions C18_fits_length_of_extension_one_refuted.
