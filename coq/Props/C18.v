(* C18 — input is consumed in bounded chunks, each record once per pass. *)
From Verif Require Import Prelude Chunks ChunksP ChunksBuf ChunksBufP.
From Coq Require Import Permutation.
Open Scope nat_scope.

Theorem C18_requests_cover : forall n cs, 1 <= cs -> concat (map range (slices n cs)) = seq 0 n.
Proof. exact slices_cover. Qed.
Print Assumptions C18_requests_cover.

(* every request is non-empty, at most cs long, and stays inside the source *)
Theorem C18_requests_bounded : forall n cs, 1 <= cs ->
  Forall (fun se => 1 <= slice_len se <= cs /\ snd se <= n) (slices n cs).
Proof. exact slices_bound. Qed.
Print Assumptions C18_requests_bounded.

Theorem C18_requests_consecutive : forall fuel s n cs, consecutive s (slices_from fuel s n cs).
Proof. exact slices_from_consecutive. Qed.
Print Assumptions C18_requests_consecutive.

Theorem C18_number_of_requests : forall n cs, 1 <= cs -> length (slices n cs) = (n + cs - 1) / cs.
Proof. exact slices_length. Qed.
Print Assumptions C18_number_of_requests.

(* the sparse probe is gathered chunk by chunk and selects exactly the requested rows *)
Theorem C18_probe_chunkwise : forall lens off idx,
  Forall (fun len => (0 <= len)%Z) lens ->
  Permutation (probe_run lens off idx)
    (map (fun i => (i + off)%Z) (filter (fun i => ((0 <=? i) && (i <? fold_right Z.add 0 lens))%Z) idx)).
Proof. exact probe_run_spec. Qed.
Print Assumptions C18_probe_chunkwise.

(* ---------------- Parquet: row groups are the unit of access ---------------- *)
(* the chunks delivered are the chunks of the concatenated row groups (every row once, consecutive, at most cs) *)
Theorem C18_parquet_chunks : forall (A : Type) cs (groups : list (list A)),
  parquet_chunks cs groups = chunks cs (concat groups).
Proof. exact @parquet_chunks_eq. Qed.
Print Assumptions C18_parquet_chunks.

(* whatever the row-group layout, the reader never holds more than one chunk plus one row group *)
Theorem C18_parquet_buffer_bound : forall (A : Type) cs m (groups : list (list A)),
  1 <= cs -> Forall (fun g => length g <= m) groups ->
  Forall (fun p => p < cs + m) (parquet_buffer_trace cs groups).
Proof. exact @parquet_buffer_bound. Qed.
Print Assumptions C18_parquet_buffer_bound.

(* row groups are requested in file order, none twice, none skipped *)
Theorem C18_parquet_requests_in_order : forall (A : Type) cs (groups : list (list A)),
  exists k, k <= length groups /\ concat (parquet_request_trace cs groups) = seq 0 k.
Proof. exact @parquet_requests_in_order. Qed.
Print Assumptions C18_parquet_requests_in_order.

(* and only as far as the next chunk needs: no read-ahead *)
Theorem C18_parquet_no_read_ahead : forall (A : Type) cs (file cache : list (list A)),
  let '(c1, f1) := load_groups cs cache file in
  let k := length file - length f1 in
  c1 = cache ++ firstn k file /\ f1 = skipn k file /\
  (k = 0 \/ cache_size (cache ++ firstn (k - 1) file) < cs).
Proof. exact @parquet_no_read_ahead. Qed.
Print Assumptions C18_parquet_no_read_ahead.

Example C18_parquet_concrete :
  parquet_load_trace 4 [[1;2;3];[4;5;6];[7;8;9];[10]] = [2; 1; 1]
  /\ parquet_buffer_trace 4 [[1;2;3];[4;5;6];[7;8;9];[10]] = [6; 5; 2]
  /\ c18_parquet_loads_case 30 [30;30;10;10;10;10] [1;1;3;1] = 0.
Proof. vm_compute. repeat split; reflexivity. Qed.

Example C18_concrete : slices 10 4 = [(0,4);(4,8);(8,10)] /\ random_sizes 10 4 = [4;4;2].
Proof. vm_compute. split; reflexivity. Qed.
