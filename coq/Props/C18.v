(* C18 — input is consumed in bounded chunks, each record once per pass. *)
From Verif Require Import Prelude Chunks ChunksP.
From Coq Require Import Permutation.
Open Scope nat_scope.

Theorem C18_requests_cover : forall n cs, 1 <= cs -> concat (map range (slices n cs)) = seq 0 n.
Proof. exact slices_cover. Qed.
Print Assumptions C18_requests_cover.

(* every request is non-empty, at most cs long, and stays inside the source *)
Theorem C18_requests_bounded : forall n cs, 1 <= cs ->
  Forall (fun se => 1 <= slice_len se <= cs /\ snd se <= n) (slices n cs).
Proof. exact slices_bound. Qed.
Print Assumptions C18_requests_bounded.

Theorem C18_requests_consecutive : forall fuel s n cs, consecutive s (slices_from fuel s n cs).
Proof. exact slices_from_consecutive. Qed.
Print Assumptions C18_requests_consecutive.

Theorem C18_number_of_requests : forall n cs, 1 <= cs -> length (slices n cs) = (n + cs - 1) / cs.
Proof. exact slices_length. Qed.
Print Assumptions C18_number_of_requests.

(* the sparse probe is gathered chunk by chunk and selects exactly the requested rows *)
Theorem C18_probe_chunkwise : forall lens off idx,
  Forall (fun len => (0 <= len)%Z) lens ->
  Permutation (probe_run lens off idx)
    (map (fun i => (i + off)%Z) (filter (fun i => ((0 <=? i) && (i <? fold_right Z.add 0 lens))%Z) idx)).
Proof. exact probe_run_spec. Qed.
Print Assumptions C18_probe_chunkwise.

Example C18_concrete : slices 10 4 = [(0,4);(4,8);(8,10)] /\ random_sizes 10 4 = [4;4;2].
Proof. vm_compute. split; reflexivity. Qed.
