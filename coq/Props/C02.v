(* C02 — catalog creation stores every input record exactly once, unchanged.
   Statements only; proofs are in Proofs/ChunksP.v and Proofs/WriterP.v. *)
From Verif Require Import Prelude Chunks ChunksP Writer WriterP.
From Coq Require Import Permutation.
Open Scope nat_scope.

(* the chunk cursor visits [0,n) once, in order, in pieces of 1..cs rows *)
Theorem C02_slices_cover : forall n cs, 1 <= cs -> concat (map range (slices n cs)) = seq 0 n.
Proof. exact slices_cover. Qed.
Print Assumptions C02_slices_cover.

Theorem C02_chunks_concat : forall (A : Type) cs (l : list A), 1 <= cs -> concat (chunks cs l) = l.
Proof. exact @chunks_concat. Qed.
Print Assumptions C02_chunks_concat.

(* the Parquet row-group cache yields the same chunks for every row-group layout *)
Theorem C02_parquet_chunks : forall (A : Type) cs (groups : list (list A)),
  parquet_chunks cs groups = chunks cs (concat groups).
Proof. exact @parquet_chunks_eq. Qed.
Print Assumptions C02_parquet_chunks.

Theorem C02_array_split_concat : forall (A : Type) k (l : list A), 1 <= k -> concat (array_split k l) = l.
Proof. exact @array_split_concat. Qed.
Print Assumptions C02_array_split_concat.

Theorem C02_groupby_lookup : forall (A : Type) (key : A -> nat) p (l : list A),
  lookup p (groupby key l) = filter (fun x => key x =? p) l.
Proof. exact @lookup_groupby. Qed.
Print Assumptions C02_groupby_lookup.

(* the patch writer loses nothing, for every buffer size (any integer) and shard sequence *)
Theorem C02_writer_no_loss : forall (A : Type) (bs : Z) (ds : list (list A)),
  let w := close (fold_left (process_chunk bs) ds pw_init) in
  file w = concat ds /\ shards w = [] /\ processed w = length (concat ds).
Proof. exact @writer_no_loss. Qed.
Print Assumptions C02_writer_no_loss.

(* the whole pipeline: any chunk size, worker count, buffer size and ANY delivery order *)
Theorem C02_pipeline_any_schedule :
  forall (A : Type) (key : A -> nat) cs workers (bs : Z) (input : list A) pi p,
  1 <= cs -> 1 <= workers ->
  Permutation pi (messages key cs workers input) ->
  Permutation (stored (run_writer bs pi) p) (filter (fun x => key x =? p) input).
Proof. exact @pipeline_any_schedule. Qed.
Print Assumptions C02_pipeline_any_schedule.

Theorem C02_pipeline_sequential :
  forall (A : Type) (key : A -> nat) cs (bs : Z) (input : list A) p,
  1 <= cs -> stored (run_writer bs (messages_seq key cs input)) p = filter (fun x => key x =? p) input.
Proof. exact @pipeline_sequential. Qed.
Print Assumptions C02_pipeline_sequential.

(* every record in exactly one patch *)
Theorem C02_each_record_once :
  forall (A : Type) (key : A -> nat) (ks : list nat) (input : list A),
  NoDup ks -> (forall x, In x input -> In (key x) ks) ->
  Permutation (concat (map (fun p => filter (fun x => key x =? p) input) ks)) input.
Proof. exact @filter_partition. Qed.
Print Assumptions C02_each_record_once.

(* non-vacuity: a concrete pipeline run (7 records, chunk size 3, 2 workers, buffer 2,
   reversed delivery) stores patch 1 = records with key 1 *)
Example C02_concrete :
  let key := fun x : nat => x mod 2 in
  let ms := messages key 3 2 [10;11;12;13;14;15;16] in
  stored (run_writer 2%Z (rev ms)) 1 = [15;13;11] /\ length ms = 6.
Proof. vm_compute. split; reflexivity. Qed.
