(* C02 — catalog creation stores every input record exactly once, unchanged.
   Statements only; proofs are in Proofs/ChunksP.v and Proofs/WriterP.v. *)
From Verif Require Import Prelude Chunks ChunksP Writer WriterP PatchPath PatchPathP Relocate RelocateP ChunksBatch ChunksBatchP.
From Coq Require Import Permutation.
Open Scope nat_scope.

(* the chunk cursor visits [0,n) once, in order, in pieces of 1..cs rows *)
Theorem C02_slices_cover : forall n cs, 1 <= cs -> concat (map range (slices n cs)) = seq 0 n.
Proof. exact slices_cover. Qed.
Print Assumptions C02_slices_cover.

Theorem C02_chunks_concat : forall (A : Type) cs (l : list A), 1 <= cs -> concat (chunks cs l) = l.
Proof. exact @chunks_concat. Qed.
Print Assumptions C02_chunks_concat.

(* the Parquet row-group cache yields the same chunks for every row-group layout *)
Theorem C02_parquet_chunks : forall (A : Type) cs (groups : list (list A)),
  parquet_chunks cs groups = chunks cs (concat groups).
Proof. exact @parquet_chunks_eq. Qed.
Print Assumptions C02_parquet_chunks.

Theorem C02_array_split_concat : forall (A : Type) k (l : list A), 1 <= k -> concat (array_split k l) = l.
Proof. exact @array_split_concat. Qed.
Print Assumptions C02_array_split_concat.

Theorem C02_groupby_lookup : forall (A : Type) (key : A -> nat) p (l : list A),
  lookup p (groupby key l) = filter (fun x => key x =? p) l.
Proof. exact @lookup_groupby. Qed.
Print Assumptions C02_groupby_lookup.

(* the patch writer loses nothing, for every buffer size (any integer) and shard sequence *)
Theorem C02_writer_no_loss : forall (A : Type) (bs : Z) (ds : list (list A)),
  let w := close (fold_left (process_chunk bs) ds pw_init) in
  file w = concat ds /\ shards w = [] /\ processed w = length (concat ds).
Proof. exact @writer_no_loss. Qed.
Print Assumptions C02_writer_no_loss.

(* the whole pipeline: any chunk size, worker count, buffer size and ANY delivery order *)
Theorem C02_pipeline_any_schedule :
  forall (A : Type) (key : A -> nat) cs workers (bs : Z) (input : list A) pi p,
  1 <= cs -> 1 <= workers ->
  Permutation pi (messages key cs workers input) ->
  Permutation (stored (run_writer bs pi) p) (filter (fun x => key x =? p) input).
Proof. exact @pipeline_any_schedule. Qed.
Print Assumptions C02_pipeline_any_schedule.

Theorem C02_pipeline_sequential :
  forall (A : Type) (key : A -> nat) cs (bs : Z) (input : list A) p,
  1 <= cs -> stored (run_writer bs (messages_seq key cs input)) p = filter (fun x => key x =? p) input.
Proof. exact @pipeline_sequential. Qed.
Print Assumptions C02_pipeline_sequential.

(* every record in exactly one patch *)
Theorem C02_each_record_once :
  forall (A : Type) (key : A -> nat) (ks : list nat) (input : list A),
  NoDup ks -> (forall x, In x input -> In (key x) ks) ->
  Permutation (concat (map (fun p => filter (fun x => key x =? p) input) ks)) input.
Proof. exact @filter_partition. Qed.
Print Assumptions C02_each_record_once.

(* non-vacuity: a concrete pipeline run (7 records, chunk size 3, 2 workers, buffer 2,
   reversed delivery) stores patch 1 = records with key 1 *)
Example C02_concrete :
  let key := fun x : nat => x mod 2 in
  let ms := messages key 3 2 [10;11;12;13;14;15;16] in
  stored (run_writer 2%Z (rev ms)) 1 = [15;13;11] /\ length ms = 6.
Proof. vm_compute. split; reflexivity. Qed.

(* patch modes.  A row = (record, value of the patch index column if patch_name was given);
   near = Some f when centres are used (given, from a catalog, or generated), mode_key is the
   documented precedence patch_centers > patch_name.  is_execution: workers = 0 is the
   sequential path, otherwise ANY delivery order of the per-split dictionaries of a pool. *)
Theorem C02_execution_stores_selected :
  forall (A : Type) (near : option (A -> nat)) cs workers (bs : Z) (input : list (A * option nat)) pi p,
  1 <= cs -> is_execution near cs workers input pi ->
  Permutation (stored (run_writer bs pi) p) (map fst (filter (fun r => mode_key near r =? p) input)).
Proof. exact @execution_stores_selected. Qed.
Print Assumptions C02_execution_stores_selected.

(* the per-patch multisets do not depend on chunk size, buffer size, number of workers or schedule *)
Theorem C02_executions_agree :
  forall (A : Type) (near : option (A -> nat)) cs cs' workers workers' (bs bs' : Z)
         (input : list (A * option nat)) pi pi' p,
  1 <= cs -> 1 <= cs' ->
  is_execution near cs workers input pi -> is_execution near cs' workers' input pi' ->
  Permutation (stored (run_writer bs pi) p) (stored (run_writer bs' pi') p).
Proof. exact @executions_agree. Qed.
Print Assumptions C02_executions_agree.

(* patch_centers AND patch_name given: the nearest centre decides ... *)
Theorem C02_centres_take_precedence :
  forall (A : Type) (f : A -> nat) cs workers (bs : Z) (input : list (A * option nat)) pi p,
  1 <= cs -> is_execution (Some f) cs workers input pi ->
  Permutation (stored (run_writer bs pi) p) (filter (fun x => f x =? p) (map fst input)).
Proof. exact @centres_take_precedence. Qed.
Print Assumptions C02_centres_take_precedence.

(* ... whatever the index column holds, for every pair of executions *)
Theorem C02_index_column_ignored_with_centres :
  forall (A : Type) (f : A -> nat) cs cs' workers workers' (bs bs' : Z)
         (input input' : list (A * option nat)) pi pi' p,
  1 <= cs -> 1 <= cs' -> map fst input = map fst input' ->
  is_execution (Some f) cs workers input pi -> is_execution (Some f) cs' workers' input' pi' ->
  Permutation (stored (run_writer bs pi) p) (stored (run_writer bs' pi') p).
Proof. exact @index_column_ignored_with_centres. Qed.
Print Assumptions C02_index_column_ignored_with_centres.

(* patch_name only: the index column names the patch *)
Theorem C02_index_column_names_patch :
  forall (A : Type) (col : A -> nat) cs workers (bs : Z) (xs : list A) pi p,
  1 <= cs -> is_execution None cs workers (map (fun x => (x, Some (col x))) xs) pi ->
  Permutation (stored (run_writer bs pi) p) (filter (fun x => col x =? p) xs).
Proof. exact @index_column_names_patch. Qed.
Print Assumptions C02_index_column_names_patch.

(* non-vacuity: 7 records with an index column that contradicts the nearest centre (x mod 2);
   chunk size 3, 2 workers, reversed delivery: patch 1 holds the records with nearest centre 1,
   the checker accepts this run next to the sequential one and rejects a run split by the column *)
Example C02_concrete_precedence :
  let rows := map (fun x : nat => (x, Some ((x + 1) mod 2))) [10;11;12;13;14;15;16] in
  let near := Some (fun x : nat => x mod 2) in
  stored (run_writer 2%Z (rev (messages_mode near 3 2 rows))) 1 = [15;13;11]
  /\ stored (run_writer 2%Z (messages_mode_seq near 3 rows)) 1 = [11;13;15]
  /\ c02_matrix_case 5 2 true true [0;1;0;1;0] [1;0;1;0;1] (-1)%Z
       [ ((0, []), [(0, [0;2;4]); (1, [1;3])]); ((2, [1;0;3;2;5;4]), [(0, [0;2;4]); (1, [1;3])]) ] = 0
  /\ c02_matrix_case 5 2 true true [0;1;0;1;0] [1;0;1;0;1] (-1)%Z
       [ ((0, []), [(0, [0;2;4]); (1, [1;3])]); ((2, [1;0;3;2;5;4]), [(0, [1;3]); (1, [0;2;4])]) ] = 7.
Proof. vm_compute. repeat split; reflexivity. Qed.

(* ---------------- where a patch is stored: the folder names ---------------- *)
(* get_id_from_patch_path inverts get_patch_path_from_id for EVERY cache directory string (whatever its parents are called)
   and every id ... *)
Theorem C02_patch_path_roundtrip : forall (dir : String.string) (n : nat), id_of_path (patch_path dir n) = Some n.
Proof. exact id_roundtrip. Qed.
Print Assumptions C02_patch_path_roundtrip.
(* ... so two patches never share a folder ... *)
Theorem C02_patch_path_injective : forall (dir : String.string) (i j : nat), patch_path dir i = patch_path dir j -> i = j.
Proof. exact patch_path_inj. Qed.
Print Assumptions C02_patch_path_injective.
(* ... and the dictionary load_patches builds has exactly the stored ids as keys, in their order *)
Theorem C02_reload_keys : forall (dir : String.string) (ids : list nat),
  map (fun p => id_of_path p) (map (patch_path dir) ids) = map Some ids.
Proof. exact load_keys. Qed.
Print Assumptions C02_reload_keys.
(* looking for "patch_<digits>" anywhere in the path string instead is wrong below a parent folder such as npatch_8 *)
Theorem C02_patch_id_by_search_refuted : exists (dir : String.string) (n : nat), id_of_path_search (patch_path dir n) <> Some n.
Proof. exact id_search_refuted. Qed.
Print Assumptions C02_patch_id_by_search_refuted.
(* ---------------- reopened from the directory it is in NOW ---------------- *)
(* a cache that was moved (renamed, copied) and whose old place was taken by another catalog still holds what it was created from *)
Theorem C02_reopen_after_move : forall (R : Type) (f : @fs R) (p q : nat) (r r' : R),
  p <> q -> reopen (create (move (create f p r) p q) p r') q = Some r.
Proof. exact @reopen_after_move. Qed.
Print Assumptions C02_reopen_after_move.
Theorem C02_reopen_after_copy : forall (R : Type) (f : @fs R) (p q : nat) (r r' : R),
  p <> q -> reopen (create (copy (create f p r) p q) p r') q = Some r.
Proof. exact @reopen_after_copy. Qed.
Print Assumptions C02_reopen_after_copy.
(* a reader that follows paths stored inside the cache hands out the records of whatever lives at the old place *)
Theorem C02_reopen_by_stored_paths_refuted :
  exists (f : @fs nat) p q r r', p <> q /\ reopen_stored (create (move (create f p r) p q) p r') q = Some r' /\ r <> r'.
Proof. exact reopen_stored_after_move_refuted. Qed.
Print Assumptions C02_reopen_by_stored_paths_refuted.
(* ---------------- row groups of unequal sizes ---------------- *)
(* C02_parquet_chunks above holds for ANY list of row groups.  A loader that fetches ceil(missing / rows of the next group)
   groups in one request (assuming the following groups are as large) delivers every row only while the groups have one size;
   with groups of 3 rows and 1 row in turn and chunks of 5 rows it ends the pass before the file does *)
Theorem C02_parquet_batch_loader_refuted :
  exists (cs : nat) (groups : list (list nat)),
    concat (parquet_chunks cs groups) = concat groups /\
    concat (parquet_chunks_batch cs groups) <> concat groups /\
    length (concat (parquet_chunks_batch cs groups)) < length (concat groups).
Proof. exact batch_loses_rows_refuted. Qed.
Print Assumptions C02_parquet_batch_loader_refuted.
Module C02_paths_example.
Import Coq.Strings.String.
Example C02_concrete_paths :
  (patch_path "/data/npatch_8/x{a}" 12 = "/data/npatch_8/x{a}/patch_12" /\
   id_of_path "/data/npatch_8/x{a}/patch_12" = Some 12 /\ id_of_path "/data/patch_3/meta.yml" = None /\
   id_of_path "/data/patch_1_2" = None)%string.
Proof. vm_compute. repeat split; reflexivity. Qed.
End C02_paths_example.
