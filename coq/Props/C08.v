(* C08 — a crash never leaves a cache that is silently wrong.
   Statements only; models in Model/FsCrash.v, proofs in Proofs/FsCrashP.v.
   The crash state after the k-th system call of a workload is  apply (firstn k ops) s0. *)
From Verif Require Import Prelude FsCrash FsCrashP FsRebuild FsRebuildP.
Open Scope nat_scope.

(* creation (write_patches + metadata), with an empty patch_ids.bin treated as an error:
   every prefix is an error or the complete new catalog *)
Theorem C08_crash_safe_create : forall (ps : list piece) (s0 : fs) (k : nat),
  s0 PIds = None ->
  let ops := ops_create ps in
  In (recover_cat true (apply (firstn k ops) s0)) [Err; recover_cat true (apply ops s0)].
Proof. exact crash_safe_create. Qed.
Print Assumptions C08_crash_safe_create.

(* ... and the complete new catalog is readable and holds, patch by patch, the records handed to the writers *)
Theorem C08_create_complete : forall (strict : bool) (ps : list piece) (s0 : fs),
  ps <> [] -> (forall pc, In pc ps -> snd pc <> []) ->
  recover_cat strict (apply (ops_create ps) s0) = Ok (map (fun i => (i, recs_for ps i)) (created_ids ps)).
Proof. exact create_complete. Qed.
Print Assumptions C08_create_complete.

(* overwrite of a complete catalog, for EVERY order in which rmtree removes the old entries *)
Theorem C08_crash_safe_overwrite : forall (l : list (path * content)) (order : list path) (ps : list piece) (k : nat),
  wf_cat (fs_of l) -> valid_order_b l order = true ->
  let s0 := fs_of l in
  let ops := ops_overwrite order ps in
  In (recover_cat true (apply (firstn k ops) s0)) [Err; recover_cat true s0; recover_cat true (apply ops s0)].
Proof. exact crash_safe_overwrite. Qed.
Print Assumptions C08_crash_safe_overwrite.

(* metadata computed on reopening (either form of the id-list check) *)
Theorem C08_crash_safe_metadata : forall (strict : bool) (s0 : fs) (k : nat),
  wf_cat s0 ->
  let ops := ops_metadata s0 (ids_of s0) in
  In (recover_cat strict (apply (firstn k ops) s0)) [Err; recover_cat strict s0; recover_cat strict (apply ops s0)].
Proof. exact crash_safe_metadata. Qed.
Print Assumptions C08_crash_safe_metadata.

Theorem C08_metadata_complete : forall (strict : bool) (s0 : fs),
  wf_cat s0 -> recover_cat strict (apply (ops_metadata s0 (ids_of s0)) s0) = recover_cat strict s0.
Proof. exact metadata_complete. Qed.
Print Assumptions C08_metadata_complete.

(* tree (re)building with the marker removed before the trees are rewritten: after a crash at ANY
   point, from ANY consistent cache, for ANY later request b', every patch fails loudly or uses
   trees built for b' *)
Theorem C08_crash_safe_fix : forall (s0 : fs) (ies : list (nat * nat)) (b : nat) (force : bool) (k i : nat),
  NoDup (map fst ies) -> consistent_b s0 i = true ->
  forall b', let s := apply (firstn k (ops_build true s0 ies b force)) s0 in
             use_trees s i b' = UErr \/ use_trees s i b' = Used b'.
Proof. exact crash_safe_fix. Qed.
Print Assumptions C08_crash_safe_fix.

Theorem C08_crash_safe_fix_measure : forall (s0 : fs) (ies : list (nat * nat)) (b : nat) (force : bool) (k : nat) (ids : list nat) (b' : nat),
  NoDup (map fst ies) -> forallb (consistent_b s0) ids = true ->
  let s := apply (firstn k (ops_build true s0 ies b force)) s0 in
  measure s ids b' = Err \/ measure s ids b' = Ok (map (fun _ => b') ids).
Proof. exact crash_safe_fix_measure. Qed.
Print Assumptions C08_crash_safe_fix_measure.

(* a single result file (HDF5): unreadable until complete *)
Theorem C08_crash_safe_single : forall (s0 : fs) (extra tail v k : nat),
  let ops := ops_res_single extra tail v in
  In (recover_single (apply (firstn k ops) s0)) [Err; recover_single s0; Ok (v, v)].
Proof. exact crash_safe_single. Qed.
Print Assumptions C08_crash_safe_single.

(* the .dat/.smp/.cov triple with .smp and .cov removed before .dat is rewritten *)
Theorem C08_crash_safe_triple_fix : forall (s0 : fs) (v k : nat),
  let ops := ops_triple_fix s0 v in
  In (recover_triple (apply (firstn k ops) s0)) [Err; recover_triple s0; Ok (v, v)].
Proof. exact crash_safe_triple_fix. Qed.
Print Assumptions C08_crash_safe_triple_fix.

(* result products under names derived from the path the user gives (prefixes with dots, suffixes that look
   like extensions, directories): the names removed (nd), written (ws, any number of system calls per file)
   and read (nr) are ARBITRARY paths; if every name that is read is removed beforehand or is the file written
   first, a crash at any point, over any prior state, reads as an error, the old or the complete new product *)
Theorem C08_crash_safe_product : forall (s0 : fs) (nd : list path) (ws : list wfile) (nr : list path) (v k : nat),
  (forall p, In p nr -> In p nd \/ first_written ws = Some p) ->
  let ops := ops_product true s0 nd ws v in
  In (recover_product nr (apply (firstn k ops) s0)) [Err; recover_product nr s0; Ok (map (fun _ => v) nr)].
Proof. exact crash_safe_product. Qed.
Print Assumptions C08_crash_safe_product.

Theorem C08_product_complete : forall (fixed : bool) (s0 : fs) (nd : list path) (ws : list wfile) (nr : list path) (v : nat),
  (forall p, In p nr -> In p (map fst ws)) ->
  recover_product nr (apply (ops_product fixed s0 nd ws v) s0) = Ok (map (fun _ => v) nr).
Proof. exact product_complete. Qed.
Print Assumptions C08_product_complete.

(* the check the harness evaluates on the names seen in the traces gives both hypotheses *)
Theorem C08_names_ok : forall (nd : list path) (ws : list wfile) (nr : list path), names_ok_b nd ws nr = true ->
  (forall p, In p nr -> In p nd \/ first_written ws = Some p) /\ (forall p, In p nr -> In p (map fst ws)).
Proof. exact names_ok_b_spec. Qed.
Print Assumptions C08_names_ok.

(* the .dat/.smp/.cov triple whatever the three names are, as long as they are derived once *)
Theorem C08_crash_safe_triple_named : forall (dat smp cov : path) (s0 : fs) (e1 t1 e2 t2 e3 t3 v k : nat),
  let ops := ops_product true s0 [smp; cov] [(dat, (e1, t1)); (smp, (e2, t2)); (cov, (e3, t3))] v in
  In (recover_product [dat; smp] (apply (firstn k ops) s0)) [Err; recover_product [dat; smp] s0; Ok [v; v]].
Proof. exact crash_safe_triple_named. Qed.
Print Assumptions C08_crash_safe_triple_named.

(* names derived in two ways (written/read as prefix + extension, removed as stem + extension): the old
   samples survive and are read with the new data *)
Theorem C08_product_names_refuted :
  let nd := [POther 1; POther 2] in
  let ws := [(POther 3, (0, 0)); (POther 4, (0, 0)); (POther 5, (0, 0))] in
  let nr := [POther 3; POther 4] in
  names_ok_b nd ws nr = false /\
  recover_product nr (fs_of s_old_named) = Ok [1; 1] /\
  recover_product nr (apply (ops_product true (fs_of s_old_named) nd ws 2) (fs_of s_old_named)) = Ok [2; 2] /\
  recover_product nr (apply (firstn 2 (ops_product true (fs_of s_old_named) nd ws 2)) (fs_of s_old_named)) = Ok [2; 1].
Proof. exact product_names_refuted. Qed.
Print Assumptions C08_product_names_refuted.

(* the pinned forms fail at one crash point each *)
Theorem C08_stale_marker_refuted :
  forallb (consistent_b (fs_of s_old_trees)) [0; 1] = true /\
  let s := apply (firstn 2 (ops_build false (fs_of s_old_trees) [(0, 0); (1, 0)] 2 false)) (fs_of s_old_trees) in
  use_trees s 0 1 = Used 2 /\ measure s [0; 1] 1 = Ok [2; 1].
Proof. exact stale_marker_refuted. Qed.
Print Assumptions C08_stale_marker_refuted.

(* F21, on the operation list of the pinned commit (patch_ids.bin created and written in place) *)
Theorem C08_empty_ids_refuted :
  let ops := ops_create_pinned ps_demo in
  recover_cat false (apply ops empty_fs) = Ok [(0, [0; 1; 3]); (1, [2])] /\
  recover_cat false (apply (firstn 11 ops) empty_fs) = Ok [] /\
  recover_cat true (apply (firstn 11 ops) empty_fs) = Err.
Proof. exact empty_ids_refuted. Qed.
Print Assumptions C08_empty_ids_refuted.

(* an empty marker (older caches may hold one) is refused by the repaired recovery, whatever else the directory holds *)
Theorem C08_empty_marker_refused : forall s : fs, s PIds = Some (IdsF []) -> recover_cat true s = Err.
Proof. exact empty_marker_refused. Qed.
Print Assumptions C08_empty_marker_refused.

(* the id list is written aside and moved into place by ONE rename: at every crash point patch_ids.bin is absent or
   holds the complete list (no empty, no partial marker), whatever system calls precede it *)
Theorem C08_create_marker_whole : forall (body : list fop) (ps : list piece) (s0 : fs) (k : nat),
  Forall (avoids PIds) body -> s0 PIds = None ->
  let ops := body ++ ops_create_ids ps ++ ops_meta_all (created_ids ps) in
  In (apply (firstn k ops) s0 PIds) [None; Some (IdsF (created_ids ps))].
Proof. exact create_marker_whole. Qed.
Print Assumptions C08_create_marker_whole.

(* the PINNED way of writing the marker (patch_ids.bin created and written in place) under the repaired id-list check is
   safe as long as the id list reaches the file in ONE write system call (at most 2048 ids) ... *)
Theorem C08_crash_safe_marker_last_pinned : forall (body : list fop) (ps : list piece) (s0 : fs) (k : nat),
  Forall (avoids PIds) body -> s0 PIds = None ->
  let ops := body ++ ops_create_ids_pinned ps ++ ops_meta_all (created_ids ps) in
  In (recover_cat true (apply (firstn k ops) s0)) [Err; recover_cat true (apply ops s0)].
Proof. exact crash_safe_marker_last_pinned. Qed.
Print Assumptions C08_crash_safe_marker_last_pinned.

(* ... the harness compares a working tree that has only one of the two repairs of the creation with the mixed form
   (operation list fo, recovery fr); with fo = fr these are the forms above *)
Theorem C08_mixed_forms_same : forall (b : bool) (w : workload) (k req c : nat) (l : list (path * content)) (chk : bool),
  c08_case2 b b w k req c = c08_case b w k req c /\ c08_unwound2 b b w l req c chk = c08_unwound b w l req c chk.
Proof. intros. split; [apply c08_case2_same|apply c08_unwound2_same]. Qed.
Print Assumptions C08_mixed_forms_same.

(* F35, the PINNED way of writing the marker (in place, through a stdio stream: a list of more than 2048 ids reaches
   patch_ids.bin in several write system calls; here two, delivering l1 and then l2, both non-empty).  Whatever the
   body is and whatever the complete catalog o is: there is a crash point whose state opens WITHOUT an error as the
   first |l1| patches of o - a strict subset *)
Theorem C08_marker_in_pieces_refuted : forall (body : list fop) (l1 l2 : list nat) (s0 : fs) (o : observable),
  l1 <> [] -> l2 <> [] ->
  let ops := body ++ ops_ids_pieces l1 l2 in
  recover_cat true (apply ops s0) = Ok o ->
  exists k, k < length ops /\
    recover_cat true (apply (firstn k ops) s0) = Ok (firstn (length l1) o) /\ length l1 < length o.
Proof. exact marker_in_pieces_refuted. Qed.
Print Assumptions C08_marker_in_pieces_refuted.

Theorem C08_result_triple_mixed_refuted :
  recover_triple (fs_of s_old_triple) = Ok (1, 1) /\
  recover_triple (apply (ops_triple_cur 2) (fs_of s_old_triple)) = Ok (2, 2) /\
  recover_triple (apply (firstn 2 (ops_triple_cur 2)) (fs_of s_old_triple)) = Ok (2, 1).
Proof. exact result_triple_mixed_refuted. Qed.
Print Assumptions C08_result_triple_mixed_refuted.

(* appends above the size of the user-space buffer: a piece reaches data.bin in several write system calls (whole
   buffer blocks first, the rest when the stream is flushed); between them the file holds a part of the piece, possibly
   ending inside a record.  For EVERY way the pieces are cut: a crash at any point is an error or the complete new catalog,
   and an uninterrupted run leaves the catalog of the unbuffered creation (C08_create_complete applies to it) *)
Theorem C08_crash_safe_create_buffered : forall (bps : list bpiece) (s0 : fs) (k : nat),
  s0 PIds = None ->
  let ops := ops_bcreate bps in
  In (recover_cat true (apply (firstn k ops) s0)) [Err; recover_cat true (apply ops s0)].
Proof. exact crash_safe_bcreate. Qed.
Print Assumptions C08_crash_safe_create_buffered.

Theorem C08_create_buffered_final : forall (strict : bool) (bps : list bpiece) (s0 : fs),
  recover_cat strict (apply (ops_bcreate bps) s0) = recover_cat strict (apply (ops_create (unbuf bps)) s0).
Proof. exact bcreate_final. Qed.
Print Assumptions C08_create_buffered_final.

Theorem C08_create_buffered_complete : forall (strict : bool) (bps : list bpiece) (s0 : fs),
  bps <> [] -> (forall bp, In bp bps -> snd (fst bp) <> []) ->
  recover_cat strict (apply (ops_bcreate bps) s0)
  = Ok (map (fun i => (i, recs_for (unbuf bps) i)) (created_ids (unbuf bps))).
Proof. exact bcreate_complete. Qed.
Print Assumptions C08_create_buffered_complete.

Theorem C08_crash_safe_overwrite_buffered : forall (l : list (path * content)) (order : list path) (bps : list bpiece) (k : nat),
  wf_cat (fs_of l) -> valid_order_b l order = true ->
  let s0 := fs_of l in
  let ops := ops_boverwrite order bps in
  In (recover_cat true (apply (firstn k ops) s0)) [Err; recover_cat true s0; recover_cat true (apply ops s0)].
Proof. exact crash_safe_boverwrite. Qed.
Print Assumptions C08_crash_safe_overwrite_buffered.

(* the reason, for any writer: whatever system calls precede the marker, as long as none of them touches patch_ids.bin *)
Theorem C08_crash_safe_marker_last : forall (body : list fop) (ps : list piece) (s0 : fs) (k : nat),
  Forall (avoids PIds) body -> s0 PIds = None ->
  let ops := body ++ ops_create_ids ps ++ ops_meta_all (created_ids ps) in
  In (recover_cat true (apply (firstn k ops) s0)) [Err; recover_cat true (apply ops s0)].
Proof. exact crash_safe_marker_last. Qed.
Print Assumptions C08_crash_safe_marker_last.

(* pieces that are not cut give the operation list of the unbuffered model *)
Theorem C08_buffered_nocuts : forall (ps : list piece) (acc : list piece),
  ops_bpieces acc (map (fun pc => (pc, [])) ps) = ops_pieces acc ps.
Proof. exact ops_bpieces_nocuts. Qed.
Print Assumptions C08_buffered_nocuts.

(* the marker written after all system calls of the body is that safe order; written while the tail of a patch's data
   is still in a user-space buffer it is not: the crash right after the marker opens without error with records missing *)
Theorem C08_marker_after_body : forall bps : list bpiece,
  ops_bcreate_early (length (ops_bcreate_body bps)) bps = ops_bcreate bps.
Proof. exact bcreate_early_all. Qed.
Print Assumptions C08_marker_after_body.

Theorem C08_marker_before_flush_refuted :
  let ops := ops_bcreate_early 10 bps_demo in
  length (ops_bcreate_body bps_demo) = 12 /\
  recover_cat true (apply ops empty_fs) = Ok [(0, [0; 1; 2; 4; 5]); (1, [3])] /\
  recover_cat true (apply (ops_bcreate bps_demo) empty_fs) = Ok [(0, [0; 1; 2; 4; 5]); (1, [3])] /\
  recover_cat true (apply (firstn 13 ops) empty_fs) = Ok [(0, [0; 1; 2]); (1, [3])] /\
  recover_cat true (apply (firstn 14 ops) empty_fs) = Err.
Proof. exact marker_before_flush_refuted. Qed.
Print Assumptions C08_marker_before_flush_refuted.

(* deaths by UNWINDING (KeyboardInterrupt from SIGINT, SystemExit from a SIGTERM handler, an exception nobody
   catches): handlers, __exit__ methods and finally blocks run and may issue file operations, so what is left is not
   a prefix of the operation list by construction.  Whenever the left-over state l is one that SOME crash point of
   the uninterrupted run leaves (prefix_state_b, decided by the harness on the real directory), it is classified
   exactly like that crash point, for every workload and either form of the code ... *)
Theorem C08_unwound_as_crash : forall (fixed : bool) (w : workload) (l : list (path * content)) (req : nat),
  prefix_state_b (w_s0l w) (w_ops fixed w) l = true ->
  exists k, w_class_at fixed w (fs_of l) req = w_class fixed w k req.
Proof. exact unwound_as_crash. Qed.
Print Assumptions C08_unwound_as_crash.

Theorem C08_prefix_state_sound : forall (l0 : list (path * content)) (ops : list fop) (l : list (path * content)),
  prefix_state_b l0 ops l = true -> exists k, forall q, fs_of l q = apply (firstn k ops) (fs_of l0) q.
Proof. exact prefix_state_spec. Qed.
Print Assumptions C08_prefix_state_sound.

(* ... hence an interrupted creation / overwrite recovers as an error, the old or the complete new catalog *)
Theorem C08_unwound_create_safe : forall (ps : list piece) (l : list (path * content)),
  prefix_state_b [] (ops_create ps) l = true ->
  In (recover_cat true (fs_of l)) [Err; recover_cat true (apply (ops_create ps) empty_fs)].
Proof. exact unwound_create_safe. Qed.
Print Assumptions C08_unwound_create_safe.

Theorem C08_unwound_overwrite_safe : forall (l0 : list (path * content)) (order : list path) (ps : list piece) (l : list (path * content)),
  wf_cat (fs_of l0) -> valid_order_b l0 order = true ->
  prefix_state_b l0 (ops_overwrite order ps) l = true ->
  In (recover_cat true (fs_of l)) [Err; recover_cat true (fs_of l0); recover_cat true (apply (ops_overwrite order ps) (fs_of l0))].
Proof. exact unwound_overwrite_safe. Qed.
Print Assumptions C08_unwound_overwrite_safe.

(* the abort path of write_patches (writers closed, the code of the regular end NOT run), interrupted after ANY
   number j of pieces: its operations are a prefix of the uninterrupted run's, and the next use is an error *)
Theorem C08_unwound_create_prefix : forall (j : nat) (ps : list piece),
  exists k, ops_create_unwound false j ps = firstn k (ops_create ps).
Proof. exact unwound_create_prefix. Qed.
Print Assumptions C08_unwound_create_prefix.

Theorem C08_unwound_create_err : forall (strict : bool) (j : nat) (ps : list piece) (s0 : fs),
  s0 PIds = None -> recover_cat strict (apply (ops_create_unwound false j ps) s0) = Err.
Proof. exact unwound_create_err. Qed.
Print Assumptions C08_unwound_create_err.

Theorem C08_unwound_overwrite_err : forall (strict : bool) (l : list (path * content)) (order : list path) (j : nat) (ps : list piece),
  wf_cat (fs_of l) -> valid_order_b l order = true ->
  recover_cat strict (apply (ops_overwrite_unwound false order j ps) (fs_of l)) = Err.
Proof. exact unwound_overwrite_err. Qed.
Print Assumptions C08_unwound_overwrite_err.

(* with the code of the regular end on the abort path (finalize when the queue ends, whatever ended it): interrupted
   after 2 of 3 pieces the directory opens without an error and holds a part of the records; no crash point of the
   uninterrupted run leaves that state *)
Theorem C08_finalize_on_abort_refuted :
  (forall q, apply (ops_create_unwound true 2 ps_demo) empty_fs q = fs_of s_unwound_fin q) /\
  recover_cat true (fs_of s_unwound_fin) = Ok [(0, [0; 1]); (1, [2])] /\
  recover_cat true (apply (ops_create ps_demo) empty_fs) = Ok [(0, [0; 1; 3]); (1, [2])] /\
  prefix_state_b [] (ops_create ps_demo) s_unwound_fin = false /\
  w_class_at true (WCreate ps_demo) (fs_of s_unwound_fin) 0 = 1.
Proof. exact finalize_on_abort_refuted. Qed.
Print Assumptions C08_finalize_on_abort_refuted.

(* non-vacuity of the unwound form: the overwrite of C08_concrete interrupted when 2 of its 3 pieces have arrived
   leaves the new root, both new patch directories with the data so far and no patch_ids.bin: that is the state of
   crash point 19, an error (flags all fine, code 0); the same directory WITH a patch_ids.bin is no crash state and
   opens with a part of the records (flags 1 and 2 fail: code 6) *)
Example C08_concrete_unwound :
  let l0 := [(PRoot, Dir); (PIds, IdsF [0; 1]); (PDir 0, Dir); (PData 0, DataF true [0; 1]); (PMeta 0, MetaF true);
             (PBin 0, BinF (BWhole 1)); (PTrees 0, TreesF (Some 1));
             (PDir 1, Dir); (PData 1, DataF true [2]); (PMeta 1, MetaF true)] in
  let order := [PBin 0; PMeta 0; PTrees 0; PData 0; PDir 0; PIds; PMeta 1; PData 1; PDir 1; PRoot] in
  let ps := [(0, [10; 11]); (1, [12]); (0, [13])] in
  let w := WOverwrite l0 order ps in
  let left := [(PRoot, Dir); (PDir 0, Dir); (PData 0, DataF true [10; 11]); (PDir 1, Dir); (PData 1, DataF true [12])] in
  (forall q, apply (ops_overwrite_unwound false order 2 ps) (fs_of l0) q = fs_of left q) /\
  prefix_state_b l0 (w_ops true w) left = true /\
  w_class_at true w (fs_of left) 0 = w_class true w 19 0 /\
  c08_unwound true w left 0 0 true = 0 /\
  c08_unwound true w ((PIds, IdsF [0; 1]) :: left) 0 1 true = 6.
Proof.
  split; [|vm_compute; repeat split].
  intro q. destruct q as [| |[|[|i]]|[|[|i]]|[|[|i]]|[|[|i]]|[|[|i]]| | | | |n|]; reflexivity.
Qed.

(* non-vacuity: overwriting a two-patch catalog (with a tree cache) by other data; rmtree removes binning,
   meta.yml, trees.pkl of patch 0 first (still the old catalog), then its data (error), ...; the new catalog
   is an error until the id list (written aside: crash points 21, 22) is moved into place (23) and while a meta.yml
   is empty.  In the pinned form (patch_ids.bin created and written in place, pinned id-list check) the crash point 21
   (patch_ids.bin created, not written) is class 1: opens as an empty catalog. *)
Example C08_concrete :
  let l := [(PRoot, Dir); (PIds, IdsF [0; 1]); (PDir 0, Dir); (PData 0, DataF true [0; 1]); (PMeta 0, MetaF true);
            (PBin 0, BinF (BWhole 1)); (PTrees 0, TreesF (Some 1));
            (PDir 1, Dir); (PData 1, DataF true [2]); (PMeta 1, MetaF true)] in
  let order := [PBin 0; PMeta 0; PTrees 0; PData 0; PDir 0; PIds; PMeta 1; PData 1; PDir 1; PRoot] in
  let ps := [(0, [10; 11]); (1, [12]); (0, [13])] in
  let w := WOverwrite l order ps in
  c08_hyp w = 0 /\ length (w_ops true w) = 27 /\ length (w_ops false w) = 26 /\
  map (fun k => w_class true w k 0) (seq 0 28) =
    [2; 2; 2; 2; 0; 0; 0; 0; 0; 0; 0; 0; 0; 0; 0; 0; 0; 0; 0; 0; 0; 0; 0; 3; 0; 3; 0; 3] /\
  w_class false w 21 0 = 1.
Proof. vm_compute. repeat split. Qed.

(* non-vacuity of the buffered form: records in run-length notation (piece j of the input = its records, all written
   j); patch 0 gets 5 + 3 records, the first piece in three system calls (2 complete records; 4 and a part of the
   fifth; all 5), patch 1 gets 4 records in two.  Every crash point before the marker is an error, the marker makes
   the complete catalog visible at once (class 3), an empty meta.yml is an error again. *)
Example C08_concrete_buffered :
  let bps := [((0, rl [(0, 5)]), [(2, false); (4, true)]); ((1, rl [(1, 4)]), [(3, false)]); ((0, rl [(2, 3)]), [])] in
  let w := WCreateB bps in
  c08_hyp w = 0 /\ length (w_ops true w) = 20 /\
  map (fun k => w_class true w k 0) (seq 0 21) = [0; 0; 0; 0; 0; 0; 0; 0; 0; 0; 0; 0; 0; 0; 0; 0; 3; 0; 3; 0; 3] /\
  recover_cat true (apply (w_ops true w) empty_fs) = Ok [(0, [0; 0; 0; 0; 0; 2; 2; 2]); (1, [1; 1; 1; 1])].
Proof. vm_compute. repeat split. Qed.

(* ------------------------------------------------------------------ REBUILDS over an already valid older state *)
(* (Model/FsRebuild.v, Proofs/FsRebuildP.v)  The cache holds, on every patch, (trees X, marker X) for an earlier binning X
   (or no trees at all); a rebuild asks for Y, FORCED or implicitly because the stored binning differs; the rebuild of a
   patch is a sequence of phases (invalidate the marker | write the trees | write the marker) in an order that may depend
   on how the rebuild was asked for (a `discipline`); the process dies after ANY number of system calls; a later
   measurement asks for ANY binning b' (X again, Y, a third).  With the order "invalidate, trees, marker" for the way
   the rebuild was asked for, the measurement fails loudly or uses, on every patch, trees built for b' ... *)
Theorem C08_rebuild_over_valid_safe : forall (d : discipline) (s0 : fs) (ids : list nat) (ies : list (nat * nat))
    (earlier : option nat) (Y : nat) (force : bool) (k b' : nat),
  d force = safe_order -> NoDup (map fst ies) -> earlier_state_b s0 ids earlier = true ->
  let s := apply (firstn k (ops_rebuild d s0 ies Y force)) s0 in
  measure s ids b' = Err \/ measure s ids b' = Ok (map (fun _ => b') ids).
Proof. exact rebuild_over_valid_safe. Qed.
Print Assumptions C08_rebuild_over_valid_safe.

(* ... per patch, from any consistent cache ... *)
Theorem C08_rebuild_safe : forall (d : discipline) (s0 : fs) (ies : list (nat * nat)) (b : nat) (force : bool) (k i : nat),
  d force = safe_order -> NoDup (map fst ies) -> consistent_b s0 i = true ->
  forall b', let s := apply (firstn k (ops_rebuild d s0 ies b force)) s0 in
             use_trees s i b' = UErr \/ use_trees s i b' = Used b'.
Proof. exact rebuild_safe. Qed.
Print Assumptions C08_rebuild_safe.

(* ... also when the recovery knows the numbers of bins (more trees than bins raise, fewer are silent) ... *)
Theorem C08_rebuild_over_valid_safe_bins : forall (nb : list (nat * nat)) (d : discipline) (s0 : fs) (ids : list nat)
    (ies : list (nat * nat)) (earlier : option nat) (Y : nat) (force : bool) (k b' : nat),
  d force = safe_order -> NoDup (map fst ies) -> earlier_state_b s0 ids earlier = true ->
  let s := apply (firstn k (ops_rebuild d s0 ies Y force)) s0 in
  measure_n nb s ids b' = Err \/ measure_n nb s ids b' = Ok (map (fun _ => b') ids).
Proof. exact rebuild_over_valid_safe_n. Qed.
Print Assumptions C08_rebuild_over_valid_safe_bins.

(* ... which is what the harness evaluates per crash point of a rebuild workload: never class 1 (0 = error, 4 = the
   result of a fresh cache), whenever the hypotheses it checks on the concrete prior state hold *)
Theorem C08_rebuild_class_safe : forall (nb : list (nat * nat)) (l : list (path * content)) (ies : list (nat * nat)) (b : nat)
    (force : bool) (earlier : option nat) (k req : nat),
  c08_rebuild_hyp (WBuild l ies b force) earlier = 0 ->
  rebuild_class true nb (WBuild l ies b force) k req = 0 \/ rebuild_class true nb (WBuild l ies b force) k req = 4.
Proof. exact rebuild_class_safe. Qed.
Print Assumptions C08_rebuild_class_safe.

(* ... through a CHAIN of crashed rebuilds (each for its own binning, forced or not, dying anywhere, starting from what
   the previous one left) ... *)
Theorem C08_rebuild_chain_safe : forall (d : discipline) (ies : list (nat * nat)) (s0 : fs) (i : nat) (l : list attempt),
  (forall force, d force = safe_order) -> NoDup (map fst ies) -> consistent_b s0 i = true ->
  forall b', use_trees (run_attempts d ies s0 l) i b' = UErr \/ use_trees (run_attempts d ies s0 l) i b' = Used b'.
Proof. exact rebuild_chain_safe. Qed.
Print Assumptions C08_rebuild_chain_safe.

(* ... and the rebuild that runs to its end leaves a cache the next measurement with the requested binning uses *)
Theorem C08_rebuild_complete : forall (d : discipline) (s0 : fs) (ies : list (nat * nat)) (b : nat) (force : bool) (i e : nat),
  d force = safe_order -> NoDup (map fst ies) -> In (i, e) ies -> consistent_b s0 i = true ->
  let s := apply (ops_rebuild d s0 ies b force) s0 in
  decode (s (PBin i)) = Some b /\ s (PTrees i) = Some (TreesF (Some b)).
Proof. exact rebuild_complete. Qed.
Print Assumptions C08_rebuild_complete.

Theorem C08_rebuild_complete_measure : forall (d : discipline) (s0 : fs) (ies : list (nat * nat)) (b : nat) (force : bool),
  d force = safe_order -> NoDup (map fst ies) -> forallb (consistent_b s0) (map fst ies) = true ->
  measure (apply (ops_rebuild d s0 ies b force) s0) (map fst ies) b = Ok (map (fun _ => b) (map fst ies)).
Proof. exact rebuild_complete_measure. Qed.
Print Assumptions C08_rebuild_complete_measure.

(* the two forms of Model/FsCrash.v are the disciplines "always this order" *)
Theorem C08_rebuild_safe_order_is_repaired_form : forall (d : discipline) (s : fs) (ies : list (nat * nat)) (b : nat) (force : bool),
  d force = safe_order -> ops_rebuild d s ies b force = ops_build true s ies b force.
Proof. exact rebuild_safe_order_eq. Qed.
Print Assumptions C08_rebuild_safe_order_is_repaired_form.

Theorem C08_rebuild_keep_marker_is_pinned_form : forall (d : discipline) (s : fs) (ies : list (nat * nat)) (b : nat) (force : bool),
  d force = keep_marker_order -> ops_rebuild d s ies b force = ops_build false s ies b force.
Proof. exact rebuild_keep_marker_eq. Qed.
Print Assumptions C08_rebuild_keep_marker_is_pinned_form.

(* a rebuild that leaves the old marker in place while it rewrites the trees - forced or implicit, for ALL binnings
   X <> Y with bins, any number of write calls of the pickle, whatever follows: the crash right after the last write of
   trees.pkl leaves marker X over trees Y, and the request X uses them without an error *)
Theorem C08_keep_marker_stale : forall (d : discipline) (s0 : fs) (X Y i e : nat) (force : bool) (rest : list (nat * nat)),
  X <> 0 -> Y <> 0 -> X <> Y -> valid_patch_b s0 X i = true -> d force = keep_marker_order ->
  let ops := ops_rebuild d s0 ((i, e) :: rest) Y force in
  use_trees (apply (firstn (S (S e)) ops) s0) i X = Used Y.
Proof. exact keep_marker_stale. Qed.
Print Assumptions C08_keep_marker_stale.

(* the marker written BEFORE the trees (even after an invalidation): marker Y over trees X, the request Y uses them *)
Theorem C08_marker_before_trees_stale : forall (d : discipline) (s0 : fs) (X Y i e : nat) (force : bool) (rest : list (nat * nat)),
  X <> 0 -> Y <> 0 -> X <> Y -> valid_patch_b s0 X i = true -> d force = [PhInval; PhMarker; PhTrees] ->
  let ops := ops_rebuild d s0 ((i, e) :: rest) Y force in
  use_trees (apply (firstn 4 ops) s0) i Y = Used X.
Proof. exact marker_before_trees_stale. Qed.
Print Assumptions C08_marker_before_trees_stale.

(* a discipline that invalidates only where the stored binning is compared (not when forced): the forced rebuild for
   binning 2 over a cache valid for binning 1, dead after 2 system calls, measures binning 1 with trees of binning 2 on
   patch 0; the implicit rebuild and the forced rebuild for the SAME binning are safe at every crash point under the
   same discipline (so neither shows the defect) *)
Theorem C08_forced_rebuild_stale_refuted :
  let s0 := fs_of s_old_trees in
  let ies := [(0, 0); (1, 0)] in
  earlier_state_b s0 [0; 1] (Some 1) = true /\
  (let s := apply (firstn 2 (ops_rebuild d_unforced_only s0 ies 2 true)) s0 in
   use_trees s 0 1 = Used 2 /\ measure s [0; 1] 1 = Ok [2; 1]) /\
  all_safe_b (ops_rebuild d_unforced_only s0 ies 2 false) s0 [0; 1] [0; 1; 2; 3] = true /\
  all_safe_b (ops_rebuild d_unforced_only s0 ies 1 true) s0 [0; 1] [0; 1; 2; 3] = true /\
  all_safe_b (ops_rebuild d_always s0 ies 2 true) s0 [0; 1] [0; 1; 2; 3] = true /\
  all_safe_b (ops_rebuild d_unforced_only s0 ies 2 true) s0 [0; 1] [0; 1; 2; 3] = false.
Proof. exact forced_rebuild_stale_refuted. Qed.
Print Assumptions C08_forced_rebuild_stale_refuted.

(* all six orders of the three phases and the two without an invalidation: exactly one is safe at every crash point;
   five leave a valid cache when they run to the end (an uninterrupted run cannot tell them apart) *)
Theorem C08_phase_orders_classified :
  map (fun o => order_safe_b o 1 2 1 [0; 1; 2; 3]) all_orders = [true; false; false; false; false; false; false; false] /\
  map (fun o => order_complete_b o 1 2 1) all_orders = [true; true; true; false; false; false; true; true].
Proof. exact phase_orders_classified. Qed.
Print Assumptions C08_phase_orders_classified.

Theorem C08_bin_count_mismatch_one_way :
  let nb := [(1, 2); (5, 3)] in
  use_trees_n nb (fs_of [(PBin 0, BinF (BWhole 1)); (PTrees 0, TreesF (Some 5))]) 0 1 = UErr /\
  use_trees_n nb (fs_of [(PBin 0, BinF (BWhole 5)); (PTrees 0, TreesF (Some 1))]) 0 5 = Used 1.
Proof. exact bin_count_mismatch_one_way. Qed.
Print Assumptions C08_bin_count_mismatch_one_way.

(* non-vacuity of the rebuild form: two patches valid for the 3-bin binning 5, FORCED rebuild for the 2-bin binning 1
   (one write call per pickle after the truncation).  Hypotheses hold; the repaired model issues 12 operations (per patch:
   marker removed, 2 for the pickle, 3 for the marker) and every crash point is an error (0) or the result of a fresh
   cache (4) for the later requests 5 (earlier), 1 (rebuilt), 2 (third) and unbinned (an empty or one-byte marker reads as
   "unbinned" over binned trees: loud); the operation list is the one of the disciplines that invalidate when forced
   and of no discipline that keeps the marker then; with the marker kept (pinned form, 10 operations) crash points 2
   and 7 measure the earlier binning 5 with the two trees of binning 1: class 1 *)
Example C08_concrete_rebuild :
  let l := [(PRoot, Dir); (PIds, IdsF [0; 1]); (PDir 0, Dir); (PData 0, DataF true [0; 1]); (PMeta 0, MetaF true);
            (PBin 0, BinF (BWhole 5)); (PTrees 0, TreesF (Some 5));
            (PDir 1, Dir); (PData 1, DataF true [2]); (PMeta 1, MetaF true);
            (PBin 1, BinF (BWhole 5)); (PTrees 1, TreesF (Some 5))] in
  let w := WBuild l [(0, 0); (1, 0)] 1 true in
  let nb := [(1, 2); (2, 2); (5, 3)] in
  c08_rebuild_hyp w (Some 5) = 0 /\ c08_rebuild_hyp w (Some 1) = 1 /\ c08_hyp w = 0 /\
  length (w_ops true w) = 12 /\ length (w_ops false w) = 10 /\
  map (fun k => rebuild_class true nb w k 5) (seq 0 13) = [4; 4; 4; 4; 4; 4; 4; 4; 4; 4; 4; 4; 4] /\
  map (fun k => rebuild_class true nb w k 1) (seq 0 13) = [4; 4; 4; 4; 4; 4; 4; 4; 4; 4; 4; 4; 4] /\
  map (fun k => rebuild_class true nb w k 2) (seq 0 13) = [4; 4; 4; 4; 4; 4; 4; 4; 4; 4; 4; 4; 4] /\
  map (fun k => rebuild_class true nb w k 0) (seq 0 13) = [4; 4; 4; 4; 0; 0; 4; 4; 4; 4; 0; 0; 4] /\
  map (fun k => rebuild_class false nb w k 5) (seq 0 11) = [4; 0; 1; 4; 4; 4; 0; 1; 4; 4; 4] /\
  c08_rebuild_ops d_always w (w_ops true w) = 0 /\ c08_rebuild_ops d_forced_only w (w_ops true w) = 0 /\
  c08_rebuild_ops d_unforced_only w (w_ops true w) = 1 /\ c08_rebuild_ops d_unforced_only w (w_ops false w) = 0 /\
  c08_rebuild_case false nb w 2 5 1 = 2 /\ c08_rebuild_case true nb w 2 5 4 = 0.
Proof. vm_compute. repeat split. Qed.
