(* C08 — a crash never leaves a cache that is silently wrong.
   Statements only; models in Model/FsCrash.v, proofs in Proofs/FsCrashP.v.
   The crash state after the k-th system call of a workload is  apply (firstn k ops) s0. *)
From Verif Require Import Prelude FsCrash FsCrashP.
Open Scope nat_scope.

(* creation (write_patches + metadata), with an empty patch_ids.bin treated as an error:
   every prefix is an error or the complete new catalog *)
Theorem C08_crash_safe_create : forall (ps : list piece) (s0 : fs) (k : nat),
  s0 PIds = None ->
  let ops := ops_create ps in
  In (recover_cat true (apply (firstn k ops) s0)) [Err; recover_cat true (apply ops s0)].
Proof. exact crash_safe_create. Qed.
Print Assumptions C08_crash_safe_create.

(* ... and the complete new catalog is readable and holds, patch by patch, the records handed to the writers *)
Theorem C08_create_complete : forall (strict : bool) (ps : list piece) (s0 : fs),
  ps <> [] -> (forall pc, In pc ps -> snd pc <> []) ->
  recover_cat strict (apply (ops_create ps) s0) = Ok (map (fun i => (i, recs_for ps i)) (created_ids ps)).
Proof. exact create_complete. Qed.
Print Assumptions C08_create_complete.

(* overwrite of a complete catalog, for EVERY order in which rmtree removes the old entries *)
Theorem C08_crash_safe_overwrite : forall (l : list (path * content)) (order : list path) (ps : list piece) (k : nat),
  wf_cat (fs_of l) -> valid_order_b l order = true ->
  let s0 := fs_of l in
  let ops := ops_overwrite order ps in
  In (recover_cat true (apply (firstn k ops) s0)) [Err; recover_cat true s0; recover_cat true (apply ops s0)].
Proof. exact crash_safe_overwrite. Qed.
Print Assumptions C08_crash_safe_overwrite.

(* metadata computed on reopening (either form of the id-list check) *)
Theorem C08_crash_safe_metadata : forall (strict : bool) (s0 : fs) (k : nat),
  wf_cat s0 ->
  let ops := ops_metadata s0 (ids_of s0) in
  In (recover_cat strict (apply (firstn k ops) s0)) [Err; recover_cat strict s0; recover_cat strict (apply ops s0)].
Proof. exact crash_safe_metadata. Qed.
Print Assumptions C08_crash_safe_metadata.

Theorem C08_metadata_complete : forall (strict : bool) (s0 : fs),
  wf_cat s0 -> recover_cat strict (apply (ops_metadata s0 (ids_of s0)) s0) = recover_cat strict s0.
Proof. exact metadata_complete. Qed.
Print Assumptions C08_metadata_complete.

(* tree (re)building with the marker removed before the trees are rewritten: after a crash at ANY
   point, from ANY consistent cache, for ANY later request b', every patch fails loudly or uses
   trees built for b' *)
Theorem C08_crash_safe_fix : forall (s0 : fs) (ies : list (nat * nat)) (b : nat) (force : bool) (k i : nat),
  NoDup (map fst ies) -> consistent_b s0 i = true ->
  forall b', let s := apply (firstn k (ops_build true s0 ies b force)) s0 in
             use_trees s i b' = UErr \/ use_trees s i b' = Used b'.
Proof. exact crash_safe_fix. Qed.
Print Assumptions C08_crash_safe_fix.

Theorem C08_crash_safe_fix_measure : forall (s0 : fs) (ies : list (nat * nat)) (b : nat) (force : bool) (k : nat) (ids : list nat) (b' : nat),
  NoDup (map fst ies) -> forallb (consistent_b s0) ids = true ->
  let s := apply (firstn k (ops_build true s0 ies b force)) s0 in
  measure s ids b' = Err \/ measure s ids b' = Ok (map (fun _ => b') ids).
Proof. exact crash_safe_fix_measure. Qed.
Print Assumptions C08_crash_safe_fix_measure.

(* a single result file (HDF5): unreadable until complete *)
Theorem C08_crash_safe_single : forall (s0 : fs) (extra tail v k : nat),
  let ops := ops_res_single extra tail v in
  In (recover_single (apply (firstn k ops) s0)) [Err; recover_single s0; Ok (v, v)].
Proof. exact crash_safe_single. Qed.
Print Assumptions C08_crash_safe_single.

(* the .dat/.smp/.cov triple with .smp and .cov removed before .dat is rewritten *)
Theorem C08_crash_safe_triple_fix : forall (s0 : fs) (v k : nat),
  let ops := ops_triple_fix s0 v in
  In (recover_triple (apply (firstn k ops) s0)) [Err; recover_triple s0; Ok (v, v)].
Proof. exact crash_safe_triple_fix. Qed.
Print Assumptions C08_crash_safe_triple_fix.

(* result products under names derived from the path the user gives (prefixes with dots, suffixes that look
   like extensions, directories): the names removed (nd), written (ws, any number of system calls per file)
   and read (nr) are ARBITRARY paths; if every name that is read is removed beforehand or is the file written
   first, a crash at any point, over any prior state, reads as an error, the old or the complete new product *)
Theorem C08_crash_safe_product : forall (s0 : fs) (nd : list path) (ws : list wfile) (nr : list path) (v k : nat),
  (forall p, In p nr -> In p nd \/ first_written ws = Some p) ->
  let ops := ops_product true s0 nd ws v in
  In (recover_product nr (apply (firstn k ops) s0)) [Err; recover_product nr s0; Ok (map (fun _ => v) nr)].
Proof. exact crash_safe_product. Qed.
Print Assumptions C08_crash_safe_product.

Theorem C08_product_complete : forall (fixed : bool) (s0 : fs) (nd : list path) (ws : list wfile) (nr : list path) (v : nat),
  (forall p, In p nr -> In p (map fst ws)) ->
  recover_product nr (apply (ops_product fixed s0 nd ws v) s0) = Ok (map (fun _ => v) nr).
Proof. exact product_complete. Qed.
Print Assumptions C08_product_complete.

(* the check the harness evaluates on the names seen in the traces gives both hypotheses *)
Theorem C08_names_ok : forall (nd : list path) (ws : list wfile) (nr : list path), names_ok_b nd ws nr = true ->
  (forall p, In p nr -> In p nd \/ first_written ws = Some p) /\ (forall p, In p nr -> In p (map fst ws)).
Proof. exact names_ok_b_spec. Qed.
Print Assumptions C08_names_ok.

(* the .dat/.smp/.cov triple whatever the three names are, as long as they are derived once *)
Theorem C08_crash_safe_triple_named : forall (dat smp cov : path) (s0 : fs) (e1 t1 e2 t2 e3 t3 v k : nat),
  let ops := ops_product true s0 [smp; cov] [(dat, (e1, t1)); (smp, (e2, t2)); (cov, (e3, t3))] v in
  In (recover_product [dat; smp] (apply (firstn k ops) s0)) [Err; recover_product [dat; smp] s0; Ok [v; v]].
Proof. exact crash_safe_triple_named. Qed.
Print Assumptions C08_crash_safe_triple_named.

(* names derived in two ways (written/read as prefix + extension, removed as stem + extension): the old
   samples survive and are read with the new data *)
Theorem C08_product_names_refuted :
  let nd := [POther 1; POther 2] in
  let ws := [(POther 3, (0, 0)); (POther 4, (0, 0)); (POther 5, (0, 0))] in
  let nr := [POther 3; POther 4] in
  names_ok_b nd ws nr = false /\
  recover_product nr (fs_of s_old_named) = Ok [1; 1] /\
  recover_product nr (apply (ops_product true (fs_of s_old_named) nd ws 2) (fs_of s_old_named)) = Ok [2; 2] /\
  recover_product nr (apply (firstn 2 (ops_product true (fs_of s_old_named) nd ws 2)) (fs_of s_old_named)) = Ok [2; 1].
Proof. exact product_names_refuted. Qed.
Print Assumptions C08_product_names_refuted.

(* the pinned forms fail at one crash point each *)
Theorem C08_stale_marker_refuted :
  forallb (consistent_b (fs_of s_old_trees)) [0; 1] = true /\
  let s := apply (firstn 2 (ops_build false (fs_of s_old_trees) [(0, 0); (1, 0)] 2 false)) (fs_of s_old_trees) in
  use_trees s 0 1 = Used 2 /\ measure s [0; 1] 1 = Ok [2; 1].
Proof. exact stale_marker_refuted. Qed.
Print Assumptions C08_stale_marker_refuted.

Theorem C08_empty_ids_refuted :
  let ops := ops_create ps_demo in
  recover_cat false (apply ops empty_fs) = Ok [(0, [0; 1; 3]); (1, [2])] /\
  recover_cat false (apply (firstn 11 ops) empty_fs) = Ok [] /\
  recover_cat true (apply (firstn 11 ops) empty_fs) = Err.
Proof. exact empty_ids_refuted. Qed.
Print Assumptions C08_empty_ids_refuted.

Theorem C08_result_triple_mixed_refuted :
  recover_triple (fs_of s_old_triple) = Ok (1, 1) /\
  recover_triple (apply (ops_triple_cur 2) (fs_of s_old_triple)) = Ok (2, 2) /\
  recover_triple (apply (firstn 2 (ops_triple_cur 2)) (fs_of s_old_triple)) = Ok (2, 1).
Proof. exact result_triple_mixed_refuted. Qed.
Print Assumptions C08_result_triple_mixed_refuted.

(* appends above the size of the user-space buffer: a piece reaches data.bin in several write system calls (whole
   buffer blocks first, the rest when the stream is flushed); between them the file holds a part of the piece, possibly
   ending inside a record.  For EVERY way the pieces are cut: a crash at any point is an error or the complete new catalog,
   and an uninterrupted run leaves the catalog of the unbuffered creation (C08_create_complete applies to it) *)
Theorem C08_crash_safe_create_buffered : forall (bps : list bpiece) (s0 : fs) (k : nat),
  s0 PIds = None ->
  let ops := ops_bcreate bps in
  In (recover_cat true (apply (firstn k ops) s0)) [Err; recover_cat true (apply ops s0)].
Proof. exact crash_safe_bcreate. Qed.
Print Assumptions C08_crash_safe_create_buffered.

Theorem C08_create_buffered_final : forall (strict : bool) (bps : list bpiece) (s0 : fs),
  recover_cat strict (apply (ops_bcreate bps) s0) = recover_cat strict (apply (ops_create (unbuf bps)) s0).
Proof. exact bcreate_final. Qed.
Print Assumptions C08_create_buffered_final.

Theorem C08_create_buffered_complete : forall (strict : bool) (bps : list bpiece) (s0 : fs),
  bps <> [] -> (forall bp, In bp bps -> snd (fst bp) <> []) ->
  recover_cat strict (apply (ops_bcreate bps) s0)
  = Ok (map (fun i => (i, recs_for (unbuf bps) i)) (created_ids (unbuf bps))).
Proof. exact bcreate_complete. Qed.
Print Assumptions C08_create_buffered_complete.

Theorem C08_crash_safe_overwrite_buffered : forall (l : list (path * content)) (order : list path) (bps : list bpiece) (k : nat),
  wf_cat (fs_of l) -> valid_order_b l order = true ->
  let s0 := fs_of l in
  let ops := ops_boverwrite order bps in
  In (recover_cat true (apply (firstn k ops) s0)) [Err; recover_cat true s0; recover_cat true (apply ops s0)].
Proof. exact crash_safe_boverwrite. Qed.
Print Assumptions C08_crash_safe_overwrite_buffered.

(* the reason, for any writer: whatever system calls precede the marker, as long as none of them touches patch_ids.bin *)
Theorem C08_crash_safe_marker_last : forall (body : list fop) (ps : list piece) (s0 : fs) (k : nat),
  Forall (fun o => op_path o <> PIds) body -> s0 PIds = None ->
  let ops := body ++ ops_create_ids ps ++ ops_meta_all (created_ids ps) in
  In (recover_cat true (apply (firstn k ops) s0)) [Err; recover_cat true (apply ops s0)].
Proof. exact crash_safe_marker_last. Qed.
Print Assumptions C08_crash_safe_marker_last.

(* pieces that are not cut give the operation list of the unbuffered model *)
Theorem C08_buffered_nocuts : forall (ps : list piece) (acc : list piece),
  ops_bpieces acc (map (fun pc => (pc, [])) ps) = ops_pieces acc ps.
Proof. exact ops_bpieces_nocuts. Qed.
Print Assumptions C08_buffered_nocuts.

(* the marker written after all system calls of the body is that safe order; written while the tail of a patch's data
   is still in a user-space buffer it is not: the crash right after the marker opens without error with records missing *)
Theorem C08_marker_after_body : forall bps : list bpiece,
  ops_bcreate_early (length (ops_bcreate_body bps)) bps = ops_bcreate bps.
Proof. exact bcreate_early_all. Qed.
Print Assumptions C08_marker_after_body.

Theorem C08_marker_before_flush_refuted :
  let ops := ops_bcreate_early 10 bps_demo in
  length (ops_bcreate_body bps_demo) = 12 /\
  recover_cat true (apply ops empty_fs) = Ok [(0, [0; 1; 2; 4; 5]); (1, [3])] /\
  recover_cat true (apply (ops_bcreate bps_demo) empty_fs) = Ok [(0, [0; 1; 2; 4; 5]); (1, [3])] /\
  recover_cat true (apply (firstn 12 ops) empty_fs) = Ok [(0, [0; 1; 2]); (1, [3])] /\
  recover_cat true (apply (firstn 13 ops) empty_fs) = Err.
Proof. exact marker_before_flush_refuted. Qed.
Print Assumptions C08_marker_before_flush_refuted.

(* deaths by UNWINDING (KeyboardInterrupt from SIGINT, SystemExit from a SIGTERM handler, an exception nobody
   catches): handlers, __exit__ methods and finally blocks run and may issue file operations, so what is left is not
   a prefix of the operation list by construction.  Whenever the left-over state l is one that SOME crash point of
   the uninterrupted run leaves (prefix_state_b, decided by the harness on the real directory), it is classified
   exactly like that crash point, for every workload and either form of the code ... *)
Theorem C08_unwound_as_crash : forall (fixed : bool) (w : workload) (l : list (path * content)) (req : nat),
  prefix_state_b (w_s0l w) (w_ops fixed w) l = true ->
  exists k, w_class_at fixed w (fs_of l) req = w_class fixed w k req.
Proof. exact unwound_as_crash. Qed.
Print Assumptions C08_unwound_as_crash.

Theorem C08_prefix_state_sound : forall (l0 : list (path * content)) (ops : list fop) (l : list (path * content)),
  prefix_state_b l0 ops l = true -> exists k, forall q, fs_of l q = apply (firstn k ops) (fs_of l0) q.
Proof. exact prefix_state_spec. Qed.
Print Assumptions C08_prefix_state_sound.

(* ... hence an interrupted creation / overwrite recovers as an error, the old or the complete new catalog *)
Theorem C08_unwound_create_safe : forall (ps : list piece) (l : list (path * content)),
  prefix_state_b [] (ops_create ps) l = true ->
  In (recover_cat true (fs_of l)) [Err; recover_cat true (apply (ops_create ps) empty_fs)].
Proof. exact unwound_create_safe. Qed.
Print Assumptions C08_unwound_create_safe.

Theorem C08_unwound_overwrite_safe : forall (l0 : list (path * content)) (order : list path) (ps : list piece) (l : list (path * content)),
  wf_cat (fs_of l0) -> valid_order_b l0 order = true ->
  prefix_state_b l0 (ops_overwrite order ps) l = true ->
  In (recover_cat true (fs_of l)) [Err; recover_cat true (fs_of l0); recover_cat true (apply (ops_overwrite order ps) (fs_of l0))].
Proof. exact unwound_overwrite_safe. Qed.
Print Assumptions C08_unwound_overwrite_safe.

(* the abort path of write_patches (writers closed, the code of the regular end NOT run), interrupted after ANY
   number j of pieces: its operations are a prefix of the uninterrupted run's, and the next use is an error *)
Theorem C08_unwound_create_prefix : forall (j : nat) (ps : list piece),
  exists k, ops_create_unwound false j ps = firstn k (ops_create ps).
Proof. exact unwound_create_prefix. Qed.
Print Assumptions C08_unwound_create_prefix.

Theorem C08_unwound_create_err : forall (strict : bool) (j : nat) (ps : list piece) (s0 : fs),
  s0 PIds = None -> recover_cat strict (apply (ops_create_unwound false j ps) s0) = Err.
Proof. exact unwound_create_err. Qed.
Print Assumptions C08_unwound_create_err.

Theorem C08_unwound_overwrite_err : forall (strict : bool) (l : list (path * content)) (order : list path) (j : nat) (ps : list piece),
  wf_cat (fs_of l) -> valid_order_b l order = true ->
  recover_cat strict (apply (ops_overwrite_unwound false order j ps) (fs_of l)) = Err.
Proof. exact unwound_overwrite_err. Qed.
Print Assumptions C08_unwound_overwrite_err.

(* with the code of the regular end on the abort path (finalize when the queue ends, whatever ended it): interrupted
   after 2 of 3 pieces the directory opens without an error and holds a part of the records; no crash point of the
   uninterrupted run leaves that state *)
Theorem C08_finalize_on_abort_refuted :
  (forall q, apply (ops_create_unwound true 2 ps_demo) empty_fs q = fs_of s_unwound_fin q) /\
  recover_cat true (fs_of s_unwound_fin) = Ok [(0, [0; 1]); (1, [2])] /\
  recover_cat true (apply (ops_create ps_demo) empty_fs) = Ok [(0, [0; 1; 3]); (1, [2])] /\
  prefix_state_b [] (ops_create ps_demo) s_unwound_fin = false /\
  w_class_at true (WCreate ps_demo) (fs_of s_unwound_fin) 0 = 1.
Proof. exact finalize_on_abort_refuted. Qed.
Print Assumptions C08_finalize_on_abort_refuted.

(* non-vacuity of the unwound form: the overwrite of C08_concrete interrupted when 2 of its 3 pieces have arrived
   leaves the new root, both new patch directories with the data so far and no patch_ids.bin: that is the state of
   crash point 19, an error (flags all fine, code 0); the same directory WITH a patch_ids.bin is no crash state and
   opens with a part of the records (flags 1 and 2 fail: code 6) *)
Example C08_concrete_unwound :
  let l0 := [(PRoot, Dir); (PIds, IdsF [0; 1]); (PDir 0, Dir); (PData 0, DataF true [0; 1]); (PMeta 0, MetaF true);
             (PBin 0, BinF (BWhole 1)); (PTrees 0, TreesF (Some 1));
             (PDir 1, Dir); (PData 1, DataF true [2]); (PMeta 1, MetaF true)] in
  let order := [PBin 0; PMeta 0; PTrees 0; PData 0; PDir 0; PIds; PMeta 1; PData 1; PDir 1; PRoot] in
  let ps := [(0, [10; 11]); (1, [12]); (0, [13])] in
  let w := WOverwrite l0 order ps in
  let left := [(PRoot, Dir); (PDir 0, Dir); (PData 0, DataF true [10; 11]); (PDir 1, Dir); (PData 1, DataF true [12])] in
  (forall q, apply (ops_overwrite_unwound false order 2 ps) (fs_of l0) q = fs_of left q) /\
  prefix_state_b l0 (w_ops true w) left = true /\
  w_class_at true w (fs_of left) 0 = w_class true w 19 0 /\
  c08_unwound true w left 0 0 true = 0 /\
  c08_unwound true w ((PIds, IdsF [0; 1]) :: left) 0 1 true = 6.
Proof.
  split; [|vm_compute; repeat split].
  intro q. destruct q as [| |[|[|i]]|[|[|i]]|[|[|i]]|[|[|i]]|[|[|i]]| | | | |n]; reflexivity.
Qed.

(* non-vacuity: overwriting a two-patch catalog (with a tree cache) by other data; rmtree removes binning,
   meta.yml, trees.pkl of patch 0 first (still the old catalog), then its data (error), ...; the new catalog
   is an error until patch_ids.bin is written and while a meta.yml is empty.  With the pinned id-list check
   the crash point 21 (patch_ids.bin created, not written) is class 1: opens as an empty catalog. *)
Example C08_concrete :
  let l := [(PRoot, Dir); (PIds, IdsF [0; 1]); (PDir 0, Dir); (PData 0, DataF true [0; 1]); (PMeta 0, MetaF true);
            (PBin 0, BinF (BWhole 1)); (PTrees 0, TreesF (Some 1));
            (PDir 1, Dir); (PData 1, DataF true [2]); (PMeta 1, MetaF true)] in
  let order := [PBin 0; PMeta 0; PTrees 0; PData 0; PDir 0; PIds; PMeta 1; PData 1; PDir 1; PRoot] in
  let ps := [(0, [10; 11]); (1, [12]); (0, [13])] in
  let w := WOverwrite l order ps in
  c08_hyp w = 0 /\ length (w_ops true w) = 26 /\
  map (fun k => w_class true w k 0) (seq 0 27) =
    [2; 2; 2; 2; 0; 0; 0; 0; 0; 0; 0; 0; 0; 0; 0; 0; 0; 0; 0; 0; 0; 0; 3; 0; 3; 0; 3] /\
  w_class false w 21 0 = 1.
Proof. vm_compute. repeat split. Qed.

(* non-vacuity of the buffered form: records in run-length notation (piece j of the input = its records, all written
   j); patch 0 gets 5 + 3 records, the first piece in three system calls (2 complete records; 4 and a part of the
   fifth; all 5), patch 1 gets 4 records in two.  Every crash point before the marker is an error, the marker makes
   the complete catalog visible at once (class 3), an empty meta.yml is an error again. *)
Example C08_concrete_buffered :
  let bps := [((0, rl [(0, 5)]), [(2, false); (4, true)]); ((1, rl [(1, 4)]), [(3, false)]); ((0, rl [(2, 3)]), [])] in
  let w := WCreateB bps in
  c08_hyp w = 0 /\ length (w_ops true w) = 19 /\
  map (fun k => w_class true w k 0) (seq 0 20) = [0; 0; 0; 0; 0; 0; 0; 0; 0; 0; 0; 0; 0; 0; 0; 3; 0; 3; 0; 3] /\
  recover_cat true (apply (w_ops true w) empty_fs) = Ok [(0, [0; 0; 0; 0; 0; 2; 2; 2]); (1, [1; 1; 1; 1])].
Proof. vm_compute. repeat split. Qed.
