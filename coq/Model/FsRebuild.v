(* C08 — REBUILDS of a tree cache over an already valid older state.
   Model/FsCrash.v has the (re)build of one patch in two fixed forms (pinned: trees, marker; repaired: marker removed,
   trees, marker).  Here the rebuild is a sequence of PHASES in an arbitrary order, and the order may depend on HOW the
   rebuild was requested (force=True, or implicitly because the stored binning differs from the requested one): a
   `discipline`.  The prior state is one that holds, for every patch, (trees X, marker X) for an earlier binning X (or no
   trees at all); the rebuild asks for a binning Y; the process dies after any number of system calls; a later
   measurement asks for ANY binning (X again, Y, or a third).  Theorems in Proofs/FsRebuildP.v.
   No proofs in this file. *)
From Verif Require Import Prelude FsCrash.
Open Scope nat_scope.

(* ------------------------------------------------------------------ phases and disciplines *)
Inductive phase :=
| PhInval      (* remove the binning file (the marker): only an operation when there is one *)
| PhTrees      (* open trees.pkl for writing (truncate), dump the pickle (1 + extra write calls) *)
| PhMarker.    (* open binning for writing (truncate), closed-side byte, edges *)

Definition phase_beq (a b : phase) : bool :=
  match a, b with PhInval, PhInval | PhTrees, PhTrees | PhMarker, PhMarker => true | _, _ => false end.

Definition phase_ops (had_marker : bool) (i b extra : nat) (ph : phase) : list fop :=
  match ph with
  | PhInval => if had_marker then [Del (PBin i)] else []
  | PhTrees => trees_ops i b extra
  | PhMarker => marker_ops i b
  end.

Definition rebuild_seq (order : list phase) (had_marker : bool) (i b extra : nat) : list fop :=
  flat_map (phase_ops had_marker i b extra) order.

(* the order proved safe: invalidate the marker first, write the trees, write the marker last *)
Definition safe_order : list phase := [PhInval; PhTrees; PhMarker].
(* the order that leaves the old marker in place while the trees are rewritten *)
Definition keep_marker_order : list phase := [PhTrees; PhMarker].

(* how a rebuild proceeds may depend on how it was asked for: force -> order of the phases *)
Definition discipline := bool -> list phase.
Definition d_always : discipline := fun _ => safe_order.                  (* = ops_build true *)
Definition d_never : discipline := fun _ => keep_marker_order.            (* = ops_build false *)
(* the marker is invalidated where the stored binning is compared with the requested one, i.e. not when forced *)
Definition d_unforced_only : discipline := fun force => if force then keep_marker_order else safe_order.
Definition d_forced_only : discipline := fun force => if force then safe_order else keep_marker_order.

Definition ops_rebuild_patch (d : discipline) (s : fs) (b : nat) (force : bool) (ie : nat * nat) : list fop :=
  if needs_build s (fst ie) b force
  then rebuild_seq (d force) (present (s (PBin (fst ie)))) (fst ie) b (snd ie)
  else [].
(* Catalog.build_trees(b, force): patch after patch (ies = [(patch id, extra write calls of its pickle)]) *)
Definition ops_rebuild (d : discipline) (s : fs) (ies : list (nat * nat)) (b : nat) (force : bool) : list fop :=
  flat_map (ops_rebuild_patch d s b force) ies.

(* ------------------------------------------------------------------ the valid older state *)
(* the complete binning file of binning x (x = 0: unbinned = the closed-side byte alone) *)
Definition marker_of (x : nat) : content := BinF (if x =? 0 then BByte else BWhole x).

(* patch i holds (trees x, marker x) *)
Definition valid_patch_b (s : fs) (x i : nat) : bool :=
  ocontent_beq (s (PBin i)) (Some (marker_of x)) && ocontent_beq (s (PTrees i)) (Some (TreesF (Some x))).
(* patch i holds no tree cache at all *)
Definition no_trees_b (s : fs) (i : nat) : bool := negb (present (s (PBin i))) && negb (present (s (PTrees i))).

(* earlier = None: no trees anywhere; Some x: every patch valid for x *)
Definition earlier_state_b (s : fs) (ids : list nat) (earlier : option nat) : bool :=
  match earlier with
  | None => forallb (no_trees_b s) ids
  | Some x => forallb (valid_patch_b s x) ids
  end.

(* ------------------------------------------------------------------ a chain of crashed rebuilds *)
(* one attempt = (requested binning, force, number of system calls after which the process died); the next attempt
   starts from what the previous one left (its needs_build / had_marker decisions are taken on THAT state) *)
Definition attempt := (nat * bool * nat)%type.
Fixpoint run_attempts (d : discipline) (ies : list (nat * nat)) (s : fs) (l : list attempt) : fs :=
  match l with
  | [] => s
  | (b, force, k) :: r => run_attempts d ies (apply (firstn k (ops_rebuild d s ies b force)) s) r
  end.

(* ------------------------------------------------------------------ recovery that knows the bin counts *)
(* FsCrash.use_trees says "Used bt" whenever a marker validates trees built for another binning bt.  With different
   numbers of bins the measurement (process_patch_pair: zip over the trees, results indexed by bin) raises when there
   are MORE trees than bins and silently leaves bins unset when there are FEWER.  nb = [(binning id, number of bins)]. *)
Definition nbins (nb : list (nat * nat)) (b : nat) : nat :=
  match find (fun p => fst p =? b) nb with Some p => snd p | None => 0 end.

Definition use_trees_n (nb : list (nat * nat)) (s : fs) (i b : nat) : used :=
  match decode (s (PBin i)) with
  | None => Used b
  | Some b' =>
      if b' =? b then
        match s (PTrees i) with
        | Some (TreesF (Some bt)) =>
            if bt =? b then Used b
            else if (bt =? 0) || (b =? 0) then UErr
            else if nbins nb b <? nbins nb bt then UErr       (* more trees than bins: index out of range *)
            else Used bt                                      (* silently the wrong trees *)
        | _ => UErr
        end
      else Used b
  end.

Definition measure_n (nb : list (nat * nat)) (s : fs) (ids : list nat) (b : nat) : outcome (list nat) :=
  let us := map (fun i => use_trees_n nb s i b) ids in
  if existsb (fun u => match u with UErr => true | _ => false end) us then Err
  else Ok (map (fun u => match u with Used x => x | UErr => 0 end) us).

(* ------------------------------------------------------------------ checkers for the harness *)
(* outcome class of the crash state after k operations of a rebuild workload, later request req *)
Definition rebuild_class (fixed : bool) (nb : list (nat * nat)) (w : workload) (k req : nat) : nat :=
  match w with
  | WBuild _ _ _ _ =>
      let s0 := w_s0 w in
      let sk := apply (firstn k (w_ops fixed w)) s0 in
      let ids := ids_of s0 in
      classify nlist_eqb (measure_n nb sk ids req) (Ok (map (fun _ => req) ids)) (Ok (map (fun _ => req) ids))
  | _ => w_class fixed w k req
  end.

(* flag0 = model class = implementation class; flag1 = the property itself (never class 1) *)
Definition c08_rebuild_case (fixed : bool) (nb : list (nat * nat)) (w : workload) (k req impl_class : nat) : nat :=
  code [rebuild_class fixed nb w k req =? impl_class; negb (impl_class =? 1)].

(* hypotheses of the rebuild theorems on the concrete prior state: it is the stated earlier state (no trees | valid
   for x on every patch), and the patches are visited once each *)
Fixpoint nodup_b (l : list nat) : bool :=
  match l with [] => true | x :: r => negb (existsb (Nat.eqb x) r) && nodup_b r end.
Definition c08_rebuild_hyp (w : workload) (earlier : option nat) : nat :=
  match w with
  | WBuild l ies _ _ =>
      code [earlier_state_b (fs_of l) (ids_of (fs_of l)) earlier; nodup_b (map fst ies);
            nlist_eqb (map fst ies) (ids_of (fs_of l))]
  | _ => 1
  end.

(* which disciplines explain the operation list of a traced rebuild (the harness intersects over all rebuilds) *)
Definition c08_rebuild_ops (d : discipline) (w : workload) (impl : list fop) : nat :=
  match w with
  | WBuild l ies b force => code [list_eqb fop_beq (ops_rebuild d (fs_of l) ies b force) impl]
  | _ => 1
  end.

(* ------------------------------------------------------------------ all orders of the three phases, decided on a witness *)
Definition all_orders : list (list phase) :=
  [[PhInval; PhTrees; PhMarker]; [PhInval; PhMarker; PhTrees]; [PhTrees; PhInval; PhMarker];
   [PhTrees; PhMarker; PhInval]; [PhMarker; PhInval; PhTrees]; [PhMarker; PhTrees; PhInval];
   [PhTrees; PhMarker]; [PhMarker; PhTrees]].

(* one patch valid for x is rebuilt for y with the given order (extra write calls e); is EVERY crash prefix safe for
   EVERY later request out of reqs, and does the complete run leave (trees y, marker y)? *)
Definition is_safe_use (u : used) (b : nat) : bool :=
  match u with UErr => true | Used x => x =? b end.
Definition order_safe_b (order : list phase) (x y e : nat) (reqs : list nat) : bool :=
  let s0 := fs_of [(PBin 0, marker_of x); (PTrees 0, TreesF (Some x))] in
  let ops := rebuild_seq order true 0 y e in
  forallb (fun k => forallb (fun r => is_safe_use (use_trees (apply (firstn k ops) s0) 0 r) r) reqs) (seq 0 (S (length ops))).
Definition order_complete_b (order : list phase) (x y e : nat) : bool :=
  let s0 := fs_of [(PBin 0, marker_of x); (PTrees 0, TreesF (Some x))] in
  valid_patch_b (apply (rebuild_seq order true 0 y e) s0) y 0.
