(* C12 / C02 — what the patch accessors hand out.  The cache is a store of arrays; an accessor reads an array from the
   store into memory the caller owns.  The caller then works IN PLACE on what it got.  With a private copy (np.fromfile)
   the store is unaffected; with a write-through view (np.memmap in mode r+) the caller's update lands in the store, and
   the metadata written at creation no longer describe the records. *)
From Coq Require Import List Arith Bool.
Import ListNotations.

Section Alias.
  Context {V : Type}.
  Definition store := nat -> list V.                       (* patch -> stored column *)
  Inductive handle := Copy (data : list V) | View (patch : nat).

  Definition get_copy (s : store) (p : nat) : handle := Copy (s p).
  Definition get_view (s : store) (p : nat) : handle := View p.

  (* the caller applies f in place to what it holds *)
  Definition caller_update (f : list V -> list V) (s : store) (h : handle) : store * handle :=
    match h with
    | Copy d => (s, Copy (f d))
    | View p => (fun q => if Nat.eqb q p then f (s p) else s q, View p)
    end.

  (* what describes a patch (count, weight sum, radius ...) is a function of its stored records *)
  Definition describes (meta : list V -> nat) (m : nat -> nat) (s : store) : Prop := forall p, m p = meta (s p).
End Alias.
