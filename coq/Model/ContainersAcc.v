(* C17 — running totals: `total = 0; for c in parts: total += c` (and sum(parts)).
   0 + x is x itself (PatchedCounts.__radd__), every further step is the binary + of Model/Containers.v;
   containers are values, so no step can change an earlier operand. *)
From Verif Require Import Prelude Containers.
Open Scope Q_scope.

Fixpoint pc_accum_from (acc : pcounts) (l : list pcounts) : option pcounts :=
  match l with
  | [] => Some acc
  | x :: t => match pc_add acc x with Some r => pc_accum_from r t | None => None end
  end.

(* None for the empty list: the running total is still the integer 0 *)
Definition pc_accum (l : list pcounts) : option pcounts :=
  match l with [] => None | x :: t => pc_accum_from x t end.
