(* Model of the per-patch tree cache: catalog/trees.py:BinnedTrees (__init__, build,
   binning_equal, the `binning` file format), catalog/catalog.py:Catalog.build_trees
   (constructs Binning(edges, closed) -> parse_binning may raise before any file is touched)
   and of what correlation/measurements.py:autocorrelate / crosscorrelate do to the cache
   (unforced builds: reference role with the configuration's edges + closed side, unknown
   role unbinned).  Catalog(cache) / Patch(cache_path) keep no tree state in memory, every
   decision is taken from the two files `binning` and `trees.pkl`.  The last part of the file
   makes "in memory" explicit: operations are executed by the measuring process itself or by
   forked processes (multiprocessing pool workers, a child process), and a process may or may
   not keep unpickled trees between operations (the implementation keeps nothing). *)
From Coq Require Import Qround.
From Verif Require Import Prelude.
Open Scope Q_scope.

(* ---------- binnings ---------- *)
(* edges, closed side (true = left, the value of the byte in the file) *)
Definition binning : Type := (list Q * bool)%type.
(* None = unbinned *)
Definition obinning : Type := option binning.

(* binning.py:parse_binning — at least two edges, strictly increasing; otherwise ValueError *)
Fixpoint increasing (e : list Q) : bool :=
  match e with
  | x :: ((y :: _) as r) => Qltb x y && increasing r
  | _ => true
  end.
Definition valid_edges (e : list Q) : bool := (2 <=? length e)%nat && increasing e.
Definition valid_ob (b : obinning) : bool :=
  match b with None => true | Some (e, _) => valid_edges e end.

(* Binning.__eq__ : np.array_equal(edges) and closed == closed *)
Definition binning_eqb (b1 b2 : binning) : bool :=
  qlist_eqb (fst b1) (fst b2) && Bool.eqb (snd b1) (snd b2).

(* BinnedTrees.binning_equal(stored, requested): both None, or Binning.__eq__;
   Binning == None is NotImplemented on both sides -> False *)
Definition binning_equal (stored req : obinning) : bool :=
  match stored, req with
  | None, None => true
  | Some b1, Some b2 => binning_eqb b1 b2
  | _, _ => false
  end.

(* two broken reuse decisions (what a forgotten attribute looks like) *)
Definition binning_equal_ignoring_closed (stored req : obinning) : bool :=
  match stored, req with
  | None, None => true
  | Some b1, Some b2 => qlist_eqb (fst b1) (fst b2)
  | _, _ => false
  end.
Definition binning_equal_len_only (stored req : obinning) : bool :=
  match stored, req with
  | None, None => true
  | Some b1, Some b2 => (length (fst b1) =? length (fst b2))%nat
  | _, _ => false
  end.

(* ---------- the `binning` file: 1 byte (closed left?) + float64 edges ---------- *)
Definition bytes : Type := (nat * list Q)%type.
(* unbinned: np.empty(0) (zero payload bytes), closed_left = True ("does not matter") *)
Definition encode (b : obinning) : bytes :=
  match b with
  | None => (1%nat, [])
  | Some (e, c) => ((if c then 1 else 0)%nat, e)
  end.
(* BinnedTrees.__init__: closed = left if bool(byte) else right; no edges -> binning None *)
Definition decode (f : bytes) : obinning :=
  match snd f with
  | [] => None
  | e => Some (e, negb (fst f =? 0)%nat)
  end.

(* ---------- the trees file ---------- *)
(* content of trees.pkl, abstractly: the binning the trees were built for, with every edge
   reduced to lowest terms (the trees depend on the edges only through their values) *)
Definition tag : Type := obinning.
Definition canon (b : binning) : binning := (map Qred (fst b), snd b).
Definition built_for (b : obinning) : option tag := Some (option_map canon b).

(* what build_trees puts into the file, as far as it can be observed from outside: a tuple
   (one tree per bin, np.digitize(z, edges, right = (closed == right)), indices 1..nbins) or
   a single tree, and the number of records in each tree *)
Definition in_bin (closed_left : bool) (lo hi z : Q) : bool :=
  if closed_left then Qleb lo z && Qltb z hi else Qltb lo z && Qleb z hi.
Fixpoint bin_counts (closed_left : bool) (e : list Q) (zs : list Q) : list nat :=
  match e with
  | lo :: ((hi :: _) as r) => count_if (in_bin closed_left lo hi) zs :: bin_counts closed_left r zs
  | _ => []
  end.
Definition tree_counts (t : tag) (zs : list Q) : bool * list nat :=
  match t with
  | None => (false, [length zs])
  | Some (e, c) => (true, bin_counts c e zs)
  end.

(* ---------- per-patch state: the two files ---------- *)
Record st : Type := { bfile : option obinning;   (* `binning` as BinnedTrees.__init__ decodes it *)
                      tfile : option tag }.      (* `trees.pkl` *)
Definition s_fresh : st := {| bfile := None; tfile := None |}.
Definition trees_used (s : st) : option tag := tfile s.

(* BinnedTrees.build, except branch: trees.pkl is written first, then binning *)
Definition write_trees (b : obinning) (s : st) : st := {| bfile := bfile s; tfile := built_for b |}.
Definition write_binning (b : obinning) (s : st) : st :=
  {| bfile := Some (decode (encode b)); tfile := tfile s |}.
Definition rebuild (b : obinning) (s : st) : st := write_binning b (write_trees b s).

(* BinnedTrees.build(patch, binning, force): try { assert not force; load; assert binning_equal }
   except (AssertionError, FileNotFoundError) { rebuild }.  [eq] is the reuse decision. *)
Definition build_with (eq : obinning -> obinning -> bool) (b : obinning) (force : bool) (s : st) : st :=
  if force then rebuild b s
  else match bfile s with
       | None => rebuild b s
       | Some stored => if eq stored b then s else rebuild b s
       end.
Definition build : obinning -> bool -> st -> st := build_with binning_equal.

(* ---------- operations ---------- *)
Inductive role : Type := Reference | Unknown.
(* a configuration: redshift edges, closed side, scales (rmin, rmax) — the scales never reach the cache *)
Record cfg : Type := { c_edges : list Q; c_closed : bool; c_scales : list (Q * Q) }.
Definition role_binning (c : cfg) (r : role) : obinning :=
  match r with Reference => Some (c_edges c, c_closed c) | Unknown => None end.

Inductive op : Type :=
| Build (b : obinning) (force : bool)   (* Catalog.build_trees(edges|None, closed=, force=) *)
| Measure (c : cfg) (r : role)          (* autocorrelate / crosscorrelate, seen from one catalog *)
| Reopen.                               (* Catalog(cache_directory) *)

(* an invalid binning raises in Binning.__init__ (Configuration.create resp.) before a file is touched *)
Definition step_with (eq : obinning -> obinning -> bool) (s : st) (o : op) : st :=
  match o with
  | Build b f => if valid_ob b then build_with eq b f s else s
  | Measure c r => if valid_edges (c_edges c) then build_with eq (role_binning c r) false s else s
  | Reopen => s
  end.
Definition run_with (eq : obinning -> obinning -> bool) (h : list op) (s : st) : st :=
  fold_left (step_with eq) h s.
Definition step : st -> op -> st := step_with binning_equal.
Definition run : list op -> st -> st := run_with binning_equal.

(* the binning an operation asks for (None: no request, or the request raises) *)
Definition op_request (o : op) : option obinning :=
  match o with
  | Build b _ => if valid_ob b then Some b else None
  | Measure c r => if valid_edges (c_edges c) then Some (role_binning c r) else None
  | Reopen => None
  end.

(* ---------- correspondence checker for C07 ---------- *)
Fixpoint states (h : list op) (s : st) : list st :=
  match h with
  | [] => []
  | o :: r => let s' := step s o in s' :: states r s'
  end.

Definition opt_eqb {A} (eqb : A -> A -> bool) (x y : option A) : bool :=
  match x, y with
  | None, None => true
  | Some a, Some b => eqb a b
  | _, _ => false
  end.
Definition ob_eqb : obinning -> obinning -> bool := opt_eqb binning_eqb.
Definition tc_eqb (x y : bool * list nat) : bool := Bool.eqb (fst x) (fst y) && nlist_eqb (snd x) (snd y).
Fixpoint forallb2 {A B} (f : A -> B -> bool) (l1 : list A) (l2 : list B) : bool :=
  match l1, l2 with
  | [], [] => true
  | x :: xs, y :: ys => f x y && forallb2 f xs ys
  | _, _ => false
  end.

(* what the harness reads from one patch directory after an operation:
   the decoded `binning` file (None = no such file) and the unpickled trees.pkl
   (None = no such file; is-a-tuple, num_records of every tree) *)
Definition obs : Type := (option obinning * option (bool * list nat))%type.

Definition state_agrees (zs : list Q) (s : st) (o : obs) : bool :=
  opt_eqb ob_eqb (bfile s) (fst o) &&
  opt_eqb tc_eqb (option_map (fun t => tree_counts t zs) (tfile s)) (snd o).

(* h: the operations one catalog went through, starting from a freshly created cache;
   zs: the redshifts stored in this patch; observed: the patch directory after every operation;
   final: Some b when the last operation is the build of the final measurement, asking for b *)
Definition c07_case (h : list op) (zs : list Q) (observed : list obs) (final : option obinning) : nat :=
  code [ (* model = implementation after every operation (both files) *)
         forallb2 (state_agrees zs) (states h s_fresh) observed;
         (* the statement on the implementation's output: after the final build the patch holds
            the trees a fresh cache would hold for the requested binning, labelled as such *)
         match final with
         | None => true
         | Some b =>
           match last observed (None, None) with
           | (Some fb, Some tc) => binning_equal fb b && tc_eqb tc (tree_counts b zs)
           | _ => false
           end
         end;
         (* harness sanity: the last operation asks (validly) for `final` *)
         match final with
         | None => true
         | Some b => opt_eqb ob_eqb (op_request (last h Reopen)) (Some b)
         end ].

(* ---------- a catalog: one state per patch, in patch order ---------- *)
(* catalog-level operations: the per-patch operations above applied to every patch
   (Catalog.build_trees, the measurements, Catalog(cache)), and the public per-patch call
   BinnedTrees.build(catalog[p], Binning(edges, closed) | None, force=...) on ONE patch
   (Binning(...) raises for invalid edges before a file is touched) *)
Inductive cop : Type :=
| All (o : op)
| One (p : nat) (b : obinning) (force : bool).
Definition cst : Type := list st.

Fixpoint upd_nth {A} (p : nat) (f : A -> A) (l : list A) {struct l} : list A :=
  match l, p with
  | [], _ => []
  | x :: r, O => f x :: r
  | x :: r, S p' => x :: upd_nth p' f r
  end.

Definition cstep_with (eq : obinning -> obinning -> bool) (cs : cst) (o : cop) : cst :=
  match o with
  | All o => map (fun s => step_with eq s o) cs
  | One p b f => upd_nth p (fun s => step_with eq s (Build b f)) cs
  end.
Definition crun_with (eq : obinning -> obinning -> bool) (h : list cop) (cs : cst) : cst :=
  fold_left (cstep_with eq) h cs.
Definition cstep : cst -> cop -> cst := cstep_with binning_equal.
Definition crun : list cop -> cst -> cst := crun_with binning_equal.
Definition c_fresh (n : nat) : cst := repeat s_fresh n.

(* what patch p sees of a catalog-level operation *)
Definition proj (p : nat) (o : cop) : op :=
  match o with
  | All o => o
  | One q b f => if (q =? p)%nat then Build b f else Reopen
  end.

(* a broken catalog-level build: unless forced, look only at the FIRST patch's cached binning and
   return early when it equals the request (the other patches are never examined) *)
Definition first_matches (cs : cst) (b : obinning) : bool :=
  match cs with
  | s :: _ => match bfile s with Some stored => binning_equal stored b | None => false end
  | [] => false
  end.
Definition cstep_first_patch_shortcut (cs : cst) (o : cop) : cst :=
  match o with
  | All (Build b false) => if valid_ob b && first_matches cs b then cs else cstep cs o
  | All (Measure c r) =>
      if valid_edges (c_edges c) && first_matches cs (role_binning c r) then cs else cstep cs o
  | _ => cstep cs o
  end.

(* ---------- catalog-level correspondence checker ---------- *)
Fixpoint cstates (h : list cop) (cs : cst) : list cst :=
  match h with
  | [] => []
  | o :: r => let cs' := cstep cs o in cs' :: cstates r cs'
  end.

Definition row_agrees (zss : list (list Q)) (cs : cst) (row : list obs) : bool :=
  (length zss =? length cs)%nat &&
  forallb2 (fun sz o => state_agrees (snd sz) (fst sz) o) (combine cs zss) row.

Definition final_ok (b : obinning) (zs : list Q) (o : obs) : bool :=
  match o with
  | (Some fb, Some tc) => binning_equal fb b && tc_eqb tc (tree_counts b zs)
  | _ => false
  end.

Definition cop_request (o : cop) : option obinning :=
  match o with All o => op_request o | One _ _ _ => None end.

(* ch: the operations one catalog went through, starting from a freshly created cache;
   zss: the redshifts stored in each patch (patch order); observed: for every operation, every
   patch directory afterwards; final: Some b when the last operation is the catalog-wide build of
   the final measurement, asking for b *)
Definition c07_ccase (ch : list cop) (zss : list (list Q)) (observed : list (list obs))
           (final : option obinning) : nat :=
  code [ (* model = implementation after every operation, in every patch (both files) *)
         forallb2 (row_agrees zss) (cstates ch (c_fresh (length zss))) observed;
         (* the statement on the implementation's output: after the final build EVERY patch holds
            the trees a fresh cache would hold for the requested binning, labelled as such *)
         match final with
         | None => true
         | Some b => forallb2 (final_ok b) zss (last observed [])
         end;
         (* harness sanity: the last operation asks (validly, catalog-wide) for `final` *)
         match final with
         | None => true
         | Some b => opt_eqb ob_eqb (cop_request (last ch (All Reopen))) (Some b)
         end ].

(* ---------- processes: who executes an operation, and what a process remembers ---------- *)
(* Self  = the long-lived measuring process executes the operation itself (max_workers = 1);
   Pool  = max_workers >= 2: the builds run in multiprocessing.Pool workers forked from the
           measuring process, the pair counting afterwards in a second set of workers forked from
           it (they start with a copy of the PARENT's memory, not of the building workers');
   Child = the whole call runs in one child process forked from the measuring process.
   Whatever a forked process remembers is gone when it exits; the parent's memory is untouched. *)
Inductive exec : Type := Self | Pool | Child.

(* what a process keeps of a patch's unpickled trees between operations.
   NoMemo            : nothing; every BinnedTrees(patch).trees access unpickles trees.pkl (the code).
   MemoOwnInvalidate : keep what was unpickled and serve later accesses from memory; forget it when
                       THIS process rebuilds the patch's trees (a broken variant: a rebuild done by
                       another process is not noticed). *)
Inductive policy : Type := NoMemo | MemoOwnInvalidate.

(* one patch as the measuring process sees it: the two files, and the trees it holds in memory *)
Record pst : Type := { disk : st; mem : option tag }.
Definition p_fresh : pst := {| disk := s_fresh; mem := None |}.

(* does BinnedTrees.build take the rebuild branch for this operation on this cache state *)
Definition rebuilds (s : st) (o : op) : bool :=
  match o, op_request o with
  | _, None => false
  | Build _ true, Some _ => true
  | _, Some b => match bfile s with
                 | None => true
                 | Some stored => negb (binning_equal stored b)
                 end
  end.
(* does the operation unpickle the trees (pair counting does, a build does not) *)
Definition reads (o : op) : bool :=
  match o with Measure c _ => valid_edges (c_edges c) | _ => false end.

(* BinnedTrees(patch).trees in a process whose memory holds m, on cache state s
   (BinnedTrees(patch) raises FileNotFoundError without a binning file) *)
Definition load (pol : policy) (m : option tag) (s : st) : option tag :=
  match bfile s with
  | None => None
  | Some _ => match pol, m with
              | MemoOwnInvalidate, Some t => Some t
              | _, _ => tfile s
              end
  end.
Definition keep (pol : policy) (got m : option tag) : option tag :=
  match pol with
  | NoMemo => None
  | MemoOwnInvalidate => match got with Some t => Some t | None => m end
  end.

(* a step of a labelled history *)
Inductive pop : Type :=
| Do (x : exec) (o : op)   (* an operation and who executes it *)
| Peek.                    (* the measuring process accesses BinnedTrees(patch).trees *)

(* new state of the measuring process + the trees the step worked with (None: it unpickled none) *)
Definition pstep (pol : policy) (ps : pst) (a : pop) : pst * option tag :=
  match a with
  | Peek => let got := load pol (mem ps) (disk ps) in
            ({| disk := disk ps; mem := keep pol got (mem ps) |}, got)
  | Do x o =>
      let m0 := mem ps in                                      (* forked processes start with the parent's memory *)
      let m1 := if rebuilds (disk ps) o then None else m0 in   (* invalidation happens in the process that rebuilds *)
      let d := step (disk ps) o in
      let mr := match x with Pool => m0 | _ => m1 end in       (* memory of the process that counts pairs *)
      let got := if reads o then load pol mr d else None in
      let m2 := if reads o then keep pol got m1 else match pol with NoMemo => None | _ => m1 end in
      ({| disk := d; mem := match x with Self => m2 | _ => m0 end |}, got)
  end.

Definition prun (pol : policy) (h : list pop) (ps : pst) : pst * option tag :=
  fold_left (fun acc a => pstep pol (fst acc) a) h (ps, None).
(* the trees the LAST step of h worked with *)
Definition pused (pol : policy) (h : list pop) (ps : pst) : option tag := snd (prun pol h ps).

Fixpoint ptrace (pol : policy) (h : list pop) (ps : pst) : list (pst * option tag) :=
  match h with
  | [] => []
  | a :: r => let y := pstep pol ps a in y :: ptrace pol r (fst y)
  end.

Definition erase (a : pop) : op := match a with Do _ o => o | Peek => Reopen end.
Definition all_self (h : list pop) : bool :=
  forallb (fun a => match a with Do Self _ | Peek => true | _ => false end) h.
Definition all_forked (h : list pop) : bool :=
  forallb (fun a => match a with Do Pool _ | Do Child _ => true | _ => false end) h.

(* ---------- labelled catalog-level histories and their checker ---------- *)
Inductive pcop : Type :=
| CDo (x : exec) (o : cop)
| CPeek.                     (* BinnedTrees(p).trees for every patch p of the catalog, in the measuring process *)
Definition erase_c (a : pcop) : cop := match a with CDo _ o => o | CPeek => All Reopen end.
Definition pproj (p : nat) (a : pcop) : pop :=
  match a with CDo x o => Do x (proj p o) | CPeek => Peek end.
Definition is_peek (a : pcop) : bool := match a with CPeek => true | _ => false end.

(* what a peek returned for one patch: None = FileNotFoundError, else is-a-tuple + records per tree *)
Definition lobs : Type := option (bool * list nat).

(* patch p: every Peek of the history returned what the process model (the code's policy: no
   memory) says it returns; rows of non-Peek steps are ignored *)
Definition peeks_agree_patch (ph : list pcop) (p : nat) (zs : list Q) (loaded : list (list lobs)) : bool :=
  forallb2 (fun ay row =>
              if is_peek (fst ay)
              then opt_eqb tc_eqb (option_map (fun t => tree_counts t zs) (snd (snd ay))) (nth p row None)
              else true)
           (combine ph (ptrace NoMemo (map (pproj p) ph) p_fresh)) loaded.
Definition peeks_agree (ph : list pcop) (zss : list (list Q)) (loaded : list (list lobs)) : bool :=
  forallb (fun p => peeks_agree_patch ph p (nth p zss []) loaded) (seq 0 (length zss)).

(* ph: the labelled operations one catalog went through, starting from a freshly created cache;
   zss, observed, final: as in c07_ccase (the files after every step do not depend on who executed
   it); loaded: for every step one row, for a CPeek what every patch's accessor returned.
   bits 0..2 = c07_ccase on the history without its labels, bit 3 = the peeks *)
Definition c07_pcase (ph : list pcop) (zss : list (list Q)) (observed : list (list obs))
           (loaded : list (list lobs)) (final : option obinning) : nat :=
  (c07_ccase (map erase_c ph) zss observed final
   + (if (length loaded =? length ph)%nat && peeks_agree ph zss loaded then 0 else 8))%nat.

(* ---------- patch metadata (meta.yml) and the patch linkage of a measurement ---------- *)
(* A Catalog object holds, per patch, the number of records, the sum of weights, the centre and
   the radius (catalog/patch.py:Metadata).  The object that CREATES a cache computes them from the
   records and writes them to meta.yml (once: the file is never rewritten); Catalog(cache)
   (Reopen) reads the file instead of computing anything.  A measurement uses them twice: the
   totals normalise the counts, and centre + radius decide which pairs of patches are counted at
   all (correlation/measurements.py:PatchLinkage).  `enc` is what the writer makes of a value
   (the code: the identity, float64 repr round-trips through YAML). *)
Section MetaStore.
  Context {M : Type}.
  Record mst : Type := { mobj : list M;     (* what the Catalog object holds, per patch *)
                         mfile : list M }.  (* what the meta.yml files hold *)
  Definition m_create (enc : M -> M) (ms : list M) : mst := {| mobj := ms; mfile := map enc ms |}.
  Definition mstep (s : mst) (o : cop) : mst :=
    match o with
    | All Reopen => {| mobj := mfile s; mfile := mfile s |}
    | _ => s
    end.
  Definition mrun (h : list cop) (s : mst) : mst := fold_left mstep h s.
  Fixpoint mstates (h : list cop) (s : mst) : list mst :=
    match h with
    | [] => []
    | o :: r => let s' := mstep s o in s' :: mstates r s'
    end.
  Definition is_reopen (o : cop) : bool := match o with All Reopen => true | _ => false end.
End MetaStore.

(* the linkage: P = points of the sky with distance d; a patch is described by (centre, radius);
   th = the largest angle at which the configuration counts a pair (get_max_angle);
   counted p q = the pair is counted (its separation lies in some scale, at the redshift of p) *)
Definition pmeta (P : Type) : Type := (P * Q)%type.   (* centre, radius *)
Section Linkage.
  Context {P : Type} (d : P -> P -> Q) (counted : P -> P -> bool) (th : Q).
  Definition linked (a b : pmeta P) : bool := Qleb (d (fst a) (fst b)) (snd a + snd b + th).
  Definition pairs (pa pb : list P) : nat := list_sum (map (fun p => count_if (counted p) pb) pa).
  (* counts of a catalog pair, patch pair by patch pair; `use` says which patch pairs are visited *)
  Definition count_with (use : pmeta P -> pmeta P -> bool) (ms : list (pmeta P)) (c1 c2 : list (list P)) : nat :=
    list_sum (map (fun x => list_sum (map (fun y => if use (fst x) (fst y) then pairs (snd x) (snd y) else O)
                                          (combine ms c2)))
                  (combine ms c1)).
  Definition count_linked : list (pmeta P) -> list (list P) -> list (list P) -> nat := count_with linked.
  Definition count_all : list (pmeta P) -> list (list P) -> list (list P) -> nat := count_with (fun _ _ => true).
  (* the radius contains every record of the patch *)
  Definition covers (m : pmeta P) (pts : list P) : Prop := forall p, In p pts -> d (fst m) p <= snd m.
  Definition covers_all (ms : list (pmeta P)) (cat : list (list P)) : Prop :=
    Forall (fun x => covers (fst x) (snd x)) (combine ms cat).
End Linkage.

(* a writer that keeps k decimals of centre and radius (round half up), on the line *)
Definition round_dec (k : positive) (x : Q) : Q := Qfloor (x * (Zpos k # 1) + (1 # 2)) # k.
Definition enc_round (k : positive) (m : pmeta Q) : pmeta Q := (round_dec k (fst m), round_dec k (snd m)).
(* a writer that keeps the centre and rounds the radius UP to k decimals *)
Definition enc_up (k : positive) (m : pmeta Q) : pmeta Q := (fst m, Qceiling (snd m * (Zpos k # 1)) # k).
Definition dline (a b : Q) : Q := Qabs (a - b).

(* ---------- correspondence checker: the metadata a Catalog object reports ---------- *)
(* one patch: [num_records; sum_weights; ra; dec; radius] as the object reports them (exact values
   of the float64s); created: the object that created the cache; observed: the object in use after
   every step of the labelled history (a Reopen step replaces it by Catalog(cache)) *)
Definition c07_mcase (ph : list pcop) (created : list (list Q)) (observed : list (list (list Q))) : nat :=
  code [ forallb2 (fun s row => list_eqb qlist_eqb (mobj s) row)
                  (mstates (map erase_c ph) (m_create (fun m => m) created)) observed ].
