(* Model of the container algebra of CorrFunc (C04): the estimator is applied not only to freshly
   measured correlation functions but to the RESULT of
     cf1 + cf2, sum(cfs, start), cf * scalar, cf.bins[...], cf.patches[...],
     to_file / from_file, pickle, copy / deepcopy, from_dict(to_dict())
   (correlation/corrfunc.py: __add__, __mul__, _make_bin_slice, _make_patch_slice, to_hdf / from_hdf;
    correlation/paircounts.py: the same methods of NormalisedCounts / PatchedCounts / PatchedSumWeights).
   A correlation function holds its pair counts in ROLES: dd, dr, rd, rr, each present or missing.
   Every operation acts role by role: dd stays dd, rr stays rr, missing stays missing; the estimator
   (Landy-Szalay iff rr is present, else Davis-Peebles) then reads the combined counts by role.
   No proofs in this file. *)
From Verif Require Import Prelude Jackknife Estimators.
Open Scope Q_scope.

(* ------------------------------------------------ terms: one optional entry per role *)
Record terms (A : Type) := mk_terms { t_dd : option A; t_dr : option A; t_rd : option A; t_rr : option A }.
Arguments mk_terms {A} _ _ _ _.
Arguments t_dd {A} _.
Arguments t_dr {A} _.
Arguments t_rd {A} _.
Arguments t_rr {A} _.

(* which roles are held *)
Definition roles {A} (t : terms A) : list bool :=
  [is_some (t_dd t); is_some (t_dr t); is_some (t_rd t); is_some (t_rr t)].

(* an operation on one pair-count container, applied to every role that is held *)
Definition tmap {A B} (f : A -> B) (t : terms A) : terms B :=
  mk_terms (option_map f (t_dd t)) (option_map f (t_dr t)) (option_map f (t_rd t)) (option_map f (t_rr t)).

(* a binary operation that may refuse (outer None): both operands must hold the same roles
   ("operands do not contain the same kinds of pair counts" otherwise) *)
Definition ozip {A B C} (f : A -> B -> option C) (a : option A) (b : option B) : option (option C) :=
  match a, b with
  | Some x, Some y => match f x y with Some z => Some (Some z) | None => None end
  | None, None => Some None
  | _, _ => None
  end.
Definition tzip {A B C} (f : A -> B -> option C) (t : terms A) (u : terms B) : option (terms C) :=
  match ozip f (t_dd t) (t_dd u), ozip f (t_dr t) (t_dr u), ozip f (t_rd t) (t_rd u), ozip f (t_rr t) (t_rr u) with
  | Some a, Some b, Some c, Some d => Some (mk_terms a b c d)
  | _, _, _, _ => None
  end.

(* ------------------------------------------------ the estimator reads its input by role *)
(* the normalised terms of one bin; without dd there is no estimate *)
Definition t_estimate (t : terms Q) : option Q :=
  match t_dd t with
  | Some d => Some (estimate d (t_dr t) (t_rd t) (t_rr t))
  | None => None
  end.
Definition t_defined {A} (t : terms A) : bool :=
  is_some (t_dd t) && est_defined (t_dr t) (t_rd t) (t_rr t).
Definition oadd (a b : option Q) : option Q :=
  match a, b with Some x, Some y => Some (x + y) | _, _ => None end.
Definition tadd (t u : terms Q) : option (terms Q) := tzip (fun a b => Some (a + b)) t u.
Definition tscale (c : Q) (t : terms Q) : terms Q := tmap (Qmult c) t.

(* ------------------------------------------------ one pair-count container (Estimators.pc) *)
Definition mshape (M : mat) : list nat := map (@length Q) M.
Definition shapes_eqb (C C' : list mat) : bool := list_eqb nlist_eqb (map mshape C) (map mshape C').
(* NormalisedCounts.__add__: the sums of weights must be identical (else ValueError), the counts
   add element by element, the result keeps the sums of weights of the left operand *)
Definition pc_add (p q : pc) : option pc :=
  if Bool.eqb (pc_auto p) (pc_auto q) && qmat_eqb (pc_w1 p) (pc_w1 q) && qmat_eqb (pc_w2 p) (pc_w2 q)
     && shapes_eqb (pc_counts p) (pc_counts q)
  then Some {| pc_auto := pc_auto p; pc_counts := map2 madd (pc_counts p) (pc_counts q);
               pc_w1 := pc_w1 p; pc_w2 := pc_w2 p |}
  else None.
(* NormalisedCounts.__mul__: counts * scalar, sums of weights untouched *)
Definition pc_scale (c : Q) (p : pc) : pc :=
  {| pc_auto := pc_auto p; pc_counts := map (mscale c) (pc_counts p); pc_w1 := pc_w1 p; pc_w2 := pc_w2 p |}.
(* .bins[item], item resolved to positions on the bin axis *)
Definition pc_sel_bins (J : list nat) (p : pc) : pc :=
  {| pc_auto := pc_auto p; pc_counts := bsel J (pc_counts p); pc_w1 := bsel J (pc_w1 p); pc_w2 := bsel J (pc_w2 p) |}.
(* .patches[item]: the sub-matrix of every bin, the same positions of both weight arrays *)
Definition pc_sel_patches (I : list nat) (p : pc) : pc :=
  {| pc_auto := pc_auto p; pc_counts := map (msel I) (pc_counts p);
     pc_w1 := map (vsel I) (pc_w1 p); pc_w2 := map (vsel I) (pc_w2 p) |}.

(* the term of one bin as documented: total pair count / product of the total weights *)
Definition pc_term (p : pc) (b : nat) : Q :=
  nc_stat (pc_auto p) (nth b (pc_counts p) []) (nth b (pc_w1 p) []) (nth b (pc_w2 p) []).
Definition cf_terms (t : terms pc) (b : nat) : terms Q := tmap (fun p => pc_term p b) t.

(* ------------------------------------------------ expressions over correlation functions *)
Inductive cexpr :=
| X_leaf (t : terms pc)                  (* a CorrFunc as measured / constructed *)
| X_add (a b : cexpr)                    (* a + b; sum([b, c], a) = (a + b) + c *)
| X_scale (c : Q) (a : cexpr)            (* a * c *)
| X_bins (J : list nat) (a : cexpr)      (* a.bins[item] *)
| X_patches (I : list nat) (a : cexpr)   (* a.patches[item] *)
| X_copy (how : nat) (a : cexpr).        (* file round trip, pickle, copy, deepcopy, from_dict(to_dict()) *)

(* `fix` = what the arithmetic does with the role assignment of its result *)
Fixpoint eval_with (fix_ : terms pc -> terms pc) (e : cexpr) : option (terms pc) :=
  match e with
  | X_leaf t => Some t
  | X_add a b =>
      match eval_with fix_ a, eval_with fix_ b with
      | Some t, Some u => option_map fix_ (tzip pc_add t u)
      | _, _ => None
      end
  | X_scale c a => option_map (fun t => fix_ (tmap (pc_scale c) t)) (eval_with fix_ a)
  | X_bins J a => option_map (tmap (pc_sel_bins J)) (eval_with fix_ a)
  | X_patches P a => option_map (tmap (pc_sel_patches P)) (eval_with fix_ a)
  | X_copy _ a => eval_with fix_ a
  end.
(* the documented algebra: role by role *)
Definition eval : cexpr -> option (terms pc) := eval_with (fun t => t).

Fixpoint leaves (e : cexpr) : list (terms pc) :=
  match e with
  | X_leaf t => [t]
  | X_add a b => leaves a ++ leaves b
  | X_scale _ a | X_bins _ a | X_patches _ a | X_copy _ a => leaves a
  end.

(* ------------------------------------------------ a different implementation, for contrast *)
(* positional re-binding (Proofs: rebind_id_iff_prefix, eval_pos_agrees_prefix, eval_pos_refuted): the
   result of an arithmetic operation is rebuilt from the LIST of the counts that are present
   (to_dict().values() omits the missing ones) by filling the constructor's parameters dd, dr, rd, rr
   from the left.  It agrees with the documented algebra on every correlation function whose missing
   roles all come after the present ones (dd+dr, dd+dr+rd, all four). *)
Definition olist {A} (o : option A) : list A := match o with Some x => [x] | None => [] end.
Definition compact {A} (t : terms A) : list A := olist (t_dd t) ++ olist (t_dr t) ++ olist (t_rd t) ++ olist (t_rr t).
Definition refill {A} (l : list A) : terms A := mk_terms (nth_error l 0) (nth_error l 1) (nth_error l 2) (nth_error l 3).
Definition rebind {A} (t : terms A) : terms A := refill (compact t).
Definition eval_pos : cexpr -> option (terms pc) := eval_with rebind.
(* no missing role before a present one *)
Fixpoint prefix_closed (l : list bool) : bool :=
  match l with
  | [] => true
  | true :: r => prefix_closed r
  | false :: r => forallb negb r
  end.

(* ------------------------------------------------ correspondence *)
Definition pc_red (p : pc) : pc :=
  {| pc_auto := pc_auto p; pc_counts := map (map (map Qred)) (pc_counts p);
     pc_w1 := map (map Qred) (pc_w1 p); pc_w2 := map (map Qred) (pc_w2 p) |}.
Definition terms_npatch (t : terms pc) : nat :=
  match t_dd t with Some d => length (nth 0 (pc_w1 d) []) | None => 0 end.
Definition terms_eqb (t u : terms pc) : bool :=
  opc_eqb (t_dd t) (t_dd u) && opc_eqb (t_dr t) (t_dr u) && opc_eqb (t_rd t) (t_rd u) && opc_eqb (t_rr t) (t_rr u).
Definition roles_eqb (a b : list bool) : bool := list_eqb Bool.eqb a b.

(* C04 on an expression: e = the expression over the correlation functions as constructed / measured
   (raw arrays), after = what the resulting CorrFunc stores (None inside: some stored number is not
   finite), impl = what its sample() returns (None: raised).
   bits 0, 1, 2, 4 as c04_corr_case_x on the model value of the expression; bit 3: the stored arrays
   are the role-wise combined ones; bit 5: the roles held are those of the model value;
   64: the model does not define the expression (the generator is wrong, or a refusal is expected). *)
Definition c04_alg_case (e : cexpr) (after : option (terms pc))
           (impl : option (list oq * list (list oq))) : nat :=
  match eval e with
  | None => 64%nat
  | Some t0 =>
      let t := tmap pc_red t0 in
      match t_dd t with
      | None => 64%nat
      | Some dd =>
          (c04_corr_case_x (terms_npatch t) dd (t_dr t) (t_rd t) (t_rr t) impl
           + 8 * code [ match after with Some a => terms_eqb t a | None => true end ]
           + 32 * code [ match after with Some a => roles_eqb (roles t) (roles a) | None => true end ])%nat
      end
  end.
(* a refusal: the model defines no result, the implementation must raise *)
Definition c04_alg_refusal_case (e : cexpr) (raised : bool) : nat :=
  match eval e with None => code [ raised ] | Some _ => 64%nat end.

(* n(z) of three expressions (cross, reference auto, unknown auto) against the exact model values of
   the role-wise combined counts (Estimators: meas_nz_row_ok, first-order error bound) *)
Definition terms_data (t : terms pc) : list res :=
  match t_dd t with Some dd => corr_data dd (t_dr t) (t_rd t) (t_rr t) | None => [] end.
Definition terms_samples (N : nat) (t : terms pc) : list (list res) :=
  match t_dd t with Some dd => corr_samples N dd (t_dr t) (t_rd t) (t_rr t) | None => [] end.
Definition eval_red (e : cexpr) : option (terms pc) :=
  match eval e with
  | Some t => if t_defined t then Some (tmap pc_red t) else None
  | None => None
  end.
Definition oeval_red (e : option cexpr) : option (option (terms pc)) :=
  match e with None => Some None | Some x => option_map Some (eval_red x) end.
Definition c04_alg_nz_case (dz : list Q) (cross : cexpr) (ref unk : option cexpr)
           (nz_d : list oq) (nz_s : list (list oq)) : nat :=
  match eval_red cross, oeval_red ref, oeval_red unk with
  | Some c, Some r, Some u =>
      let N := terms_npatch c in
      let cs := terms_samples N c in
      let rs := option_map (terms_samples N) r in
      let us := option_map (terms_samples N) u in
      code [ meas_nz_row_ok dz (terms_data c) (option_map terms_data r) (option_map terms_data u) nz_d;
             Nat.eqb (length nz_s) N
             && forallb (fun k => meas_nz_row_ok dz (nth k cs []) (option_map (fun m => nth k m []) rs)
                                    (option_map (fun m => nth k m []) us) (nth k nz_s [])) (seq 0 N) ]
  | _, _, _ => 64%nat
  end.
