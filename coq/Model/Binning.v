(* Model of the redshift binning and of its three consumers (C10):
     np.digitize(z, edges, right)                      (numpy, strictly increasing edges)
     catalog/trees.py: build_trees                     (digitize, groupby, keep 0 < i <= nbins,
                                                        dummy trees for bins without objects)
     redshifts.py: _redshift_histogram                 (outer-edge mask + np.histogram)
     correlation/measurements.py: process_patch_pair / count_pairs
                                                       (per-bin sum_weights copied from the trees,
                                                        one write per patch pair result: count_pairs_sw)
   and the spec  member closed edges b z.
   Executable definitions only; proofs are in Proofs/BinningP.v. *)
From Verif Require Import Prelude.
Open Scope Q_scope.

(* an object = (redshift, weight); the weight column may be absent (hasw = false) *)
Definition obj := (Q * Q)%type.
Definition oz (o : obj) : Q := fst o.
Definition ow (hasw : bool) (o : obj) : Q := if hasw then snd o else 1.

(* ---------- bin edges ---------- *)
Fixpoint increasing (l : list Q) : Prop :=
  match l with a :: ((b :: _) as t) => a < b /\ increasing t | _ => True end.
Fixpoint increasingb (l : list Q) : bool :=
  match l with a :: ((b :: _) as t) => Qltb a b && increasingb t | _ => true end.

Definition nbins (edges : list Q) : nat := (length edges - 1)%nat.
Definition edge (edges : list Q) (k : nat) : Q := nth k edges 0.
Definition ehd (edges : list Q) : Q := edge edges 0.
Definition elast (edges : list Q) : Q := edge edges (length edges - 1).

(* ---------- the spec: closed = right: (lo, hi]   closed = left: [lo, hi) ---------- *)
Definition member (cr : bool) (edges : list Q) (b : nat) (z : Q) : Prop :=
  (S b < length edges)%nat /\
  (if cr then edge edges b < z /\ z <= edge edges (S b)
         else edge edges b <= z /\ z < edge edges (S b)).
Definition below (cr : bool) (edges : list Q) (z : Q) : Prop :=
  if cr then z <= ehd edges else z < ehd edges.
Definition above (cr : bool) (edges : list Q) (z : Q) : Prop :=
  if cr then elast edges < z else elast edges <= z.

Definition memberb (cr : bool) (edges : list Q) (b : nat) (z : Q) : bool :=
  (S b <? length edges)%nat &&
  (if cr then Qltb (edge edges b) z && Qleb z (edge edges (S b))
         else Qleb (edge edges b) z && Qltb z (edge edges (S b))).

(* what the spec says every consumer must report for bin b *)
Definition spec_group (cr : bool) (edges : list Q) (objs : list obj) (b : nat) : list obj :=
  filter (fun o => memberb cr edges b (oz o)) objs.
Definition spec_count cr edges objs b : nat := length (spec_group cr edges objs b).
Definition spec_weight hasw cr edges objs b : Q := qsumr (map (ow hasw) (spec_group cr edges objs b)).

(* ---------- np.digitize ----------
   right = False: i with edges[i-1] <= z <  edges[i]   (searchsorted side='right')
   right = True : i with edges[i-1] <  z <= edges[i]   (searchsorted side='left')
   On sorted edges the binary search returns the length of the maximal prefix of edges
   that lie below z (strictly for right = True). *)
Definition passb (right : bool) (e z : Q) : bool := if right then Qltb e z else Qleb e z.
Fixpoint digitize (right : bool) (edges : list Q) (z : Q) : nat :=
  match edges with
  | [] => 0%nat
  | e :: r => if passb right e z then S (digitize right r z) else 0%nat
  end.
(* the same number as a count (the definition in the numpy documentation) *)
Definition digitize_count (right : bool) (edges : list Q) (z : Q) : nat :=
  length (filter (fun e => passb right e z) edges).

(* ---------- build_trees ---------- *)
(* observable part of an AngularTree: (num_records, sum_weights) *)
Definition tree := (nat * Q)%type.
Definition dummy_tree : tree := (0%nat, 0).       (* AngularTree.empty: num_records 0, sum_weights 0.0 *)
(* sum_weights = weights.sum(), or float(num_records) without a weight column *)
Definition wsum (hasw : bool) (g : list obj) : Q :=
  if hasw then qsumr (map snd g) else inject_Z (Z.of_nat (length g)).
Definition make_tree (hasw : bool) (g : list obj) : tree := (length g, wsum hasw g).

(* bin_idx = np.digitize(redshifts, edges, right=(closed == right)); groupby(bin_idx, chunk) *)
Definition bin_idx (cr : bool) (edges : list Q) (objs : list obj) : list nat :=
  map (fun o => digitize cr edges (oz o)) objs.
Definition group (cr : bool) (edges : list Q) (objs : list obj) (i : nat) : list obj :=
  filter (fun o => (digitize cr edges (oz o) =? i)%nat) objs.
(* if 0 < i <= len(binning) *)
Definition keep (nb i : nat) : bool := (0 <? i)%nat && (i <=? nb)%nat.
(* trees.get(b + 1, empty_tree): the dict has the key iff the group exists and was kept *)
Definition get_tree (hasw cr : bool) (edges : list Q) (objs : list obj) (b : nat) : tree :=
  match group cr edges objs (S b) with
  | [] => dummy_tree
  | g => if keep (nbins edges) (S b) then make_tree hasw g else dummy_tree
  end.
(* repaired: the dummy's has_weights comes from the patch, nothing depends on a loop variable *)
Definition build_trees_fix (hasw cr : bool) (edges : list Q) (objs : list obj) : list tree :=
  map (get_tree hasw cr edges objs) (seq 0 (nbins edges)).
(* current code: `weights` is bound only inside `if 0 < i <= len(binning)`; when no group is
   kept, `AngularTree.empty(has_weights=weights is not None)` raises UnboundLocalError = None *)
Definition build_trees_cur (hasw cr : bool) (edges : list Q) (objs : list obj) : option (list tree) :=
  if existsb (keep (nbins edges)) (bin_idx cr edges objs)
  then Some (build_trees_fix hasw cr edges objs) else None.

(* ---------- np.histogram(a, edges, weights) ----------
   inner bins [lo, hi), last bin [lo, hi]; values outside [edges[0], edges[-1]] are dropped *)
Definition np_in_bin (edges : list Q) (k : nat) (z : Q) : bool :=
  Qleb (edge edges k) z &&
  (if (S k =? nbins edges)%nat then Qleb z (edge edges (S k)) else Qltb z (edge edges (S k))).
Definition np_histogram (hasw : bool) (edges : list Q) (objs : list obj) : list Q :=
  map (fun k => wsum hasw (filter (fun o => np_in_bin edges k (oz o)) objs)) (seq 0 (nbins edges)).

(* _redshift_histogram, current code:
     mask = z > edges[0] if closed == right else z < edges[-1];  np.histogram(z[mask], edges, w[mask]) *)
Definition hist_mask (cr : bool) (edges : list Q) (z : Q) : bool :=
  if cr then Qltb (ehd edges) z else Qltb z (elast edges).
Definition hist_cur (hasw cr : bool) (edges : list Q) (objs : list obj) : list Q :=
  np_histogram hasw edges (filter (fun o => hist_mask cr edges (oz o)) objs).
(* repaired: np.bincount(np.digitize(z, edges, right), weights, minlength=nbins+2)[1:nbins+1] *)
Definition hist_fix (hasw cr : bool) (edges : list Q) (objs : list obj) : list Q :=
  map (fun b => wsum hasw (group cr edges objs (S b))) (seq 0 (nbins edges)).

(* ---------- a catalog = list of patches ---------- *)
(* counts.sum(axis=0) over the per-patch rows *)
Definition total (nb : nat) (rows : list (list Q)) : list Q :=
  map (fun b => qsumr (map (fun r => nth b r 0) rows)) (seq 0 nb).
Definition cat_hist_cur hasw cr edges (patches : list (list obj)) : list Q :=
  total (nbins edges) (map (hist_cur hasw cr edges) patches).
Definition cat_hist_fix hasw cr edges (patches : list (list obj)) : list Q :=
  total (nbins edges) (map (hist_fix hasw cr edges) patches).
(* PatchedSumWeights.sum_weights1 : (num_bins, num_patches), column p = the trees' sum_weights *)
Definition sum_weights_of (nb : nat) (ts : list (list tree)) : list (list Q) :=
  map (fun b => map (fun t => snd (nth b t dummy_tree)) ts) (seq 0 nb).
Definition cat_sum_weights hasw cr edges (patches : list (list obj)) : list (list Q) :=
  sum_weights_of (nbins edges) (map (build_trees_fix hasw cr edges) patches).

(* the same three observables written with the spec only *)
Definition spec_trees hasw cr edges (objs : list obj) : list tree :=
  map (fun b => (spec_count cr edges objs b, spec_weight hasw cr edges objs b)) (seq 0 (nbins edges)).
Definition spec_hist hasw cr edges (patches : list (list obj)) : list Q :=
  map (spec_weight hasw cr edges (concat patches)) (seq 0 (nbins edges)).
Definition spec_sum_weights hasw cr edges (patches : list (list obj)) : list (list Q) :=
  map (fun b => map (fun objs => spec_weight hasw cr edges objs b) patches) (seq 0 (nbins edges)).

(* ---------- correspondence checker (evaluated by the harness, not used in proofs) ---------- *)
Definition tree_eqb (a b : tree) : bool := (fst a =? fst b)%nat && Qeqb (snd a) (snd b).
Definition trees_eqb := list_eqb tree_eqb.
Definition opt_eqb {A} (eqb : A -> A -> bool) (a b : option A) : bool :=
  match a, b with Some x, Some y => eqb x y | None, None => true | _, _ => false end.
Definition is_some_and {A} (p : A -> bool) (a : option A) : bool :=
  match a with Some x => p x | None => false end.
Fixpoint all_some {A} (l : list (option A)) : option (list A) :=
  match l with
  | [] => Some []
  | Some x :: r => match all_some r with Some xs => Some (x :: xs) | None => None end
  | None :: _ => None
  end.

(* trees, histogram and the measurement's sum_weights, as observed, tell the same story *)
Definition consistent (hasw : bool) (nb : nat) (impl_trees : list (option (list tree)))
    (impl_hist : option (list Q)) (impl_meas : option (list (list Q))) : bool :=
  match all_some impl_trees with
  | None => true                      (* an error instead of trees: reported by flags 0 and 1 *)
  | Some ts =>
      let wmat := sum_weights_of nb ts in
      forallb (fun t => (length t =? nb)%nat) ts &&
      (hasw || forallb (forallb (fun t : tree => Qeqb (snd t) (inject_Z (Z.of_nat (fst t))))) ts) &&
      match impl_hist with Some h => qlist_eqb h (map qsumr wmat) | None => true end &&
      match impl_meas with Some m => qmat_eqb m wmat | None => true end
  end.

(* one case: closed side, weight column present?, edges, objects per patch;
   observed: per patch Some [(num_records, sum_weights) per bin] or None (build_trees raised),
   HistData.from_catalog(...).data or None (raised), optionally the (bins x patches) matrix
   CorrFunc.dd.sum_weights.sum_weights1.
   flags: 0 model (repaired build_trees) = implementation trees
          1 implementation trees = spec          2 implementation histogram = spec
          3 trees / histogram / measurement mutually consistent
          4 implementation trees = model of the CURRENT build_trees   (classification only)
          5 implementation histogram = model of the CURRENT histogram (classification only)
          6 measurement sum_weights = spec (when observed)
          7 hypotheses of the theorems hold for the case (edges strictly increasing, >= 2) *)
Definition c10_case (cr hasw : bool) (edges : list Q) (patches : list (list obj))
    (impl_trees : list (option (list tree))) (impl_hist : option (list Q))
    (impl_meas : option (list (list Q))) : nat :=
  code [
    list_eqb (opt_eqb trees_eqb) impl_trees (map (fun p => Some (build_trees_fix hasw cr edges p)) patches);
    list_eqb (opt_eqb trees_eqb) impl_trees (map (fun p => Some (spec_trees hasw cr edges p)) patches);
    is_some_and (fun h => qlist_eqb h (spec_hist hasw cr edges patches)) impl_hist;
    consistent hasw (nbins edges) impl_trees impl_hist impl_meas;
    list_eqb (opt_eqb trees_eqb) impl_trees (map (build_trees_cur hasw cr edges) patches);
    is_some_and (fun h => qlist_eqb h (cat_hist_cur hasw cr edges patches)) impl_hist;
    match impl_meas with Some m => qmat_eqb m (spec_sum_weights hasw cr edges patches) | None => true end;
    increasingb edges && (2 <=? length edges)%nat
  ].

(* ---------- a binning that crossed a process boundary (C10, worker processes) ----------
   Binning / BinningConfig / Configuration objects are pickled on their way to the workers of
   Catalog.build_trees, HistData.from_catalog and count_pairs (ParallelJob func_args / func_kwargs),
   and copied (copy / deepcopy / Binning.copy) into results.  What arrives must be the binning
   that was sent: (closed = right?, edges). *)
Definition binning := (bool * list Q)%type.
Definition binning_eqb (a b : binning) : bool :=
  Bool.eqb (fst a) (fst b) && qlist_eqb (snd a) (snd b).
(* the values on which two binnings of about the same range can disagree: all edges of both,
   the midpoints between neighbouring edges, one value below and one above *)
Fixpoint midpoints (l : list Q) : list Q :=
  match l with a :: ((b :: _) as t) => ((a + b) / 2) :: midpoints t | _ => [] end.
Definition probes_of (edges : list Q) : list Q :=
  (ehd edges - 1) :: (elast edges + 1) :: edges ++ midpoints edges.
Definition same_members_on (zs : list Q) (a b : binning) : bool :=
  forallb (fun z => forallb (fun k => Bool.eqb (memberb (fst a) (snd a) k z) (memberb (fst b) (snd b) k z))
                            (seq 0 (Nat.max (length (snd a)) (length (snd b))))) zs.
(* one transport: sent (cr, edges), received (cr', edges') as reported by the object that arrived
   flags: 0 the closed side arrived unchanged      1 the edges arrived unchanged
          2 sent and received binning put every edge / midpoint / outside value of either into the same bins
          3 hypotheses (sent edges strictly increasing, >= 2) *)
Definition c10_transport_case (cr : bool) (edges : list Q) (cr' : bool) (edges' : list Q) : nat :=
  code [
    Bool.eqb cr cr';
    qlist_eqb edges edges';
    same_members_on (probes_of edges ++ probes_of edges') (cr, edges) (cr', edges');
    increasingb edges && (2 <=? length edges)%nat
  ].

(* ---------- count_pairs over linked patch pairs (correlation/measurements.py) ----------
   BinnedTrees(patch) iterated over the bins: a catalog with a binning holds one tree per bin,
   a catalog built without binning (the unknown sample and its randoms in a cross-correlation)
   holds ONE tree over all its objects, repeated for every bin *)
Definition patch_trees (binned hasw cr : bool) (edges : list Q) (objs : list obj) : list tree :=
  if binned then build_trees_fix hasw cr edges objs else repeat (make_tree hasw objs) (nbins edges).
Definition cat_trees (binned hasw cr : bool) (edges : list Q) (patches : list (list obj)) : list (list tree) :=
  map (patch_trees binned hasw cr edges) patches.

(* process_patch_pair: for i, (tree1, tree2) in enumerate(zip(trees1, trees2)):
     sum_weights1[i] = tree1.sum_weights;  sum_weights2[i] = tree2.sum_weights *)
Definition pair_sums (t1 t2 : list tree) : list Q * list Q :=
  (map (fun tt => snd (fst tt)) (combine t1 t2), map (fun tt => snd (snd tt)) (combine t1 t2)).
(* a variant that leaves a bin untouched (0) as soon as one of the two trees holds no object:
   what a patch reports then depends on its partner (refuted in Proofs/BinningP.v) *)
Definition pair_sums_skip (t1 t2 : list tree) : list Q * list Q :=
  let live (tt : tree * tree) := negb ((fst (fst tt) =? 0)%nat || (fst (snd tt) =? 0)%nat) in
  (map (fun tt => if live tt then snd (fst tt) else 0) (combine t1 t2),
   map (fun tt => if live tt then snd (snd tt) else 0) (combine t1 t2)).

Fixpoint upd {A} (l : list A) (k : nat) (x : A) : list A :=
  match l, k with
  | [], _ => []
  | _ :: r, O => x :: r
  | a :: r, S k' => a :: upd r k' x
  end.

(* count_pairs: sum_weights1 = sum_weights2 = zeros((num_bins, num_patches)); for every pair result,
   in the order in which the results arrive:
     sum_weights1[:, id1] = result.sum_weights1;  sum_weights2[:, id2] = result.sum_weights2
   state = the columns (one per patch) of the two matrices *)
Definition sw_state := (list (list Q) * list (list Q))%type.
Definition sw_init (nb p1 p2 : nat) : sw_state := (repeat (repeat 0 nb) p1, repeat (repeat 0 nb) p2).
Definition pair_write (ps : list tree -> list tree -> list Q * list Q) (c1 c2 : list (list tree))
    (st : sw_state) (ij : nat * nat) : sw_state :=
  let r := ps (nth (fst ij) c1 []) (nth (snd ij) c2 []) in
  (upd (fst st) (fst ij) (fst r), upd (snd st) (snd ij) (snd r)).
Definition count_pairs_gen ps (nb : nat) (c1 c2 : list (list tree)) (pairs : list (nat * nat)) : sw_state :=
  fold_left (pair_write ps c1 c2) pairs (sw_init nb (length c1) (length c2)).
Definition cols_to_mat (nb : nat) (cols : list (list Q)) : list (list Q) :=
  map (fun b => map (fun c => nth b c 0) cols) (seq 0 nb).
(* PatchedSumWeights.sum_weights1 / .sum_weights2 (num_bins x num_patches) of one pair-count container *)
Definition count_pairs_with ps (cr : bool) (edges : list Q) (binned1 hasw1 : bool) (cat1 : list (list obj))
    (binned2 hasw2 : bool) (cat2 : list (list obj)) (pairs : list (nat * nat)) : list (list Q) * list (list Q) :=
  let nb := nbins edges in
  let st := count_pairs_gen ps nb (cat_trees binned1 hasw1 cr edges cat1) (cat_trees binned2 hasw2 cr edges cat2) pairs in
  (cols_to_mat nb (fst st), cols_to_mat nb (snd st)).
Definition count_pairs_sw := count_pairs_with pair_sums.
Definition count_pairs_sw_skip := count_pairs_with pair_sums_skip.

(* the spec of one side: a binned sample follows `member`; a sample without binning carries no
   redshift rule, every object counts in every bin *)
Definition spec_side (binned hasw cr : bool) (edges : list Q) (patches : list (list obj)) : list (list Q) :=
  if binned then spec_sum_weights hasw cr edges patches
  else map (fun _ => map (fun objs => qsumr (map (ow hasw) objs)) patches) (seq 0 (nbins edges)).

(* the pair sequence names existing patches and every patch occurs on either side
   (iter_patch_id_pairs yields (i, i) for every patch before anything else) *)
Definition pairs_ok (p1 p2 : nat) (pairs : list (nat * nat)) : bool :=
  forallb (fun ij => (fst ij <? p1)%nat && (snd ij <? p2)%nat) pairs &&
  forallb (fun p => existsb (fun ij => (fst ij =? p)%nat) pairs) (seq 0 p1) &&
  forallb (fun p => existsb (fun ij => (snd ij =? p)%nat) pairs) (seq 0 p2).

(* classification of a difference (not used by any theorem): does the observed matrix keep the zero
   pattern of the spec?  populated_kept: no cell the spec populates (<> 0) is observed as 0;
   empty_kept: no cell the spec leaves empty (= 0) is observed as <> 0 *)
Definition cells_all (p : Q -> Q -> bool) (obs spec : list (list Q)) : bool :=
  forallb (fun rr => forallb (fun os => p (fst os) (snd os)) (combine (fst rr) (snd rr))) (combine obs spec).
Definition populated_kept := cells_all (fun o s => Qeqb s 0 || negb (Qeqb o 0)).
Definition empty_kept := cells_all (fun o s => negb (Qeqb s 0) || Qeqb o 0).

(* one pair-count container (dd / dr / rd / rr) of a measurement over several patches:
   closed side, edges; sample 1 and sample 2 (binned?, weight column?, objects per patch); the
   sequence of patch id pairs of the linkage; observed sum_weights1 and sum_weights2
   flags: 0 model of count_pairs = observed sum_weights1     1 the same for sum_weights2
          2 observed sum_weights1 = spec                     3 observed sum_weights2 = spec
          4 hypotheses (edges strictly increasing, >= 2; pair sequence well formed and covering)
          5 / 6 sum_weights1: populated cells kept / empty cells kept   (classification only)
          7 / 8 sum_weights2: populated cells kept / empty cells kept   (classification only) *)
Definition c10_count_case (cr : bool) (edges : list Q) (binned1 hasw1 : bool) (cat1 : list (list obj))
    (binned2 hasw2 : bool) (cat2 : list (list obj)) (pairs : list (nat * nat))
    (obs1 obs2 : list (list Q)) : nat :=
  let m := count_pairs_sw cr edges binned1 hasw1 cat1 binned2 hasw2 cat2 pairs in
  let s1 := spec_side binned1 hasw1 cr edges cat1 in
  let s2 := spec_side binned2 hasw2 cr edges cat2 in
  code [
    qmat_eqb obs1 (fst m);
    qmat_eqb obs2 (snd m);
    qmat_eqb obs1 s1;
    qmat_eqb obs2 s2;
    increasingb edges && (2 <=? length edges)%nat && pairs_ok (length cat1) (length cat2) pairs;
    populated_kept obs1 s1; empty_kept obs1 s1;
    populated_kept obs2 s2; empty_kept obs2 s2
  ].

(* ---------- the tree cache of a catalog and its histories ----------
   catalog/trees.py: BinnedTrees.build(patch, binning, force) keeps the cached trees of THIS patch
   when the binning stored with them equals the requested one (and not force), otherwise rebuilds
   them; catalog/catalog.py: Catalog.build_trees maps it over all patches (sorted patch ids; serial
   for max_workers = 1).  The cache of a catalog is therefore one entry per patch, and the entries
   of one catalog may hold trees for DIFFERENT binnings: per-patch builds on a subset of the
   patches, a catalog-wide build that was interrupted after some patches. *)
Definition bkey := option binning.       (* None: trees without binning (one tree over all objects) *)
Definition bkey_eqb (a b : bkey) : bool :=
  match a, b with
  | None, None => true
  | Some x, Some y => binning_eqb x y
  | _, _ => false
  end.
(* the trees BinnedTrees.build writes for a patch (repaired build_trees; see c10_cache_case, flag 8) *)
Definition trees_for (hasw : bool) (k : bkey) (objs : list obj) : list tree :=
  match k with
  | Some (cr, edges) => build_trees_fix hasw cr edges objs
  | None => [make_tree hasw objs]
  end.
(* cache entry of one patch: None = no (valid) trees: the `binning` file is missing *)
Definition centry := option (bkey * list tree).
Definition needs_rebuild (force : bool) (k : bkey) (c : centry) : bool :=
  match c with
  | Some (k', _) => force || negb (bkey_eqb k' k)
  | None => true
  end.
Definition patch_build (hasw force : bool) (k : bkey) (objs : list obj) (c : centry) : centry :=
  if needs_rebuild force k c then Some (k, trees_for hasw k objs) else c.

(* Catalog.build_trees, run to completion *)
Fixpoint cat_build (hasw force : bool) (k : bkey) (patches : list (list obj)) (c : list centry) : list centry :=
  match patches, c with
  | objs :: ps, e :: cs => patch_build hasw force k objs e :: cat_build hasw force k ps cs
  | _, _ => c
  end.
(* Catalog.build_trees, interrupted: the patches are visited in order; `fuel` rebuilds complete, the next
   patch that needs a rebuild is hit while its trees are written (BinnedTrees.build has removed the
   `binning` file already: no valid trees), no patch after it is visited *)
Fixpoint cat_build_intr (hasw force : bool) (k : bkey) (patches : list (list obj)) (c : list centry)
    (fuel : nat) : list centry :=
  match patches, c with
  | objs :: ps, e :: cs =>
      if needs_rebuild force k e then
        match fuel with
        | O => None :: cs
        | S f => Some (k, trees_for hasw k objs) :: cat_build_intr hasw force k ps cs f
        end
      else e :: cat_build_intr hasw force k ps cs fuel
  | _, _ => c
  end.
(* BinnedTrees.build on the listed patches only, in this order *)
Definition patches_build (hasw force : bool) (k : bkey) (patches : list (list obj)) (c : list centry)
    (ids : list nat) : list centry :=
  fold_left (fun c p => upd c p (patch_build hasw force k (nth p patches []) (nth p c None))) ids c.

Inductive hstep : Type :=
| HPatches (ids : list nat) (force : bool) (k : bkey)
| HCatalog (force : bool) (k : bkey)                 (* also: a measurement run with this binning *)
| HInterrupted (fuel : nat) (force : bool) (k : bkey).
Definition hstep_apply (hasw : bool) (patches : list (list obj)) (c : list centry) (s : hstep) : list centry :=
  match s with
  | HPatches ids force k => patches_build hasw force k patches c ids
  | HCatalog force k => cat_build hasw force k patches c
  | HInterrupted fuel force k => cat_build_intr hasw force k patches c fuel
  end.
Definition run_history (hasw : bool) (patches : list (list obj)) (hist : list hstep) (c : list centry) : list centry :=
  fold_left (hstep_apply hasw patches) hist c.
Definition cache_init (np : nat) : list centry := repeat None np.

(* every cached entry holds the trees of the binning stored with it *)
Definition entry_valid (hasw : bool) (objs : list obj) (c : centry) : Prop :=
  match c with Some (k, t) => t = trees_for hasw k objs | None => True end.
Definition cache_valid (hasw : bool) (patches : list (list obj)) (c : list centry) : Prop :=
  Forall2 (entry_valid hasw) patches c.

(* the trees a measurement reads from the cache (BinnedTrees(patch) per patch) *)
Definition cache_trees (c : list centry) : list (list tree) :=
  map (fun e : centry => match e with Some (_, t) => t | None => [] end) c.

(* a variant of Catalog.build_trees that skips the whole catalog when the binning stored with the
   FIRST patch is the requested one ("the patches of a catalog are always processed together"):
   refuted in Proofs/BinningP.v *)
Definition first_is (k : bkey) (c : list centry) : bool :=
  match c with Some (k', _) :: _ => bkey_eqb k' k | _ => false end.
Definition cat_build_first (hasw force : bool) (k : bkey) (patches : list (list obj)) (c : list centry) : list centry :=
  if negb force && first_is k c then c else cat_build hasw force k patches c.

(* ---------- checker for one cache history ---------- *)
Definition centry_eqb (a b : centry) : bool :=
  opt_eqb (fun x y => bkey_eqb (fst x) (fst y) && trees_eqb (snd x) (snd y)) a b.
Definition cache_eqb := list_eqb centry_eqb.
Definition hstep_key (s : hstep) : bkey :=
  match s with HPatches _ _ k => k | HCatalog _ k => k | HInterrupted _ _ k => k end.
Definition hstep_ids_ok (np : nat) (s : hstep) : bool :=
  match s with HPatches ids _ _ => forallb (fun p => (p <? np)%nat) ids | _ => true end.
(* the binning is one parse_binning accepts, and every patch holds an object inside it (the build_trees of
   the pinned commit raises otherwise: C10_build_trees_cur_spec) *)
Definition key_ok (patches : list (list obj)) (k : bkey) : bool :=
  match k with
  | None => true
  | Some (cr, edges) =>
      increasingb edges && (2 <=? length edges)%nat &&
      forallb (fun objs => existsb (keep (nbins edges)) (bin_idx cr edges objs)) patches
  end.
(* what the spec says the cache must hold after a build with key k: per patch the trees of `member` *)
Definition spec_trees_for (hasw : bool) (k : bkey) (objs : list obj) : list tree :=
  match k with
  | Some (cr, edges) => spec_trees hasw cr edges objs
  | None => [(length objs, qsumr (map (ow hasw) objs))]
  end.
Definition entry_trees (c : centry) : option (list tree) := option_map snd c.
Definition entry_key_is (k : bkey) (c : centry) : bool :=
  match c with Some (k', _) => bkey_eqb k' k | None => false end.

(* one case: weight column?, objects per patch, the history of the cache (from an empty cache), the
   measured catalog-wide build (force, key); medges: the bin edges of the measurement (= the key's
   edges for a binned key; for key None they fix the number of rows of sum_weights);
   observed: the cache before the measured build, the cache after it, HistData (binned key only),
   the (bins x patches) sum_weights of the measurement for this catalog.
   flags: 0 model of the cache after history + measured build = observed cache (keys and trees)
          1 observed trees of every patch = spec (the closed-side rule of the REQUESTED binning)
          2 every patch reports the requested binning
          3 histogram = spec (when observed)
          4 trees / histogram / measurement mutually consistent (binned key)
          5 model of the cache after the history = observed cache before the measured build
          6 histogram = model of the CURRENT histogram                 (classification only)
          7 measurement sum_weights = spec (when observed)
          8 hypotheses: every binning of the history and the requested one is valid and every patch holds
            an object inside it; patch ids of the history exist; medges valid
          9 every patch whose observed trees differ from the spec still holds exactly the entry it
            held before the measured build (stale trees were kept)   (classification only) *)
Definition c10_cache_case (hasw : bool) (patches : list (list obj)) (hist : list hstep)
    (force : bool) (k : bkey) (medges : list Q)
    (obs_pre obs_post : list centry) (impl_hist : option (list Q)) (impl_meas : option (list (list Q))) : nat :=
  let np := length patches in
  let pre := run_history hasw patches hist (cache_init np) in
  let post := cat_build hasw force k patches pre in
  let binned := match k with Some _ => true | None => false end in
  let cr := match k with Some (cr, _) => cr | None => false end in
  let spec_post := map (fun objs => Some (spec_trees_for hasw k objs)) patches in
  code [
    cache_eqb obs_post post;
    list_eqb (opt_eqb trees_eqb) (map entry_trees obs_post) spec_post;
    forallb (entry_key_is k) obs_post && (length obs_post =? np)%nat;
    match impl_hist with Some h => binned && qlist_eqb h (spec_hist hasw cr medges patches) | None => true end;
    negb binned || consistent hasw (nbins medges) (map entry_trees obs_post) impl_hist impl_meas;
    cache_eqb obs_pre pre;
    match impl_hist with Some h => qlist_eqb h (cat_hist_cur hasw cr medges patches) | None => true end;
    match impl_meas with Some m => qmat_eqb m (spec_side binned hasw cr medges patches) | None => true end;
    forallb (key_ok patches) (k :: map hstep_key hist) && forallb (hstep_ids_ok np) hist &&
      increasingb medges && (2 <=? length medges)%nat &&
      match k with Some (_, e) => qlist_eqb e medges | None => true end;
    forallb (fun x => opt_eqb trees_eqb (entry_trees (snd (fst x))) (snd x) || centry_eqb (snd (fst x)) (fst (fst x)))
            (combine (combine obs_pre obs_post) spec_post)
  ].

(* ---------- extreme binnings (C10, 'large' family): 1 bin ... 10^5 bins ----------
   The edge array is described piecewise, lo and a list of segments (step, count): `count` further
   edges, each `step` above the previous one (one segment = a linear binning, several = very
   narrow bins next to very wide ones); the list of edges is built here, the harness never writes
   10^5 literals.  Observations are sparse: (number of bins reported, [(bin, value)] for the bins
   whose value is not the empty one), every bin that is not listed was reported empty. *)
Definition seg := (Q * nat)%type.
Fixpoint seg_run (start step : Q) (k : Z) (n : nat) : list Q :=
  match n with
  | O => []
  | S n' => (start + inject_Z k * step) :: seg_run start step (k + 1)%Z n'
  end.
Fixpoint seg_edges_from (start : Q) (segs : list seg) : list Q :=
  match segs with
  | [] => []
  | (step, n) :: r =>
      seg_run start step 1 n ++ seg_edges_from (Qred (start + inject_Z (Z.of_nat n) * step)) r
  end.
Definition seg_edges (lo : Q) (segs : list seg) : list Q := Qred lo :: seg_edges_from lo segs.
Definition segs_ok (segs : list seg) : bool :=
  forallb (fun s : seg => Qltb 0 (fst s) && (0 <? snd s)%nat) segs && negb (length segs =? 0)%nat.
Definition segs_count (segs : list seg) : nat := fold_right (fun s acc => (snd s + acc)%nat) 0%nat segs.

(* np.digitize once per object, as a binary integer (no unary index of size 10^5 per comparison) *)
Fixpoint digitize_z (right : bool) (edges : list Q) (z : Q) (acc : Z) : Z :=
  match edges with
  | [] => acc
  | e :: r => if passb right e z then digitize_z right r z (acc + 1)%Z else acc
  end.
(* the same index without comparing z with every edge: the edges are cut into chunks; while the first
   edge of the NEXT chunk still passes, the whole chunk passes (increasing edges) and is skipped *)
Fixpoint chunks_of (k i : nat) (acc : list Q) (l : list Q) : list (list Q) :=
  match l with
  | [] => [rev_append acc []]
  | x :: r => match i with
              | O => rev_append acc [] :: chunks_of k k [x] r
              | S i' => chunks_of k i' (x :: acc) r
              end
  end.
Fixpoint digitize_ch (right : bool) (chunks : list (list Q)) (z : Q) (acc : Z) : Z :=
  match chunks with
  | [] => acc
  | c :: r =>
      match r with
      | (e' :: _) :: _ =>
          if passb right e' z then digitize_ch right r z (acc + Z.of_nat (length c))%Z
          else digitize_z right c z acc
      | _ => digitize_z right (concat chunks) z acc
      end
  end.
Definition chunk_size : nat := 256.
Definition ixz (cr : bool) (chunks : list (list Q)) (objs : list obj) : list Z :=
  map (fun o => digitize_ch cr chunks (oz o) 0%Z) objs.
(* groupby(bin_idx, chunk) with the indices already computed *)
Definition group_z (ix : list Z) (objs : list obj) (i : Z) : list obj :=
  map snd (filter (fun p => (fst p =? i)%Z) (combine ix objs)).
Definition keep_z (nb i : Z) : bool := (0 <? i)%Z && (i <=? nb)%Z.
(* trees.get(b + 1, empty_tree) *)
Definition tree_z (hasw : bool) (nb : Z) (ix : list Z) (objs : list obj) (b : Z) : tree :=
  match group_z ix objs (b + 1)%Z with
  | [] => dummy_tree
  | g => if keep_z nb (b + 1)%Z then make_tree hasw g else dummy_tree
  end.
Definition wsum_z (hasw : bool) (nb : Z) (ix : list Z) (objs : list obj) (b : Z) : Q :=
  snd (tree_z hasw nb ix objs b).

(* sparse observation: the value reported for bin b *)
Fixpoint zlookup {A} (d : A) (b : Z) (s : list (Z * A)) : A :=
  match s with
  | [] => d
  | e :: r => if (fst e =? b)%Z then snd e else zlookup d b r
  end.
(* every listed bin holds the model's value, and every bin some object is sent to (index i = bin + 1,
   also the indices 0 and nbins + 1 of objects outside the binning: nothing may be listed there)
   is reported with the model's value: the two together fix ALL bins (sparse_ok_sound) *)
Definition sparse_ok {A} (eqb : A -> A -> bool) (d : A) (f : Z -> A) (ix : list Z) (s : list (Z * A)) : bool :=
  forallb (fun e => eqb (snd e) (f (fst e))) s &&
  forallb (fun i => eqb (zlookup d (i - 1)%Z s) (f (i - 1)%Z)) ix.
Definition sobs (A : Type) := (Z * list (Z * A))%type.
Definition strees_ok (hasw : bool) (nb : Z) (ix : list Z) (objs : list obj) (o : sobs tree) : bool :=
  (fst o =? nb)%Z && sparse_ok tree_eqb dummy_tree (tree_z hasw nb ix objs) ix (snd o).
Definition swsums_ok (hasw : bool) (nb : Z) (ix : list Z) (objs : list obj) (o : sobs Q) : bool :=
  (fst o =? nb)%Z && sparse_ok Qeqb 0 (wsum_z hasw nb ix objs) ix (snd o).

(* the statement itself, evaluated on the listed bins only: the objects with lo < z <= hi resp.
   lo <= z < hi for the two edges of the bin, and a balance over the whole binning: what the listed
   bins hold together is what lies between the outer edges (weights are positive) *)
Definition in_bin (cr : bool) (l h z : Q) : bool :=
  if cr then Qltb l z && Qleb z h else Qleb l z && Qltb z h.
Definition spec_tree_at (hasw cr : bool) (edges : list Q) (objs : list obj) (b : Z) : tree :=
  let k := Z.to_nat b in
  let l := edge edges k in
  let h := edge edges (S k) in
  make_tree hasw (filter (fun o => in_bin cr l h (oz o)) objs).
Definition inside_objs (cr : bool) (edges : list Q) (objs : list obj) : list obj :=
  let l := ehd edges in
  let h := elast edges in
  filter (fun o => in_bin cr l h (oz o)) objs.
Fixpoint ascending_from (lo nb : Z) (ks : list Z) : bool :=
  match ks with
  | [] => true
  | k :: r => (lo <=? k)%Z && (k <? nb)%Z && ascending_from (k + 1)%Z nb r
  end.
Definition strees_spec (hasw cr : bool) (edges : list Q) (nb : Z) (objs : list obj) (o : sobs tree) : bool :=
  (fst o =? nb)%Z && ascending_from 0 nb (map fst (snd o)) &&
  forallb (fun e => tree_eqb (snd e) (spec_tree_at hasw cr edges objs (fst e))) (snd o) &&
  tree_eqb (fold_right (fun e acc => ((fst (snd e) + fst acc)%nat, Qred (snd (snd e) + snd acc))) dummy_tree (snd o))
           (make_tree hasw (inside_objs cr edges objs)).
Definition swsums_spec (hasw cr : bool) (edges : list Q) (nb : Z) (objs : list obj) (o : sobs Q) : bool :=
  (fst o =? nb)%Z && ascending_from 0 nb (map fst (snd o)) &&
  forallb (fun e => Qeqb (snd e) (snd (spec_tree_at hasw cr edges objs (fst e)))) (snd o) &&
  Qeqb (qsumr (map snd (snd o))) (wsum hasw (inside_objs cr edges objs)).

Definition all2b {A B} (p : A -> B -> bool) (l1 : list A) (l2 : list B) : bool :=
  (length l1 =? length l2)%nat && forallb (fun x => p (fst x) (snd x)) (combine l1 l2).

(* one case: closed side, weight column?, edges = seg_edges lo segs, number of bins as configured,
   objects per patch; observed (sparse): per patch the trees or None (build_trees raised), the
   histogram or None (raised), optionally per patch the column of CorrFunc.dd.sum_weights.sum_weights1
   flags: 0 trees = model (digitize, groupby, keep 0 < i <= nbins, dummy trees)
          1 trees = the closed-side rule evaluated directly on the listed bins + balance
          2 histogram = model            3 histogram = the rule evaluated directly + balance
          4 measurement sum_weights = model (when observed)      5 ... = the rule evaluated directly
          6 hypotheses: every segment has a positive step and a positive count, at least one segment
            (so the edges are strictly increasing and >= 2: seg_edges_valid, proved, not evaluated),
            as many bins as configured *)
Definition c10_big_case (cr hasw : bool) (lo : Q) (segs : list seg) (nbz : Z) (patches : list (list obj))
    (trees : list (option (sobs tree))) (hist : option (sobs Q)) (meas : option (list (sobs Q))) : nat :=
  let edges := seg_edges lo segs in
  let nb := Z.of_nat (nbins edges) in
  let chunks := chunks_of chunk_size chunk_size [] edges in
  let ixs := map (ixz cr chunks) patches in
  let pix := combine ixs patches in
  let all := concat patches in
  let ixall := concat ixs in
  code [
    all2b (fun t x => match t with Some o => strees_ok hasw nb (fst x) (snd x) o | None => false end) trees pix;
    all2b (fun t objs => match t with Some o => strees_spec hasw cr edges nb objs o | None => false end) trees patches;
    match hist with Some o => swsums_ok hasw nb ixall all o | None => false end;
    match hist with Some o => swsums_spec hasw cr edges nb all o | None => false end;
    match meas with Some m => all2b (fun o x => swsums_ok hasw nb (fst x) (snd x) o) m pix | None => true end;
    match meas with Some m => all2b (fun o objs => swsums_spec hasw cr edges nb objs o) m patches | None => true end;
    segs_ok segs && (nb =? nbz)%Z
  ].

