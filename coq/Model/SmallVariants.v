(* Small models of single decisions whose variants were seeded in the later waves: the value of an explicit seed (C16), the
   extension a FITS reader takes its length from (C18), the check for missing values by representation (C09), the closed
   side by patch size (C10). *)
From Coq Require Import List Arith Bool.
Import ListNotations.

(* ---------- C16: reseed(seed) ---------- *)
(* the generator state after reseed is a function of the seed given; `None` = no seed given: keep the own seed *)
Definition reseed (own : nat) (given : option nat) : nat := match given with Some s => s | None => own end.
(* variant `seed or self.seed`: a falsy seed counts as not given *)
Definition reseed_or (own : nat) (given : option nat) : nat :=
  match given with Some s => if s =? 0 then own else s | None => own end.

(* ---------- C18: which table a FITS pass is as long as ---------- *)
Definition fits_len (tables : list (list nat)) (hdu : nat) : nat := length (nth hdu tables []).
Definition fits_pass (tables : list (list nat)) (hdu : nat) : list nat := firstn (fits_len tables hdu) (nth hdu tables []).
(* variant: the length of extension 1, the records of extension hdu *)
Definition fits_pass_len1 (tables : list (list nat)) (hdu : nat) : list nat := firstn (fits_len tables 1) (nth hdu tables []).

(* ---------- C09: missing values by representation ---------- *)
Inductive repr := Typed | Objects.                       (* a float column / a column of python objects *)
Definition column := (repr * list (option nat))%type.    (* None = nan / None / inf *)
Definition has_missing (c : column) : bool := existsb (fun v => match v with None => true | Some _ => false end) (snd c).
(* cast to the column type first, then check: the representation no longer matters *)
Definition refuses_after_cast (c : column) : bool := has_missing c.
(* np.asarray_chkfinite on the raw column: arrays of objects are not looked at *)
Definition refuses_raw (c : column) : bool := match fst c with Typed => has_missing c | Objects => false end.

(* ---------- C10: the closed side does not depend on the size of a patch ---------- *)
Definition member (right_closed : bool) (lo hi z : nat) : bool :=
  if right_closed then (lo <? z) && (z <=? hi) else (lo <=? z) && (z <? hi).
Definition count_members (right_closed : bool) (lo hi : nat) (zs : list nat) : nat :=
  length (filter (member right_closed lo hi) zs).
(* variant: another code path (with the other side) above a size threshold *)
Definition count_members_sized (threshold : nat) (right_closed : bool) (lo hi : nat) (zs : list nat) : nat :=
  if threshold <? length zs then count_members (negb right_closed) lo hi zs else count_members right_closed lo hi zs.
