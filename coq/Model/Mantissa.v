(* C01 / C03 — integer pair counts held in a floating-point cell with a p-bit significand (p = 53 for float64, 24 for float32).
   Only what matters for counts is modelled: a non-negative integer below 2^p is held exactly; a larger one keeps its p
   leading bits (whatever the rounding direction, the integer 2^p + 1 is not representable). *)
From Coq Require Import ZArith Lia.
Open Scope Z_scope.

Definition keep_bits (p z : Z) : Z :=
  if z <? 2 ^ p then z else let e := Z.log2 z + 1 - p in (z / 2 ^ e) * 2 ^ e.

(* the delete-one total of a count table: total minus what involves patch k *)
Definition loo (total involved : Z) : Z := total - involved.
