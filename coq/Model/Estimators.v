(* Model of the correlation estimators and of the redshift-estimate formula (C04, and the
   estimator part of C03):
     correlation/corrfunc.py : davis_peebles, landy_szalay, CorrFunc.sample
     redshifts.py            : RedshiftData.from_corrdata / from_corrfuncs / normalised,
                               HistData.normalised
   No proofs in this file. *)
From Verif Require Import Prelude Jackknife.
Open Scope Q_scope.

(* ------------------------------------------------ the two estimators, as written in the code *)
(* davis_peebles:  mixed = dr if rd is None else rd;  (dd - mixed) / mixed *)
Definition dp (dd mixed : Q) : Q := (dd - mixed) / mixed.
(* landy_szalay:   if rd is None: rd = dr;  ((dd - dr) + (rr - rd)) / rr *)
Definition ls (dd dr rd rr : Q) : Q := ((dd - dr) + (rr - rd)) / rr.
(* as documented *)
Definition dp_doc (dd mixed : Q) : Q := dd / mixed - 1.
Definition ls_doc (dd dr rd rr : Q) : Q := (dd - dr - rd + rr) / rr.

Definition is_some {A} (x : option A) : bool := match x with Some _ => true | None => false end.
Definition opt_or {A} (x : option A) (d : A) : A := match x with Some a => a | None => d end.

(* CorrFunc.sample: estimator = landy_szalay if rr is not None else davis_peebles, called
   with the available counts as keyword arguments.  landy_szalay has no default for dr, so
   rr without dr raises (TypeError); davis_peebles raises when neither dr nor rd exists. *)
Definition uses_ls {A} (rr : option A) : bool := is_some rr.
Definition est_defined {A} (dr rd rr : option A) : bool :=
  if uses_ls rr then is_some dr else is_some dr || is_some rd.

(* pure form on rationals (all denominators assumed non-zero) *)
Definition estimate (dd : Q) (dr rd rr : option Q) : Q :=
  match rr with
  | Some r => let d := opt_or dr 0 in ls dd d (opt_or rd d) r
  | None => dp dd (opt_or rd (opt_or dr 0))
  end.
Definition estimate_doc (dd : Q) (dr rd rr : option Q) : Q :=
  match rr with
  | Some r => let d := opt_or dr 0 in ls_doc dd d (opt_or rd d) r
  | None => dp_doc dd (opt_or rd (opt_or dr 0))
  end.

(* values that carry "all denominators so far were non-zero" *)
Definition dq := (Q * bool)%type.
Definition ddiv (a b : Q) : dq := (a / b, negb (Qeqb b 0)).
Definition dq0 : dq := (0, false).
Definition odq_ok (x : option dq) : bool := match x with Some v => snd v | None => true end.
(* result: value, defined, forward-error scale of the final subtraction/division *)
Definition res := (Q * bool * Q)%type.
Definition est_dq (doc : bool) (dd : dq) (dr rd rr : option dq) : res :=
  let q := option_map fst in
  let v := if doc then estimate_doc (fst dd) (q dr) (q rd) (q rr) else estimate (fst dd) (q dr) (q rd) (q rr) in
  match rr with
  | Some r =>
      let d := opt_or dr dq0 in let x := opt_or rd d in
      (v, snd dd && snd d && snd x && snd r && negb (Qeqb (fst r) 0),
       (Qabs (fst dd) + Qabs (fst d) + Qabs (fst x) + Qabs (fst r)) / Qabs (fst r))
  | None =>
      let m := opt_or rd (opt_or dr dq0) in
      (v, snd dd && snd m && negb (Qeqb (fst m) 0), (Qabs (fst dd) + Qabs (fst m)) / Qabs (fst m))
  end.

(* ------------------------------------------------ pair-count containers *)
(* one NormalisedCounts: counts (bins, N, N), sum_weights1/2 (bins, N), auto *)
Record pc := { pc_auto : bool; pc_counts : list mat; pc_w1 : list (list Q); pc_w2 : list (list Q) }.
Definition pc_bins (p : pc) : nat := length (pc_counts p).

(* NormalisedCounts.sample_patch_sum as code (total - row - col + diag on counts and weights) *)
Definition pc_data (p : pc) : list dq :=
  map2 ddiv (sps_data (pc_counts p)) (nc_den_data (pc_auto p) (pc_w1 p) (pc_w2 p)).
Definition pc_samples (N : nat) (p : pc) : list (list dq) :=
  map2 (map2 ddiv) (sps_samples N (pc_counts p)) (nc_den_samples N (pc_auto p) (pc_w1 p) (pc_w2 p)).
(* as documented: total pair count / product of total weights (half the squared total) *)
Definition pc_data_doc (p : pc) : list dq :=
  map2 ddiv (map total (pc_counts p)) (map2 (norm_denominator (pc_auto p)) (pc_w1 p) (pc_w2 p)).
(* patch k removed from everything *)
Definition pc_del (k : nat) (p : pc) : pc :=
  {| pc_auto := pc_auto p; pc_counts := map (del k) (pc_counts p);
     pc_w1 := map (remove_nth k) (pc_w1 p); pc_w2 := map (remove_nth k) (pc_w2 p) |}.

(* CorrFunc.sample: the estimator applied bin by bin to the data and to every sample row *)
Definition est_rows (doc : bool) (B : nat) (dd : list dq) (dr rd rr : option (list dq)) : list res :=
  map (fun b => est_dq doc (nth b dd dq0)
                       (option_map (fun l => nth b l dq0) dr)
                       (option_map (fun l => nth b l dq0) rd)
                       (option_map (fun l => nth b l dq0) rr)) (seq 0 B).
Definition corr_data (dd : pc) (dr rd rr : option pc) : list res :=
  est_rows false (pc_bins dd) (pc_data dd) (option_map pc_data dr) (option_map pc_data rd) (option_map pc_data rr).
Definition corr_samples (N : nat) (dd : pc) (dr rd rr : option pc) : list (list res) :=
  map (fun k => est_rows false (pc_bins dd) (nth k (pc_samples N dd) [])
                         (option_map (fun p => nth k (pc_samples N p) []) dr)
                         (option_map (fun p => nth k (pc_samples N p) []) rd)
                         (option_map (fun p => nth k (pc_samples N p) []) rr)) (seq 0 N).
(* specification: the documented estimator of the documented normalised totals ... *)
Definition corr_data_doc (dd : pc) (dr rd rr : option pc) : list res :=
  est_rows true (pc_bins dd) (pc_data_doc dd) (option_map pc_data_doc dr) (option_map pc_data_doc rd)
           (option_map pc_data_doc rr).
(* ... and sample k = the same statistic with patch k deleted from all arrays *)
Definition corr_recount (N : nat) (dd : pc) (dr rd rr : option pc) : list (list res) :=
  map (fun k => corr_data_doc (pc_del k dd) (option_map (pc_del k) dr) (option_map (pc_del k) rd)
                              (option_map (pc_del k) rr)) (seq 0 N).

(* where the exact value is defined the implementation must be finite and within the forward
   error bound; elsewhere (a zero denominator in exact arithmetic) nothing is required *)
Definition res_ok (tol : Q) (m : res) (impl : oq) : bool :=
  let '(v, ok, sc) := m in
  if ok then match impl with Some x => Qnear tol x v sc | None => false end else true.
Fixpoint forallb2 {A B} (f : A -> B -> bool) (l1 : list A) (l2 : list B) : bool :=
  match l1, l2 with
  | [], [] => true
  | a :: l1', b :: l2' => f a b && forallb2 f l1' l2'
  | _, _ => false
  end.
Definition res_list_ok tol := forallb2 (res_ok tol).
Definition res_mat_ok tol := forallb2 (res_list_ok tol).

(* C04: impl = None when CorrFunc.sample() raised, otherwise its .data and .samples *)
Definition c04_corr_case (N : nat) (dd : pc) (dr rd rr : option pc)
           (impl : option (list oq * list (list oq))) : nat :=
  match impl with
  | None => code [ negb (est_defined dr rd rr) ]
  | Some (data, samples) =>
      code [ est_defined dr rd rr && res_list_ok tol48 (corr_data dd dr rd rr) data;
             (* the documented formula on the documented normalisation *)
             res_list_ok tol48 (corr_data_doc dd dr rd rr) data;
             (* the same function on every jackknife sample *)
             res_mat_ok tol48 (corr_samples N dd dr rd rr) samples ]
  end.

(* C03: samples of CorrFunc.sample() against the code model and against the recount *)
Definition c03_corr_case (N : nat) (dd : pc) (dr rd rr : option pc) (samples : list (list oq)) : nat :=
  code [ res_mat_ok tol48 (corr_samples N dd dr rd rr) samples;
         res_mat_ok tol48 (corr_recount N dd dr rd rr) samples ].

(* ------------------------------------------------ the redshift estimate *)
(* nz = w_sp / sqrt(dz^2 * w_ss * w_pp); the square root is not rational, so the relation is
   checked in squared form together with the sign (Proofs: this determines nz uniquely) *)
Definition nz_radicand (dz wss wpp : Q) : Q := dz * dz * wss * wpp.
Definition qsgn (x : Q) : Z := if Qltb 0 x then 1%Z else if Qltb x 0 then (-1)%Z else 0%Z.
Definition nz_rel (tol : Q) (dz wsp wss wpp nz : Q) : bool :=
  Z.eqb (qsgn nz) (qsgn wsp)
  && Qclose tol (nz * nz * nz_radicand dz wss wpp) (wsp * wsp).
(* inputs are the implementation's own CorrData values (None = non-finite, then nothing is
   compared); an absent autocorrelation is None at the outer level and counts as 1 *)
Definition auto_at (w : option (list oq)) (b : nat) : oq :=
  match w with None => Some 1 | Some l => nth b l None end.
Definition nz_entry_ok (tol : Q) (dz : Q) (wsp wss wpp nz : oq) : bool :=
  match wsp, wss, wpp with
  | Some sp, Some ss, Some pp =>
      if Qltb 0 (nz_radicand dz ss pp)
      then match nz with Some x => nz_rel tol dz sp ss pp x | None => false end
      else match nz with Some _ => false | None => true end     (* sqrt of <= 0: nan / inf *)
  | _, _, _ => true
  end.
Definition nz_row_ok (tol : Q) (dz : list Q) (wsp : list oq) (wss wpp : option (list oq)) (nz : list oq) : bool :=
  Nat.eqb (length nz) (length dz) && Nat.eqb (length wsp) (length dz)
  && forallb (fun b => nz_entry_ok tol (nth b dz 0) (nth b wsp None) (auto_at wss b) (auto_at wpp b)
                                   (nth b nz None)) (seq 0 (length dz)).
Definition row_at (w : option (list (list oq))) (k : nat) : option (list oq) :=
  option_map (fun m => nth k m []) w.

(* flag0: value; flag1: every sample row through the same function *)
Definition c04_nz_case (dz : list Q)
           (wsp_d : list oq) (wss_d wpp_d : option (list oq)) (nz_d : list oq)
           (wsp_s : list (list oq)) (wss_s wpp_s : option (list (list oq))) (nz_s : list (list oq)) : nat :=
  code [ nz_row_ok (2 * tol48) dz wsp_d wss_d wpp_d nz_d;
         Nat.eqb (length nz_s) (length wsp_s)
         && forallb (fun k => nz_row_ok (2 * tol48) dz (nth k wsp_s []) (row_at wss_s k) (row_at wpp_s k)
                                        (nth k nz_s [])) (seq 0 (length wsp_s)) ].

(* ------------------------------------------------ normalisation *)
Definition qmin_list (l : list Q) : Q := match l with [] => 0 | x :: xs => fold_left (fun a b => if Qleb b a then b else a) xs x end.
Definition qmax_list (l : list Q) : Q := match l with [] => 0 | x :: xs => fold_left (fun a b => if Qleb a b then b else a) xs x end.

(* integral over the binning, skipping non-finite entries (np.nansum) *)
Definition ointegral (dz : list Q) (data : list oq) : Q :=
  qsum (map2 (fun d x => match x with Some q => d * q | None => 0 end) dz data).
Definition integral (dz data : list Q) : Q := qsum (map2 Qmult dz data).
Definition oscale (c : Q) (data : list oq) : list oq := map (option_map (fun q => q / c)) data.

(* RedshiftData.normalised(target=None): norm = nansum(dz * data); data / norm; samples / norm *)
Definition nz_normalised (dz : list Q) (data : list oq) : list oq := oscale (ointegral dz data) data.
Definition nz_normalised_q (dz data : list Q) : list Q := map (fun x => x / integral dz data) data.

(* HistData.normalised:
     width_correction = (edges.min() - edges.max()) / (num_bins * dz)
     data = data * width_correction;  norm = nansum(dz * data);  data /= norm *)
Definition width_correction (edges dz : list Q) : list Q :=
  map (fun d => (qmin_list edges - qmax_list edges) / (qn (length dz) * d)) dz.
Definition hist_corrected (edges dz : list Q) (data : list oq) : list oq :=
  map2 (fun x w => option_map (fun q => q * w) x) data (width_correction edges dz).
Definition hist_norm (edges dz : list Q) (data : list oq) : Q := ointegral dz (hist_corrected edges dz data).
Definition hist_normalised (edges dz : list Q) (data : list oq) : list oq :=
  oscale (hist_norm edges dz data) (hist_corrected edges dz data).
(* the density the documentation promises: counts / (dz * total counts) *)
Definition hist_density (dz data : list Q) : list Q := map2 (fun x d => x / (d * qsum data)) data dz.

(* comparison with a forward-error scale that accounts for cancellation inside the norm *)
Definition oabs_integral (dz : list Q) (data : list oq) : Q :=
  qsum (map2 (fun d x => match x with Some q => Qabs (d * q) | None => 0 end) dz data).
Definition oentry_ok (tol amp : Q) (m impl : oq) : bool :=
  match m, impl with
  | Some a, Some b => Qnear tol b a (Qabs a * amp)
  | None, None => true
  | _, _ => false
  end.
Definition olist_ok tol amp := forallb2 (oentry_ok tol amp).

(* hist = true: HistData.normalised (edges used), false: RedshiftData.normalised.
   data/samples: the container before normalisation; out_*: after.
   flag0: model = implementation; flag1: the integral of the result over the binning is 1;
   flag2: samples are scaled by the same factor *)
Definition c04_norm_case (hist : bool) (edges dz : list Q) (data : list oq) (samples : list (list oq))
           (out_data : list oq) (out_samples : list (list oq)) : nat :=
  let pre := if hist then hist_corrected edges dz data else data in
  let norm := ointegral dz pre in
  if Qeqb norm 0 then 0%nat
  else
    let amp := 4 * (1 + oabs_integral dz pre / Qabs norm) in
    code [ olist_ok tol48 amp (oscale norm pre) out_data;
           Qnear tol48 (ointegral dz out_data) 1 (amp * oabs_integral dz out_data);
           forallb2 (fun s o => olist_ok tol48 amp
                       (oscale norm (if hist then hist_corrected edges dz s else s)) o)
                    samples out_samples ].

(* ------------------------------------------------ histories of public calls (C04) *)
(* The statements above are about a CorrFunc as constructed.  Between construction and
   CorrFunc.sample() / RedshiftData.from_corrfuncs() a program may call any public method of the
   containers.  The state is what the four NormalisedCounts store; a history is a list of calls:
     H_obs o k       read-only public method number o, called on (or through) container k:
                     get_array, sample_patch_sum, bins[...] / patches[...], to_dict, to_file, ==,
                     is_compatible, repr, +, *, pickling, sample(), from_corrfuncs(): each returns a
                     new object and stores nothing
     H_set k i j v   PatchedCounts.set_patch_pair(i, j, v) on the counts of container k
                     (self.counts[:, i, j] = v), the way measurements.py and from_hdf fill them *)
Inductive pkind := K_dd | K_dr | K_rd | K_rr.
Record cfs := { cf_dd : pc; cf_dr : option pc; cf_rd : option pc; cf_rr : option pc }.
Inductive call :=
| H_obs (o : nat) (k : pkind)
| H_set (k : pkind) (i j : nat) (v : list Q).

Fixpoint set_nth {A} (k : nat) (x : A) (l : list A) : list A :=
  match l, k with
  | [], _ => []
  | _ :: t, O => x :: t
  | a :: t, S k' => a :: set_nth k' x t
  end.
Definition mat_set (i j : nat) (x : Q) (M : mat) : mat := set_nth i (set_nth j x (nth i M [])) M.
Definition pc_set (i j : nat) (v : list Q) (p : pc) : pc :=
  {| pc_auto := pc_auto p; pc_counts := map2 (fun M x => mat_set i j x M) (pc_counts p) v;
     pc_w1 := pc_w1 p; pc_w2 := pc_w2 p |}.

Definition cf_get (k : pkind) (s : cfs) : option pc :=
  match k with K_dd => Some (cf_dd s) | K_dr => cf_dr s | K_rd => cf_rd s | K_rr => cf_rr s end.
Definition cf_upd (k : pkind) (f : pc -> pc) (s : cfs) : cfs :=
  match k with
  | K_dd => {| cf_dd := f (cf_dd s); cf_dr := cf_dr s; cf_rd := cf_rd s; cf_rr := cf_rr s |}
  | K_dr => {| cf_dd := cf_dd s; cf_dr := option_map f (cf_dr s); cf_rd := cf_rd s; cf_rr := cf_rr s |}
  | K_rd => {| cf_dd := cf_dd s; cf_dr := cf_dr s; cf_rd := option_map f (cf_rd s); cf_rr := cf_rr s |}
  | K_rr => {| cf_dd := cf_dd s; cf_dr := cf_dr s; cf_rd := cf_rd s; cf_rr := option_map f (cf_rr s) |}
  end.

(* the code: only set_patch_pair stores anything *)
Definition call_step (c : call) (s : cfs) : cfs :=
  match c with
  | H_obs _ _ => s
  | H_set k i j v => cf_upd k (pc_set i j v) s
  end.
Definition run_calls (h : list call) (s : cfs) : cfs := fold_left (fun s c => call_step c s) h s.
Definition is_set (c : call) : bool := match c with H_set _ _ _ _ => true | H_obs _ _ => false end.
Definition observers_only (h : list call) : bool := forallb (fun c => negb (is_set c)) h.

(* CorrFunc.sample() of a state *)
Definition cfs_data (s : cfs) : list res := corr_data (cf_dd s) (cf_dr s) (cf_rd s) (cf_rr s).
Definition cfs_samples (N : nat) (s : cfs) : list (list res) := corr_samples N (cf_dd s) (cf_dr s) (cf_rd s) (cf_rr s).

(* what NormalisedCounts.get_array returns: counts / sum_weights.data[:, None, None] (a new array) *)
Definition pc_get_array (p : pc) : list mat :=
  map2 (fun M d => map (map (fun x => x / d)) M) (pc_counts p) (nc_den_data (pc_auto p) (pc_w1 p) (pc_w2 p)).
(* a different implementation, for contrast (Proofs: inplace_history_refuted): observer number 0
   (NormalisedCounts.get_array) computing its result in the array PatchedCounts.get_array hands
   out, i.e. in the stored counts.  It agrees with the code on every freshly constructed CorrFunc. *)
Definition pc_norm_inplace (p : pc) : pc :=
  {| pc_auto := pc_auto p; pc_counts := pc_get_array p; pc_w1 := pc_w1 p; pc_w2 := pc_w2 p |}.
Definition call_step_inplace (c : call) (s : cfs) : cfs :=
  match c with
  | H_obs O k => cf_upd k pc_norm_inplace s
  | _ => call_step c s
  end.
Definition run_calls_inplace (h : list call) (s : cfs) : cfs := fold_left (fun s c => call_step_inplace c s) h s.

Definition pc_eqb (p q : pc) : bool :=
  Bool.eqb (pc_auto p) (pc_auto q) && list_eqb qmat_eqb (pc_counts p) (pc_counts q)
  && qmat_eqb (pc_w1 p) (pc_w1 q) && qmat_eqb (pc_w2 p) (pc_w2 q).
Definition opc_eqb (a b : option pc) : bool :=
  match a, b with Some p, Some q => pc_eqb p q | None, None => true | _, _ => false end.
Definition cfs_eqb (s t : cfs) : bool :=
  pc_eqb (cf_dd s) (cf_dd t) && opc_eqb (cf_dr s) (cf_dr t) && opc_eqb (cf_rd s) (cf_rd t) && opc_eqb (cf_rr s) (cf_rr t).

(* C04 after a history: s0 = the containers as constructed, h = the calls made, after = what the
   containers store afterwards (None: some stored number is no longer finite), impl = what
   CorrFunc.sample() then returns.  Bits 0-2 as c04_corr_case on the model state run_calls h s0;
   bit 3: the stored arrays are those of the model state. *)
Definition c04_hist_case (N : nat) (s0 : cfs) (h : list call) (after : option cfs)
           (impl : option (list oq * list (list oq))) : nat :=
  let s := run_calls h s0 in
  (c04_corr_case N (cf_dd s) (cf_dr s) (cf_rd s) (cf_rr s) impl
   + 8 * code [ match after with Some a => cfs_eqb s a | None => false end ])%nat.

(* ------------------------------------------------ magnitudes (C04) *)
(* CorrFunc.sample chooses the estimator on which pair counts are PRESENT (rr is not None), never
   on their values: normalised terms are pair fractions and may be of any magnitude (1e-12 for a
   wide survey and a small scale cut, 1e+9 for tiny weights), and may be exactly zero in some bins.
   A common factor of all terms: *)
Definition oscaleq (c : Q) (x : option Q) : option Q := option_map (Qmult c) x.
(* A different implementation, for contrast (Proofs: thr_fallback_agrees_above, thr_fallback_refuted):
   an rr whose absolute value does not exceed eps is treated as absent (np.allclose(rr, 0) has
   eps = 1e-8).  It agrees with the code on every input whose rr exceeds eps. *)
Definition estimate_thr (eps : Q) (dd : Q) (dr rd rr : option Q) : Q :=
  match rr with
  | Some r => if Qleb (Qabs r) eps then estimate dd dr rd None else estimate dd dr rd rr
  | None => estimate dd dr rd None
  end.

(* diagnosis of a wrong value: rr is present, the output is not the estimator of the code where
   that is defined, but it is - in every bin where that is defined, and it is somewhere - the
   estimator the code applies when rr is absent *)
Definition res_defined (m : res) : bool := snd (fst m).
Definition ignores_rr (dd : pc) (dr rd rr : option pc) (data : list oq) : bool :=
  match rr with
  | None => false
  | Some _ =>
      let alt := corr_data dd dr rd None in
      (is_some dr || is_some rd)
      && negb (res_list_ok tol48 (corr_data dd dr rd rr) data)
      && existsb res_defined alt && res_list_ok tol48 alt data
  end.
Definition ignores_rr_flag (dd : pc) (dr rd rr : option pc) (impl : option (list oq * list (list oq))) : bool :=
  match impl with Some (data, _) => negb (ignores_rr dd dr rd rr data) | None => true end.
(* c04_corr_case / c04_hist_case with bit 4: the value does not ignore a present rr *)
Definition c04_corr_case_x (N : nat) (dd : pc) (dr rd rr : option pc)
           (impl : option (list oq * list (list oq))) : nat :=
  (c04_corr_case N dd dr rd rr impl + 16 * code [ ignores_rr_flag dd dr rd rr impl ])%nat.
Definition c04_hist_case_x (N : nat) (s0 : cfs) (h : list call) (after : option cfs)
           (impl : option (list oq * list (list oq))) : nat :=
  let s := run_calls h s0 in
  (c04_hist_case N s0 h after impl
   + 16 * code [ ignores_rr_flag (cf_dd s) (cf_dr s) (cf_rd s) (cf_rr s) impl ])%nat.

(* ------------------------------------------------ measurements on catalogs (C04) *)
(* "The two samples' total weights" of the property are quantities of the CATALOGS that were paired,
   not of whatever a CorrFunc stores.  A catalog is its records (redshift, weight), grouped in patches;
   a side of a pair-count container reads it with the binning (reference side of a cross-correlation,
   both sides of an autocorrelation: closed-side rule) or without (unknown side of a
   cross-correlation: every object counts in every bin).  crosscorrelate / autocorrelate:
     dd = (reference, unknown), dr = (reference, unknown randoms), rd = (reference randoms, unknown),
     rr = (reference randoms, unknown randoms);  auto: dd = (data, data), dr = (data, randoms),
     rr = (randoms, randoms). *)
Definition cobj := (Q * Q)%type.                                (* redshift, weight *)
Definition in_bin (right : bool) (lo hi z : Q) : bool :=
  if right then Qltb lo z && Qleb z hi else Qleb lo z && Qltb z hi.
Definition weight_of (l : list cobj) : Q := qsum (map snd l).
Definition bin_members (right : bool) (lo hi : Q) (l : list cobj) : list cobj :=
  filter (fun o => in_bin right lo hi (fst o)) l.
Record side := { sd_binned : bool; sd_patches : list (list cobj) }.
Definition cell_members (right binned : bool) (lo hi : Q) (l : list cobj) : list cobj :=
  if binned then bin_members right lo hi l else l.
Definition cell_weight (right binned : bool) (lo hi : Q) (l : list cobj) : Q :=
  weight_of (cell_members right binned lo hi l).
Definition cell_empty (right binned : bool) (lo hi : Q) (l : list cobj) : bool :=
  match cell_members right binned lo hi l with [] => true | _ :: _ => false end.
Fixpoint bin_bounds (edges : list Q) : list (Q * Q) :=
  match edges with
  | lo :: t => match t with hi :: _ => (lo, hi) :: bin_bounds t | [] => [] end
  | [] => []
  end.
(* per bin the weight of every patch (what the jackknife needs), and the total of the whole catalog *)
Definition bin_weights (right : bool) (s : side) (lo hi : Q) : list Q :=
  map (cell_weight right (sd_binned s) lo hi) (sd_patches s).
Definition side_weights (right : bool) (edges : list Q) (s : side) : list (list Q) :=
  map (fun lh => bin_weights right s (fst lh) (snd lh)) (bin_bounds edges).
Definition side_total (right : bool) (s : side) (lo hi : Q) : Q :=
  cell_weight right (sd_binned s) lo hi (concat (sd_patches s)).

(* one measured pair-count container: the pair counts the measurement produced and the two catalogs *)
Record mcounts := { mc_auto : bool; mc_counts : list mat; mc_s1 : side; mc_s2 : side }.
Definition meas_pc (right : bool) (edges : list Q) (m : mcounts) : pc :=
  {| pc_auto := mc_auto m; pc_counts := mc_counts m;
     pc_w1 := side_weights right edges (mc_s1 m); pc_w2 := side_weights right edges (mc_s2 m) |}.

(* C04 on a measurement: CorrFunc.sample() of the CorrFunc that crosscorrelate / autocorrelate returned
   (or of a CorrFunc made of some of its pair counts) against the model evaluated on the measured pair
   counts and on the weights of the catalogs' records.  Bits 0, 1, 2, 4 as c04_corr_case_x.
   Bit 5 (diagnosis, set only together with one of the others): the output IS the estimator normalised
   with the weights the CorrFunc stores (s_dd ...), i.e. the stored weights are not the catalogs'. *)
Definition c04_meas_case (right : bool) (edges : list Q) (N : nat) (dd : mcounts) (dr rd rr : option mcounts)
           (s_dd : pc) (s_dr s_rd s_rr : option pc)
           (impl : option (list oq * list (list oq))) : nat :=
  let f := meas_pc right edges in
  let c := c04_corr_case_x N (f dd) (option_map f dr) (option_map f rd) (option_map f rr) impl in
  (c + 32 * code [ Nat.eqb c 0 || negb (Nat.eqb (c04_corr_case N s_dd s_dr s_rd s_rr impl) 0) ])%nat.

(* n(z) of measured CorrFuncs against the exact model values.  The implementation's w_sp, w_ss, w_pp
   are floats within tol48 * scale of the exact values (c04_meas_case checks that), so
   nz^2 dz^2 w_ss w_pp - w_sp^2 is bounded to first order by
     2 |a| e_a + e_a^2 + a^2 (e_s / |s| + e_p / |p|) + a few ulp of a^2         (a = w_sp, e = abs. error)
   (four times that is allowed); nothing is compared where an exact value is undefined, where an
   autocorrelation is within 2^10 error bounds of zero, or where the exact radicand is zero. *)
Definition res_value (m : res) : Q := fst (fst m).
Definition res_err (m : res) : Q := tol48 * snd m.
Definition res_one : res := (1, true, 0).
Definition meas_nz_entry_ok (dz : Q) (sp : res) (ss pp : option res) (nz : oq) : bool :=
  let s := opt_or ss res_one in
  let p := opt_or pp res_one in
  if negb (res_defined sp && res_defined s && res_defined p) then true
  else
    (* Qred: the exact values are quotients of sums of unreduced fractions *)
    let a := Qred (res_value sp) in
    let vs := Qred (res_value s) in
    let vp := Qred (res_value p) in
    let es := Qred (res_err s) in
    let ep := Qred (res_err p) in
    if Qleb (Qabs vs) (1024 * es) || Qleb (Qabs vp) (1024 * ep) then true
    else
      let D := Qred (nz_radicand dz vs vp) in
      if Qltb 0 D then
        match nz with
        | None => false
        | Some x =>
            let ea := Qred (res_err sp) in
            (Qleb (Qabs a) ea || Z.eqb (qsgn x) (qsgn a))
            && Qleb (Qabs (x * x * D - a * a))
                    (4 * (2 * Qabs a * ea + ea * ea
                          + a * a * (es / Qabs vs + ep / Qabs vp) + 4 * tol48 * (a * a)))
        end
      else match nz with Some _ => false | None => true end.
Definition meas_nz_row_ok (dz : list Q) (sp : list res) (ss pp : option (list res)) (nz : list oq) : bool :=
  Nat.eqb (length nz) (length dz) && Nat.eqb (length sp) (length dz)
  && forallb (fun b => meas_nz_entry_ok (nth b dz 0) (nth b sp res_one)
                                         (option_map (fun l => nth b l res_one) ss)
                                         (option_map (fun l => nth b l res_one) pp) (nth b nz None))
             (seq 0 (length dz)).
(* a measured CorrFunc: dd and the optional dr, rd, rr *)
Definition mcf := (mcounts * option mcounts * option mcounts * option mcounts)%type.
Definition mcf_data (right : bool) (edges : list Q) (c : mcf) : list res :=
  let '(dd, dr, rd, rr) := c in
  let f := meas_pc right edges in
  corr_data (f dd) (option_map f dr) (option_map f rd) (option_map f rr).
Definition mcf_samples (right : bool) (edges : list Q) (N : nat) (c : mcf) : list (list res) :=
  let '(dd, dr, rd, rr) := c in
  let f := meas_pc right edges in
  corr_samples N (f dd) (option_map f dr) (option_map f rd) (option_map f rr).
(* flag0: RedshiftData.from_corrfuncs(cross, ref, unk).data; flag1: every row of .samples *)
Definition c04_meas_nz_case (right : bool) (edges dz : list Q) (N : nat) (cross : mcf) (ref unk : option mcf)
           (nz_d : list oq) (nz_s : list (list oq)) : nat :=
  let cs := mcf_samples right edges N cross in
  let rs := option_map (mcf_samples right edges N) ref in
  let us := option_map (mcf_samples right edges N) unk in
  code [ meas_nz_row_ok dz (mcf_data right edges cross) (option_map (mcf_data right edges) ref)
                        (option_map (mcf_data right edges) unk) nz_d;
         Nat.eqb (length nz_s) N
         && forallb (fun k => meas_nz_row_ok dz (nth k cs []) (option_map (fun m => nth k m []) rs)
                                (option_map (fun m => nth k m []) us) (nth k nz_s [])) (seq 0 N) ].

(* A different implementation, for contrast (Proofs: skip_agrees_populated, skip_refuted): the weight
   of cell (bin, patch) of one side is stored only when the partner's cell of the same patch holds
   objects (a pair-counting shortcut for empty trees that also skips the bookkeeping; unlinked patches:
   the only patch pair that writes column p is (p, p)).  It agrees with meas_pc on all catalogs
   without empty cells. *)
Definition mask_row (right binned : bool) (lo hi : Q) (partner : list (list cobj)) (w : list Q) : list Q :=
  map2 (fun l x => if cell_empty right binned lo hi l then 0 else x) partner w.
Definition side_weights_skip (right : bool) (edges : list Q) (partner mine : side) : list (list Q) :=
  map (fun lh => mask_row right (sd_binned partner) (fst lh) (snd lh) (sd_patches partner)
                          (bin_weights right mine (fst lh) (snd lh))) (bin_bounds edges).
Definition meas_pc_skip (right : bool) (edges : list Q) (m : mcounts) : pc :=
  {| pc_auto := mc_auto m; pc_counts := mc_counts m;
     pc_w1 := side_weights_skip right edges (mc_s2 m) (mc_s1 m);
     pc_w2 := side_weights_skip right edges (mc_s1 m) (mc_s2 m) |}.

(* ------------------------------------------------ weights that are not positive (C04) *)
(* A total weight is the sum of whatever the weight column holds: objects masked with weight 0 instead
   of being removed, weights of both signs.  A populated (bin, patch) cell - a whole patch for a side
   read without binning - may weigh exactly nothing; it then contributes nothing to the total, and a
   total that is zero leaves the term undefined (ddiv).
   A different implementation, for contrast (Proofs: orcount_agrees_weighted, orcount_refuted): the
   total weight of a cell is taken as "the sum of weights or else the number of objects"
   (float(sum_weights or num_records): the fallback meant for a catalog WITHOUT weights also catches a
   sum that is exactly zero).  It agrees with meas_pc on all catalogs in which no populated cell weighs
   nothing. *)
Definition cell_weight_or (right binned : bool) (lo hi : Q) (l : list cobj) : Q :=
  let m := cell_members right binned lo hi l in
  if Qeqb (weight_of m) 0 then qn (length m) else weight_of m.
Definition side_weights_or (right : bool) (edges : list Q) (s : side) : list (list Q) :=
  map (fun lh => map (cell_weight_or right (sd_binned s) (fst lh) (snd lh)) (sd_patches s)) (bin_bounds edges).
Definition meas_pc_or (right : bool) (edges : list Q) (m : mcounts) : pc :=
  {| pc_auto := mc_auto m; pc_counts := mc_counts m;
     pc_w1 := side_weights_or right edges (mc_s1 m); pc_w2 := side_weights_or right edges (mc_s2 m) |}.
(* the records that carry weight *)
Definition weighted (l : list cobj) : list cobj := filter (fun o => negb (Qeqb (snd o) 0)) l.
