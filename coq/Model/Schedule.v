(* Model of how the results of utils/parallel.py:iter_unordered are consumed.
   iter_unordered yields map f tasks in an arbitrary order (the completion order of the
   workers; the number of workers only changes which orders can occur), so a consumer is a
   fold over a permutation of the result list.
     - PatchLinkage.count_pairs : keyed writes  cells[(id1,id2)] := counts (x 1/2 on the auto
       diagonal),  sum_weights1[:, id1] := sw1,  sum_weights2[:, id2] := sw2
     - load_patches             : dict keyed by the id parsed from the patch path
     - Catalog.build_trees      : results discarded
     - HistData.from_catalog    : pinned commit: row i := i-th ARRIVAL; repaired: row idx := counts
                                  with idx carried by the result *)
From Verif Require Import Prelude.
Open Scope nat_scope.

Section Keyed.
  Context {V : Type}.
  Definition store := nat -> option V.
  Definition empty_store : store := fun _ => None.
  Definition write (st : store) (kv : nat * V) : store :=
    fun q => if q =? fst kv then Some (snd kv) else st q.
  Definition run_writes (rs : list (nat * V)) (st : store) : store := fold_left write rs st.
End Keyed.

(* a patch pair (i, j) of an n-patch catalog as one key *)
Definition pair_key (n i j : nat) : nat := i * n + j.

(* one result of process_patch_pair *)
Record ppc := { id1 : nat; id2 : nat; sw1 : list Q; sw2 : list Q; cnts : list (list Q) (* scale -> bin *) }.

Definition halve (auto : bool) (r : ppc) : list (list Q) :=
  if auto && (id1 r =? id2 r) then map (map (fun x => (x * (1 # 2))%Q)) (cnts r) else cnts r.

(* the three stores after consuming the results in the given (arrival) order *)
Definition consume_cells (auto : bool) (n : nat) (rs : list ppc) : @store (list (list Q)) :=
  run_writes (map (fun r => (pair_key n (id1 r) (id2 r), halve auto r)) rs) empty_store.
Definition consume_sw1 (rs : list ppc) : @store (list Q) :=
  run_writes (map (fun r => (id1 r, sw1 r)) rs) empty_store.
Definition consume_sw2 (rs : list ppc) : @store (list Q) :=
  run_writes (map (fun r => (id2 r, sw2 r)) rs) empty_store.

(* HistData.from_catalog *)
Definition hist_rows_cur (arrivals : list (nat * list Q)) : list (list Q) := map snd arrivals.
Definition hist_rows_fix (n : nat) (arrivals : list (nat * list Q)) : list (option (list Q)) :=
  map (run_writes arrivals empty_store) (seq 0 n).

(* ---------- correspondence checkers ---------- *)
Definition oq_eqb (a : option (list Q)) (b : list Q) : bool :=
  match a with Some l => qlist_eqb l b | None => forallb (fun x => Qeqb x 0) b end.
Definition oqq_eqb (a : option (list (list Q))) (b : list (list Q)) : bool :=
  match a with Some l => qmat_eqb l b | None => forallb (forallb (fun x => Qeqb x 0)) b end.

(* impl_cells : i -> j -> (scale -> bin) ; impl_sw : patch -> bin *)
Definition c05_counts_case (auto : bool) (n : nat) (arrivals : list ppc)
           (impl_cells : list (list (list (list Q)))) (impl_sw1 impl_sw2 : list (list Q)) : nat :=
  code [ forallb (fun i => forallb (fun j =>
            oqq_eqb (consume_cells auto n arrivals (pair_key n i j))
                    (nth j (nth i impl_cells []) [])) (seq 0 n)) (seq 0 n);
         forallb (fun i => oq_eqb (consume_sw1 arrivals i) (nth i impl_sw1 [])) (seq 0 n)
         && forallb (fun i => oq_eqb (consume_sw2 arrivals i) (nth i impl_sw2 [])) (seq 0 n) ].

Fixpoint all2 {A B} (f : A -> B -> bool) (l1 : list A) (l2 : list B) : bool :=
  match l1, l2 with
  | [], [] => true
  | x :: xs, y :: ys => f x y && all2 f xs ys
  | _, _ => false
  end.

Definition c05_hist_case (n : nat) (arrivals : list (nat * list Q)) (impl_rows : list (list Q)) : nat :=
  code [ all2 oq_eqb (hist_rows_fix n arrivals) impl_rows;
         (length impl_rows =? n) ].
