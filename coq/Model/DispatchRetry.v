(* C06 - how OFTEN a job is executed, and jobs that fail TRANSIENTLY.

   Model/Dispatch.v describes the messages of _mpi_root_task / _mpi_worker_task for a job whose
   failure is a fixed property of the task ([fails : T -> bool]) and proves that every task is
   handed to exactly one worker exactly once.  This file is about the other half of "executed
   exactly once": what a rank DOES with a task it holds, when the outcome of an execution is not
   a function of the task - a job may fail on its first execution only, always, or on one rank
   only.  The outcome of every single execution is therefore chosen by the ENVIRONMENT (the flag
   of [XExec] / [XFallback]): the theorems hold for every such behaviour.

   State: the tasks not yet handed out ([xpend]), what the worker ranks hold ([xfl]: at most one
   entry per worker index, a rank without entry is idle), what the root yielded ([xgot]), the
   EXECUTION LOG ([xlog]: one entry (task, rank, failed?) per call of the job function, rank 0 =
   the root, S i = worker index i; read as a multiset), the first error the root received
   ([xerr]) and, after the closing broadcast, how iter_unordered ended per rank ([xout]).

   [POnce] is the worker of utils/parallel.py: one execution per task received, whatever comes
   out is sent to the root (result or WorkerError).  [PRetry] is a "resilient" worker: when an
   execution fails with an error it considers transient ([transient t]) it runs the job AGAIN and
   sends the outcome of the second execution.  The messages of the two workers are identical
   (one result per task), so Model/Dispatch.v cannot tell them apart; the execution log can.

   No proofs in this file. *)
From Verif Require Import Prelude Dispatch.
From Coq Require Import Permutation.
Open Scope nat_scope.
Set Implicit Arguments.

Inductive wpolicy := POnce | PRetry.
Inductive xchoice :=
| XHand (i : nat)                 (* the root sends the next pending task to worker i *)
| XExec (i : nat) (failed : bool) (* worker i calls the job function; the environment says how it ends *)
| XReport (i : nat)               (* the root receives what worker i sent *)
| XFallback (failed : bool)       (* no worker rank is allowed: the root calls the job function itself *)
| XFinish.                        (* closing broadcast of the error flag *)

Section DispatchX.
  Context {T R : Type}.
  Context (f : T -> R).
  Context (pol : wpolicy) (transient : T -> bool).
  Context (allowed : nat -> bool) (n : nat).

  Inductive xw := XHas (t : T) | XAgain (t : T) | XOut (y : res T R).
  Definition xentry := (T * nat * bool)%type.
  Definition etask (e : xentry) : T := fst (fst e).
  Definition ewho (e : xentry) : nat := snd (fst e).
  Definition efail (e : xentry) : bool := snd e.
  Definition result_of (t : T) (failed : bool) : res T R := if failed then Err t else Ok (f t).
  Definition eres (e : xentry) : res T R := result_of (etask e) (efail e).

  Record xst := mkX { xpend : list T; xfl : list (nat * xw); xgot : list R; xlog : list xentry;
                      xerr : option T; xdone : bool; xout : list (option T) }.

  (* what worker i holds (first entry with that index) and the other entries *)
  Fixpoint xtake (i : nat) (l : list (nat * xw)) : option (xw * list (nat * xw)) :=
    match l with
    | [] => None
    | (j, x) :: r =>
        if j =? i then Some (x, r)
        else match xtake i r with Some (y, r') => Some (y, (j, x) :: r') | None => None end
    end.

  Definition first_allowed : option nat := find allowed (seq 0 n).
  Definition no_worker : bool := match first_allowed with None => true | Some _ => false end.

  (* does the worker run the job again after this execution? *)
  Definition retry_now (t : T) (failed : bool) : bool :=
    match pol with POnce => false | PRetry => failed && transient t end.

  Definition xstep_with (c : xchoice) (s : xst) : option xst :=
    if xdone s then None else
    match c with
    | XHand i =>
        match xerr s, xpend s, xtake i (xfl s) with
        | None, t :: p, None =>
            if (i <? n) && allowed i
            then Some (mkX p ((i, XHas t) :: xfl s) (xgot s) (xlog s) None false (xout s))
            else None
        | _, _, _ => None
        end
    | XExec i failed =>
        match xtake i (xfl s) with
        | Some (XHas t, r) =>
            Some (mkX (xpend s) ((i, if retry_now t failed then XAgain t else XOut (result_of t failed)) :: r)
                      (xgot s) (xlog s ++ [(t, S i, failed)]) (xerr s) false (xout s))
        | Some (XAgain t, r) =>
            Some (mkX (xpend s) ((i, XOut (result_of t failed)) :: r)
                      (xgot s) (xlog s ++ [(t, S i, failed)]) (xerr s) false (xout s))
        | _ => None
        end
    | XReport i =>
        match xtake i (xfl s) with
        | Some (XOut y, r) =>
            match xerr s, y with
            | None, Ok x => Some (mkX (xpend s) r (xgot s ++ [x]) (xlog s) None false (xout s))
            | None, Err t => Some (mkX (xpend s) r (xgot s) (xlog s) (Some t) false (xout s))
            | Some e, _ => Some (mkX (xpend s) r (xgot s) (xlog s) (Some e) false (xout s))
            end
        | _ => None
        end
    | XFallback failed =>
        match xerr s, xpend s, xfl s with
        | None, t :: p, [] =>
            if no_worker
            then Some (if failed
                       then mkX p [] (xgot s) (xlog s ++ [(t, 0, true)]) (Some t) false (xout s)
                       else mkX p [] (xgot s ++ [f t]) (xlog s ++ [(t, 0, false)]) None false (xout s))
            else None
        | _, _, _ => None
        end
    | XFinish =>
        match xfl s with
        | [] => if (match xerr s with Some _ => true | None => is_nil (xpend s) end)
                then Some (mkX (xpend s) [] (xgot s) (xlog s) (xerr s) true (repeat (xerr s) (S n)))
                else None
        | _ :: _ => None
        end
    end.

  Definition xinit (tasks : list T) : xst := mkX tasks [] [] [] None false [].

  (* a run = a list of choices (a schedule together with the outcome of every execution) *)
  Fixpoint xrun (cs : list xchoice) (s : xst) : option xst :=
    match cs with
    | [] => Some s
    | c :: cs' => match xstep_with c s with Some s' => xrun cs' s' | None => None end
    end.
  Fixpoint xfirst_disabled (cs : list xchoice) (s : xst) : nat :=
    match cs with
    | [] => 0
    | c :: cs' => match xstep_with c s with Some s' => S (xfirst_disabled cs' s') | None => 0 end
    end.

  (* termination measure *)
  Definition xwt (e : nat * xw) : nat := match snd e with XHas _ => 3 | XAgain _ => 2 | XOut _ => 1 end.
  Definition xmu (s : xst) : nat :=
    4 * length (xpend s) + nsum (map xwt (xfl s)) + (if xdone s then 0 else 1).

  (* the tasks held but not yet executed, the results not yet received, "nobody is about to re-run" *)
  Fixpoint held (l : list (nat * xw)) : list T :=
    match l with [] => [] | (_, XHas t) :: r => t :: held r | _ :: r => held r end.
  Fixpoint outs (l : list (nat * xw)) : list (res T R) :=
    match l with [] => [] | (_, XOut y) :: r => y :: outs r | _ :: r => outs r end.
  Fixpoint noagain (l : list (nat * xw)) : bool :=
    match l with [] => true | (_, XAgain _) :: _ => false | _ :: r => noagain r end.
End DispatchX.

Arguments xw : clear implicits.
Arguments xst : clear implicits.
Arguments xentry : clear implicits.

(* the single-process run of a job whose failure is a property of the task: tasks in order, the
   first failing one raises ([Some t]) *)
Fixpoint xseq {T} (bad : T -> bool) (tasks : list T) : option T :=
  match tasks with [] => None | t :: r => if bad t then Some t else xseq bad r end.

(* ---------- correspondence checker for C06 (v): execution counts, transient failures ----------
   tasks are natural numbers (task values of the harness' own job, or the position of an item in
   the iterable of a library call), the job is t |-> 3t+1; [ranks] as in c06_dispatch_case;
   [cs] = the run translated event by event (root's task messages -> XHand, every call of the
   job function as recorded by the job itself -> XExec / XFallback with its outcome, root's
   receives of results -> XReport, root entering the closing broadcast -> XFinish);
   impl_got = what the root's iterator yielded, in order (exact_got = false: only how many);
   impl_log = the execution log (task, rank, failed?) in the order of the calls;
   impl_out = how iter_unordered ended per rank: None = returned, Some (t, c) = raised the error
   of task t, observed exception class c;
   cls = the exception class the job raises per task (class codes are harness-side names);
   bad0 = Some l when the failure is a property of the task alone (the job raises for the tasks
   in l on their first execution, whatever the rank): then the single-process run is defined. *)
Definition xe_eqb (a b : nat * nat * bool) : bool :=
  (fst (fst a) =? fst (fst b)) && (snd (fst a) =? snd (fst b)) && Bool.eqb (snd a) (snd b).
Definition onn_eqb (a b : option (nat * nat)) : bool :=
  match a, b with
  | None, None => true
  | Some (x, c), Some (y, d) => (x =? y) && (c =? d)
  | _, _ => false
  end.
Fixpoint nlookup (t : nat) (l : list (nat * nat)) : option nat :=
  match l with [] => None | (k, v) :: r => if k =? t then Some v else nlookup t r end.
Definition is_some {A} (o : option A) : bool := match o with Some _ => true | None => false end.

Definition c06_xdispatch_case (nworkers : nat) (ranks tasks : list nat) (cs : list xchoice)
           (exact_got : bool) (impl_got : list nat) (impl_log : list (nat * nat * bool))
           (impl_out : list (option (nat * nat))) (cls : list (nat * nat)) (bad0 : option (list nat)) : nat :=
  let al := c06_allowed ranks in
  let s0 := xinit (R := nat) tasks in
  let r := xrun c06_f POnce (fun _ => false) al nworkers cs s0 in
  let raised := match impl_out with o :: _ => o | [] => None end in
  let ltasks := map (fun e => fst (fst e)) impl_log in
  let okran := map c06_f (map (fun e => fst (fst e)) (filter (fun e => negb (snd e)) impl_log)) in
  code [ (* flag0: every event is enabled in the model of the worker that executes ONCE; the model
                   ends after the closing broadcast with the observed yields, the observed execution
                   log and the observed outcome per rank *)
         match r with
         | Some s => xdone s
                     && (if exact_got then nlist_eqb (xgot s) impl_got else length (xgot s) =? length impl_got)
                     && list_eqb xe_eqb (xlog s) impl_log
                     && list_eqb onat_eqb (xout s) (map (option_map fst) impl_out)
         | None => false
         end;
         (* flag1: all ranks end iter_unordered the same way *)
         (length impl_out =? S nworkers) && forallb (onn_eqb raised) impl_out;
         (* flag2: they raise iff some execution failed, and then the error of a failed execution *)
         match raised with
         | None => forallb (fun e => negb (snd e)) impl_log
         | Some (t, _) => existsb (fun e => (fst (fst e) =? t) && snd e) impl_log
         end;
         (* flag3: no task is executed more than once (the log is a sub-multiset of the task list) *)
         nsubm ltasks tasks;
         (* flag4: what was yielded are results of distinct executions that did not fail *)
         (if exact_got then nsubm impl_got okran else length impl_got <=? length okran);
         (* flag5: without an error every task was executed and the root got map f tasks *)
         match raised with
         | None => nlist_eqb (nsort ltasks) (nsort tasks)
                   && (if exact_got then nlist_eqb (nsort impl_got) (nsort (map c06_f tasks))
                       else length impl_got =? length tasks)
         | Some _ => true
         end;
         (* flag6: the single-process run (defined when failing is a property of the task) raises
                   iff the ranks do *)
         match bad0 with
         | None => true
         | Some l => Bool.eqb (is_some raised) (is_some (xseq (c06_fails l) tasks))
         end;
         (* flag7: the exception class is the one the job raised for that task *)
         match raised with
         | None => true
         | Some (t, c) => match nlookup t cls with Some c' => c =? c' | None => false end
         end ]
  + 256 * match r with Some _ => 0 | None => S (xfirst_disabled c06_f POnce (fun _ => false) al nworkers cs s0) end.
