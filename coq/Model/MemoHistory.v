(* C05 — a long-lived process with a HISTORY of measurements against a fresh worker process.

   Objects (configurations, catalogs, linkages) are created, used and discarded.  An object has a VALUE and lives at
   an IDENTITY handed out by an allocator; the only promise of the allocator (CPython's id()) is that two LIVE objects
   never share an identity — the identity of a discarded object may be handed out again.

   A measurement with the object at identity i and further arguments a (entry point, catalog data) is
       finish (prep v) a         where v is the value of the object,
   `prep` being the expensive derived data (scale -> angle conversion at the bin centres, ...) a process may want to
   remember between measurements.  A process that does the work itself (1 worker) carries its memo table through the
   whole history; worker processes of a pool receive fresh copies and start with an empty table.  The property says the
   result is a function of the value only, so every way of remembering must be invisible.

   Policies modelled: no memo, memo keyed by the value, memo keyed by the identity (never invalidated), memo keyed by
   the identity and invalidated when the object is discarded.  Proofs/MemoHistoryP.v: the first two and the last are
   history-independent for every allocator; the identity-keyed memo is history-independent only for allocators that never
   reuse an identity, and refuted under reuse. *)
From Coq Require Import List Arith Bool.
Import ListNotations.
Set Implicit Arguments.

Section MemoHistory.
  Variables V P A R : Type.

  Inductive event : Type :=
  | Alloc (i : nat) (v : V)      (* a new object of value v is placed at identity i *)
  | Free (i : nat)               (* the object at i is discarded (del + garbage collection) *)
  | Use (i : nat) (a : A).       (* a measurement with the object at i, other arguments a *)

  (* the live objects *)
  Definition heap := list (nat * V).
  Fixpoint hget (h : heap) (i : nat) : option V :=
    match h with
    | [] => None
    | (j, v) :: t => if i =? j then Some v else hget t i
    end.
  Definition hdel (h : heap) (i : nat) : heap := filter (fun e => negb (fst e =? i)) h.
  Definition hids (h : heap) : list nat := map fst h.

  (* a history the allocator can produce: a new object never gets the identity of a LIVE object (it may get the
     identity of a discarded one); only live objects are used or discarded *)
  Fixpoint wf (h : heap) (es : list event) : bool :=
    match es with
    | [] => true
    | Alloc i v :: t => match hget h i with None => wf ((i, v) :: h) t | Some _ => false end
    | Free i :: t => match hget h i with Some _ => wf (hdel h i) t | None => false end
    | Use i _ :: t => match hget h i with Some _ => wf h t | None => false end
    end.

  Fixpoint heap_after (h : heap) (es : list event) : heap :=
    match es with
    | [] => h
    | Alloc i v :: t => heap_after ((i, v) :: h) t
    | Free i :: t => heap_after (hdel h i) t
    | Use _ _ :: t => heap_after h t
    end.

  (* identities handed out by the allocator, in order *)
  Fixpoint alloc_ids (es : list event) : list nat :=
    match es with
    | [] => []
    | Alloc i _ :: t => i :: alloc_ids t
    | _ :: t => alloc_ids t
    end.

  (* ---- the statement: the results of the measurements of a history, as a function of the values only ---- *)
  Section Spec.
    Variable compute : V -> A -> R.
    Fixpoint spec (h : heap) (es : list event) : list R :=
      match es with
      | [] => []
      | Alloc i v :: t => spec ((i, v) :: h) t
      | Free i :: t => spec (hdel h i) t
      | Use i a :: t => match hget h i with
                        | Some v => compute v a :: spec h t
                        | None => spec h t
                        end
      end.
  End Spec.

  (* ---- a process that may remember ---- *)
  Variable prep : V -> P.
  Variable finish : P -> A -> R.

  Record policy : Type := {
    table : Type;
    empty : table;
    on_use : table -> nat -> V -> P * table;     (* identity and value of the object in hand *)
    on_free : table -> nat -> table
  }.

  Fixpoint run (pol : policy) (tb : table pol) (h : heap) (es : list event) : list R :=
    match es with
    | [] => []
    | Alloc i v :: t => run pol tb ((i, v) :: h) t
    | Free i :: t => run pol (on_free pol tb i) (hdel h i) t
    | Use i a :: t => match hget h i with
                      | Some v => let (p, tb') := on_use pol tb i v in finish p a :: run pol tb' h t
                      | None => run pol tb h t
                      end
    end.

  Definition no_memo : policy :=
    {| table := unit; empty := tt; on_use := fun tb _ v => (prep v, tb); on_free := fun tb _ => tb |}.

  (* memo keyed by the value *)
  Variable veqb : V -> V -> bool.
  Fixpoint vfind (tb : list (V * P)) (v : V) : option P :=
    match tb with
    | [] => None
    | (w, p) :: t => if veqb v w then Some p else vfind t v
    end.
  Definition value_memo : policy :=
    {| table := list (V * P); empty := [];
       on_use := fun tb _ v => match vfind tb v with
                               | Some p => (p, tb)
                               | None => (prep v, (v, prep v) :: tb)
                               end;
       on_free := fun tb _ => tb |}.

  (* memo keyed by the identity of the object *)
  Fixpoint ifind (tb : list (nat * P)) (i : nat) : option P :=
    match tb with
    | [] => None
    | (j, p) :: t => if i =? j then Some p else ifind t i
    end.
  Definition idrop (tb : list (nat * P)) (i : nat) : list (nat * P) := filter (fun e => negb (fst e =? i)) tb.
  Definition id_use (tb : list (nat * P)) (i : nat) (v : V) : P * list (nat * P) :=
    match ifind tb i with
    | Some p => (p, tb)
    | None => (prep v, (i, prep v) :: tb)
    end.
  (* ... never invalidated (a module-level dictionary keyed by id(obj)) *)
  Definition id_memo : policy :=
    {| table := list (nat * P); empty := []; on_use := id_use; on_free := fun tb _ => tb |}.
  (* ... invalidated when the object goes away (a weak-key dictionary, a finalizer, an attribute of the object) *)
  Definition id_memo_inv : policy :=
    {| table := list (nat * P); empty := []; on_use := id_use; on_free := idrop |}.

  (* ---- worker count ---- *)
  (* the compared measurement: a new object of value v at identity i, used with arguments a, after the history es in
     the same process (1 worker: the parent does the work and remembers) ... *)
  Definition after_history (pol : policy) (es : list event) (i : nat) (v : V) (a : A) : list R :=
    run pol (empty pol) [] (es ++ [Alloc i v; Use i a]).
  (* ... and in a worker process of a pool, which receives a copy of the object and has no history *)
  Definition in_fresh_worker (pol : policy) (j : nat) (v : V) (a : A) : list R :=
    run pol (empty pol) [] [Alloc j v; Use j a].
End MemoHistory.

Arguments Alloc {V A} i v.
Arguments Free {V A} i.
Arguments Use {V A} i a.

(* ---------------- checker of a logged history (correspondence shards of harness/props/c05.py) ----------------
   values, arguments and results are class numbers (equal number <-> equal value / equal bit pattern), identities are
   the addresses the interpreter reported, renumbered.  0 = the log is a history the allocator model allows and the
   results are a function of (value, arguments);  1 = not a history of the model;  2 = the number of results is not the
   number of measurements;  3 = two measurements with equal value and arguments gave different results. *)
Definition used_keys (es : list (@event nat nat)) : list (nat * nat) :=
  spec (fun v a => (v, a)) [] es.

Definition keyeqb (p q : nat * nat) : bool := (fst p =? fst q) && (snd p =? snd q).

Definition functionalb (obs : list ((nat * nat) * nat)) : bool :=
  forallb (fun p => forallb (fun q => implb (keyeqb (fst p) (fst q)) (snd p =? snd q)) obs) obs.

Definition c05_history_case (es : list (@event nat nat)) (outs : list nat) : nat :=
  if negb (wf [] es) then 1
  else if negb (length (used_keys es) =? length outs) then 2
  else if negb (functionalb (combine (used_keys es) outs)) then 3
  else 0.

(* did the allocator hand an identity out twice in this history (the case the harness wants to see) *)
Fixpoint has_dup (l : list nat) : bool :=
  match l with
  | [] => false
  | x :: t => existsb (Nat.eqb x) t || has_dup t
  end.
Definition c05_history_reuses (es : list (@event nat nat)) : bool := has_dup (alloc_ids es).
