(* C11 / C02 — patch_N/data.bin as bytes: DataChunkInfo.to_bytes / from_bytes (one header byte of bit flags), the packed
   little-endian float64 records written by PatchWriter (numpy tofile of a structured array: record-major, fields in
   ATTR_ORDER), read_patch_data (header byte, then ALL remaining bytes viewed with the record dtype - numpy refuses a
   byte count that is not a multiple of the record size).
   A float64 is its 64-bit pattern (N below 2^64): the codec never looks inside.  Bytes are N below 256. *)
From Coq Require Import List NArith Bool Lia.
Import ListNotations.
Open Scope N_scope.

Record info := { has_w : bool; has_z : bool; has_pid : bool }.

(* (True << 0) | (True << 1) | (w << 2) | (z << 3) | (pid << 4) *)
Definition info_byte (i : info) : N :=
  1 + 2 + (if has_w i then 4 else 0) + (if has_z i then 8 else 0) + (if has_pid i then 16 else 0).
(* bool(state & (1 << k)); the two low bits and the three high bits are not looked at *)
Definition info_of_byte (b : N) : info :=
  {| has_w := N.testbit b 2; has_z := N.testbit b 3; has_pid := N.testbit b 4 |}.

(* get_list(): ra, dec, then the optional attributes present *)
Definition nfields (i : info) : nat :=
  2 + (if has_w i then 1 else 0) + (if has_z i then 1 else 0) + (if has_pid i then 1 else 0).

(* little endian, k bytes *)
Fixpoint le_bytes (k : nat) (x : N) : list N :=
  match k with O => [] | S k' => (x mod 256) :: le_bytes k' (x / 256) end.
Fixpoint le_value (bs : list N) : N :=
  match bs with [] => 0 | b :: t => b + 256 * le_value t end.

Definition record := list N.            (* the bit patterns of the fields of one record, in order *)

Definition body (recs : list record) : list N := flat_map (fun r => flat_map (le_bytes 8) r) recs.
(* a freshly created file, and what every later flush appends *)
Definition file_of (i : info) (recs : list record) : list N := info_byte i :: body recs.

(* reading back *)
Fixpoint take_words (fuel : nat) (bs : list N) : option (list N) :=
  match bs with
  | [] => Some []
  | _ =>
      match fuel with
      | O => None
      | S f =>
          if Nat.ltb (length bs) 8 then None
          else option_map (cons (le_value (firstn 8 bs))) (take_words f (skipn 8 bs))
      end
  end.
Fixpoint group (fuel n : nat) (ws : list N) : option (list record) :=
  match ws with
  | [] => Some []
  | _ =>
      match fuel with
      | O => None
      | S f =>
          if Nat.ltb (length ws) n then None
          else option_map (cons (firstn n ws)) (group f n (skipn n ws))
      end
  end.
(* None = an exception (empty file: from_bytes of b"" gives flags 0 and numpy reads nothing - see read_empty below;
   a body that is not a whole number of records: ValueError of ndarray.view) *)
Definition read_file (bs : list N) : option (info * list record) :=
  match bs with
  | [] => Some ({| has_w := false; has_z := false; has_pid := false |}, [])
  | h :: rest =>
      let i := info_of_byte h in
      match take_words (length rest) rest with
      | None => None
      | Some ws => option_map (pair i) (group (length ws) (nfields i) ws)
      end
  end.

Definition word_ok (x : N) : bool := x <? 2 ^ 64.
Definition rec_ok (i : info) (r : record) : bool := Nat.eqb (length r) (nfields i) && forallb word_ok r.

(* ---------- correspondence checker ---------- *)
Definition nlist_eqb (a b : list N) : bool :=
  Nat.eqb (length a) (length b) && forallb (fun p => fst p =? snd p) (combine a b).
Definition info_eqb (a b : info) : bool :=
  Bool.eqb (has_w a) (has_w b) && Bool.eqb (has_z a) (has_z b) && Bool.eqb (has_pid a) (has_pid b).
Definition recs_eqb (a b : list record) : bool :=
  Nat.eqb (length a) (length b) && forallb (fun p => nlist_eqb (fst p) (snd p)) (combine a b).
(* written: the records handed to PatchWriter (bit patterns); file: the bytes of data.bin;
   readback: what read_patch_data returned for `probe` (any byte string: the file, a truncation of it), None = raised *)
Definition c11_patchdata_case (i : info) (written : list record) (file : list N)
           (probe : list N) (readback : option (info * list record)) : nat :=
  (if nlist_eqb (file_of i written) file then 0 else 1)%nat +
  (match read_file probe, readback with
   | Some (a, ra), Some (b, rb) => if info_eqb a b && recs_eqb ra rb then 0 else 2
   | None, None => 0
   | _, _ => 2
   end)%nat.
