(* Model of catalog/patch.py:PatchWriter, catalog/catalog.py:CatalogWriter and of the
   reader -> workers -> writer pipeline of write_patches (all three execution modes:
   the modes differ only in the order in which the per-split dictionaries reach the
   writer, which is an explicit argument here). *)
From Verif Require Import Prelude Chunks.
Open Scope nat_scope.

Section W.
  Context {A : Type}.

  (* PatchWriter: _shards, the bytes in data.bin after the header, _num_processed *)
  Record pw := { shards : list (list A); file : list A; processed : nat }.
  Definition pw_init : pw := {| shards := []; file := []; processed := 0 |}.
  Definition cachesize (w : pw) : nat := length (concat (shards w)).

  (* flush(): only if len(_shards) > 0 *)
  Definition flush (w : pw) : pw :=
    match shards w with
    | [] => w
    | _ => {| shards := []; file := file w ++ concat (shards w);
              processed := processed w + length (concat (shards w)) |}
    end.
  (* process_chunk(data): append, flush if cachesize >= buffersize (buffersize may be -1) *)
  Definition process_chunk (bs : Z) (w : pw) (d : list A) : pw :=
    let w' := {| shards := shards w ++ [d]; file := file w; processed := processed w |} in
    if (bs <=? Z.of_nat (cachesize w'))%Z then flush w' else w'.
  Definition close (w : pw) : pw := flush w.

  (* CatalogWriter: writers created on first use; modelled as a total map + creation order *)
  Record cw := { writers : nat -> pw; created : list nat }.
  Definition cw_init : cw := {| writers := fun _ => pw_init; created := [] |}.
  Definition upd (f : nat -> pw) (p : nat) (w : pw) : nat -> pw :=
    fun q => if q =? p then w else f q.
  (* process_patches(dict): for patch_id, patch in patches.items() *)
  Definition process_patches (bs : Z) (c : cw) (m : list (nat * list A)) : cw :=
    fold_left (fun c kv =>
      {| writers := upd (writers c) (fst kv) (process_chunk bs (writers c (fst kv)) (snd kv));
         created := if existsb (Nat.eqb (fst kv)) (created c) then created c else created c ++ [fst kv] |})
      m c.
  (* finalize(): close every writer; patch_ids.bin = sorted keys *)
  Definition finalize (c : cw) : cw :=
    {| writers := fun p => close (writers c p); created := created c |}.
  Definition patch_ids (c : cw) : list nat := sorted_keys (created c).
  Definition stored (c : cw) (p : nat) : list A := file (writers c p).

  Definition run_writer (bs : Z) (msgs : list (list (nat * list A))) : cw :=
    finalize (fold_left (process_patches bs) msgs cw_init).

  (* the messages: one dictionary per (chunk, worker split) *)
  Definition messages (key : A -> nat) (cs workers : nat) (input : list A) : list (list (nat * list A)) :=
    flat_map (fun c => map (groupby key) (array_split workers c)) (chunks cs input).
  (* sequential mode: one dictionary per chunk *)
  Definition messages_seq (key : A -> nat) (cs : nat) (input : list A) : list (list (nat * list A)) :=
    map (groupby key) (chunks cs input).
End W.
Arguments pw : clear implicits.
Arguments cw : clear implicits.

(* ---------- correspondence checker for C02 ---------- *)
(* records are their input row numbers 0..n-1; assign gives the patch of each row;
   sched is the order (indices into the message list) in which dictionaries reached the writer *)
Definition c02_model (n cs workers : nat) (assign : list nat) (sched : list nat) (bs : Z) (p : nat) : list nat :=
  let key := fun i => nth i assign 0 in
  let ms := messages key cs workers (seq 0 n) in
  let pi := map (fun i => nth i ms []) sched in
  isort (stored (run_writer bs pi) p).
Definition c02_model_seq (n cs : nat) (assign : list nat) (bs : Z) (p : nat) : list nat :=
  let key := fun i => nth i assign 0 in
  isort (stored (run_writer bs (messages_seq key cs (seq 0 n))) p).
Definition c02_spec (n : nat) (assign : list nat) (p : nat) : list nat :=
  filter (fun i => nth i assign 0 =? p) (seq 0 n).
Definition c02_nmsgs (n cs workers : nat) : nat :=
  length (messages (fun _ => 0) cs workers (seq 0 n)).

(* impl : list of (patch id, sorted row numbers found in that patch) *)
Definition c02_case (n cs workers : nat) (assign sched : list nat) (bs : Z)
           (impl : list (nat * list nat)) : nat :=
  let ids := sorted_keys assign in
  code [ (* model = impl, patch by patch *)
         forallb (fun kv => nlist_eqb
            (if workers =? 0 then c02_model_seq n cs assign bs (fst kv)
             else c02_model n cs workers assign sched bs (fst kv)) (snd kv)) impl;
         (* spec = impl *)
         forallb (fun kv => nlist_eqb (c02_spec n assign (fst kv)) (snd kv)) impl;
         (* the set of patches is the set of assigned ids *)
         nlist_eqb ids (map fst impl);
         (* the schedule is a permutation of the message indices (harness sanity) *)
         (workers =? 0) || nlist_eqb (isort sched) (seq 0 (c02_nmsgs n cs workers)) ].

(* ---------- which key splits a chunk: PatchMode.determine + split_into_patches ----------
   A row as the reader yields it = the record and, when patch_name was given, the value of
   the patch index column.  With centres (given, taken from another catalog, or generated for
   patch_num) the nearest centre of the record decides and the index column, if there is one,
   is popped and dropped; without centres the index column decides and is popped.  The order
   of precedence is the documented one: patch_centers > patch_name > patch_num. *)
From Coq Require Import Permutation.
Section Mode.
  Context {A : Type}.
  Definition col_key (r : A * option nat) : nat := match snd r with Some k => k | None => 0 end.
  Definition mode_key (near : option (A -> nat)) (r : A * option nat) : nat :=
    match near with Some f => f (fst r) | None => col_key r end.
  (* split_into_patches(chunk, patch_centers) *)
  Definition split_rows (near : option (A -> nat)) (chunk : list (A * option nat)) : list (nat * list A) :=
    match near with
    | Some f => groupby f (map fst chunk)
    | None => map (fun kv => (fst kv, map fst (snd kv))) (groupby col_key chunk)
    end.
  (* write_patches on a pool: one dictionary per (chunk, worker split); unthreaded: one per chunk *)
  Definition messages_mode (near : option (A -> nat)) (cs workers : nat) (input : list (A * option nat))
    : list (list (nat * list A)) :=
    flat_map (fun c => map (split_rows near) (array_split workers c)) (chunks cs input).
  Definition messages_mode_seq (near : option (A -> nat)) (cs : nat) (input : list (A * option nat))
    : list (list (nat * list A)) :=
    map (split_rows near) (chunks cs input).
  (* one execution of a creation call: workers = 0 is the sequential path (one worker), otherwise
     the dictionaries of the pool reach the writer in some order pi *)
  Definition is_execution (near : option (A -> nat)) (cs workers : nat) (input : list (A * option nat))
             (pi : list (list (nat * list A))) : Prop :=
    match workers with
    | 0 => pi = messages_mode_seq near cs input
    | _ => Permutation pi (messages_mode near cs workers input)
    end.
End Mode.

(* ---------- one input, several executions (C02 option / execution matrix) ----------
   rows are row numbers; near = exact nearest centre of each row (used when centres are given),
   pidcol = the patch index column (used when patch_name is given); each run = the worker count
   (0 = sequential), the delivery order and the per-patch sorted row numbers that were stored *)
Definition c02_rows (n : nat) (has_n : bool) (pidcol : list nat) : list (nat * option nat) :=
  map (fun i => (i, if has_n then Some (nth i pidcol 0) else None)) (seq 0 n).
Definition c02_near (has_c : bool) (near : list nat) : option (nat -> nat) :=
  if has_c then Some (fun i => nth i near 0) else None.
Definition c02_mode_assign (n : nat) (has_c has_n : bool) (near pidcol : list nat) : list nat :=
  map (mode_key (c02_near has_c near)) (c02_rows n has_n pidcol).
Definition c02_exec_msgs {A} (near : option (A -> nat)) (cs workers : nat) (sched : list nat)
           (rows : list (A * option nat)) : list (list (nat * list A)) :=
  if workers =? 0 then messages_mode_seq near cs rows
  else let ms := messages_mode near cs workers rows in map (fun i => nth i ms []) sched.
Definition c02_mode_model (n cs workers : nat) (has_c has_n : bool) (near pidcol sched : list nat)
           (bs : Z) (p : nat) : list nat :=
  isort (stored (run_writer bs (c02_exec_msgs (c02_near has_c near) cs workers sched (c02_rows n has_n pidcol))) p).
Definition patches_eqb (a b : list (nat * list nat)) : bool :=
  list_eqb (fun x y => (fst x =? fst y) && nlist_eqb (snd x) (snd y)) a b.

Definition c02_matrix_case (n cs : nat) (has_c has_n : bool) (near pidcol : list nat) (bs : Z)
           (runs : list ((nat * list nat) * list (nat * list nat))) : nat :=
  let assign := c02_mode_assign n has_c has_n near pidcol in
  code [ (* model = impl, for every execution, patch by patch *)
         forallb (fun r => forallb (fun kv => nlist_eqb
            (c02_mode_model n cs (fst (fst r)) has_c has_n near pidcol (snd (fst r)) bs (fst kv)) (snd kv))
            (snd r)) runs;
         (* spec = impl: the key that the documented precedence selects decides the patch *)
         forallb (fun r => forallb (fun kv => nlist_eqb (c02_spec n assign (fst kv)) (snd kv)) (snd r)
                           && nlist_eqb (sorted_keys assign) (map fst (snd r))) runs;
         (* all executions stored the same per-patch sets *)
         match runs with [] => true | r0 :: rs => forallb (fun r => patches_eqb (snd r) (snd r0)) rs end;
         (* every schedule is a permutation of the message indices (harness sanity) *)
         forallb (fun r => (fst (fst r) =? 0)
                           || nlist_eqb (isort (snd (fst r))) (seq 0 (c02_nmsgs n cs (fst (fst r))))) runs ].
