(* C14 — spherical geometry primitives of yaw/coordinates.py, as real-valued definitions.

   The spec objects (exact spherical geometry) and the algorithms the code uses are both
   written over Coq's reals [R]; they are not executable.  The executable part of this file
   (section "Q checkers") are the comparisons of observed float64 values, as exact rationals,
   used by the correspondence shards of harness/props/c14.py.  No proofs here
   (Proofs/SphereP.v). *)
From Coq Require Import Reals List.
From Verif Require Import Prelude.
Import ListNotations.
Open Scope R_scope.

(* ---------------------------------------------------------------- vectors *)
Definition vec3 : Type := (R * R * R)%type.
Definition vx (v : vec3) : R := fst (fst v).
Definition vy (v : vec3) : R := snd (fst v).
Definition vz (v : vec3) : R := snd v.
Definition dot (u v : vec3) : R := vx u * vx v + vy u * vy v + vz u * vz v.
Definition norm2 (v : vec3) : R := dot v v.
Definition vadd (u v : vec3) : vec3 := (vx u + vx v, vy u + vy v, vz u + vz v).
Definition vsub (u v : vec3) : vec3 := (vx u - vx v, vy u - vy v, vz u - vz v).
Definition vscale (k : R) (v : vec3) : vec3 := (k * vx v, k * vy v, k * vz v).
Definition normalize (v : vec3) : vec3 := vscale (/ sqrt (norm2 v)) v.

(* ------------------------------------------- AngularCoordinates.to_3d *)
Definition to3d (ra dec : R) : vec3 := (cos ra * cos dec, sin ra * cos dec, sin dec).

(* --------------------------- AngularDistances.to_3d / .from_3d (chord <-> angle) *)
Definition chord (d : R) : R := 2 * sin (d / 2).
Definition angle (c : R) : R := 2 * asin (c / 2).

(* ------------------------------------------------ separations *)
(* spec: the great-circle angle *)
Definition gc_angle (u v : vec3) : R := acos (dot u v).
(* algorithm of AngularCoordinates.distance: Euclidean chord, then [angle] *)
Definition chord_dist (u v : vec3) : R := sqrt (norm2 (vsub u v)).
Definition separation (ra1 dec1 ra2 dec2 : R) : R :=
  angle (chord_dist (to3d ra1 dec1) (to3d ra2 dec2)).

(* ------------------------------------------- AngularCoordinates.from_3d *)
(* coordinates.py:sgn — 0 and positive numbers give 1, negative numbers -1 *)
Definition sgn (y : R) : R := if Rlt_dec y 0 then -1 else 1.
(* python/numpy [t % m] for m > 0 : t - floor(t/m) * m *)
Definition fmod (t m : R) : R := t - IZR (Int_part (t / m)) * m.

Definition from3d_ra (v : vec3) : R :=
  let r2 := sqrt (vx v * vx v + vy v * vy v) in
  let xn := if Rlt_dec 0 r2 then vx v / r2 else 1 in   (* np.divide(where=r_d2 > 0, out=ones) *)
  fmod (acos xn * sgn (vy v)) (2 * PI).
Definition from3d_dec (v : vec3) : R :=
  asin (vz v / sqrt (vx v * vx v + vy v * vy v + vz v * vz v)).
Definition from3d (v : vec3) : R * R := (from3d_ra v, from3d_dec v).

(* ------------------------------------------- AngularCoordinates.mean *)
Fixpoint rsum (ws : list R) : R :=
  match ws with [] => 0 | w :: r => w + rsum r end.
Fixpoint wsum (ws : list R) (ps : list (R * R)) : vec3 :=
  match ws, ps with
  | w :: ws', p :: ps' => vadd (vscale w (to3d (fst p) (snd p))) (wsum ws' ps')
  | _, _ => (0, 0, 0)
  end.
(* np.average(xyz, weights=w, axis=0) ; from_3d *)
Definition vmean (ws : list R) (ps : list (R * R)) : vec3 := vscale (/ rsum ws) (wsum ws ps).
Definition sph_mean (ws : list R) (ps : list (R * R)) : R * R := from3d (vmean ws ps).
Definition ones (n : nat) : list R := repeat 1 n.

(* ---------------------------------------------------------------- Q checkers *)
(* rational enclosure of pi, 40 digits (Proofs/SphereP.v: pi_enclosure) *)
Definition pi_lo : Q := 31415926535897932384626433832795028841 # 10000000000000000000000000000000000000.
Definition pi_hi : Q := 31415926535897932384626433832795028842 # 10000000000000000000000000000000000000.

Open Scope Q_scope.

(* RA returned in [0, 2 pi): the float is below the float 2 pi, and as a rational below a lower
   bound of the real 2 pi.  flags: [0 <= ra; ra < float(2pi); ra < 2*pi_lo] *)
Definition c14_ra_case (ra twopi_f : Q) : nat :=
  code [Qleb 0 ra; Qltb ra twopi_f; Qltb ra (2 * pi_lo)].

(* a round trip on a line: |back - x| <= bound *)
Definition c14_rt_case (x back bound : Q) : nat :=
  code [Qleb (Qabs (back - x)) bound].

(* a round trip on the circle (RA): distance modulo 2 pi.  flag: |d| <= bound or 2pi - |d| <= bound
   with the pi enclosure taken in the direction that makes the test stricter *)
Definition c14_rtc_case (x back bound : Q) : nat :=
  let d := Qabs (back - x) in
  code [Qleb d bound || Qleb (2 * pi_hi - d) bound].

(* order preservation on a sorted sample: inputs strictly increasing => outputs non-decreasing;
   flags: [inputs sorted (generator sanity); outputs ordered] *)
Fixpoint q_sorted (strict : bool) (l : list Q) : bool :=
  match l with
  | [] => true
  | x :: r => match r with
              | [] => true
              | y :: _ => (if strict then Qltb x y else Qleb x y) && q_sorted strict r
              end
  end.
Definition c14_mono_case (xs ys : list Q) : nat :=
  code [q_sorted true xs; q_sorted false ys; Nat.eqb (length xs) (length ys)].

(* ---------------------------------------------------------------- input representations
   AngularCoordinates / AngularDistances (and the from_3d constructors) accept any array-like:
   float16 / float32 / float64 arrays of either byte order and any memory layout, integer arrays,
   python sequences and scalars.  What the primitives compute on is the binary64 array of the SAME
   values (promotion is exact, see Proofs/SphereP.v: b16_in_b32, b32_in_b64, int_in_b64), so every
   statement above about values applies to every representation.

   A binary format is (p, E, M): precision p, smallest subnormal 2^-E, values below 2^M.
   binary16 = (11, 24, 16), binary32 = (24, 149, 128), binary64 = (53, 1074, 1024); the integers that
   a format holds exactly are those with |n| <= 2^p. *)
Definition in_format (p E M : Z) (x : Q) : Prop :=
  (exists m j : Z, (0 <= j)%Z /\ (Z.abs m < 2 ^ p)%Z /\ x * inject_Z (2 ^ E) == inject_Z (m * 2 ^ j))
  /\ Qabs x < inject_Z (2 ^ M).

Definition is_b16 : Q -> Prop := in_format 11 24 16.
Definition is_b32 : Q -> Prop := in_format 24 149 128.
Definition is_b64 : Q -> Prop := in_format 53 1074 1024.

(* executable membership test: x * 2^E is an integer whose odd part has at most p bits *)
Fixpoint odd_part (n : positive) : positive :=
  match n with xO q => odd_part q | _ => n end.
Definition fmtb (p E M : Z) (x : Q) : bool :=
  let y := Qred (x * inject_Z (2 ^ E)) in
  Pos.eqb (Qden y) 1
  && match Qnum y with
     | Z0 => true
     | Zpos n | Zneg n => Z.ltb (Zpos (odd_part n)) (2 ^ p)
     end
  && Qltb (Qabs x) (inject_Z (2 ^ M)).

(* one container: the source values (of the source format p E M) and the values the container
   holds / the constructor computes on.  flags: [held = source, value by value (the model: promotion
   is the identity on values); every source value is of the source format (generator sanity);
   every held value is a binary64 value] *)
Definition c14_repr_case (p E M : Z) (src held : list Q) : nat :=
  code [qlist_eqb held src; forallb (fmtb p E M) src; forallb (fmtb 53 1074 1024) held].
