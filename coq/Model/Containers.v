(* Model of the pair-count / data containers of yaw.correlation and their operators and
   indexers (C17):
     binning.py      Binning.__getitem__, __eq__
     utils/abc.py    Indexer (getitem / iteration protocol), BinwiseData.is_compatible,
                     PatchwiseData.is_compatible
     paircounts.py   PatchedCounts, PatchedSumWeights, NormalisedCounts
     corrfunc.py     CorrFunc (+, *, ==, bins, patches, sample)
     corrdata.py     SampledData / CorrData (+, -, ==, bins)
   Arrays are nested lists over Q:  counts : bins x patches x patches,
   sum_weights1/2 : bins x patches, samples : patches x bins.
   An operation that raises (ValueError / TypeError / IndexError) is [None] / [Err].

   The model is the REPAIRED algorithm where the pinned code is defective; the behaviour of
   the pinned code is modelled next to it under the suffix [_current]:
     F3  NormalisedCounts.__mul__ reads self.count           -> nc_mul_current
     F4  PatchedCounts._make_patch_slice: counts[:, item, item] with a list pairs the
         indices (numpy fancy indexing) instead of taking the sub-matrix
                                                              -> pc_patches_current
     F5  SampledData.__add__/__sub__ pass closed=self.closed -> sd_add_current
     new CorrFunc.__add__ iterates over self's members only  -> cf_add_current
   No proofs in this file. *)
From Verif Require Import Prelude.
Open Scope Q_scope.

(* ------------------------------------------------------------------ *)
(* generic list helpers                                                *)
(* ------------------------------------------------------------------ *)
Fixpoint map2 {A B C} (f : A -> B -> C) (l1 : list A) (l2 : list B) : list C :=
  match l1, l2 with
  | x :: xs, y :: ys => f x y :: map2 f xs ys
  | _, _ => []
  end.
Definition tab {A} (n : nat) (f : nat -> A) : list A := map f (seq 0 n).
(* numpy integer-array indexing along one axis: a[I] *)
Definition sel {A} (d : A) (l : list A) (I : list nat) : list A := map (fun i => nth i l d) I.
Definition all_lt (n : nat) (I : list nat) : bool := forallb (fun i => i <? n)%nat I.

Definition omap {A B} (f : A -> B) (o : option A) : option B :=
  match o with Some a => Some (f a) | None => None end.
Definition obind {A B} (o : option A) (f : A -> option B) : option B :=
  match o with Some a => f a | None => None end.
Definition opt_eqb {A} (eqb : A -> A -> bool) (a b : option A) : bool :=
  match a, b with Some x, Some y => eqb x y | None, None => true | _, _ => false end.
Fixpoint oseq {A} (l : list (option A)) : option (list A) :=
  match l with
  | [] => Some []
  | Some a :: r => omap (cons a) (oseq r)
  | None :: _ => None
  end.

(* ------------------------------------------------------------------ *)
(* index expressions: python int (may be negative), slice start:stop:step
   (step >= 1), list of ints                                           *)
(* ------------------------------------------------------------------ *)
Inductive selector :=
| SInt (i : Z)
| SSlice (start stop : option Z) (step : nat)
| SList (l : list Z).

Definition norm_index (n : nat) (i : Z) : option nat :=
  let j := if (i <? 0)%Z then (i + Z.of_nat n)%Z else i in
  if ((0 <=? j) && (j <? Z.of_nat n))%Z then Some (Z.to_nat j) else None.
Definition norm_list (n : nat) (l : list Z) : option (list nat) := oseq (map (norm_index n) l).
(* slice.indices(n) for a positive step *)
Definition clamp (n : nat) (dflt : nat) (o : option Z) : nat :=
  match o with
  | None => dflt
  | Some s => Z.to_nat (if (s <? 0)%Z then Z.max (s + Z.of_nat n) 0 else Z.min s (Z.of_nat n))
  end.
Definition slice_indices (n : nat) (start stop : option Z) (step : nat) : list nat :=
  let lo := clamp n 0 start in
  let hi := clamp n n stop in
  map (fun k => lo + k * step)%nat (seq 0 ((hi - lo + step - 1) / step)).
(* the positions an index expression selects on an axis of length n; None = IndexError *)
Definition resolve (n : nat) (s : selector) : option (list nat) :=
  match s with
  | SInt i => omap (fun j => [j]) (norm_index n i)
  | SSlice a b step => if (step =? 0)%nat then None else Some (slice_indices n a b step)
  | SList l => norm_list n l
  end.
Definition is_slice (s : selector) : bool := match s with SSlice _ _ _ => true | _ => false end.
Definition is_list (s : selector) : bool := match s with SList _ => true | _ => false end.

(* ------------------------------------------------------------------ *)
(* Binning                                                             *)
(* ------------------------------------------------------------------ *)
Record binning := { edges : list Q; closed_right : bool }.
Definition nbins (b : binning) : nat := pred (length (edges b)).
Fixpoint strictly_inc (l : list Q) : bool :=
  match l with
  | x :: (y :: _) as t => Qltb x y && strictly_inc t
  | _ => true
  end.
(* parse_binning *)
Definition bin_ok (b : binning) : bool := (2 <=? length (edges b))%nat && strictly_inc (edges b).
(* Binning.__eq__ *)
Definition bin_eqb (a b : binning) : bool :=
  qlist_eqb (edges a) (edges b) && Bool.eqb (closed_right a) (closed_right b).
(* Binning.__getitem__ for the positions I:  edges' = left[I] ++ [right[I][-1]];
   empty selection -> IndexError, non-increasing edges -> ValueError *)
Definition bin_select (b : binning) (I : list nat) : option binning :=
  match I with
  | [] => None
  | _ =>
    if all_lt (nbins b) I then
      let e := sel 0 (edges b) I ++ [nth (S (last I 0%nat)) (edges b) 0] in
      if strictly_inc e then Some {| edges := e; closed_right := closed_right b |} else None
    else None
  end.

(* ------------------------------------------------------------------ *)
(* SampledData / CorrData                                              *)
(* ------------------------------------------------------------------ *)
Record sdata := { sd_bin : binning; sd_data : list Q; sd_samples : list (list Q) }.
Definition sd_nsamples (d : sdata) : nat := length (sd_samples d).
Definition sd_wfb (d : sdata) : bool :=
  bin_ok (sd_bin d) && (length (sd_data d) =? nbins (sd_bin d))%nat
  && forallb (fun r => length r =? nbins (sd_bin d))%nat (sd_samples d).
Definition sd_eqb (a b : sdata) : bool :=
  bin_eqb (sd_bin a) (sd_bin b) && qlist_eqb (sd_data a) (sd_data b)
  && qmat_eqb (sd_samples a) (sd_samples b).
(* SampledData.is_compatible *)
Definition sd_compat (a b : sdata) : bool :=
  bin_eqb (sd_bin a) (sd_bin b) && (sd_nsamples a =? sd_nsamples b)%nat.
Definition sd_binop (f : Q -> Q -> Q) (a b : sdata) : option sdata :=
  if sd_compat a b then
    Some {| sd_bin := sd_bin a; sd_data := map2 f (sd_data a) (sd_data b);
            sd_samples := map2 (map2 f) (sd_samples a) (sd_samples b) |}
  else None.
Definition sd_add := sd_binop Qplus.
Definition sd_sub := sd_binop Qminus.
(* pinned code: evaluating [self.closed] raises AttributeError on every call that passes
   the compatibility check; the others raise there *)
Definition sd_add_current (a b : sdata) : option sdata := None.
Definition sd_sub_current (a b : sdata) : option sdata := None.
Definition sd_select (d : sdata) (I : list nat) : option sdata :=
  obind (bin_select (sd_bin d) I) (fun b =>
    if all_lt (length (sd_data d)) I then
      Some {| sd_bin := b; sd_data := sel 0 (sd_data d) I;
              sd_samples := map (fun r => sel 0 r I) (sd_samples d) |}
    else None).
(* _make_bin_slice: only int / slice selectors *)
Definition sd_bins (d : sdata) (s : selector) : option sdata :=
  if is_list s then None else obind (resolve (nbins (sd_bin d)) s) (sd_select d).
Definition sd_scale (k : Q) (d : sdata) : sdata :=
  {| sd_bin := sd_bin d; sd_data := map (Qmult k) (sd_data d);
     sd_samples := map (map (Qmult k)) (sd_samples d) |}.

(* ------------------------------------------------------------------ *)
(* sums over patch pairs and the leave-one-out trick                   *)
(* ------------------------------------------------------------------ *)
Definition mtotal (M : list (list Q)) : Q := qsum (map qsum M).
Definition mrow (M : list (list Q)) (k : nat) : Q := qsum (nth k M []).
Definition mcol (M : list (list Q)) (k : nat) : Q := qsum (map (fun r => nth k r 0) M).
Definition mdiag (M : list (list Q)) (k : nat) : Q := nth k (nth k M []) 0.
(* sample_patch_sum: sum_tiled - row_sum - col_sum + diag *)
Definition mjack (M : list (list Q)) (k : nat) : Q := mtotal M - mrow M k - mcol M k + mdiag M k.
(* sub-matrix [I x I] *)
Definition submat (M : list (list Q)) (I : list nat) : list (list Q) :=
  map (fun r => sel 0 r I) (sel [] M I).
Definition mat_shape_b (P : nat) (M : list (list Q)) : bool :=
  (length M =? P)%nat && forallb (fun r => length r =? P)%nat M.

(* ------------------------------------------------------------------ *)
(* PatchedCounts                                                       *)
(* ------------------------------------------------------------------ *)
Record pcounts := { pc_bin : binning; pc_auto : bool; pc_counts : list (list (list Q)) }.
Definition pc_np (c : pcounts) : nat := length (nth 0 (pc_counts c) []).      (* counts.shape[1] *)
Definition pc_nb (c : pcounts) : nat := length (pc_counts c).                 (* counts.shape[0] *)
(* what __init__ checks, plus the binning being a valid Binning *)
Definition pc_wfb (c : pcounts) : bool :=
  bin_ok (pc_bin c) && (pc_nb c =? nbins (pc_bin c))%nat
  && forallb (mat_shape_b (pc_np c)) (pc_counts c).
Definition pc_eqb (a b : pcounts) : bool :=
  bin_eqb (pc_bin a) (pc_bin b) && list_eqb qmat_eqb (pc_counts a) (pc_counts b)
  && Bool.eqb (pc_auto a) (pc_auto b).
(* BinwisePatchwiseArray.is_compatible *)
Definition pc_compat (a b : pcounts) : bool :=
  bin_eqb (pc_bin a) (pc_bin b) && (pc_np a =? pc_np b)%nat.
Definition pc_add (a b : pcounts) : option pcounts :=
  if pc_compat a b then
    Some {| pc_bin := pc_bin a; pc_auto := pc_auto a;
            pc_counts := map2 (map2 (map2 Qplus)) (pc_counts a) (pc_counts b) |}
  else None.
Definition pc_mul (k : Q) (a : pcounts) : pcounts :=
  {| pc_bin := pc_bin a; pc_auto := pc_auto a; pc_counts := map (map (map (Qmult k))) (pc_counts a) |}.
Definition pc_select_bins (c : pcounts) (I : list nat) : option pcounts :=
  obind (bin_select (pc_bin c) I) (fun b =>
    if all_lt (pc_nb c) I then
      Some {| pc_bin := b; pc_auto := pc_auto c; pc_counts := sel [] (pc_counts c) I |}
    else None).
Definition pc_bins (c : pcounts) (s : selector) : option pcounts :=
  obind (resolve (nbins (pc_bin c)) s) (pc_select_bins c).
(* SPEC of .patches[I]: the sub-matrix [I x I] in every bin *)
Definition pc_select_patches (c : pcounts) (I : list nat) : option pcounts :=
  if all_lt (pc_np c) I then
    Some {| pc_bin := pc_bin c; pc_auto := pc_auto c;
            pc_counts := map (fun M => submat M I) (pc_counts c) |}
  else None.
Definition pc_patches (c : pcounts) (s : selector) : option pcounts :=
  obind (resolve (pc_np c) s) (pc_select_patches c).
(* pinned code: counts[:, item, item].  With a slice numpy takes the sub-matrix; with a
   list (an int is wrapped into a list) numpy pairs the two index lists and returns the
   2-dim array  [b][m] = counts[b][I_m][I_m], which the constructor rejects. *)
Inductive ndarr := Arr2 (a : list (list Q)) | Arr3 (a : list (list (list Q))).
Definition fancy_pairs (C : list (list (list Q))) (I : list nat) : list (list Q) :=
  map (fun M => map (fun i => nth i (nth i M []) 0) I) C.
Definition pc_index_current (c : pcounts) (s : selector) (I : list nat) : ndarr :=
  if is_slice s then Arr3 (map (fun M => submat M I) (pc_counts c))
  else Arr2 (fancy_pairs (pc_counts c) I).
Definition pc_make (b : binning) (auto : bool) (a : ndarr) : option pcounts :=
  match a with
  | Arr3 C => Some {| pc_bin := b; pc_auto := auto; pc_counts := C |}
  | Arr2 _ => None          (* 'counts' must be three-dimensional *)
  end.
Definition pc_patches_current (c : pcounts) (s : selector) : option pcounts :=
  obind (resolve (pc_np c) s) (fun I =>
    if all_lt (pc_np c) I then pc_make (pc_bin c) (pc_auto c) (pc_index_current c s I) else None).

Definition pc_total_at (c : pcounts) (b : nat) : Q := mtotal (nth b (pc_counts c) []).
Definition pc_jack_at (c : pcounts) (k b : nat) : Q := mjack (nth b (pc_counts c) []) k.
Definition pc_sample (c : pcounts) : sdata :=
  {| sd_bin := pc_bin c; sd_data := tab (pc_nb c) (pc_total_at c);
     sd_samples := tab (pc_np c) (fun k => tab (pc_nb c) (pc_jack_at c k)) |}.

(* ------------------------------------------------------------------ *)
(* PatchedSumWeights                                                   *)
(* ------------------------------------------------------------------ *)
Record psumw := { sw_bin : binning; sw_auto : bool; sw1 : list (list Q); sw2 : list (list Q) }.
Definition sw_np (s : psumw) : nat := length (nth 0 (sw1 s) []).
Definition sw_nb (s : psumw) : nat := length (sw1 s).
Definition sw_wfb (s : psumw) : bool :=
  bin_ok (sw_bin s) && (sw_nb s =? nbins (sw_bin s))%nat && (length (sw2 s) =? sw_nb s)%nat
  && forallb (fun r => length r =? sw_np s)%nat (sw1 s)
  && forallb (fun r => length r =? sw_np s)%nat (sw2 s).
Definition sw_eqb (a b : psumw) : bool :=
  bin_eqb (sw_bin a) (sw_bin b) && qmat_eqb (sw1 a) (sw1 b) && qmat_eqb (sw2 a) (sw2 b)
  && Bool.eqb (sw_auto a) (sw_auto b).
Definition sw_compat (a b : psumw) : bool :=
  bin_eqb (sw_bin a) (sw_bin b) && (sw_np a =? sw_np b)%nat.
Definition sw_select_bins (s : psumw) (I : list nat) : option psumw :=
  obind (bin_select (sw_bin s) I) (fun b =>
    if all_lt (sw_nb s) I then
      Some {| sw_bin := b; sw_auto := sw_auto s; sw1 := sel [] (sw1 s) I; sw2 := sel [] (sw2 s) I |}
    else None).
Definition sw_bins (s : psumw) (x : selector) : option psumw :=
  obind (resolve (nbins (sw_bin s)) x) (sw_select_bins s).
Definition sw_select_patches (s : psumw) (I : list nat) : option psumw :=
  if all_lt (sw_np s) I then
    Some {| sw_bin := sw_bin s; sw_auto := sw_auto s;
            sw1 := map (fun r => sel 0 r I) (sw1 s); sw2 := map (fun r => sel 0 r I) (sw2 s) |}
  else None.
Definition sw_patches (s : psumw) (x : selector) : option psumw :=
  obind (resolve (sw_np s) x) (sw_select_patches s).
(* get_array: einsum("bi,bj->bij"); auto: np.triu and halved diagonal *)
Definition triu_w (auto : bool) (i j : nat) : Q :=
  if auto then (if (i <? j)%nat then 1 else if (i =? j)%nat then 1 # 2 else 0) else 1.
Definition outer_w (auto : bool) (r1 r2 : list Q) : list (list Q) :=
  tab (length r1) (fun i => tab (length r2) (fun j => triu_w auto i j * (nth i r1 0 * nth j r2 0))).
Definition sw_array_at (s : psumw) (b : nat) : list (list Q) :=
  outer_w (sw_auto s) (nth b (sw1 s) []) (nth b (sw2 s) []).
Definition sw_total_at (s : psumw) (b : nat) : Q := mtotal (sw_array_at s b).
Definition sw_jack_at (s : psumw) (k b : nat) : Q := mjack (sw_array_at s b) k.
Definition sw_sample (s : psumw) : sdata :=
  {| sd_bin := sw_bin s; sd_data := tab (sw_nb s) (sw_total_at s);
     sd_samples := tab (sw_np s) (fun k => tab (sw_nb s) (sw_jack_at s k)) |}.

(* ------------------------------------------------------------------ *)
(* NormalisedCounts                                                    *)
(* ------------------------------------------------------------------ *)
Record ncounts := { nc_counts : pcounts; nc_sumw : psumw }.
(* __init__ *)
Definition nc_make (c : pcounts) (s : psumw) : option ncounts :=
  if ((pc_np c =? sw_np s) && (nbins (pc_bin c) =? nbins (sw_bin s)))%nat
  then Some {| nc_counts := c; nc_sumw := s |} else None.
Definition nc_wfb (n : ncounts) : bool :=
  pc_wfb (nc_counts n) && sw_wfb (nc_sumw n)
  && (pc_np (nc_counts n) =? sw_np (nc_sumw n))%nat
  && bin_eqb (pc_bin (nc_counts n)) (sw_bin (nc_sumw n)).
Definition nc_eqb (a b : ncounts) : bool :=
  pc_eqb (nc_counts a) (nc_counts b) && sw_eqb (nc_sumw a) (nc_sumw b).
Definition nc_compat (a b : ncounts) : bool := pc_compat (nc_counts a) (nc_counts b).
Definition nc_add (a b : ncounts) : option ncounts :=
  if sw_eqb (nc_sumw a) (nc_sumw b) then
    obind (pc_add (nc_counts a) (nc_counts b)) (fun c => nc_make c (nc_sumw a))
  else None.
(* repaired: type(self)(self.counts * other, self.sum_weights) *)
Definition nc_mul (k : Q) (a : ncounts) : ncounts :=
  {| nc_counts := pc_mul k (nc_counts a); nc_sumw := nc_sumw a |}.
(* pinned code: self.count does not exist -> AttributeError for every operand *)
Definition nc_mul_current (k : Q) (a : ncounts) : option ncounts := None.
Definition nc_select_bins (n : ncounts) (I : list nat) : option ncounts :=
  obind (pc_select_bins (nc_counts n) I) (fun c =>
  obind (sw_select_bins (nc_sumw n) I) (fun s => nc_make c s)).
Definition nc_bins (n : ncounts) (x : selector) : option ncounts :=
  obind (resolve (nbins (pc_bin (nc_counts n))) x) (nc_select_bins n).
Definition nc_select_patches (n : ncounts) (I : list nat) : option ncounts :=
  obind (pc_select_patches (nc_counts n) I) (fun c =>
  obind (sw_select_patches (nc_sumw n) I) (fun s => nc_make c s)).
Definition nc_patches (n : ncounts) (x : selector) : option ncounts :=
  obind (resolve (pc_np (nc_counts n)) x) (nc_select_patches n).
Definition nc_total_at (n : ncounts) (b : nat) : Q :=
  pc_total_at (nc_counts n) b / sw_total_at (nc_sumw n) b.
Definition nc_jack_at (n : ncounts) (k b : nat) : Q :=
  pc_jack_at (nc_counts n) k b / sw_jack_at (nc_sumw n) k b.
Definition nc_sample (n : ncounts) : sdata :=
  let c := nc_counts n in
  {| sd_bin := pc_bin c; sd_data := tab (pc_nb c) (nc_total_at n);
     sd_samples := tab (pc_np c) (fun k => tab (pc_nb c) (nc_jack_at n k)) |}.

(* ------------------------------------------------------------------ *)
(* CorrFunc                                                            *)
(* ------------------------------------------------------------------ *)
Record corrfunc := { cf_dd : ncounts; cf_dr : option ncounts; cf_rd : option ncounts;
                     cf_rr : option ncounts }.
Definition is_some {A} (o : option A) : bool := match o with Some _ => true | None => false end.
Definition opt_all {A} (p : A -> bool) (o : option A) : bool :=
  match o with Some a => p a | None => true end.
(* __init__: at least one optional member; every member compatible with dd *)
Definition cf_make (dd : ncounts) (dr rd rr : option ncounts) : option corrfunc :=
  if (is_some dr || is_some rd || is_some rr)
     && opt_all (nc_compat dd) dr && opt_all (nc_compat dd) rd && opt_all (nc_compat dd) rr
  then Some {| cf_dd := dd; cf_dr := dr; cf_rd := rd; cf_rr := rr |} else None.
Definition cf_wfb (f : corrfunc) : bool :=
  nc_wfb (cf_dd f) && opt_all nc_wfb (cf_dr f) && opt_all nc_wfb (cf_rd f) && opt_all nc_wfb (cf_rr f)
  && is_some (cf_make (cf_dd f) (cf_dr f) (cf_rd f) (cf_rr f)).
Definition cf_eqb (a b : corrfunc) : bool :=
  nc_eqb (cf_dd a) (cf_dd b) && opt_eqb nc_eqb (cf_dr a) (cf_dr b)
  && opt_eqb nc_eqb (cf_rd a) (cf_rd b) && opt_eqb nc_eqb (cf_rr a) (cf_rr b).
Definition cf_compat (a b : corrfunc) : bool := nc_compat (cf_dd a) (cf_dd b).
(* member-wise lifting.  [strict]: the two operands must have the same optional members
   (SPEC: nothing is dropped, a + b and b + a are both defined or both rejected).
   [lenient] (pinned code): iterates over the members of the LEFT operand only; a member
   that only the right operand has is silently dropped, a member that only the left
   operand has makes [counts + None] raise TypeError. *)
Definition opt_add2 (strict : bool) (a b : option ncounts) : option (option ncounts) :=
  match a, b with
  | Some x, Some y => omap Some (nc_add x y)
  | Some _, None => None
  | None, Some _ => if strict then None else Some None
  | None, None => Some None
  end.
Definition cf_add_gen (strict : bool) (a b : corrfunc) : option corrfunc :=
  if cf_compat a b then
    obind (nc_add (cf_dd a) (cf_dd b)) (fun dd =>
    obind (opt_add2 strict (cf_dr a) (cf_dr b)) (fun dr =>
    obind (opt_add2 strict (cf_rd a) (cf_rd b)) (fun rd =>
    obind (opt_add2 strict (cf_rr a) (cf_rr b)) (fun rr => cf_make dd dr rd rr))))
  else None.
Definition cf_add := cf_add_gen true.
Definition cf_add_current := cf_add_gen false.
Definition cf_mul (k : Q) (a : corrfunc) : corrfunc :=
  {| cf_dd := nc_mul k (cf_dd a); cf_dr := omap (nc_mul k) (cf_dr a);
     cf_rd := omap (nc_mul k) (cf_rd a); cf_rr := omap (nc_mul k) (cf_rr a) |}.
Definition opt_lift (g : ncounts -> option ncounts) (o : option ncounts) : option (option ncounts) :=
  match o with Some n => omap Some (g n) | None => Some None end.
Definition cf_lift (g : ncounts -> option ncounts) (f : corrfunc) : option corrfunc :=
  obind (g (cf_dd f)) (fun dd =>
  obind (opt_lift g (cf_dr f)) (fun dr =>
  obind (opt_lift g (cf_rd f)) (fun rd =>
  obind (opt_lift g (cf_rr f)) (fun rr => cf_make dd dr rd rr)))).
Definition cf_select_bins (f : corrfunc) (I : list nat) := cf_lift (fun n => nc_select_bins n I) f.
Definition cf_select_patches (f : corrfunc) (I : list nat) := cf_lift (fun n => nc_select_patches n I) f.
Definition cf_bins (f : corrfunc) (x : selector) : option corrfunc :=
  obind (resolve (nbins (pc_bin (nc_counts (cf_dd f)))) x) (cf_select_bins f).
Definition cf_patches (f : corrfunc) (x : selector) : option corrfunc :=
  obind (resolve (pc_np (nc_counts (cf_dd f))) x) (cf_select_patches f).
(* estimators applied to one number [g n] per member (a total or a jackknife sample of a
   bin): Landy-Szalay when rr is present (needs dr; rd defaults to dr), otherwise
   Davis-Peebles with rd if present, else dr *)
Definition cf_est_defined (f : corrfunc) : bool :=
  if is_some (cf_rr f) then is_some (cf_dr f) else is_some (cf_dr f) || is_some (cf_rd f).
Definition cf_est (f : corrfunc) (g : ncounts -> Q) : Q :=
  match cf_rr f with
  | Some rr =>
    match cf_dr f with
    | Some dr =>
      let vrd := match cf_rd f with Some rd => g rd | None => g dr end in
      ((g (cf_dd f) - g dr) + (g rr - vrd)) / g rr
    | None => 0
    end
  | None =>
    match cf_rd f, cf_dr f with
    | Some m, _ => (g (cf_dd f) - g m) / g m
    | None, Some m => (g (cf_dd f) - g m) / g m
    | None, None => 0
    end
  end.
Definition cf_sample (f : corrfunc) : option sdata :=
  if cf_est_defined f then
    let c := nc_counts (cf_dd f) in
    Some {| sd_bin := pc_bin c;
            sd_data := tab (pc_nb c) (fun b => cf_est f (fun n => nc_total_at n b));
            sd_samples := tab (pc_np c) (fun k => tab (pc_nb c) (fun b => cf_est f (fun n => nc_jack_at n k b))) |}
  else None.

(* ------------------------------------------------------------------ *)
(* Indexer iteration protocol: callback(0), callback(1), ... until IndexError *)
(* ------------------------------------------------------------------ *)
Fixpoint iterate {A} (n : nat) (cb : selector -> option A) (fuel i : nat) : option (list A) :=
  match fuel with
  | O => Some []
  | S fuel' =>
    match resolve n (SInt (Z.of_nat i)) with
    | None => Some []                                  (* IndexError -> StopIteration *)
    | Some _ => obind (cb (SInt (Z.of_nat i))) (fun x => omap (cons x) (iterate n cb fuel' (S i)))
    end
  end.
Definition iter_all {A} (n : nat) (cb : selector -> option A) : option (list A) := iterate n cb (S n) 0.

(* ------------------------------------------------------------------ *)
(* uniform interface for the correspondence shards                     *)
(* ------------------------------------------------------------------ *)
Inductive cval := VPC (c : pcounts) | VSW (s : psumw) | VNC (n : ncounts) | VCF (f : corrfunc) | VSD (d : sdata).
Inductive outcome := Err | Val (v : cval) | Vals (l : list cval) | Flag (b : bool).
Inductive cop :=
| OAdd (y : cval)              (* x + y *)
| OSum (y : cval)              (* sum([x, y]) : 0 + x via __radd__, then + y *)
| OSub (y : cval)              (* x - y *)
| OMul (k : Q)                 (* x * k, k an int or float *)
| OMulBool                     (* x * True / x * False *)
| OEq (y : cval)               (* x == y *)
| OCompat (y : cval)           (* x.is_compatible(y) *)
| OBins (s : selector)         (* x.bins[s] *)
| OPatches (s : selector)      (* x.patches[s] *)
| OIterBins                    (* list(x.bins) *)
| OIterPatches                 (* list(x.patches) *)
| OSample                      (* sample_patch_sum() / CorrFunc.sample() *)
| OBinsSample (s : selector)   (* x.bins[s] then sample *)
| OPatchesSample (s : selector)(* x.patches[s] then sample *)
| OMulSample (k : Q).          (* (x * k) then sample *)

Definition oval {A} (inj : A -> cval) (o : option A) : outcome :=
  match o with Some a => Val (inj a) | None => Err end.
Definition ovals {A} (inj : A -> cval) (o : option (list A)) : outcome :=
  match o with Some l => Vals (map inj l) | None => Err end.

Definition v_sample (x : cval) : option sdata :=
  match x with
  | VPC c => Some (pc_sample c)
  | VSW s => Some (sw_sample s)
  | VNC n => Some (nc_sample n)
  | VCF f => cf_sample f
  | VSD _ => None
  end.
Definition v_bins (x : cval) (s : selector) : option cval :=
  match x with
  | VPC c => omap VPC (pc_bins c s)
  | VSW w => omap VSW (sw_bins w s)
  | VNC n => omap VNC (nc_bins n s)
  | VCF f => omap VCF (cf_bins f s)
  | VSD d => omap VSD (sd_bins d s)
  end.
Definition v_patches (x : cval) (s : selector) : option cval :=
  match x with
  | VPC c => omap VPC (pc_patches c s)
  | VSW w => omap VSW (sw_patches w s)
  | VNC n => omap VNC (nc_patches n s)
  | VCF f => omap VCF (cf_patches f s)
  | VSD _ => None
  end.
Definition v_select_patches (x : cval) (I : list nat) : option cval :=
  match x with
  | VPC c => omap VPC (pc_select_patches c I)
  | VSW w => omap VSW (sw_select_patches w I)
  | VNC n => omap VNC (nc_select_patches n I)
  | VCF f => omap VCF (cf_select_patches f I)
  | VSD _ => None
  end.
Definition v_nbins (x : cval) : nat :=
  match x with
  | VPC c => nbins (pc_bin c) | VSW w => nbins (sw_bin w) | VNC n => nbins (pc_bin (nc_counts n))
  | VCF f => nbins (pc_bin (nc_counts (cf_dd f))) | VSD d => nbins (sd_bin d)
  end.
Definition v_np (x : cval) : nat :=
  match x with
  | VPC c => pc_np c | VSW w => sw_np w | VNC n => pc_np (nc_counts n)
  | VCF f => pc_np (nc_counts (cf_dd f)) | VSD _ => 0%nat
  end.
Definition v_mul (k : Q) (x : cval) : option cval :=
  match x with
  | VPC c => Some (VPC (pc_mul k c))
  | VNC n => Some (VNC (nc_mul k n))
  | VCF f => Some (VCF (cf_mul k f))
  | _ => None                       (* no __mul__ : TypeError *)
  end.
Definition v_add (x y : cval) : option cval :=
  match x, y with
  | VPC a, VPC b => omap VPC (pc_add a b)
  | VNC a, VNC b => omap VNC (nc_add a b)
  | VCF a, VCF b => omap VCF (cf_add a b)
  | VSD a, VSD b => omap VSD (sd_add a b)
  | _, _ => None
  end.

(* the model of the (repaired) code path *)
Definition run (x : cval) (op : cop) : outcome :=
  match op with
  | OAdd y => oval id (v_add x y)
  | OSum y => match x with VPC _ | VNC _ => oval id (v_add x y) | _ => Err end
  | OSub y => match x, y with VSD a, VSD b => oval VSD (sd_sub a b) | _, _ => Err end
  | OMul k => oval id (v_mul k x)
  | OMulBool => Err
  | OEq y =>
    Flag match x, y with
         | VPC a, VPC b => pc_eqb a b | VSW a, VSW b => sw_eqb a b | VNC a, VNC b => nc_eqb a b
         | VCF a, VCF b => cf_eqb a b | VSD a, VSD b => sd_eqb a b | _, _ => false
         end
  | OCompat y =>
    Flag match x, y with
         | VPC a, VPC b => pc_compat a b | VSW a, VSW b => sw_compat a b | VNC a, VNC b => nc_compat a b
         | VCF a, VCF b => cf_compat a b | VSD a, VSD b => sd_compat a b | _, _ => false
         end
  | OBins s => oval id (v_bins x s)
  | OPatches s => oval id (v_patches x s)
  | OIterBins => ovals id (iter_all (v_nbins x) (v_bins x))
  | OIterPatches => match x with VSD _ => Err | _ => ovals id (iter_all (v_np x) (v_patches x)) end
  | OSample => oval VSD (v_sample x)
  | OBinsSample s => oval VSD (obind (v_bins x s) v_sample)
  | OPatchesSample s => oval VSD (obind (v_patches x s) v_sample)
  | OMulSample k => oval VSD (obind (v_mul k x) v_sample)
  end.

(* the other side of each law (the SPEC), stated with the simplest objects:
   - x + y, x * k: entry [b][i][j] computed by index
   - list(x.bins) / list(x.patches): the single-index selections 0..n-1 in order
   - sample after a bin selection: the same selection applied to the sample of x
   - sample after a patch selection I: total over I x I; jackknife sample m = the total
     over (I without its m-th entry)^2, i.e. the statistic with patch I_m left out as well
   - sample after x * k: k times the sample (counts), unchanged (CorrFunc, k <> 0) *)
Definition nth3 (C : list (list (list Q))) (b i j : nat) : Q := nth j (nth i (nth b C []) []) 0.
Definition pc_add_spec (a b : pcounts) : option pcounts :=
  if pc_compat a b then
    Some {| pc_bin := pc_bin a; pc_auto := pc_auto a;
            pc_counts := tab (pc_nb a) (fun b' => tab (pc_np a) (fun i => tab (pc_np a) (fun j =>
                           nth3 (pc_counts a) b' i j + nth3 (pc_counts b) b' i j))) |}
  else None.
Definition pc_mul_spec (k : Q) (a : pcounts) : pcounts :=
  {| pc_bin := pc_bin a; pc_auto := pc_auto a;
     pc_counts := tab (pc_nb a) (fun b' => tab (pc_np a) (fun i => tab (pc_np a) (fun j =>
                    k * nth3 (pc_counts a) b' i j))) |}.
Definition v_data (x : cval) : option (list Q) := omap sd_data (v_sample x).
Definition loo_sample (x : cval) (I : list nat) : option sdata :=
  obind (v_select_patches x I) (fun xs =>
  obind (v_sample xs) (fun s0 =>
  obind (oseq (tab (length I) (fun m => obind (v_select_patches x (remove_nth m I)) v_data))) (fun rows =>
    Some {| sd_bin := sd_bin s0; sd_data := sd_data s0; sd_samples := rows |}))).
Definition spec (x : cval) (op : cop) : outcome :=
  match op with
  | OAdd (VPC b) => match x with VPC a => oval VPC (pc_add_spec a b) | _ => Err end
  | OMul k => match x with VPC a => Val (VPC (pc_mul_spec k a)) | _ => run x op end
  | OIterBins => ovals id (oseq (tab (v_nbins x) (fun i => v_bins x (SInt (Z.of_nat i)))))
  | OIterPatches =>
    match x with VSD _ => Err
    | _ => ovals id (oseq (tab (v_np x) (fun i => v_patches x (SInt (Z.of_nat i))))) end
  | OBinsSample s =>
    oval VSD (obind (v_sample x) (fun d => obind (resolve (v_nbins x) s) (sd_select d)))
  | OPatchesSample s => oval VSD (obind (resolve (v_np x) s) (loo_sample x))
  | OMulSample k =>
    match x with
    | VPC _ | VNC _ => oval VSD (omap (sd_scale k) (v_sample x))
    | VCF _ => if Qeqb k 0 then run x op else oval VSD (v_sample x)
    | _ => Err
    end
  | _ => run x op
  end.

(* ---- relations used in the statements of Props/C17.v ---- *)
(* entry-wise rational equality of nested lists *)
Definition qeq1 := Forall2 Qeq.
Definition qeq2 := Forall2 qeq1.
Definition qeq3 := Forall2 qeq2.
Definition pc_equiv (r r' : pcounts) : Prop :=
  bin_eqb (pc_bin r) (pc_bin r') = true /\ qeq3 (pc_counts r) (pc_counts r').
Definition sd_equiv (a b : sdata) : Prop :=
  sd_bin a = sd_bin b /\ qeq1 (sd_data a) (sd_data b) /\ qeq2 (sd_samples a) (sd_samples b).
(* the i-th item of c.bins: one bin with edges [e_i, e_{i+1}] and the counts of bin i *)
Definition pc_bin_item (c : pcounts) (i : nat) : pcounts :=
  {| pc_bin := {| edges := [nth i (edges (pc_bin c)) 0; nth (S i) (edges (pc_bin c)) 0];
                  closed_right := closed_right (pc_bin c) |};
     pc_auto := pc_auto c; pc_counts := [nth i (pc_counts c) []] |}.
(* the i-th item of c.patches: the 1 x 1 matrix counts[b][i][i] in every bin *)
Definition pc_patch_item (c : pcounts) (i : nat) : pcounts :=
  {| pc_bin := pc_bin c; pc_auto := pc_auto c;
     pc_counts := map (fun M => [[nth i (nth i M []) 0]]) (pc_counts c) |}.

(* ---- comparison of an observed outcome with a computed one ---- *)
(* |a - b| <= 2^-40 (1 + |b|): results of divisions of (differences of) rounded ratios *)
Definition tol40 : Q := 1 # 1099511627776.
Definition qnear (a b : Q) : bool := Qleb (Qabs (a - b)) (tol40 * (1 + Qabs b)).
Definition sd_cmp (exact : bool) (a b : sdata) : bool :=
  if exact then sd_eqb a b
  else bin_eqb (sd_bin a) (sd_bin b) && list_eqb qnear (sd_data a) (sd_data b)
       && list_eqb (list_eqb qnear) (sd_samples a) (sd_samples b).
Definition cval_cmp (exact : bool) (a b : cval) : bool :=
  match a, b with
  | VPC x, VPC y => pc_eqb x y
  | VSW x, VSW y => sw_eqb x y
  | VNC x, VNC y => nc_eqb x y
  | VCF x, VCF y => cf_eqb x y
  | VSD x, VSD y => sd_cmp exact x y
  | _, _ => false
  end.
Definition outcome_cmp (exact : bool) (a b : outcome) : bool :=
  match a, b with
  | Err, Err => true
  | Val x, Val y => cval_cmp exact x y
  | Vals l1, Vals l2 => list_eqb (cval_cmp exact) l1 l2
  | Flag p, Flag q => Bool.eqb p q
  | _, _ => false
  end.
Definition cval_wfb (x : cval) : bool :=
  match x with
  | VPC c => pc_wfb c | VSW s => sw_wfb s | VNC n => nc_wfb n | VCF f => cf_wfb f | VSD d => sd_wfb d
  end.
Definition outcome_wfb (o : outcome) : bool :=
  match o with Val v => cval_wfb v | Vals l => forallb cval_wfb l | _ => true end.

(* one correspondence case.  impl = what the implementation returned (Err = it raised
   ValueError / TypeError / IndexError).
   flag0: the model of the code path agrees with the implementation
   flag1: the law (spec side) holds on the implementation's output
   flag2: the operand handed to the model is well formed (harness sanity) and the
          implementation's result, if any, is a well-formed container
   flag3: see below *)
Definition is_err (o : outcome) : bool := match o with Err => true | _ => false end.
Definition c17_case (exact : bool) (x : cval) (op : cop) (impl : outcome) : nat :=
  code [ outcome_cmp exact impl (run x op);
         outcome_cmp exact impl (spec x op);
         cval_wfb x && outcome_wfb impl;
         (* flag3: an operation the model rejects was rejected by the implementation *)
         negb (is_err (run x op)) || is_err impl ].
