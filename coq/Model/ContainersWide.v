(* C17 — selection (.patches[...] / .bins[...]) on containers with MANY patches or bins, by index expressions of
   every representation: python ints, numpy integer scalars, slices, python lists, integer arrays of any dtype
   (int8 .. int64, uint8 .. uint64), boolean masks.

   The documented algebra speaks about the VALUES of the indices, which are integers without a bound: an index
   array of dtype int16 holding 181 selects patch 181 exactly like the python int 181.  Hence the model's index
   lists are lists over Z / nat (Containers.v: selector, resolve) whatever the representation, and
     result[b][a][c] = counts[b][I_a][I_c]                       (sub-matrix, all entries of the ORIGINAL container)
   for containers of any size.  Containers with thousands of patches are given as FUNCTIONS of the position
   (pc_of_fun ...) so that a selection of a few patches out of 2000 can be evaluated without building the
   2000 x 2000 matrix; Proofs/ContainersWideP.v shows that this is the selection of Containers.v on the
   materialised container.

   The second half models the shortcut "gather from the flattened patch-pair axis at i * P + j" with the index
   arithmetic carried out in a machine integer type of w bits (numpy: the dtype of the caller's index array) and
   numpy's treatment of negative positions; it is exact over unbounded integers and for P * P <= 2^(w-1), and
   wrong from 182 patches on for w = 16 (the library's own patch-id dtype), 12 patches for int8, 17 for uint8.
   No axioms. *)
From Verif Require Import Prelude Containers.
Open Scope Q_scope.

(* ------------------------------------------------------------------ *)
(* index expressions: the ones of Containers.v plus boolean masks      *)
(* ------------------------------------------------------------------ *)
Inductive wsel :=
| WSel (s : selector)          (* int / numpy integer scalar -> SInt; slice -> SSlice; list / integer array -> SList *)
| WMask (m : list bool).       (* numpy bool array / python list of bools *)

Fixpoint mask_from (k : nat) (m : list bool) : list nat :=
  match m with
  | [] => []
  | b :: r => (if b then [k] else []) ++ mask_from (S k) r
  end.
(* numpy: a boolean index must have the length of the axis (IndexError otherwise) and selects flatnonzero *)
Definition wresolve (n : nat) (w : wsel) : option (list nat) :=
  match w with
  | WSel s => resolve n s
  | WMask m => if (length m =? n)%nat then Some (mask_from 0 m) else None
  end.
Definition w_int_or_slice (w : wsel) : bool :=
  match w with WSel (SInt _) => true | WSel (SSlice _ _ _) => true | _ => false end.

(* ------------------------------------------------------------------ *)
(* containers given by functions of the position                       *)
(* ------------------------------------------------------------------ *)
Definition pc_of_fun (bin : binning) (auto : bool) (nb P : nat) (f : nat -> nat -> nat -> Q) : pcounts :=
  {| pc_bin := bin; pc_auto := auto;
     pc_counts := tab nb (fun b => tab P (fun i => tab P (fun j => f b i j))) |}.
Definition sw_of_fun (bin : binning) (auto : bool) (nb P : nat) (g1 g2 : nat -> nat -> Q) : psumw :=
  {| sw_bin := bin; sw_auto := auto;
     sw1 := tab nb (fun b => tab P (g1 b)); sw2 := tab nb (fun b => tab P (g2 b)) |}.
Definition sd_of_fun (bin : binning) (nb M : nat) (d : nat -> Q) (s : nat -> nat -> Q) : sdata :=
  {| sd_bin := bin; sd_data := tab nb d; sd_samples := tab M (fun m => tab nb (s m)) |}.

(* selection on the functions: only the selected entries are ever evaluated *)
Definition fpc_select_patches bin auto (nb P : nat) (f : nat -> nat -> nat -> Q) (I : list nat) : option pcounts :=
  if all_lt P I then
    Some {| pc_bin := bin; pc_auto := auto;
            pc_counts := tab nb (fun b => map (fun i => map (fun j => f b i j) I) I) |}
  else None.
Definition fpc_select_bins bin auto (nb P : nat) (f : nat -> nat -> nat -> Q) (I : list nat) : option pcounts :=
  obind (bin_select bin I) (fun b' =>
    if all_lt nb I then
      Some {| pc_bin := b'; pc_auto := auto;
              pc_counts := map (fun b => tab P (fun i => tab P (fun j => f b i j))) I |}
    else None).
Definition fsw_select_patches bin auto (nb P : nat) (g1 g2 : nat -> nat -> Q) (I : list nat) : option psumw :=
  if all_lt P I then
    Some {| sw_bin := bin; sw_auto := auto;
            sw1 := tab nb (fun b => map (g1 b) I); sw2 := tab nb (fun b => map (g2 b) I) |}
  else None.
Definition fsw_select_bins bin auto (nb P : nat) (g1 g2 : nat -> nat -> Q) (I : list nat) : option psumw :=
  obind (bin_select bin I) (fun b' =>
    if all_lt nb I then
      Some {| sw_bin := b'; sw_auto := auto;
              sw1 := map (fun b => tab P (g1 b)) I; sw2 := map (fun b => tab P (g2 b)) I |}
    else None).
Definition fsd_select bin (nb M : nat) (d : nat -> Q) (s : nat -> nat -> Q) (I : list nat) : option sdata :=
  obind (bin_select bin I) (fun b' =>
    if all_lt nb I then
      Some {| sd_bin := b'; sd_data := map d I; sd_samples := tab M (fun m => map (s m) I) |}
    else None).

(* ------------------------------------------------------------------ *)
(* position codes: every entry of a container names its own position   *)
(* ------------------------------------------------------------------ *)
(* computed in Z: the positions of a 2000 x 2000 matrix are not numbers to write in unary *)
Definition code3 (off : Z) (P b i j : nat) : Q :=
  inject_Z (off + ((Z.of_nat b * Z.of_nat P + Z.of_nat i) * Z.of_nat P + Z.of_nat j)).
Definition code2 (off : Z) (P b i : nat) : Q := inject_Z (off + (Z.of_nat b * Z.of_nat P + Z.of_nat i)).

(* a coded leaf container: PatchedCounts  counts[b][i][j] = off + (b P + i) P + j
                           PatchedSumWeights  sw1[b][i] = off + b P + i,  sw2[b][i] = off2 + b P + i
                           CorrData (P = number of samples)  data[b] = off + b,  samples[m][b] = off2 + m nb + b *)
Record wcoded := { w_bin : binning; w_auto : bool; w_nb : nat; w_np : nat; w_off : Z; w_off2 : Z }.
Inductive wleaf := LPC | LSW | LSD.
Inductive waxis := WBins | WPatches.
Inductive wobs := WErr | WPC (c : pcounts) | WSW (s : psumw) | WSD (d : sdata).

Definition w_counts (c : wcoded) := code3 (w_off c) (w_np c).
Definition w_g1 (c : wcoded) := code2 (w_off c) (w_np c).
Definition w_g2 (c : wcoded) := code2 (w_off2 c) (w_np c).
Definition w_data (c : wcoded) (b : nat) : Q := inject_Z (w_off c + Z.of_nat b).
Definition w_samples (c : wcoded) := code2 (w_off2 c) (w_nb c).

Definition w_container (leaf : wleaf) (c : wcoded) : cval :=
  match leaf with
  | LPC => VPC (pc_of_fun (w_bin c) (w_auto c) (w_nb c) (w_np c) (w_counts c))
  | LSW => VSW (sw_of_fun (w_bin c) (w_auto c) (w_nb c) (w_np c) (w_g1 c) (w_g2 c))
  | LSD => VSD (sd_of_fun (w_bin c) (w_nb c) (w_np c) (w_data c) (w_samples c))
  end.

Definition wlift {A} (inj : A -> wobs) (o : option A) : wobs := match o with Some a => inj a | None => WErr end.

(* what the documented algebra requires of  x.patches[w] / x.bins[w]  on the coded container *)
Definition wmodel (leaf : wleaf) (c : wcoded) (ax : waxis) (w : wsel) : wobs :=
  match leaf, ax with
  | LPC, WPatches => wlift WPC (obind (wresolve (w_np c) w)
                        (fpc_select_patches (w_bin c) (w_auto c) (w_nb c) (w_np c) (w_counts c)))
  | LPC, WBins => wlift WPC (obind (wresolve (nbins (w_bin c)) w)
                        (fpc_select_bins (w_bin c) (w_auto c) (w_nb c) (w_np c) (w_counts c)))
  | LSW, WPatches => wlift WSW (obind (wresolve (w_np c) w)
                        (fsw_select_patches (w_bin c) (w_auto c) (w_nb c) (w_np c) (w_g1 c) (w_g2 c)))
  | LSW, WBins => wlift WSW (obind (wresolve (nbins (w_bin c)) w)
                        (fsw_select_bins (w_bin c) (w_auto c) (w_nb c) (w_np c) (w_g1 c) (w_g2 c)))
  | LSD, WBins => if w_int_or_slice w      (* SampledData._make_bin_slice: only int / slice selectors *)
                  then wlift WSD (obind (wresolve (nbins (w_bin c)) w)
                        (fsd_select (w_bin c) (w_nb c) (w_np c) (w_data c) (w_samples c)))
                  else WErr
  | LSD, WPatches => WErr
  end.

Definition is_werr (o : wobs) : bool := match o with WErr => true | _ => false end.
Definition wobs_eqb (a b : wobs) : bool :=
  match a, b with
  | WErr, WErr => true
  | WPC x, WPC y => pc_eqb x y
  | WSW x, WSW y => sw_eqb x y
  | WSD x, WSD y => sd_eqb x y
  | _, _ => false
  end.
(* shapes of a returned leaf: rectangular, first axis = bins of its binning (an empty patch selection is the
   (nb, 0, 0) array, which pc_wfb accepts; a bin selection is never empty) *)
Definition wobs_wfb (o : wobs) : bool :=
  match o with WErr => true | WPC c => pc_wfb c | WSW s => sw_wfb s | WSD d => sd_wfb d end.
Definition w_wf (c : wcoded) : bool :=
  bin_ok (w_bin c) && (nbins (w_bin c) =? w_nb c)%nat && (1 <=? w_nb c)%nat.

(* one correspondence case.  impl = the leaf the implementation returned (WErr = it raised ValueError / TypeError /
   IndexError).  strict = false for representations outside the documented index types (numpy integer scalars,
   0-dimensional arrays): rejecting them is accepted, a result must still be the right one.
   flag0 (1): the result is the model's selection
   flag1 (2): the coded container is well formed (harness sanity) and the result is a well-formed container
   flag2 (4): a selection the model rejects was rejected *)
Definition c17_wide_case (strict : bool) (leaf : wleaf) (c : wcoded) (ax : waxis) (w : wsel) (impl : wobs) : nat :=
  let m := wmodel leaf c ax w in
  code [ wobs_eqb impl m || (negb strict && is_werr impl);
         w_wf c && wobs_wfb impl;
         negb (is_werr m) || is_werr impl ].

(* ------------------------------------------------------------------ *)
(* gathering through the flattened patch-pair axis, index arithmetic   *)
(* in a machine integer type                                           *)
(* ------------------------------------------------------------------ *)
Inductive idtype := IUnbounded | ISigned (w : Z) | IUnsigned (w : Z).
(* two's complement wrap-around of w-bit integers *)
Definition wrap (d : idtype) (z : Z) : Z :=
  match d with
  | IUnbounded => z
  | ISigned w => ((z + 2 ^ (w - 1)) mod 2 ^ w - 2 ^ (w - 1))%Z
  | IUnsigned w => (z mod 2 ^ w)%Z
  end.
(* numpy, integer index k on an axis of length n: negative positions count from the end *)
Definition np_index (n k : Z) : option Z :=
  let k' := if (k <? 0)%Z then (k + n)%Z else k in
  if ((0 <=? k') && (k' <? n))%Z then Some k' else None.
(* position on the flattened (P * P) axis computed as idx_a * P + idx_c in the type d *)
Definition flat_index (d : idtype) (P i j : Z) : option Z :=
  np_index (P * P) (wrap d (wrap d (i * P) + j)).
Definition unflat (P k : Z) : Z * Z := (k / P, k mod P)%Z.
Definition flat_entry (d : idtype) (P : nat) (M : nat -> nat -> Q) (i j : nat) : option Q :=
  omap (fun k => M (Z.to_nat (fst (unflat (Z.of_nat P) k))) (Z.to_nat (snd (unflat (Z.of_nat P) k))))
       (flat_index d (Z.of_nat P) (Z.of_nat i) (Z.of_nat j)).
Definition flat_gather (d : idtype) (P : nat) (M : nat -> nat -> Q) (I : list nat) : option (list (list Q)) :=
  oseq (map (fun i => oseq (map (fun j => flat_entry d P M i j) I)) I).
(* the whole selection done that way *)
Definition fpc_select_patches_flat (d : idtype) bin auto (nb P : nat) (f : nat -> nat -> nat -> Q) (I : list nat)
  : option pcounts :=
  if all_lt P I then
    omap (fun C => {| pc_bin := bin; pc_auto := auto; pc_counts := C |})
         (oseq (tab nb (fun b => flat_gather d P (f b) I)))
  else None.
(* does the type d lose a position of a P x P matrix?  (boolean, for computations on ranges of P) *)
Definition flat_exact_b (d : idtype) (P : nat) : bool :=
  forallb (fun i => forallb (fun j =>
    match flat_index d (Z.of_nat P) (Z.of_nat i) (Z.of_nat j) with
    | Some k => (k =? Z.of_nat i * Z.of_nat P + Z.of_nat j)%Z
    | None => false
    end) (seq 0 P)) (seq 0 P).
(* the first row whose flat positions leave the int16 range, column 0 *)
Definition int16_witness (P : Z) : Z := (32767 / P + 1)%Z.
