(* Model of the pair counting (catalog/trees.py, correlation/measurements.py):
     AngularTree.count, dispatch_counts, get_counts_for_limits (nearest-edge summation),
     separation weighting, PatchLinkage.from_catalogs / iter_patch_id_pairs / count_pairs,
     get_max_angle — and the brute-force specification they must equal.
   A "pair" is (separation, weight product); separations and thresholds live on one common
   monotone scale (the harness uses squared chord lengths of the implementation's own unit
   vectors, exact integers at a common power-of-two scale).  Executable definitions only. *)
From Verif Require Import Prelude.
Open Scope Q_scope.

Definition pairs := list (Q * Q).

(* ---------- specification ---------- *)
Definition in_range (lo hi d : Q) : bool := Qltb lo d && Qleb d hi.
Definition w_le (r : Q) (ps : pairs) : Q :=
  qsum (map (fun p => if Qleb (fst p) r then snd p else 0) ps).
(* Σ w [lo < d <= hi] *)
Definition w_in (lo hi : Q) (ps : pairs) : Q :=
  qsum (map (fun p => if in_range lo hi (fst p) then snd p else 0) ps).

(* ---------- scipy KDTree.count_neighbors on ascending radii ---------- *)
Definition cn_cum (r : list Q) (ps : pairs) : list Q := map (fun x => w_le x ps) r.
Fixpoint cn_bin_from (prev : Q) (r : list Q) (ps : pairs) : list Q :=
  match r with [] => [] | x :: xs => w_in prev x ps :: cn_bin_from x xs ps end.
Definition cn_bin (r : list Q) (ps : pairs) : list Q :=
  match r with [] => [] | x :: xs => w_le x ps :: cn_bin_from x xs ps end.

(* ---------- dispatch_counts ---------- *)
Fixpoint diffs (l : list Q) : list Q :=
  match l with a :: ((b :: _) as t) => (b - a) :: diffs t | _ => [] end.
Definition dispatch (cum : bool) (c : list Q) : list Q := if cum then diffs c else tl c.

(* ---------- get_counts_for_limits: np.argmin(np.abs(ang_bins - x)) = first minimum ---------- *)
Fixpoint argmin_from (best : Q) (ibest i : nat) (l : list Q) : nat :=
  match l with
  | [] => ibest
  | y :: r => if Qltb y best then argmin_from y i (S i) r else argmin_from best ibest (S i) r
  end.
Definition argmin (l : list Q) : nat :=
  match l with [] => O | y :: r => argmin_from y O 1%nat r end.
Definition nearest (edges : list Q) (x : Q) : nat := argmin (map (fun e => Qabs (e - x)) edges).
Definition slice_sum (c : list Q) (imin imax : nat) : Q := qsum (firstn (imax - imin) (skipn imin c)).

(* separation weighting: counts *= alpha / alpha.sum() *)
Fixpoint zipmul (a b : list Q) : list Q :=
  match a, b with x :: xs, y :: ys => (x * y) :: zipmul xs ys | _, _ => [] end.
(* alpha / alpha.sum(), with fractions reduced (same rationals, smaller representations) *)
Definition norm_alpha (a : list Q) : list Q :=
  let t := qsumr a in map (fun x => Qred (x / t)) a.
Definition apply_alpha (alpha : option (list Q)) (c : list Q) : list Q :=
  match alpha with
  | None => c
  | Some a => zipmul c (norm_alpha a)
  end.

(* AngularTree.count: grid = thresholds of the merged angular grid (ascending),
   angs = the same grid as angles, lims = the (lo, hi) angles of each scale.
   The code counts cumulatively iff the grid has fewer than 8 edges. *)
Definition tree_count (grid angs : list Q) (alpha : option (list Q)) (lims : list (Q * Q)) (ps : pairs) : list Q :=
  let cum := (length grid <? 8)%nat in
  let raw := if cum then cn_cum grid ps else cn_bin grid ps in
  let c := apply_alpha alpha (dispatch cum raw) in
  map (fun lh => slice_sum c (nearest angs (fst lh)) (nearest angs (snd lh))) lims.

(* the specification of the same call: thresholds of the scale limits themselves *)
Fixpoint fine_weight (grid : list Q) (a : list Q) (d : Q) : Q :=
  match grid, a with
  | g0 :: ((g1 :: _) as gt), a0 :: at_ => if in_range g0 g1 d then a0 else fine_weight gt at_ d
  | _, _ => 0
  end.
Definition spec_count (grid : list Q) (alpha : option (list Q)) (lo hi : Q) (ps : pairs) : Q :=
  match alpha with
  | None => w_in lo hi ps
  | Some a => let an := norm_alpha a in
              qsumr (map (fun p => if in_range lo hi (fst p)
                                   then Qred (snd p * fine_weight grid an (fst p)) else 0) ps)
  end.

(* ---------- objects and catalogs (end to end) ---------- *)
(* integer coordinates at a common power-of-two scale, weight, redshift bin (1..nbins; 0 or
   nbins+1 = outside), patch *)
Record obj := { ox : Z; oy : Z; oz : Z; ow : Q; obin : nat; opatch : nat }.
Definition dist2 (a b : obj) : Q :=
  inject_Z ((ox a - ox b) * (ox a - ox b) + (oy a - oy b) * (oy a - oy b) + (oz a - oz b) * (oz a - oz b)).
Definition mkpairs (A B : list obj) : pairs :=
  flat_map (fun a => map (fun b => (dist2 a b, ow a * ow b)) B) A.

Definition sel (C : list obj) (patch : nat) (bin : option nat) : list obj :=
  filter (fun o => (opatch o =? patch)%nat &&
                   match bin with None => true | Some b => (obin o =? S b)%nat end) C.
Definition sumw (l : list obj) : Q := qsum (map ow l).

(* per redshift bin: the grid (thresholds and angles), optional alpha, and the scale limits as
   (angle lo, angle hi, threshold lo, threshold hi) *)
Record bincfg := { bgrid : list Q; bangs : list Q; balpha : option (list Q);
                   blims : list (Q * Q); bthr : list (Q * Q) }.

(* process_patch_pair for one bin: list over scales *)
Definition ppp (cfg : bincfg) (A B : list obj) : list Q :=
  tree_count (bgrid cfg) (bangs cfg) (balpha cfg) (blims cfg) (mkpairs A B).
Definition ppp_spec (cfg : bincfg) (A B : list obj) : list Q :=
  map (fun t => spec_count (bgrid cfg) (balpha cfg) (fst t) (snd t) (mkpairs A B)) (bthr cfg).

(* ---------- patch linkage ---------- *)
(* dist i j : separations of the reference centres; rad i : per patch the largest extent of any
   catalog around the reference centre; M = get_max_angle (maximum over bin centres).
   Repaired algorithm (non-strict test); the pinned commit used `<`, the radii of the largest
   catalog only and the angle at max(zmin, 0.05): see prune_lt_refuted, maxangle_lowz_refuted *)
Definition linked (dist : nat -> nat -> Q) (rad : nat -> Q) (M : Q) (i j : nat) : bool :=
  Qleb (dist i j) (rad i + rad j + M).
Definition links (dist : nat -> nat -> Q) (rad : nat -> Q) (M : Q) (n i : nat) : list nat :=
  filter (linked dist rad M i) (seq 0 n).
(* iter_patch_id_pairs (up to order): all (i,i), then (i,j) for j linked, j <> i, and j > i for auto *)
Definition id_pairs (auto : bool) (lk : nat -> list nat) (ids : list nat) : list (nat * nat) :=
  map (fun i => (i, i)) ids ++
  flat_map (fun i => map (pair i)
     (filter (fun j => negb (j =? i)%nat && (negb auto || (i <? j)%nat)) (lk i))) ids.

(* count_pairs: cells written for the listed pairs only, diagonal halved for auto *)
Definition cell_value (auto : bool) (cfgs : list bincfg) (C1 C2 : list obj) (binned2 : bool)
           (s b i j : nat) : Q :=
  let cfg := nth b cfgs {| bgrid := []; bangs := []; balpha := None; blims := []; bthr := [] |} in
  let A := sel C1 i (Some b) in
  let B := sel C2 j (if binned2 then Some b else None) in
  let v := nth s (ppp cfg A B) 0 in
  if auto && (i =? j)%nat then v * (1 # 2) else v.
Definition pair_mem (p : nat * nat) (l : list (nat * nat)) : bool :=
  existsb (fun q => (fst q =? fst p)%nat && (snd q =? snd p)%nat) l.
Definition count_cell (auto : bool) (cfgs : list bincfg) (C1 C2 : list obj) (binned2 : bool)
           (prs : list (nat * nat)) (s b i j : nat) : Q :=
  if pair_mem (i, j) prs then cell_value auto cfgs C1 C2 binned2 s b i j else 0.

(* specification of one cell: every object pair in (lo,hi], an autocorrelation counts every
   unordered pair once (upper triangle, diagonal = half the ordered double sum) *)
Definition spec_cell (auto : bool) (cfgs : list bincfg) (C1 C2 : list obj) (binned2 : bool)
           (s b i j : nat) : Q :=
  let cfg := nth b cfgs {| bgrid := []; bangs := []; balpha := None; blims := []; bthr := [] |} in
  let A := sel C1 i (Some b) in
  let B := sel C2 j (if binned2 then Some b else None) in
  let v := nth s (ppp_spec cfg A B) 0 in
  if auto then (if (i <? j)%nat then v else if (i =? j)%nat then v * (1 # 2) else 0) else v.

(* ---------- get_max_angle ---------- *)
(* theta s z : upper angle of scale s at redshift z (oracle table);  current code: angle at
   max(zmin, limit); repaired: maximum over all scales and all bin centres *)
Definition qmax (a b : Q) : Q := if Qleb a b then b else a.
Definition qmax_list (l : list Q) : Q := fold_right qmax 0 l.
Definition max_angle_fix (thetas : list (list Q)) : Q := qmax_list (map qmax_list thetas).

(* ---------- correspondence checkers ---------- *)
Definition qclose40 (a b : Q) : bool := Qleb (Qabs (a - b)) ((1 # 1099511627776) * Qabs b) || Qeqb a b.
Definition qlist_ok (exact : bool) (a b : list Q) : bool :=
  if exact then qlist_eqb a b else list_eqb qclose40 a b.

(* L1: one AngularTree.count call.  A, B as objects (bin/patch fields unused) *)
Definition c01_tree_case (A B : list obj) (cfg : bincfg) (impl : list Q) : nat :=
  let exact := match balpha cfg with None => true | Some _ => false end in
  code [ qlist_ok exact (ppp cfg A B) impl;        (* model = implementation *)
         qlist_ok exact (ppp_spec cfg A B) impl ]. (* specification = implementation *)

(* L3: end to end.  impl_counts : scale -> bin -> i -> j ; sw1, sw2 : bin -> patch *)
Definition mat4 (f : nat -> nat -> nat -> nat -> Q) (ns nb np : nat) : list (list (list (list Q))) :=
  map (fun s => map (fun b => map (fun i => map (fun j => f s b i j) (seq 0 np)) (seq 0 np)) (seq 0 nb)) (seq 0 ns).
Definition mat4_ok (exact : bool) (a b : list (list (list (list Q)))) : bool :=
  list_eqb (list_eqb (list_eqb (qlist_ok exact))) a b.

Definition c01_e2e_case (auto binned2 : bool) (C1 C2 : list obj) (cfgs : list bincfg)
           (ns np : nat) (dist : list (list Q)) (rad : list Q) (M : Q)
           (impl_counts : list (list (list (list Q)))) (sw1 sw2 : list (list Q)) : nat :=
  let nb := length cfgs in
  let exact := forallb (fun c => match balpha c with None => true | Some _ => false end) cfgs in
  let d := fun i j => nth j (nth i dist []) 0 in
  let r := fun i => nth i rad 0 in
  let prs := id_pairs auto (links d r M np) (seq 0 np) in
  let model := mat4 (count_cell auto cfgs C1 C2 binned2 prs) ns nb np in
  let spec := mat4 (spec_cell auto cfgs C1 C2 binned2) ns nb np in
  let sws := fun (C : list obj) (binned : bool) =>
     map (fun b => map (fun i => sumw (sel C i (if binned then Some b else None))) (seq 0 np)) (seq 0 nb) in
  code [ mat4_ok exact model impl_counts;
         mat4_ok exact spec impl_counts;
         qmat_eqb (sws C1 true) sw1 && qmat_eqb (sws C2 binned2) sw2 ].

(* ---------- stored patch radii (Metadata.compute) and their use by the linkage ---------- *)
(* The radius stored with a patch is the largest separation of its objects from the STORED centre
   (the externally given one when centres are given, else the weighted mean of the data).
   from_catalogs bounds the extent of patch i around the reference centre c by the maximum over
   the catalogs of (their radius + separation of their centre from c).  Abstract metric [ang]
   (the great-circle angle; symmetry and triangle inequality: Props/C14.v). *)
Definition radius_of {P : Type} (ang : P -> P -> Q) (c : P) (A : list (P * Q)) : Q :=
  qmax_list (map (fun a => ang (fst a) c) A).
Definition extent_of {P : Type} (ang : P -> P -> Q) (c : P) (cats : list (P * list (P * Q))) : Q :=
  qmax_list (map (fun cA => radius_of ang (fst cA) (snd cA) + ang c (fst cA)) cats).

(* the same on the correspondence scale (squared chords of the implementation's unit vectors) *)
Definition radius2 (c : obj) (A : list obj) : Q := qmax_list (map (fun o => dist2 o c) A).
Definition covered (c : obj) (t : Q) (A : list obj) : bool := forallb (fun o => Qleb (dist2 o c) t) A.
Definition obj_origin : obj := {| ox := 0; oy := 0; oz := 0; ow := 0; obin := 0; opatch := 0 |}.

(* L3 (per catalog): cens = stored centres (one per patch, as objects); tlo, thi = squared chords
   bracketing the stored radius of each patch (radius -/+ the rounding allowance of the
   implementation's own float distance).  flag0: the model radius (largest squared chord of an
   object of the patch from the stored centre) is the stored radius; flag1: the stored radius
   covers every object of the patch around the stored centre (hypothesis of the pruning theorems) *)
Definition c01_cover_case (C : list obj) (cens : list obj) (tlo thi : list Q) : nat :=
  let np := length cens in
  let cen := fun i => nth i cens obj_origin in
  code [ forallb (fun i => let r := radius2 (cen i) (sel C i None) in
                           Qleb (nth i tlo 0) r && Qleb r (nth i thi 0)) (seq 0 np);
         forallb (fun i => covered (cen i) (nth i thi 0) (sel C i None)) (seq 0 np) ].
