(* C02 / C12 — the names of the patch folders: catalog/catalog.py get_patch_path_from_id ("patch_{:d}" below the cache
   directory) and get_id_from_patch_path (Path(p).name.split("_") -> exactly two parts -> int of the second).
   Paths are strings; a cache directory is ANY string (it may contain "patch_8", "_", braces, slashes).
   int() is modelled on plain decimal digit strings only (what the template produces); anything else is None. *)
From Coq Require Import String Ascii List Arith DecimalString DecimalNat Decimal.
Import ListNotations.
Open Scope string_scope.

Definition dec (n : nat) : string := NilEmpty.string_of_uint (Nat.to_uint n).
Definition patch_name (id : nat) : string := "patch_" ++ dec id.
Definition patch_path (dir : string) (id : nat) : string := dir ++ "/" ++ patch_name id.

(* Path(p).name : what follows the last "/" *)
Fixpoint basename_acc (s : string) (cur : string) : string :=
  match s with
  | EmptyString => cur
  | String c t => if Ascii.eqb c "/" then basename_acc t "" else basename_acc t (cur ++ String c "")
  end.
Definition basename (s : string) : string := basename_acc s "".

(* str.split("_") *)
Fixpoint split_acc (s : string) (cur : string) : list string :=
  match s with
  | EmptyString => [cur]
  | String c t => if Ascii.eqb c "_" then cur :: split_acc t "" else split_acc t (cur ++ String c "")
  end.
Definition split_us (s : string) : list string := split_acc s "".

Definition parse_nat (s : string) : option nat :=
  match s with
  | EmptyString => None                       (* int("") raises *)
  | _ => option_map Nat.of_uint (NilEmpty.uint_of_string s)
  end.

(* `_, id_str = name.split("_")` : exactly two parts, else ValueError (None) *)
Definition id_of_name (name : string) : option nat :=
  match split_us name with
  | [_; id_str] => parse_nat id_str
  | _ => None
  end.
Definition id_of_path (p : string) : option nat := id_of_name (basename p).

(* a variant that searches the WHOLE path string for the first "patch_<digits>" *)
Fixpoint digits_prefix (s : string) : string :=
  match s with
  | String c t => if (andb (Nat.leb 48 (nat_of_ascii c)) (Nat.leb (nat_of_ascii c) 57)) then String c (digits_prefix t) else ""
  | EmptyString => ""
  end.
Fixpoint find_patch (s : string) : option nat :=
  match s with
  | EmptyString => None
  | String c t =>
      if prefix "patch_" s then
        match parse_nat (digits_prefix (substring 6 (String.length s - 6) s)) with
        | Some n => Some n
        | None => find_patch t
        end
      else find_patch t
  end.
Definition id_of_path_search (p : string) : option nat := find_patch p.

(* ---------- correspondence checker ---------- *)
Definition onat_eqb (a b : option nat) : bool :=
  match a, b with Some x, Some y => Nat.eqb x y | None, None => true | _, _ => false end.
(* impl_path = str(get_patch_path_from_id(dir, id)); impl_id = get_id_from_patch_path(impl_path) (None = raised);
   impl_any = get_id_from_patch_path(any) for an arbitrary string *)
Definition c02_path_case (dir : string) (id : nat) (impl_path : string) (impl_id : option nat)
                         (any : string) (impl_any : option nat) : nat :=
  (if String.eqb (patch_path dir id) impl_path then 0 else 1) +
  (if onat_eqb (id_of_path impl_path) impl_id then 0 else 2) +
  (if onat_eqb (id_of_path any) impl_any then 0 else 4).
