(* Pair counts of MANY patches (C04): flat pair indices, fixed-width integers, sparse pair lists.

   A measurement with N spatial patches holds, per redshift bin, an N x N matrix of pair counts of which
   only the entries of neighbouring patches are non-zero.  The library
     - stores it in a file as a sparse pair list (correlation/paircounts.py : PatchedCounts.to_hdf:
       patch_pairs = the (i, j) with a non-zero count in some bin, binned_counts = the counts of every
       bin for these pairs) and restores it pair by pair (from_hdf: zeros, then set_patch_pair),
     - selects patches with index arrays of any integer type (.patches[item]),
     - sums it with total - row - column + diagonal (sample_patch_sum).
   Nothing in the property depends on N; the arithmetic of an implementation does as soon as an index
   is held in a fixed-width integer: the flat position i * N + j of a pair passes 2^7 from N = 12,
   2^15 from N = 182, 2^31 from N = 46341 (patch ids are stored as int16 in the catalog cache).

   This file:  (1) flat pair index over Z and its fixed-width wrap;  (2) the sparse pair list of a
   file, written and read back;  (3) an evaluation of the C04 estimator model (Estimators.v) on sparse
   pair lists that costs O(entries + N) per bin instead of O(N^3), used by the correspondence check on
   CorrFuncs of 100 .. 2000 patches (c04_big_case).  No proofs in this file. *)
From Verif Require Import Prelude Jackknife Estimators.
Open Scope Q_scope.

(* ------------------------------------------------ (1) flat pair index *)
(* position of pair (i, j) in the row-major flattening of an N x N array *)
Definition flat (N i j : Z) : Z := (i * N + j)%Z.
Definition unflat (N f : Z) : Z * Z := ((f / N)%Z, (f mod N)%Z).
(* the value a signed two's-complement integer of `bits` bits holds after an overflowing operation
   (numpy integer arrays wrap silently).  Wrapping is a ring homomorphism modulo 2^bits, so wrapping
   the final result equals wrapping every intermediate one. *)
Definition wrap (bits z : Z) : Z :=
  ((z + 2 ^ (bits - 1)) mod 2 ^ bits - 2 ^ (bits - 1))%Z.
Definition fits (bits z : Z) : Prop := (- 2 ^ (bits - 1) <= z < 2 ^ (bits - 1))%Z.
Definition flat_w (bits N i j : Z) : Z := wrap bits (flat N i j).
(* numpy's reading of an index into an axis of length len: negative = from the end *)
Definition np_pos (len z : Z) : Z := if (z <? 0)%Z then (len + z)%Z else z.
(* the pair at which an entry written through a `bits`-wide flat index lands *)
Definition lands (bits N i j : Z) : Z * Z := unflat N (np_pos (N * N) (flat_w bits N i j)).
Definition in_range (N i : Z) : Prop := (0 <= i < N)%Z.

(* ------------------------------------------------ (2) the sparse pair list of a file *)
(* one row of patch_pairs together with its row of binned_counts: (i, j, counts of every bin) *)
Definition spe := (nat * nat * list Q)%type.
Definition sp_i (e : spe) : nat := fst (fst e).
Definition sp_j (e : spe) : nat := snd (fst e).
Definition sp_v (e : spe) : list Q := snd e.
Definition key_eqb (i j : nat) (e : spe) : bool := Nat.eqb (sp_i e) i && Nat.eqb (sp_j e) j.

(* a dense array (bins, N, N) as a function of the pair: the counts of every bin *)
Definition cell (C : list mat) (i j : nat) : list Q := map (fun M => nth j (nth i M []) 0) C.
Definition anynz (v : list Q) : bool := existsb (fun x => negb (Qeqb x 0)) v.      (* np.any(counts, axis=0) *)
(* to_hdf: the pairs in row-major order (np.nonzero) with the counts of every bin *)
Definition to_sparse (N : nat) (C : list mat) : list spe :=
  flat_map (fun i => flat_map (fun j => if anynz (cell C i j) then [(i, j, cell C i j)] else [])
                              (seq 0 N)) (seq 0 N).
(* from_hdf: an array of zeros, then set_patch_pair(i, j, counts) row by row: the LAST row of a pair
   wins; a pair that is not listed stays zero *)
Fixpoint sp_get (l : list spe) (i j : nat) : option (list Q) :=
  match l with
  | [] => None
  | e :: r => match sp_get r i j with
              | Some v => Some v
              | None => if key_eqb i j e then Some (sp_v e) else None
              end
  end.
Definition restored (l : list spe) (i j b : nat) : Q :=
  match sp_get l i j with Some v => nth b v 0 | None => 0 end.
Definition from_sparse (B N : nat) (l : list spe) : list mat :=
  map (fun b => map (fun i => map (fun j => restored l i j b) (seq 0 N)) (seq 0 N)) (seq 0 B).

(* the variant that the property excludes: the pairs are written back through a flat index held in a
   `bits`-wide integer (all pairs at once, counts[:, i * N + j] = ...): entry (i, j) lands elsewhere
   as soon as i * N + j does not fit *)
Definition zn (n : nat) : Z := Z.of_nat n.
Definition lands_nat (bits : Z) (N : nat) (e : spe) : spe :=
  let '(a, b) := lands bits (zn N) (zn (sp_i e)) (zn (sp_j e)) in (Z.to_nat a, Z.to_nat b, sp_v e).
Definition from_sparse_w (bits : Z) (B N : nat) (l : list spe) : list mat :=
  from_sparse B N (map (lands_nat bits N) l).

(* ------------------------------------------------ (3) the estimator on sparse pair lists *)
(* one bin of a pair list *)
Definition ev (b : nat) (e : spe) : Q := nth b (sp_v e) 0.
Definition sp_total (b : nat) (l : list spe) : Q := qsumr (map (ev b) l).
(* the specification, entry by entry: the total without the pairs that involve patch k *)
Definition touches (k : nat) (e : spe) : bool := Nat.eqb (sp_i e) k || Nat.eqb (sp_j e) k.
Definition sp_loo (b : nat) (l : list spe) (k : nat) : Q :=
  qsum (map (ev b) (filter (fun e => negb (touches k e)) l)).
(* row sums, column sums and the diagonal of all patches in one pass over the list *)
Fixpoint add_nth (k : nat) (x : Q) (acc : list Q) : list Q :=
  match acc, k with
  | [], _ => []
  | a :: t, O => Qred (a + x) :: t
  | a :: t, S k' => a :: add_nth k' x t
  end.
Definition zeros (N : nat) : list Q := repeat 0 N.
Definition sp_rows (N b : nat) (l : list spe) : list Q :=
  fold_right (fun e acc => add_nth (sp_i e) (ev b e) acc) (zeros N) l.
Definition sp_cols (N b : nat) (l : list spe) : list Q :=
  fold_right (fun e acc => add_nth (sp_j e) (ev b e) acc) (zeros N) l.
Definition sp_diags (N b : nat) (l : list spe) : list Q :=
  fold_right (fun e acc => if Nat.eqb (sp_i e) (sp_j e) then add_nth (sp_i e) (ev b e) acc else acc) (zeros N) l.
Fixpoint map3 {A B C D} (f : A -> B -> C -> D) (l1 : list A) (l2 : list B) (l3 : list C) : list D :=
  match l1, l2, l3 with
  | a :: l1', b :: l2', c :: l3' => f a b c :: map3 f l1' l2' l3'
  | _, _, _ => []
  end.
(* sample_patch_sum: sum_tiled - row_sum - col_sum + diag, all N samples of one bin *)
Definition sp_samples (N b : nat) (l : list spe) : list Q :=
  let t := sp_total b l in
  map3 (fun r c d => Qred (t - c - r + d)) (sp_rows N b l) (sp_cols N b l) (sp_diags N b l).

(* the dense matrix of one bin that a pair list stands for (several rows of one pair add up; a file
   lists every pair once) *)
Definition sp_cell (b : nat) (l : list spe) (i j : nat) : Q :=
  qsum (map (ev b) (filter (key_eqb i j) l)).
Definition dense (N b : nat) (l : list spe) : mat :=
  map (fun i => map (fun j => sp_cell b l i j) (seq 0 N)) (seq 0 N).

(* normalisation: the product of the total weights, half the squared total for an autocorrelation
   (whose two weight vectors are one and the same), and the same with patch k left out *)
Definition big_den (auto : bool) (u v : list Q) : Q :=
  if auto then (1 # 2) * (qsumr u * qsumr u) else qsumr u * qsumr v.
Definition big_den_loo (auto : bool) (u v : list Q) : list Q :=
  let su := qsumr u in let sv := qsumr v in
  if auto then map (fun x => Qred ((1 # 2) * ((su - x) * (su - x)))) u
  else map2 (fun x y => Qred ((su - x) * (sv - y))) u v.

(* one NormalisedCounts with a sparse counts array *)
Record bpc := { b_auto : bool; b_pairs : list spe; b_w1 : list (list Q); b_w2 : list (list Q) }.
Definition b_bins (p : bpc) : nat := length (b_w1 p).
Definition bpc_data (p : bpc) : list dq :=
  map (fun b => ddiv (sp_total b (b_pairs p)) (big_den (b_auto p) (nth b (b_w1 p) []) (nth b (b_w2 p) [])))
      (seq 0 (b_bins p)).
(* per bin the N samples *)
Definition bpc_cols (N : nat) (p : bpc) : list (list dq) :=
  map (fun b => map2 ddiv (sp_samples N b (b_pairs p))
                         (big_den_loo (b_auto p) (nth b (b_w1 p) []) (nth b (b_w2 p) [])))
      (seq 0 (b_bins p)).
Fixpoint zip_cons {A} (col : list A) (rows : list (list A)) : list (list A) :=
  match col, rows with
  | c :: cs, r :: rs => (c :: r) :: zip_cons cs rs
  | _, _ => []
  end.
Definition transpose {A} (N : nat) (cols : list (list A)) : list (list A) :=
  fold_right zip_cons (repeat [] N) cols.
(* samples[k][b] *)
Definition bpc_samples (N : nat) (p : bpc) : list (list dq) := transpose N (bpc_cols N p).

Definition big_corr_data (dd : bpc) (dr rd rr : option bpc) : list res :=
  est_rows false (b_bins dd) (bpc_data dd) (option_map bpc_data dr) (option_map bpc_data rd) (option_map bpc_data rr).
Definition big_corr_data_doc (dd : bpc) (dr rd rr : option bpc) : list res :=
  est_rows true (b_bins dd) (bpc_data dd) (option_map bpc_data dr) (option_map bpc_data rd) (option_map bpc_data rr).
Fixpoint map4o {A B} (f : A -> option A -> option A -> option A -> B)
         (l1 : list A) (l2 l3 l4 : option (list A)) : list B :=
  match l1 with
  | [] => []
  | a :: l1' =>
      let hd o := match o with Some (x :: _) => Some x | _ => None end in
      let tl o := match o with Some (_ :: t) => Some t | Some [] => Some [] | None => None end in
      f a (hd l2) (hd l3) (hd l4) :: map4o f l1' (tl l2) (tl l3) (tl l4)
  end.
Definition big_corr_samples (N : nat) (dd : bpc) (dr rd rr : option bpc) : list (list res) :=
  map4o (fun a b c d => est_rows false (b_bins dd) a b c d)
        (bpc_samples N dd) (option_map (bpc_samples N) dr) (option_map (bpc_samples N) rd) (option_map (bpc_samples N) rr).

(* the shape the harness promises: every pair inside the array, one count per bin, weight arrays
   (bins, N), the one weight vector of an autocorrelation *)
Definition bpc_valid (N : nat) (p : bpc) : bool :=
  let B := b_bins p in
  forallb (fun e => Nat.ltb (sp_i e) N && Nat.ltb (sp_j e) N && Nat.eqb (length (sp_v e)) B) (b_pairs p)
  && Nat.eqb (length (b_w2 p)) B
  && forallb (fun r => Nat.eqb (length r) N) (b_w1 p) && forallb (fun r => Nat.eqb (length r) N) (b_w2 p)
  && (negb (b_auto p) || qmat_eqb (b_w1 p) (b_w2 p)).
Definition obpc_valid (N : nat) (o : option bpc) : bool := match o with Some p => bpc_valid N p | None => true end.

(* C04 on a CorrFunc of many patches: impl = None when CorrFunc.sample() raised, otherwise its .data
   and .samples.  flag0: raises exactly when no estimator is defined; flag1: the value is the
   documented estimator of total / (W1 W2) terms (as coded and as documented); flag2: every jackknife
   sample is the same function of the counts without that patch; flag3: the case is well-formed *)
Definition c04_big_case (N : nat) (dd : bpc) (dr rd rr : option bpc)
           (impl : option (list oq * list (list oq))) : nat :=
  let valid := bpc_valid N dd && obpc_valid N dr && obpc_valid N rd && obpc_valid N rr in
  match impl with
  | None => code [ negb (est_defined dr rd rr); true; true; valid ]
  | Some (data, samples) =>
      code [ est_defined dr rd rr;
             res_list_ok tol48 (big_corr_data dd dr rd rr) data
               && res_list_ok tol48 (big_corr_data_doc dd dr rd rr) data;
             Nat.eqb (length samples) N && res_mat_ok tol48 (big_corr_samples N dd dr rd rr) samples;
             valid ]
  end.

(* the dense container a sparse one stands for (Estimators.pc), for the theorems and for small cases *)
Definition bpc_dense (N : nat) (p : bpc) : pc :=
  {| pc_auto := b_auto p; pc_counts := map (fun b => dense N b (b_pairs p)) (seq 0 (b_bins p));
     pc_w1 := b_w1 p; pc_w2 := b_w2 p |}.
