(* C17 — re-entrant and interleaved use of the iteration / indexing helpers of ONE container.

   `iter(x.bins)` (what `for`, zip(), map(), list(), a generator expression do first) creates a
   cursor; `next(cursor)` yields the item at THAT cursor's own position and advances it; indexing,
   slicing and the lengths never touch a cursor.  The documented algebra: every iteration yields
   x.bins[0], x.bins[1], ..., x.bins[n-1] and then stops, whatever other iterations over the same
   container are in progress.

   Three executable readings of a sequence of cursor operations:
     itrace  every cursor owns its position                       (the model of the code path)
     strace  the observation of an operation read off the history alone: the j-th next since the
             cursor was created yields item j                     (the statement)
     htrace  ONE position per (object, axis) shared by all its cursors, reset by every iter()
             (a helper object that is its own iterator, handed out once per container) — refuted
   No proofs in this file (Proofs/CursorsP.v). *)
From Verif Require Import Prelude Containers.
Open Scope nat_scope.

Inductive axis := ABins | APatches.
Definition axis_eqb (a b : axis) : bool :=
  match a, b with ABins, ABins | APatches, APatches => true | _, _ => false end.
(* (object number, axis): objs[o].bins / objs[o].patches, read from the container at that moment *)
Definition source := (nat * axis)%type.
Definition source_eqb (s t : source) : bool := (fst s =? fst t) && axis_eqb (snd s) (snd t).

Inductive cur_op :=
| CNew (k : nat) (s : source)            (* cur[k] = iter(objs[o].bins) *)
| CNext (k : nat)                        (* next(cur[k]) *)
| CIndex (s : source) (sel : selector)   (* objs[o].bins[sel] : int, slice, list *)
| CLen (s : source).                     (* objs[o].num_bins / num_patches *)

Inductive cur_obs (A : Type) :=
| BNone                (* iter() returned *)
| BItem (v : A)        (* a container was yielded / returned *)
| BStop                (* StopIteration *)
| BErr                 (* ValueError / TypeError / IndexError *)
| BNum (n : nat).
Arguments BNone {A}. Arguments BItem {A} v. Arguments BStop {A}. Arguments BErr {A}. Arguments BNum {A} n.

(* the operations of cursor k *)
Definition mentions (k : nat) (op : cur_op) : bool :=
  match op with CNew k' _ => k' =? k | CNext k' => k' =? k | _ => false end.

Section Machine.
Context {A : Type}.
Variable len : source -> nat.
Variable get : source -> selector -> option A.

Definition look (s : source) (sel : selector) : cur_obs A :=
  match get s sel with Some v => BItem v | None => BErr end.
(* Indexer.__next__ at position i: callback(i); IndexError -> StopIteration; the position moves
   only when an item was produced *)
Definition next_at (s : source) (i : nat) : cur_obs A * nat :=
  if i <? len s then
    match get s (SInt (Z.of_nat i)) with Some v => (BItem v, S i) | None => (BErr, i) end
  else (BStop, i).

(* ---- every cursor owns its position ---- *)
Definition ctab := list (nat * (source * nat)).
Fixpoint lookup (k : nat) (t : ctab) : option (source * nat) :=
  match t with [] => None | (k', v) :: r => if k' =? k then Some v else lookup k r end.
Definition istep (t : ctab) (op : cur_op) : ctab * cur_obs A :=
  match op with
  | CNew k s => ((k, (s, 0)) :: t, BNone)
  | CNext k =>
    match lookup k t with
    | Some (s, i) => ((k, (s, snd (next_at s i))) :: t, fst (next_at s i))
    | None => (t, BErr)
    end
  | CIndex s sel => (t, look s sel)
  | CLen s => (t, BNum (len s))
  end.
Fixpoint itrace (t : ctab) (ops : list cur_op) : list (cur_op * cur_obs A) :=
  match ops with
  | [] => []
  | op :: r => (op, snd (istep t op)) :: itrace (fst (istep t op)) r
  end.
Definition irun (ops : list cur_op) : list (cur_obs A) := map snd (itrace [] ops).

(* ---- the statement, read off the history (newest operation first) ---- *)
(* the source of cursor k and the number of next() calls made on it since it was created *)
Fixpoint consumed (k : nat) (hist : list cur_op) : option (source * nat) :=
  match hist with
  | [] => None
  | CNew k' s :: h => if k' =? k then Some (s, 0) else consumed k h
  | CNext k' :: h =>
    if k' =? k then match consumed k h with Some (s, c) => Some (s, S c) | None => None end
    else consumed k h
  | _ :: h => consumed k h
  end.
(* the j-th next() of a cursor over s *)
Definition yield (s : source) (j : nat) : cur_obs A :=
  if j <? len s then look s (SInt (Z.of_nat j)) else BStop.
Definition sobs (hist : list cur_op) (op : cur_op) : cur_obs A :=
  match op with
  | CNew _ _ => BNone
  | CNext k => match consumed k hist with Some (s, c) => yield s c | None => BErr end
  | CIndex s sel => look s sel
  | CLen s => BNum (len s)
  end.
Fixpoint strace (hist : list cur_op) (ops : list cur_op) : list (cur_op * cur_obs A) :=
  match ops with
  | [] => []
  | op :: r => (op, sobs hist op) :: strace (op :: hist) r
  end.
Definition srun (ops : list cur_op) : list (cur_obs A) := map snd (strace [] ops).

(* ---- the variant: one position per (object, axis), shared by all cursors over it ---- *)
Fixpoint src_of (k : nat) (b : list (nat * source)) : option source :=
  match b with [] => None | (k', s) :: r => if k' =? k then Some s else src_of k r end.
Fixpoint pos_of (s : source) (p : list (source * nat)) : nat :=
  match p with [] => 0 | (s', i) :: r => if source_eqb s' s then i else pos_of s r end.
Definition htab := (list (nat * source) * list (source * nat))%type.
Definition hstep (t : htab) (op : cur_op) : htab * cur_obs A :=
  match op with
  | CNew k s => (((k, s) :: fst t, (s, 0) :: snd t), BNone)        (* __iter__: position := 0, return self *)
  | CNext k =>
    match src_of k (fst t) with
    | Some s => ((fst t, (s, snd (next_at s (pos_of s (snd t)))) :: snd t), fst (next_at s (pos_of s (snd t))))
    | None => (t, BErr)
    end
  | CIndex s sel => (t, look s sel)
  | CLen s => (t, BNum (len s))
  end.
Fixpoint htrace (t : htab) (ops : list cur_op) : list (cur_op * cur_obs A) :=
  match ops with
  | [] => []
  | op :: r => (op, snd (hstep t op)) :: htrace (fst (hstep t op)) r
  end.
Definition hrun (ops : list cur_op) : list (cur_obs A) := map snd (htrace ([], []) ops).

(* the getter never fails inside the range (well-formed containers) *)
Definition total_get : Prop := forall s i, i < len s -> get s (SInt (Z.of_nat i)) <> None.
End Machine.

(* the observations of cursor k within a trace *)
Definition own {A} (k : nat) (tr : list (cur_op * cur_obs A)) : list (cur_op * cur_obs A) :=
  filter (fun p => mentions k (fst p)) tr.

(* ------------------------------------------------------------------ *)
(* the containers of Model/Containers.v as sources                     *)
(* ------------------------------------------------------------------ *)
Definition c_len (objs : list cval) (s : source) : nat :=
  match nth_error objs (fst s) with
  | Some x => match snd s with ABins => v_nbins x | APatches => v_np x end
  | None => 0
  end.
Definition c_get (objs : list cval) (s : source) (sel : selector) : option cval :=
  match nth_error objs (fst s) with
  | Some x => match snd s with ABins => v_bins x sel | APatches => v_patches x sel end
  | None => None
  end.

Definition obs_cmp (a b : cur_obs cval) : bool :=
  match a, b with
  | BNone, BNone => true
  | BItem x, BItem y => cval_cmp true x y
  | BStop, BStop => true
  | BErr, BErr => true
  | BNum n, BNum m => n =? m
  | _, _ => false
  end.
Definition obs_wfb (o : cur_obs cval) : bool := match o with BItem v => cval_wfb v | _ => true end.
(* 0 when the lists agree, else 1 + the index of the first observation that differs (or is missing) *)
Fixpoint first_diff {B} (eqb : B -> B -> bool) (l1 l2 : list B) (i : nat) : nat :=
  match l1, l2 with
  | [], [] => 0
  | x :: r1, y :: r2 => if eqb x y then first_diff eqb r1 r2 (S i) else S i
  | _, _ => S i
  end.

(* one correspondence case: the operations the python constructs performed on the real objects and what
   each of them returned.
   flag0 (1): the observations are those of the own-position machine
   flag1 (2): the statement holds on the observations (item j at the j-th next of every cursor)
   flag2 (4): the objects handed to the model and every yielded container are well formed
   flag3 (8): cleared only when the observations are wrong AND are exactly those of the shared-position
              variant (diagnosis only)
   + 16 * (1 + index of the first observation that differs from the statement) *)
Definition c17_cursor_case (objs : list cval) (ops : list cur_op) (impl : list (cur_obs cval)) : nat :=
  let law := srun (c_len objs) (c_get objs) ops in
  code [ list_eqb obs_cmp impl (irun (c_len objs) (c_get objs) ops);
         list_eqb obs_cmp impl law;
         forallb cval_wfb objs && forallb obs_wfb impl;
         list_eqb obs_cmp impl law || negb (list_eqb obs_cmp impl (hrun (c_len objs) (c_get objs) ops)) ]
  + 16 * first_diff obs_cmp impl law 0.

(* ---- a toy instance for the examples: one object with n "items" 0..n-1 on either axis ---- *)
Definition toy_len (n : nat) (_ : source) : nat := n.
Definition toy_get (n : nat) (_ : source) (sel : selector) : option nat :=
  match resolve n sel with Some [i] => Some i | _ => None end.
(* for a in x.bins: for b in x.bins: ...   on a container with 2 bins, as the operations python performs *)
Definition nested_2x2 : list cur_op :=
  [CNew 0 (0, ABins); CNext 0; CNew 1 (0, ABins); CNext 1; CNext 1; CNext 1;
                      CNext 0; CNew 1 (0, ABins); CNext 1; CNext 1; CNext 1;
                      CNext 0].
(* zip(x.bins, x.bins) on a container with 4 bins: four rounds, then the first cursor stops *)
Definition zip_4 : list cur_op :=
  [CNew 0 (0, ABins); CNew 1 (0, ABins)] ++ concat (repeat [CNext 0; CNext 1] 4) ++ [CNext 0].
