(* C07 (also C05, C13) — a per-process memo of a pure function f, looked up by a key computed from the argument.  Several
   seeded changes were of this form (angles keyed by the numbers of the scales without the unit, by the address of the
   configuration, trees keyed by path and binning without the data).  One statement covers them: such a memo returns f's
   value for every history of calls iff the key determines the value. *)
From Coq Require Import List Arith Bool.
Import ListNotations.

Section KeyedMemo.
  Context {X Y : Type} (f : X -> Y) (key : X -> nat).
  Definition memo := list (nat * Y).
  Fixpoint lookup (k : nat) (m : memo) : option Y :=
    match m with [] => None | (k', y) :: r => if Nat.eqb k k' then Some y else lookup k r end.
  (* one call: use the stored value if the key is known, else compute and store *)
  Definition call (m : memo) (x : X) : memo * Y :=
    match lookup (key x) m with
    | Some y => (m, y)
    | None => ((key x, f x) :: m, f x)
    end.
  Fixpoint calls (m : memo) (xs : list X) : memo * list Y :=
    match xs with
    | [] => (m, [])
    | x :: r => let (m1, y) := call m x in let (m2, ys) := calls m1 r in (m2, y :: ys)
    end.
  (* every stored entry is the value of some argument with that key *)
  Definition sound (m : memo) : Prop := forall k y, lookup k m = Some y -> exists x, key x = k /\ f x = y.
  Definition key_determines_value : Prop := forall x x', key x = key x' -> f x = f x'.
End KeyedMemo.
