(* C07 — the OPTIONS of a measurement in a long-lived process.

   A configuration leaves some of its options unset (None / keyword omitted): separation weight, resolution of the
   weighting, unit, cosmology, closed side, worker counts.  An unset option means its documented default.  The options
   a measurement really uses — its EFFECTIVE options — must therefore be a function of the configuration value alone:

       fill defaults conf      slot by slot:  Some v -> v,   None -> the default of the slot.

   A process may keep a record of optional arguments at module level between measurements.  Three ways of using it:
     NewRecord    a new record per measurement, filled from the defaults and the configuration (the code);
     CopyShared   a shared record holding the defaults is COPIED per measurement and the copy is updated with the
                  options that are set; the shared record is never written;
     AliasShared  the shared record itself is updated with the options that are set and then used: an option set by
                  an earlier measurement stays in the record and is applied to every later measurement that leaves it
                  unset.
   Proofs/EffOptionsP.v: the first two are history independent (= what a process that has done nothing else uses),
   the third is refuted by a two-step history (explicit value, then None); it is invisible to histories whose
   measurements all carry the same options and to measurements that set every option.

   No proofs in this file. *)
From Verif Require Import Prelude.
Set Implicit Arguments.

Section Slots.
  Variable V : Type.

  (* the options of a configuration as written: one entry per slot, None = not set *)
  Definition conf := list (option V).

  Definition fill1 (d : V) (o : option V) : V := match o with Some v => v | None => d end.

  (* update a record slot by slot with the options that are set (trailing slots not mentioned = not set) *)
  Fixpoint fill (rec : list V) (c : conf) : list V :=
    match rec with
    | [] => []
    | d :: rec' => match c with
                   | [] => d :: rec'
                   | o :: c' => fill1 d o :: fill rec' c'
                   end
    end.

  Definition is_set (o : option V) : bool := match o with Some _ => true | None => false end.
  Definition all_set (c : conf) : bool := forallb is_set c.

  Inductive policy := NewRecord | CopyShared | AliasShared.

  (* one measurement: (shared record afterwards, options used); ds = the documented defaults *)
  Definition step (p : policy) (ds shared : list V) (c : conf) : list V * list V :=
    match p with
    | NewRecord => (shared, fill ds c)
    | CopyShared => (shared, fill shared c)
    | AliasShared => (fill shared c, fill shared c)
    end.

  Fixpoint run (p : policy) (ds shared : list V) (h : list conf) : list V :=
    match h with
    | [] => shared
    | c :: t => run p ds (fst (step p ds shared c)) t
    end.

  (* the options measurement c uses after the history h, in a process whose shared record started as the defaults *)
  Definition used (p : policy) (ds : list V) (h : list conf) (c : conf) : list V :=
    snd (step p ds (run p ds ds h) c).

  (* ... in a process that has done nothing else *)
  Definition used_fresh (p : policy) (ds : list V) (c : conf) : list V := used p ds [] c.

  (* any process at all: a state, a step function; what it uses for c after h *)
  Section AnyProcess.
    Variable St : Type.
    Variable stp : St -> conf -> St * list V.
    Fixpoint grun (s : St) (h : list conf) : St :=
      match h with [] => s | c :: t => grun (fst (stp s c)) t end.
    Definition gused (s0 : St) (h : list conf) (c : conf) : list V := snd (stp (grun s0 h) c).
  End AnyProcess.
End Slots.

(* ---------- the instance tied to the implementation ---------- *)
(* Slot values are `option Q`: None is a value of its own (no separation weighting; all available workers).
   Slots, in this order:
     0 rweight      default None (pairs are not weighted by separation)
     1 resolution   default 50
     2 max_workers of the configuration     default None
     3 max_workers of the call              default None
     4 unit         default 0 (the harness numbers the values of a slot; number 0 is the documented default: kpc)
     5 cosmology    default 0 (Planck15)
     6 closed side  default 0 (right)
     7.. options without a default, always set (scale limits, binning, entry point and catalogs, data): numbers
         given by value *)
Definition oval := option Q.
Definition oval_eqb (a b : oval) : bool :=
  match a, b with
  | None, None => true
  | Some x, Some y => Qeqb x y
  | _, _ => false
  end.

Definition c07_defaults : list oval :=
  [None; Some (50 # 1); None; None; Some 0; Some 0; Some 0; None; None; None; None].

(* what the result may depend on: the resolution only matters when pairs are weighted; worker counts never matter *)
Definition result_key (e : list oval) : list oval :=
  match e with
  | rw :: res :: _ :: _ :: rest =>
      rw :: (match rw with None => None | Some _ => res end) :: None :: None :: rest
  | _ => e
  end.

Definition conf_key (c : conf oval) : list oval := result_key (fill c07_defaults c).

Definition key_eqb (a b : list oval) : bool := list_eqb oval_eqb a b.

(* results are given as class numbers: equal numbers = bitwise equal results *)
Fixpoint functional_from (k : list oval) (r : nat) (ks : list (list oval)) (rs : list nat) : bool :=
  match ks, rs with
  | k' :: ks', r' :: rs' => (if key_eqb k k' then (r =? r')%nat else true) && functional_from k r ks' rs'
  | _, _ => true
  end.
Fixpoint functional (ks : list (list oval)) (rs : list nat) : bool :=
  match ks, rs with
  | k :: ks', r :: rs' => functional_from k r ks' rs' && functional ks' rs'
  | _, _ => true
  end.

(* one history of measurements in ONE long-lived process: steps = the options of every measurement as written;
   lived = result classes of the long-lived process; fresh = result classes of the same measurements each made by a
   process that has done nothing else, on fresh caches.
     bit 0 (1): shapes;
     bit 1 (2): the statement on the implementation's output - every measurement equals its fresh-process twin;
     bit 2 (4): tie - the fresh results are a function of the model's effective options (defaults, resolution
                without weighting, worker counts) *)
Definition c07_ocase (steps : list (conf oval)) (lived fresh : list nat) : nat :=
  code [ (length lived =? length steps)%nat && (length fresh =? length steps)%nat;
         list_eqb Nat.eqb lived fresh;
         functional (map conf_key steps) fresh ].

(* which measurements of a history the AliasShared policy would get wrong (used by the harness only to count how many
   generated histories could expose it; no verdict depends on it) *)
Fixpoint alias_exposed_from (shared : list oval) (h : list (conf oval)) : list bool :=
  match h with
  | [] => []
  | c :: t => negb (key_eqb (result_key (fill shared c)) (conf_key c)) :: alias_exposed_from (fill shared c) t
  end.
Definition alias_exposed (h : list (conf oval)) : list bool := alias_exposed_from c07_defaults h.
