(* C13 — the job list (Model/RoundRobin.v: PatchLinkage.iter_patch_id_pairs) and the SHAPE of the patch linkage graph.
   The patch labels are the positions of the centres in the list the user hands over: an arbitrary convention.  A relabelling
   pi (an injective map of the labels) turns the dictionary  i -> links(i)  into  pi i -> pi (links i)  (in whatever order
   the new dictionary and the new sets hold their entries).  The round-robin loop empties the sets in sweeps, so how long a
   key stays in the dictionary depends on HOW MANY links it has relative to the others: with equal degrees every key leaves
   in the same sweep, with a hub (a star) one key is left alone for several sweeps.

     relabel_st pi st        the dictionary with every label replaced
     pmap pi                 a job (i, j) with both labels replaced
     unordered p             a job as an unordered pair (lower label first)
     sweeps1 / iter_pairs1   the loop with the condition  while len(patch_links) > 1  ("a single key has no partner left")
     star_st hub leaves      hub linked with every leaf, the leaves with the hub only; the hub's set hands out the leaves
                             in the order of the list
     c13_jobs_case           the job list of the implementation against the jobs of a brute-force linkage *)
From Verif Require Import Prelude RoundRobin.
Open Scope nat_scope.

Definition pmap (pi : nat -> nat) (p : nat * nat) : nat * nat := (pi (fst p), pi (snd p)).
Definition relabel_entry (pi : nat -> nat) (e : nat * list nat) : nat * list nat := (pi (fst e), map pi (snd e)).
Definition relabel_st (pi : nat -> nat) (st : rr_state) : rr_state := map (relabel_entry pi) st.
Definition unordered (p : nat * nat) : nat * nat := if snd p <? fst p then (snd p, fst p) else p.

(* the loop that stops as soon as at most one key is left *)
Fixpoint sweeps1 (fuel : nat) (auto : bool) (st : rr_state) : option (list (nat * nat)) :=
  match st with
  | [] => Some []
  | [_] => Some []
  | _ :: _ :: _ =>
      match fuel with
      | 0 => None
      | S f => option_map (app (sweep_out auto st)) (sweeps1 f auto (sweep_next st))
      end
  end.

Definition iter_pairs1 (auto : bool) (st : rr_state) : option (list (nat * nat)) :=
  match phase1 st with
  | None => None
  | Some (ys, st') => option_map (app ys) (sweeps1 (rr_size st') auto st')
  end.

(* a star: the dictionary as from_catalogs builds it (every set holds its own key) *)
Definition leaf_entry (hub l : nat) : nat * list nat := (l, [l; hub]).
Definition star_st (hub : nat) (leaves : list nat) : rr_state := (hub, hub :: leaves) :: map (leaf_entry hub) leaves.

(* ---------- correspondence checker ---------- *)
(* st: the linkage computed by brute force from centres, radii and the largest counted angle; impl: the job list of the
   implementation.  flag0: every job of the specification is listed; flag1: no job is listed twice; flag2: nothing else is
   listed (a job beyond the linkage costs time, it does not change a count) *)
Fixpoint nodupb (l : list (nat * nat)) : bool :=
  match l with
  | [] => true
  | x :: t => negb (existsb (pair_eqb x) t) && nodupb t
  end.
Definition c13_jobs_case (auto : bool) (st : rr_state) (impl : list (nat * nat)) : nat :=
  let spec := jobs_spec auto st in
  code [ forallb (fun p => existsb (pair_eqb p) impl) spec;
         nodupb impl;
         forallb (fun p => existsb (pair_eqb p) spec) impl ].
