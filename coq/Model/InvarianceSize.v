(* C13, catalogs of any SIZE: the patch metadata that decide which patch pairs are counted.

   The radius stored with a patch is the largest separation of ANY of its rows from the stored centre ([radius_all]); the
   linkage of a measurement takes, per patch, the maximum of these radii over the catalogs ([reach], Model/Invariance.v, is
   the same number: [reach_by radius_all]) and visits the patch pairs that pass [link_sym].  A maximum over all rows does
   not depend on the order of the rows, on how they are cut into chunks, or on how many there are.

   A shortcut for large patches - "the extent converges quickly, a part of the rows is enough" - evaluates the maximum
   over the rows picked by a rule on the ROW INDEX ([pick]): every k-th row ([every]), the first m rows ([first_rows]),
   a stride that grows with the number of rows so that about m of them are looked at ([radius_probe]).  Which objects
   these are depends on the order of the rows, and the number obtained is a lower bound of the radius only. *)
From Verif Require Import Prelude PairCount Invariance.
Open Scope Q_scope.

(* the rows whose index (from i on) passes [sel] *)
Fixpoint pick_from {A : Type} (sel : nat -> bool) (i : nat) (l : list A) : list A :=
  match l with
  | [] => []
  | x :: xs => if sel i then x :: pick_from sel (S i) xs else pick_from sel (S i) xs
  end.
Definition pick {A : Type} (sel : nat -> bool) (l : list A) : list A := pick_from sel 0 l.
Definition every (k : nat) (i : nat) : bool := (i mod k =? 0)%nat.
Definition first_rows (m : nat) (i : nat) : bool := (i <? m)%nat.
(* about m rows out of n: all of them up to 2 m - 1 rows, then every second one, ... *)
Definition probe_step (m n : nat) : nat := Nat.max 1 (n / m).

Section Size.
  Context {P : Type} (ang : P -> P -> Q).
  Definition dists (c : P) (A : list (lobj P)) : list Q := map (fun o => ang (lp o) c) A.
  (* the definition: over ALL rows *)
  Definition radius_all (c : P) (A : list (lobj P)) : Q := qmax_list (dists c A).
  (* over the rows picked by index *)
  Definition radius_sub (sel : nat -> bool) (c : P) (A : list (lobj P)) : Q := radius_all c (pick sel A).
  Definition radius_probe (m : nat) (c : P) (A : list (lobj P)) : Q := radius_sub (every (probe_step m (length A))) c A.
  (* the radii of a measurement: per patch the maximum over the catalogs of the radius of the rows of that patch *)
  Definition rows_of (i : nat) (A : list (lobj P)) : list (lobj P) := filter (fun o => (lpatch o =? i)%nat) A.
  Definition reach_by (rad : P -> list (lobj P) -> Q) (c : nat -> P) (cats : list (list (lobj P))) (i : nat) : Q :=
    qmax_list (map (fun A => rad (c i) (rows_of i A)) cats).
End Size.

(* ---------- correspondence checkers ---------- *)
(* |a - b| <= 2^-30 * |b|  (separations of 10^-4 .. 10^-2 rad computed from unit vectors in float64 by two independent
   routes agree to about 10^-12 relative; a radius taken over a part of the rows is off by 10^-6 .. 1) *)
Definition tol30 : Q := 1 # 1073741824.
Definition qclose30 (a b : Q) : bool := Qleb (Qabs (a - b)) (tol30 * Qabs b) || Qeqb a b.

(* the metadata of one patch as stored (Patch.meta) against their definitions.
   [seps]: the separations from the stored centre that decide the maximum - the largest separation within every block of
   rows the harness cut the patch into (radius_all of a concatenation is the maximum of the radius_all of the parts:
   Props/C13.v C13_radius_chunks) and the separation of every row placed on purpose; all computed by the harness from the
   positions it handed over.  [dcen]: separation of the stored centre from the centre it has to be (the given one, or the
   weighted mean of ALL rows), [cmax] the separation allowed for it (given centre: 2^-40 rad, the stored numbers are the
   given ones; mean of up to 10^6 rows summed in float64: 2^-20 of the radius).
   flags: radius = maximum over all rows;  radius covers every row;  number of rows and sum of weights exact;  centre *)
Definition c13_meta_case (radius : Q) (seps : list Q) (nrec nrec_def : Q) (sumw sumw_def : Q) (dcen cmax : Q) : nat :=
  let r := qmax_list seps in
  code [ qclose30 radius r;
         forallb (fun d => Qleb d (radius * (1 + tol30))) seps;
         Qeqb nrec nrec_def && Qeqb sumw sumw_def;
         Qleb dcen cmax ].

(* the patch pairs the implementation links against the ones that have to be linked.
   [need]: rows (i, j, d_ij, R_i, R_j) for the patch pairs that hold a counted pair (found by brute force); R = the radii over
   all rows of all catalogs of the measurement, M the largest counted angle.  flag0: the premise of the theorem holds on the
   data (such a pair passes link_sym made from these radii - C13_linked_count_all_rows), flag1: the implementation links it *)
Definition c13_links_case (M : Q) (need : list (Q * Q * Q * bool)) : nat :=
  code [ forallb (fun x => let '(d, ri, rj, _) := x in Qleb d (ri + rj + M)) need;
         forallb (fun x => let '(_, _, _, linked) := x in linked) need ].
