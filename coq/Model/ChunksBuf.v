(* C18 — the Parquet reader's row-group buffer: what is held and what is requested, step by step.
   Same loop as Model/Chunks.v:parquet_from, observing the buffer instead of the chunks. *)
From Verif Require Import Prelude Chunks.

(* rows buffered right after _load_groups (the peak of each step) *)
Fixpoint parquet_peaks {A} (fuel s n cs : nat) (cache file : list (list A)) : list nat :=
  match fuel with
  | O => []
  | S f => if n <=? s then [] else
             let '(cache1, file1) := load_groups cs cache file in
             let '(chunk, cache2) := extract_chunk cs cache1 in
             cache_size cache1 :: parquet_peaks f (s + cs) n cs cache2 file1
  end.

(* number of row groups requested in each step *)
Fixpoint parquet_loads {A} (fuel s n cs : nat) (cache file : list (list A)) : list nat :=
  match fuel with
  | O => []
  | S f => if n <=? s then [] else
             let '(cache1, file1) := load_groups cs cache file in
             let '(chunk, cache2) := extract_chunk cs cache1 in
             (length file - length file1) :: parquet_loads f (s + cs) n cs cache2 file1
  end.

Definition parquet_buffer_trace {A} (cs : nat) (groups : list (list A)) : list nat :=
  let n := length (concat groups) in parquet_peaks n 0 n cs [] groups.
Definition parquet_load_trace {A} (cs : nat) (groups : list (list A)) : list nat :=
  let n := length (concat groups) in parquet_loads n 0 n cs [] groups.

(* checker for the tie: the request log of the real reader, grouped by delivered chunk, against the model *)
Definition c18_parquet_loads_case (cs : nat) (groups : list nat) (loads_per_chunk : list nat) : nat :=
  let rows := map (fun g => repeat 0%nat g) groups in
  code [nlist_eqb (parquet_load_trace cs rows) loads_per_chunk;
        forallb (fun p => p <? cs + fold_right Nat.max 0 groups) (parquet_buffer_trace cs rows)].

(* indices of the row groups requested in each step (off = groups requested so far) *)
Fixpoint parquet_reqs {A} (fuel s n cs off : nat) (cache file : list (list A)) : list (list nat) :=
  match fuel with
  | O => []
  | S f => if n <=? s then [] else
             let '(cache1, file1) := load_groups cs cache file in
             let '(chunk, cache2) := extract_chunk cs cache1 in
             let k := length file - length file1 in
             seq off k :: parquet_reqs f (s + cs) n cs (off + k) cache2 file1
  end.
Definition parquet_request_trace {A} (cs : nat) (groups : list (list A)) : list (list nat) :=
  let n := length (concat groups) in parquet_reqs n 0 n cs 0 [] groups.
