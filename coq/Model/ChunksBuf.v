(* C18 — the Parquet reader's row-group buffer: what is held and what is requested, step by step.
   Same loop as Model/Chunks.v:parquet_from, observing the buffer instead of the chunks. *)
From Verif Require Import Prelude Chunks.

(* rows buffered right after _load_groups (the peak of each step) *)
Fixpoint parquet_peaks {A} (fuel s n cs : nat) (cache file : list (list A)) : list nat :=
  match fuel with
  | O => []
  | S f => if n <=? s then [] else
             let '(cache1, file1) := load_groups cs cache file in
             let '(chunk, cache2) := extract_chunk cs cache1 in
             cache_size cache1 :: parquet_peaks f (s + cs) n cs cache2 file1
  end.

(* number of row groups requested in each step *)
Fixpoint parquet_loads {A} (fuel s n cs : nat) (cache file : list (list A)) : list nat :=
  match fuel with
  | O => []
  | S f => if n <=? s then [] else
             let '(cache1, file1) := load_groups cs cache file in
             let '(chunk, cache2) := extract_chunk cs cache1 in
             (length file - length file1) :: parquet_loads f (s + cs) n cs cache2 file1
  end.

Definition parquet_buffer_trace {A} (cs : nat) (groups : list (list A)) : list nat :=
  let n := length (concat groups) in parquet_peaks n 0 n cs [] groups.
Definition parquet_load_trace {A} (cs : nat) (groups : list (list A)) : list nat :=
  let n := length (concat groups) in parquet_loads n 0 n cs [] groups.

(* checker for the tie: the request log of the real reader, grouped by delivered chunk, against the model *)
Definition c18_parquet_loads_case (cs : nat) (groups : list nat) (loads_per_chunk : list nat) : nat :=
  let rows := map (fun g => repeat 0%nat g) groups in
  code [nlist_eqb (parquet_load_trace cs rows) loads_per_chunk;
        forallb (fun p => p <? cs + fold_right Nat.max 0 groups) (parquet_buffer_trace cs rows)].

(* indices of the row groups requested in each step (off = groups requested so far) *)
Fixpoint parquet_reqs {A} (fuel s n cs off : nat) (cache file : list (list A)) : list (list nat) :=
  match fuel with
  | O => []
  | S f => if n <=? s then [] else
             let '(cache1, file1) := load_groups cs cache file in
             let '(chunk, cache2) := extract_chunk cs cache1 in
             let k := length file - length file1 in
             seq off k :: parquet_reqs f (s + cs) n cs (off + k) cache2 file1
  end.
Definition parquet_request_trace {A} (cs : nat) (groups : list (list A)) : list (list nat) :=
  let n := length (concat groups) in parquet_reqs n 0 n cs 0 [] groups.

(* ---------- the multiprocessing write loop (catalog/catalog.py:write_patches, non-MPI branch) ----------
     for chunk in reader:  pool.map(task, np.array_split(chunk, w))
   The reader stays in the calling process and is driven with the configured chunk size whatever the number
   of workers w; only the chunk it delivered is divided among the workers.  One step = (slice requested from
   the source, sizes of the w tasks of the Pool.map call). *)
Definition pool_steps (w n cs : nat) : list ((nat * nat) * list nat) :=
  map (fun se => (se, array_split_sizes (slice_len se) w)) (slices n cs).

(* variant (not the code): the chunk size adapted to the pool, python `cs += -cs % w` = next multiple of w *)
Definition round_up (cs w : nat) : nat := cs + (w - cs mod w) mod w.
Definition pool_steps_rounded (w n cs : nat) : list ((nat * nat) * list nat) :=
  pool_steps w n (round_up cs w).

(* checkers for the tie on the pool: sizes of the tasks of every Pool.map call *)
Definition c18_pool_tasks_agree (w n cs : nat) (tasks : list (list nat)) : bool :=
  list_eqb nlist_eqb (map snd (pool_steps w n cs)) tasks.
(* flags: c18_case's [agree; spec; passes] for the request log, then for the writing (= last) pass
   [tasks = model; every requested slice is handed to the pool completely, in the order requested] *)
Definition c18_pool_case (w n cs passes : nat) (log : list (list (nat * nat))) (tasks : list (list nat)) : nat :=
  code [forallb (c18_agree n cs) log; forallb (c18_spec n cs) log; length log =? passes;
        c18_pool_tasks_agree w n cs tasks;
        nlist_eqb (map (fold_right Nat.add 0) tasks) (map slice_len (last log []))].

(* Parquet on the pool: the chunks handed to Pool.map (lens = rows per call) *)
Definition c18_lens_bounded (cs : nat) (groups lens : list nat) : bool :=
  forallb (fun l => (1 <=? l) && (l <=? cs)) lens &&
  (fold_right Nat.add 0 lens =? fold_right Nat.add 0 groups).
Definition c18_tasks_agree (w : nat) (lens : list nat) (tasks : list (list nat)) : bool :=
  list_eqb nlist_eqb (map (fun l => array_split_sizes l w) lens) tasks.
