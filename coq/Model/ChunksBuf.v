(* C18 — the Parquet reader's row-group buffer: what is held and what is requested, step by step.
   Same loop as Model/Chunks.v:parquet_from, observing the buffer instead of the chunks. *)
From Verif Require Import Prelude Chunks.

(* rows buffered right after _load_groups (the peak of each step) *)
Fixpoint parquet_peaks {A} (fuel s n cs : nat) (cache file : list (list A)) : list nat :=
  match fuel with
  | O => []
  | S f => if n <=? s then [] else
             let '(cache1, file1) := load_groups cs cache file in
             let '(chunk, cache2) := extract_chunk cs cache1 in
             cache_size cache1 :: parquet_peaks f (s + cs) n cs cache2 file1
  end.

(* number of row groups requested in each step *)
Fixpoint parquet_loads {A} (fuel s n cs : nat) (cache file : list (list A)) : list nat :=
  match fuel with
  | O => []
  | S f => if n <=? s then [] else
             let '(cache1, file1) := load_groups cs cache file in
             let '(chunk, cache2) := extract_chunk cs cache1 in
             (length file - length file1) :: parquet_loads f (s + cs) n cs cache2 file1
  end.

Definition parquet_buffer_trace {A} (cs : nat) (groups : list (list A)) : list nat :=
  let n := length (concat groups) in parquet_peaks n 0 n cs [] groups.
Definition parquet_load_trace {A} (cs : nat) (groups : list (list A)) : list nat :=
  let n := length (concat groups) in parquet_loads n 0 n cs [] groups.

(* checker for the tie: the request log of the real reader, grouped by delivered chunk, against the model *)
Definition c18_parquet_loads_case (cs : nat) (groups : list nat) (loads_per_chunk : list nat) : nat :=
  let rows := map (fun g => repeat 0%nat g) groups in
  code [nlist_eqb (parquet_load_trace cs rows) loads_per_chunk;
        forallb (fun p => p <? cs + fold_right Nat.max 0 groups) (parquet_buffer_trace cs rows)].

(* indices of the row groups requested in each step (off = groups requested so far) *)
Fixpoint parquet_reqs {A} (fuel s n cs off : nat) (cache file : list (list A)) : list (list nat) :=
  match fuel with
  | O => []
  | S f => if n <=? s then [] else
             let '(cache1, file1) := load_groups cs cache file in
             let '(chunk, cache2) := extract_chunk cs cache1 in
             let k := length file - length file1 in
             seq off k :: parquet_reqs f (s + cs) n cs (off + k) cache2 file1
  end.
Definition parquet_request_trace {A} (cs : nat) (groups : list (list A)) : list (list nat) :=
  let n := length (concat groups) in parquet_reqs n 0 n cs 0 [] groups.

(* ---------- the multiprocessing write loop (catalog/catalog.py:write_patches, non-MPI branch) ----------
     for chunk in reader:  pool.map(task, np.array_split(chunk, w))
   The reader stays in the calling process and is driven with the configured chunk size whatever the number
   of workers w; only the chunk it delivered is divided among the workers.  One step = (slice requested from
   the source, sizes of the w tasks of the Pool.map call). *)
Definition pool_steps (w n cs : nat) : list ((nat * nat) * list nat) :=
  map (fun se => (se, array_split_sizes (slice_len se) w)) (slices n cs).

(* variant (not the code): the chunk size adapted to the pool, python `cs += -cs % w` = next multiple of w *)
Definition round_up (cs w : nat) : nat := cs + (w - cs mod w) mod w.
Definition pool_steps_rounded (w n cs : nat) : list ((nat * nat) * list nat) :=
  pool_steps w n (round_up cs w).

(* checkers for the tie on the pool: sizes of the tasks of every Pool.map call *)
Definition c18_pool_tasks_agree (w n cs : nat) (tasks : list (list nat)) : bool :=
  list_eqb nlist_eqb (map snd (pool_steps w n cs)) tasks.
(* flags: c18_case's [agree; spec; passes] for the request log, then for the writing (= last) pass
   [tasks = model; every requested slice is handed to the pool completely, in the order requested] *)
Definition c18_pool_case (w n cs passes : nat) (log : list (list (nat * nat))) (tasks : list (list nat)) : nat :=
  code [forallb (c18_agree n cs) log; forallb (c18_spec n cs) log; length log =? passes;
        c18_pool_tasks_agree w n cs tasks;
        nlist_eqb (map (fold_right Nat.add 0) tasks) (map slice_len (last log []))].

(* Parquet on the pool: the chunks handed to Pool.map (lens = rows per call) *)
Definition c18_lens_bounded (cs : nat) (groups lens : list nat) : bool :=
  forallb (fun l => (1 <=? l) && (l <=? cs)) lens &&
  (fold_right Nat.add 0 lens =? fold_right Nat.add 0 groups).
Definition c18_tasks_agree (w : nat) (lens : list nat) (tasks : list (list nat)) : bool :=
  list_eqb nlist_eqb (map (fun l => array_split_sizes l w) lens) tasks.

(* ---------- reader history: the public reader object as a state machine ----------
   catalog/readers.py:DataChunkReader is its own iterator:
     __iter__ : _reset_iter_state(); return self
     __next__ : StopIteration when exhausted (state unchanged), otherwise advance the state and request
   so every use of the object (a peek next(iter(r)), an aborted for-loop, islice / zip previews, nested loops,
   get_probe = a complete pass, the loop of write_patches = a complete pass) is a word over three operations.
   The machine is generic in the state (offset for the data-frame / HDF5 / FITS / random readers; offset,
   row-group cursor and row-group cache for Parquet) and in the POLICY `rewinds` that says in which states
   iter() rewinds: the code rewinds always; `rewinds only when exhausted` is the variant refuted in
   Proofs/ChunksBufP.v. *)
Inductive rd_op := RdIter | RdNext (k : nat) | RdPass.

Section ReaderHistory.
  Context {St Rq : Type}.
  Context (init : St) (next : St -> option (St * Rq)) (rewinds : St -> bool).

  (* k calls of next(); a call on an exhausted reader raises StopIteration and changes nothing *)
  Fixpoint rd_nexts (k : nat) (st : St) : St * list Rq :=
    match k with
    | O => (st, [])
    | S k' => match next st with
              | None => (st, [])
              | Some (st1, r) => let '(st2, rs) := rd_nexts k' st1 in (st2, r :: rs)
              end
    end.
  Definition rd_iter (st : St) : St := if rewinds st then init else st.
  (* RdPass = iter() followed by next() until StopIteration (fuel = a bound on the number of chunks) *)
  Definition rd_step (fuel : nat) (st : St) (op : rd_op) : St * list Rq :=
    match op with
    | RdIter => (rd_iter st, [])
    | RdNext k => rd_nexts k st
    | RdPass => rd_nexts fuel (rd_iter st)
    end.
  (* what every operation of a history requests from the source, operation by operation *)
  Fixpoint rd_trace (fuel : nat) (st : St) (ops : list rd_op) : list (list Rq) :=
    match ops with
    | [] => []
    | op :: r => let '(st1, q) := rd_step fuel st op in q :: rd_trace fuel st1 r
    end.
  Fixpoint rd_state (fuel : nat) (st : St) (ops : list rd_op) : St :=
    match ops with
    | [] => st
    | op :: r => rd_state fuel (fst (rd_step fuel st op)) r
    end.
End ReaderHistory.

Definition rewinds_always {St} (_ : St) : bool := true.

(* --- the offset readers: state = _num_samples --- *)
Definition off_next (n cs off : nat) : option (nat * (nat * nat)) :=
  if n <=? off then None else Some (off + cs, (off, Nat.min (off + cs) n)).
(* the refuted policy: `if self._num_samples >= self.num_records: self._reset_iter_state()` *)
Definition off_rewinds_exhausted (n off : nat) : bool := n <=? off.

Definition off_trace (n cs : nat) (ops : list rd_op) : list (list (nat * nat)) :=
  rd_trace 0 (off_next n cs) rewinds_always n 0 ops.
Definition off_trace_lazy (n cs : nat) (ops : list rd_op) : list (list (nat * nat)) :=
  rd_trace 0 (off_next n cs) (off_rewinds_exhausted n) n 0 ops.

Definition is_pass (op : rd_op) : bool := match op with RdPass => true | _ => false end.

(* checker for the tie: log = the requests (clipped to n) observed during every operation of the history.
   flags: [model agrees operation by operation;
           every complete pass (whatever came before) requests every record once, in slices of 1..cs;
           no operation requests more than cs records at once (raw = unclipped length bound, from the harness);
           the records handed over by the passes / stored in the catalog are the records of the source] *)
Definition c18_hist_case (n cs : nat) (ops : list rd_op) (log : list (list (nat * nat))) (raw rows : bool) : nat :=
  code [list_eqb (list_eqb pair_eqb) (off_trace n cs ops) log;
        (length ops =? length log) &&
        forallb (fun ol => negb (is_pass (fst ol)) || c18_spec n cs (snd ol)) (combine ops log);
        raw && forallb (forallb (fun se => slice_len se <=? cs)) log;
        rows].
(* random reader: sizes of the generator calls during every operation *)
Definition c18_hist_sizes_case (n cs : nat) (ops : list rd_op) (sizes : list (list nat)) (rows : bool) : nat :=
  code [list_eqb nlist_eqb (map (map slice_len) (off_trace n cs ops)) sizes;
        (length ops =? length sizes) &&
        forallb (fun ol => negb (is_pass (fst ol)) ||
                           ((fold_right Nat.add 0 (snd ol) =? n) &&
                            forallb (fun l => (1 <=? l) && (l <=? cs)) (snd ol))) (combine ops sizes);
        forallb (forallb (fun l => l <=? cs)) sizes;
        rows].

(* --- the Parquet reader: state = (_num_samples, _group_idx, _group_cache, row groups not yet requested);
       one next() = _load_groups + _extract_chunk; request = (indices of the row groups read, chunk delivered) --- *)
Definition pq_state (A : Type) : Type := (nat * nat * list (list A) * list (list A))%type.
Definition pq_init {A} (groups : list (list A)) : pq_state A := (0, 0, [], groups).
Definition pq_next {A} (n cs : nat) (st : pq_state A) : option (pq_state A * (list nat * list A)) :=
  let '(s, off, cache, file) := st in
  if n <=? s then None else
    let '(cache1, file1) := load_groups cs cache file in
    let '(chunk, cache2) := extract_chunk cs cache1 in
    let k := length file - length file1 in
    Some ((s + cs, off + k, cache2, file1), (seq off k, chunk)).
(* the refuted policy leaves cursor and cache where they are, too *)
Definition pq_rewinds_exhausted {A} (n : nat) (st : pq_state A) : bool :=
  let '(s, _, _, _) := st in n <=? s.

Definition pq_trace {A} (cs : nat) (groups : list (list A)) (ops : list rd_op) : list (list (list nat * list A)) :=
  let n := length (concat groups) in
  rd_trace (pq_init groups) (pq_next n cs) rewinds_always n (pq_init groups) ops.
Definition pq_trace_lazy {A} (cs : nat) (groups : list (list A)) (ops : list rd_op) : list (list (list nat * list A)) :=
  let n := length (concat groups) in
  rd_trace (pq_init groups) (pq_next n cs) (pq_rewinds_exhausted n) n (pq_init groups) ops.

(* checker: per operation the row groups requested (reqs, flat) and the lengths of the chunks delivered
   (lens; None where the harness cannot see the chunks, i.e. inside write_patches).
   flags: [row-group requests = model, operation by operation; chunk lengths = model where observed;
           every complete pass requests every row group once in file order;
           rows handed over / stored = rows of the file] *)
Definition c18_pq_hist_case (cs : nat) (groups : list nat) (ops : list rd_op)
                            (reqs : list (list nat)) (lens : list (option (list nat))) (rows : bool) : nat :=
  let g := map (fun k => repeat 0%nat k) groups in
  let tr := pq_trace cs g ops in
  code [list_eqb nlist_eqb (map (fun q => concat (map fst q)) tr) reqs;
        (length tr =? length lens) &&
        forallb (fun ql => match snd ql with
                           | None => true
                           | Some l => nlist_eqb (map (fun r => length (snd r)) (fst ql)) l
                           end) (combine tr lens);
        (length ops =? length reqs) &&
        forallb (fun ol => negb (is_pass (fst ol)) || nlist_eqb (snd ol) (seq 0 (length groups))) (combine ops reqs);
        rows].

(* ---------------- the parameter that configures the chunk size: its VALUE, whatever its type ----------------
   readers.py: `self.chunksize = chunksize or CHUNKSIZE`.  What the caller hands over is reduced to its value:
   None (nothing / omitted) or Some v, v the integral value of a Python int, of a numpy integer of any width, of a
   bool (False = 0, True = 1).  A falsy value (nothing, 0) selects the default; every other value is the chunk size
   itself, so the requests of a pass are a function of the value alone. *)
Definition configured_cs (dflt : nat) (p : option nat) : nat :=
  match p with Some (S v) => S v | _ => dflt end.
Definition param_slices (dflt n : nat) (p : option nat) : list (nat * nat) := slices n (configured_cs dflt p).
(* the variant `keep the parameter only if it passes a test on its TYPE, else the default`: keeps = false for the
   types the test does not know *)
Definition configured_cs_typed (keeps : bool) (dflt : nat) (p : option nat) : nat :=
  if keeps then configured_cs dflt p else dflt.

(* the default of the library, CHUNKSIZE = 16_777_216: never evaluated (unary numbers); an input that is no longer than
   the chunk is requested in one slice whatever the chunk size is (Proofs/ChunksBufP.v:slices_capped), so the checkers
   evaluate the default as max 1 n *)
Definition default_chunksize : nat := N.to_nat 16777216%N.
Definition capped_cs (n : nat) (p : option nat) : nat :=
  match p with Some (S v) => S v | _ => Nat.max 1 n end.
(* a pass of logged requests against the parameter value *)
Definition c18_param_case (n : nat) (p : option nat) (passes : nat) (log : list (list (nat * nat))) : nat :=
  c18_case n (capped_cs n p) passes log.

(* inputs too long for unary numbers (a 16-bit chunk size needs more than 65535 records): input length and chunk size
   are multiples of k, the requests of the model are then the k-fold of those for n/k and cs/k
   (Proofs/ChunksBufP.v:slices_scale), and the harness hands over the logged requests divided by k *)
Definition scale_slice (k : nat) (se : nat * nat) : nat * nat := (k * fst se, k * snd se).
